import ArtapModel.Proofs.Variation
import ArtapModel.Proofs.VariationReal
import Mathlib.Tactic.NormNum
/-!
# C08 — Variation, sampling and search never leave the declared parameter box

Property theorems only.  Model: `Model/Variation.lean`; helper lemmas: `Proofs/Variation.lean`.
The random draws and the values of the `pow` formulas are universally quantified inputs of
the model (`SbxDraw`, `MutDraw`); `inBox ps x` is the property predicate (same dimension as
the box, every coordinate within the tolerance of its parameter).
-/
namespace Artap.C08
open Artap.Variation

/-- `Operator.clip` returns a value inside `[lo, hi]`. -/
theorem clip_mem (v lo hi : Rat) (h : lo ≤ hi) : lo ≤ clip v lo hi ∧ clip v lo hi ≤ hi :=
  ⟨clip_ge v lo hi, clip_le v lo hi h⟩

/-- … and leaves values inside untouched, so "is a clipped value" = "lies in `[lo, hi]`"
(the envelopes `admitsSbx`, `admitsMut` are exactly the model's range). -/
theorem clip_of_mem (v lo hi : Rat) (h1 : lo ≤ v) (h2 : v ≤ hi) : clip v lo hi = v :=
  clip_eq_self v lo hi h1 h2

/-- Every behaviour of the crossover model is admitted by the envelope the driver checks. -/
theorem sbx_admitted (ps : List Param) (hv : ValidBox ps) (go : Bool) (x1 x2 : List Rat)
    (ds : List SbxDraw) (c1 c2 : List Rat) (h1 : x1.length = ps.length) (h2 : x2.length = ps.length)
    (h : sbx ps go x1 x2 ds = some (c1, c2)) : admitsSbx ps x1 x2 c1 c2 = true := by
  unfold sbx at h
  split at h
  · exact sbxLoop_admitted hv h1 h2 h
  · simp only [Option.some.injEq, Prod.mk.injEq] at h
    obtain ⟨rfl, rfl⟩ := h
    exact admitsSbx_refl h1 h2

/-- Admitted children of parents in the box (up to the tolerance) are in the box (up to the
tolerance) and have the dimension of the box. -/
theorem admitsSbx_in_box (ps : List Param) (hv : ValidBox ps) (x1 x2 c1 c2 : List Rat)
    (h1 : inBox ps x1 = true) (h2 : inBox ps x2 = true) (ha : admitsSbx ps x1 x2 c1 c2 = true) :
    (inBox ps c1 = true ∧ inBox ps c2 = true) ∧ c1.length = ps.length ∧ c2.length = ps.length := by
  have h := admitsSbx_inBox hv h1 h2 ha
  exact ⟨h, inBox_length h.1, inBox_length h.2⟩

/-- SBX: for all draws, all values of the β-formulas, all probabilities and distribution
indices, the children of parents in the box are in the box and have the same dimension. -/
theorem sbx_in_box (ps : List Param) (hv : ValidBox ps) (go : Bool) (x1 x2 : List Rat)
    (ds : List SbxDraw) (c1 c2 : List Rat) (h1 : inBox ps x1 = true) (h2 : inBox ps x2 = true)
    (h : sbx ps go x1 x2 ds = some (c1, c2)) :
    (inBox ps c1 = true ∧ inBox ps c2 = true) ∧ c1.length = ps.length ∧ c2.length = ps.length :=
  admitsSbx_in_box ps hv x1 x2 c1 c2 h1 h2
    (sbx_admitted ps hv go x1 x2 ds c1 c2 (inBox_length h1) (inBox_length h2) h)

/-- Parents exactly inside the box: every coordinate the crossover overwrites is exactly inside;
the children are exactly inside. -/
theorem sbx_in_box_exact (ps : List Param) (hb : ∀ p ∈ ps, p.lb ≤ p.ub) (go : Bool) (x1 x2 : List Rat)
    (ds : List SbxDraw) (c1 c2 : List Rat) (h1 : inBoxExact ps x1 = true) (h2 : inBoxExact ps x2 = true)
    (h : sbx ps go x1 x2 ds = some (c1, c2)) : inBoxExact ps c1 = true ∧ inBoxExact ps c2 = true := by
  -- instantiate the tolerant statement at tolerance zero
  have key := sbx_in_box (ps.map zeroTol) (validBox_zeroTol hb) go x1 x2 ds c1 c2
    ((inBox_zeroTol ps x1).2 h1) ((inBox_zeroTol ps x2).2 h2) (by rw [sbx_zeroTol]; exact h)
  exact ⟨(inBox_zeroTol ps c1).1 key.1.1, (inBox_zeroTol ps c2).1 key.1.2⟩

/-- Every behaviour of the mutation model (polynomial, uniform, non-uniform) is admitted. -/
theorem mut_admitted (ps : List Param) (hv : ValidBox ps) (x : List Rat) (ds : List MutDraw)
    (c : List Rat) (h1 : x.length = ps.length) (h : mutate ps x ds = some c) :
    admitsMut ps x c = true :=
  mutate_admitted hv h1 h

theorem admitsMut_in_box (ps : List Param) (hv : ValidBox ps) (x c : List Rat)
    (h1 : inBox ps x = true) (ha : admitsMut ps x c = true) :
    inBox ps c = true ∧ c.length = ps.length := by
  have h := admitsMut_inBox hv h1 ha
  exact ⟨h, inBox_length h⟩

/-- Mutation: for all draws and all values handed to `clip`, the child of a parent in the box is
in the box and has the same dimension. -/
theorem mut_in_box (ps : List Param) (hv : ValidBox ps) (x : List Rat) (ds : List MutDraw)
    (c : List Rat) (h1 : inBox ps x = true) (h : mutate ps x ds = some c) :
    inBox ps c = true ∧ c.length = ps.length :=
  admitsMut_in_box ps hv x c h1 (mut_admitted ps hv x ds c (inBox_length h1) h)

/-- `gen_number`: the design is at most half the (effective) precision outside the bounds. -/
theorem genNumber_bounds (lb ub prec u : Rat) (hb : lb ≤ ub) (hp : 0 ≤ prec) (hu0 : 0 ≤ u) (hu1 : u ≤ 1) :
    lb - effPrecision prec / 2 ≤ genNumber lb ub prec u ∧
    genNumber lb ub prec u ≤ ub + effPrecision prec / 2 := by
  have hP := effPrecision_pos hp
  unfold genNumber
  simp only
  generalize effPrecision prec = P at hP ⊢
  set y := u * (ub - lb) + lb with hy
  have hy0 : lb ≤ y := by
    have : 0 ≤ u * (ub - lb) := mul_nonneg hu0 (by linarith)
    linarith
  have hy1 : y ≤ ub := by
    have : u * (ub - lb) ≤ 1 * (ub - lb) := mul_le_mul_of_nonneg_right hu1 (by linarith)
    linarith
  have hz : y / P * P = y := div_mul_cancel₀ y (ne_of_gt hP)
  have h1 := roundHalfEven_ge (y / P)
  have h2 := roundHalfEven_le (y / P)
  have h1' := mul_le_mul_of_nonneg_right h1 (le_of_lt hP)
  have h2' := mul_le_mul_of_nonneg_right h2 (le_of_lt hP)
  rw [sub_mul, hz] at h1'
  rw [add_mul, hz] at h2'
  constructor <;> linarith

/-- Swarm `update_position` (all three variants): the new coordinate is exactly inside. -/
theorem position_coord_in_box (factor : Rat) (p : Param) (x v : Rat) (h : p.lb ≤ p.ub) :
    within p (updatePos factor p x v).1 = true := by
  rw [within_iff]
  unfold updatePos
  simp only
  split <;> split <;> simp_all

theorem position_in_box (factor : Rat) (ps : List Param) (hb : ∀ p ∈ ps, p.lb ≤ p.ub) (x v r : List Rat)
    (hl : x.length = ps.length) (h : updatePosition factor ps x v = some r) : inBoxExact ps r = true := by
  induction ps generalizing x v r with
  | nil =>
    cases x with
    | nil => cases v <;> simp_all [updatePosition, inBoxExact]
    | cons a x => simp at hl
  | cons p ps ih =>
    cases x with
    | nil => simp at hl
    | cons a x =>
      cases v with
      | nil => simp [updatePosition] at h
      | cons w v =>
        simp only [List.length_cons, Nat.add_right_cancel_iff] at hl
        simp only [updatePosition] at h
        cases hr : updatePosition factor ps x v with
        | none => simp [hr] at h
        | some r' =>
          simp only [hr, Option.some.injEq] at h
          subst h
          simp only [inBoxExact, Bool.and_eq_true]
          exact ⟨position_coord_in_box factor p a w (hb p List.mem_cons_self),
            ih (fun q hq => hb q (List.mem_cons_of_mem _ hq)) x v r' hl hr⟩

/-- LHS / Halton scaling `lb + w·|ub − lb|` of a unit-cube coordinate stays inside. -/
theorem scale_in_box (lb ub w : Rat) (hb : lb ≤ ub) (h0 : 0 ≤ w) (h1 : w ≤ 1) :
    lb ≤ scaleUnit lb ub w ∧ scaleUnit lb ub w ≤ ub := by
  unfold scaleUnit absR
  have hd : ¬ (ub - lb < 0) := by linarith
  simp only [hd, if_false]
  have a : 0 ≤ w * (ub - lb) := mul_nonneg h0 (by linarith)
  have b : w * (ub - lb) ≤ 1 * (ub - lb) := mul_le_mul_of_nonneg_right h1 (by linarith)
  constructor <;> linarith

/-- `UniformGenerator`: every grid level `i < n` (`n ≥ 2`) is inside; `n = 1` raises. -/
theorem grid_in_box (lb ub : Rat) (n i : Nat) (hb : lb ≤ ub) (hn : 2 ≤ n) (hi : i < n) :
    ∃ g, gridPoint lb ub n i = some g ∧ lb ≤ g ∧ g ≤ ub := by
  have hn1 : n ≠ 1 := by omega
  refine ⟨lb + (i : Rat) * ((ub - lb) / ((n : Rat) - 1)), by simp [gridPoint, hn1], ?_, ?_⟩
  · have hm : (0 : Rat) < (n : Rat) - 1 := by
      have : (2 : Rat) ≤ (n : Rat) := by exact_mod_cast hn
      linarith
    have : 0 ≤ (i : Rat) * ((ub - lb) / ((n : Rat) - 1)) :=
      mul_nonneg (by exact_mod_cast Nat.zero_le i) (div_nonneg (by linarith) (le_of_lt hm))
    linarith
  · have hm : (0 : Rat) < (n : Rat) - 1 := by
      have : (2 : Rat) ≤ (n : Rat) := by exact_mod_cast hn
      linarith
    have hi' : (i : Rat) ≤ (n : Rat) - 1 := by
      have : (i : Rat) + 1 ≤ (n : Rat) := by exact_mod_cast hi
      linarith
    have hd : 0 ≤ (ub - lb) / ((n : Rat) - 1) := div_nonneg (by linarith) (le_of_lt hm)
    have : (i : Rat) * ((ub - lb) / ((n : Rat) - 1)) ≤ ((n : Rat) - 1) * ((ub - lb) / ((n : Rat) - 1)) :=
      mul_le_mul_of_nonneg_right hi' hd
    rw [mul_div_cancel₀ _ (ne_of_gt hm)] at this
    linarith

theorem grid_one_raises (lb ub : Rat) (i : Nat) : gridPoint lb ub 1 i = none := by
  simp [gridPoint]

/-- centre level of the full-factorial / Box–Behnken designs -/
theorem mid_in_box (lb ub : Rat) (hb : lb ≤ ub) : lb ≤ midPoint lb ub ∧ midPoint lb ub ≤ ub := by
  unfold midPoint
  constructor <;> linarith

/-- Run invariant: if the initial designs are in the box (up to the tolerance) and every
design evaluated afterwards is admitted w.r.t. the designs evaluated before it (each
coordinate exactly inside `[lb, ub]` or copied from an earlier design), then every evaluated
design is in the box, for any number of generations and any population size. -/
theorem run_in_box (ps : List Param) (hv : ValidBox ps) (init rest : List (List Rat))
    (hi : allInBox ps init = true) (ha : firstBad ps init.reverse rest 0 = none) :
    ∀ d ∈ rest, inBox ps d = true ∧ d.length = ps.length := by
  have hp : ∀ d ∈ init.reverse, inBox ps d = true := by
    intro d hd
    have := List.all_eq_true.mp hi d (List.mem_reverse.mp hd)
    exact this
  have := admitsTrace_inBox hv hp ((firstBad_none_iff ps _ rest 0).1 ha)
  intro d hd
  exact ⟨this d hd, inBox_length (this d hd)⟩

/-! ## The operators' children are admitted by the run envelope (what `run_in_box` is applied to) -/

/-- GA step (NSGA-II, ε-MOEA, PSOGA): crossover of two admitted designs followed by mutation
gives admitted designs — whatever the draws. -/
theorem ga_offspring_admitted (ps : List Param) (hv : ValidBox ps) (pool : List (List Rat))
    (go : Bool) (x1 x2 : List Rat) (ds : List SbxDraw) (m1 m2 : List MutDraw) (c1 c2 o1 o2 : List Rat)
    (h1 : admitsDesign ps pool x1 = true) (h2 : admitsDesign ps pool x2 = true)
    (hl1 : x1.length = ps.length) (hl2 : x2.length = ps.length)
    (hx : sbx ps go x1 x2 ds = some (c1, c2))
    (hm1 : mutate ps c1 m1 = some o1) (hm2 : mutate ps c2 m2 = some o2) :
    admitsDesign ps pool o1 = true ∧ admitsDesign ps pool o2 = true := by
  have ha := sbx_admitted ps hv go x1 x2 ds c1 c2 hl1 hl2 hx
  have hc := admitsDesign_sbx h1 h2 ha
  have l1 : c1.length = ps.length := admitsSbx_length_left ha
  have l2 : c2.length = ps.length := admitsSbx_length_right ha
  exact ⟨admitsDesign_mut hc.1 (mutate_admitted hv l1 hm1), admitsDesign_mut hc.2 (mutate_admitted hv l2 hm2)⟩

/-- a member of the pool (a design evaluated earlier) is admitted: `CopySelector`, elitism -/
theorem copy_admitted (ps : List Param) (pool : List (List Rat)) (x : List Rat)
    (hl : x.length = ps.length) (h : x ∈ pool) : admitsDesign ps pool x = true :=
  admitsDesign_of_mem hl h

/-- Swarm step (OMOPSO, SMPSO, PSOGA): `update_position` followed by the turbulence mutation
gives an admitted design, whatever the velocity and the draws. -/
theorem swarm_offspring_admitted (ps : List Param) (hv : ValidBox ps) (pool : List (List Rat))
    (factor : Rat) (x v r : List Rat) (m : List MutDraw) (o : List Rat)
    (hl : x.length = ps.length) (hp : updatePosition factor ps x v = some r)
    (hm : mutate ps r m = some o) : admitsDesign ps pool o = true := by
  have he := position_in_box factor ps (fun p hp => (hv p hp).1) x v r hl hp
  have hr : r.length = ps.length := inBox_length (inBox_of_exact hv he)
  exact admitsDesign_mut (admitsDesign_of_exact he) (mutate_admitted hv hr hm)

/-! ## Regime R3: no `pow` base is negative (every child is a real number) -/

/-- SBX, either child (`gap = y1 − lb` resp. `ub − y2`, `dy = y2 − y1`): for parents inside the
box, `β ≥ 1`, `1 ≤ α < 2`, and both candidate bases of `betaq` are non-negative resp. positive. -/
theorem sbx_bases_nonneg (gap dy eta rand : ℝ) (hg : 0 ≤ gap) (hd : 0 < dy) (he : 0 ≤ eta)
    (hr0 : 0 ≤ rand) (hr1 : rand < 1) :
    1 ≤ sbxBeta gap dy ∧
    1 ≤ sbxAlpha (sbxBeta gap dy) eta ∧ sbxAlpha (sbxBeta gap dy) eta < 2 ∧
    0 ≤ rand * sbxAlpha (sbxBeta gap dy) eta ∧
    0 < 1 / (2 - rand * sbxAlpha (sbxBeta gap dy) eta) := by
  have hb : 1 ≤ sbxBeta gap dy := by
    rw [sbxBeta_real]
    have : 0 ≤ 2 * gap / dy := div_nonneg (by linarith) (le_of_lt hd)
    linarith
  have hbpos : 0 < sbxBeta gap dy := by linarith
  have hp1 : (sbxBeta gap dy) ^ (-(eta + 1)) ≤ 1 :=
    Real.rpow_le_one_of_one_le_of_nonpos hb (by linarith)
  have hp0 : 0 < (sbxBeta gap dy) ^ (-(eta + 1)) := Real.rpow_pos_of_pos hbpos _
  have ha1 : 1 ≤ sbxAlpha (sbxBeta gap dy) eta := by rw [sbxAlpha_real]; linarith
  have ha2 : sbxAlpha (sbxBeta gap dy) eta < 2 := by rw [sbxAlpha_real]; linarith
  have hra : 0 ≤ rand * sbxAlpha (sbxBeta gap dy) eta := mul_nonneg hr0 (by linarith)
  have hlt : rand * sbxAlpha (sbxBeta gap dy) eta < 2 := by
    have h1 : rand * sbxAlpha (sbxBeta gap dy) eta ≤ 1 * sbxAlpha (sbxBeta gap dy) eta :=
      mul_le_mul_of_nonneg_right (le_of_lt hr1) (by linarith)
    linarith
  exact ⟨hb, ha1, ha2, hra, one_div_pos.mpr (by linarith)⟩

/-- Polynomial mutation for a parent inside the box (`δ₁ = (x − lb)/dx`, `δ₂ = (ub − x)/dx ∈ [0, 1]`):
the inner base `1 − δ` and the outer base `val` are non-negative in both branches. -/
theorem pm_bases_nonneg (lb ub x rnd eta : ℝ) (hb : lb < ub) (h1 : lb ≤ x) (h2 : x ≤ ub)
    (hr0 : 0 ≤ rnd) (hr1 : rnd ≤ 1) :
    0 ≤ 1 - (x - lb) / (ub - lb) ∧ 0 ≤ 1 - (ub - x) / (ub - lb) ∧
    (rnd < 1 / 2 → 0 ≤ pmValLow rnd ((x - lb) / (ub - lb)) eta) ∧
    (1 / 2 ≤ rnd → 0 ≤ pmValHigh rnd ((ub - x) / (ub - lb)) eta) := by
  have hdx : 0 < ub - lb := by linarith
  have d1 : (x - lb) / (ub - lb) ≤ 1 := by rw [div_le_one hdx]; linarith
  have d2 : (ub - x) / (ub - lb) ≤ 1 := by rw [div_le_one hdx]; linarith
  have b1 : 0 ≤ 1 - (x - lb) / (ub - lb) := by linarith
  have b2 : 0 ≤ 1 - (ub - x) / (ub - lb) := by linarith
  refine ⟨b1, b2, ?_, ?_⟩
  · intro h
    rw [pmValLow_real]
    have : 0 ≤ (1 - 2 * rnd) * (1 - (x - lb) / (ub - lb)) ^ (eta + 1) :=
      mul_nonneg (by linarith) (Real.rpow_nonneg b1 _)
    linarith
  · intro h
    rw [pmValHigh_real]
    have : 0 ≤ 2 * (rnd - 1 / 2) * (1 - (ub - x) / (ub - lb)) ^ (eta + 1) :=
      mul_nonneg (by linarith) (Real.rpow_nonneg b2 _)
    linarith

/-- Non-uniform mutation for `0 ≤ iteration ≤ max_iterations` (the quantifier's range): the inner
base `1 − it/max_it`, the exponent `pow(inner, b)` and the outer base `random()` are non-negative. -/
theorem nonuniform_bases_nonneg (it maxIt b r : ℝ) (h0 : 0 ≤ it) (h1 : it ≤ maxIt) (hm : 0 < maxIt)
    (hr : 0 ≤ r) :
    0 ≤ nuInner it maxIt ∧ nuInner it maxIt ≤ 1 ∧ 0 ≤ (nuInner it maxIt) ^ b ∧ 0 ≤ r := by
  have hq : 1 * it / maxIt ≤ 1 := by rw [div_le_one hm]; linarith
  have hq0 : 0 ≤ 1 * it / maxIt := div_nonneg (by linarith) (le_of_lt hm)
  have hi : 0 ≤ nuInner it maxIt := by rw [nuInner_real]; linarith
  refine ⟨hi, by rw [nuInner_real]; linarith, Real.rpow_nonneg hi _, hr⟩

/-- In exact arithmetic both SBX children are inside `[lb, ub]` before `clip`. -/
theorem sbx_children_in_box_real (lb ub y1 y2 eta rand : ℝ) (h1 : lb ≤ y1) (hd : y1 < y2) (h2 : y2 ≤ ub)
    (he : 0 ≤ eta) (hr0 : 0 ≤ rand) (hr1 : rand < 1) :
    (lb ≤ sbxChild1 y1 y2 (sbxBetaqR (y1 - lb) (y2 - y1) eta rand) ∧
      sbxChild1 y1 y2 (sbxBetaqR (y1 - lb) (y2 - y1) eta rand) ≤ ub) ∧
    (lb ≤ sbxChild2 y1 y2 (sbxBetaqR (ub - y2) (y2 - y1) eta rand) ∧
      sbxChild2 y1 y2 (sbxBetaqR (ub - y2) (y2 - y1) eta rand) ≤ ub) := by
  have hdy : 0 < y2 - y1 := by linarith
  obtain ⟨a0, a1⟩ := betaq_bounds (y1 - lb) (y2 - y1) eta rand (by linarith) hdy he hr0 hr1
  obtain ⟨b0, b1⟩ := betaq_bounds (ub - y2) (y2 - y1) eta rand (by linarith) hdy he hr0 hr1
  rw [sbxBeta_real] at a1 b1
  have e1 : (1 + 2 * (y1 - lb) / (y2 - y1)) * (y2 - y1) = (y2 - y1) + 2 * (y1 - lb) := by
    field_simp
  have e2 : (1 + 2 * (ub - y2) / (y2 - y1)) * (y2 - y1) = (y2 - y1) + 2 * (ub - y2) := by
    field_simp
  have m1 := mul_le_mul_of_nonneg_right a1 (le_of_lt hdy)
  have m2 := mul_le_mul_of_nonneg_right b1 (le_of_lt hdy)
  rw [e1] at m1
  rw [e2] at m2
  have n1 := mul_nonneg a0 (le_of_lt hdy)
  have n2 := mul_nonneg b0 (le_of_lt hdy)
  rw [sbxChild1_real, sbxChild2_real]
  refine ⟨⟨by linarith, by linarith⟩, ⟨by linarith, by linarith⟩⟩

/-- In exact arithmetic the polynomial-mutation child is inside `[lb, ub]` before `clip`
(the clip only absorbs rounding). -/
theorem pm_child_in_box_real (lb ub x rnd eta : ℝ) (hb : lb < ub) (h1 : lb ≤ x) (h2 : x ≤ ub)
    (hr0 : 0 ≤ rnd) (hr1 : rnd ≤ 1) (he : 0 ≤ eta) :
    (rnd < 1 / 2 →
      lb ≤ pmChildLow x (ub - lb) (pmValLow rnd ((x - lb) / (ub - lb)) eta) eta ∧
      pmChildLow x (ub - lb) (pmValLow rnd ((x - lb) / (ub - lb)) eta) eta ≤ ub) ∧
    (1 / 2 ≤ rnd →
      lb ≤ pmChildHigh x (ub - lb) (pmValHigh rnd ((ub - x) / (ub - lb)) eta) eta ∧
      pmChildHigh x (ub - lb) (pmValHigh rnd ((ub - x) / (ub - lb)) eta) eta ≤ ub) := by
  have hdx : 0 < ub - lb := by linarith
  have hee : 0 < eta + 1 := by linarith
  constructor
  · intro hr
    have d0 : 0 ≤ (x - lb) / (ub - lb) := div_nonneg (by linarith) (le_of_lt hdx)
    have d1 : (x - lb) / (ub - lb) ≤ 1 := by rw [div_le_one hdx]; linarith
    have hb1 : 0 ≤ 1 - (x - lb) / (ub - lb) := by linarith
    have t0 : 0 ≤ (1 - (x - lb) / (ub - lb)) ^ (eta + 1) := Real.rpow_nonneg hb1 _
    have t1 : (1 - (x - lb) / (ub - lb)) ^ (eta + 1) ≤ 1 := Real.rpow_le_one hb1 (by linarith) (le_of_lt hee)
    rw [pmChildLow_real, pmValLow_real]
    set t := (1 - (x - lb) / (ub - lb)) ^ (eta + 1) with ht
    have hv0 : t ≤ 2 * rnd + (1 - 2 * rnd) * t := by nlinarith
    have hv1 : 2 * rnd + (1 - 2 * rnd) * t ≤ 1 := by nlinarith
    obtain ⟨r0, r1⟩ := root_bounds _ _ _ d1 hee hv0 hv1
    have hmul : (x - lb) / (ub - lb) * (ub - lb) = x - lb := div_mul_cancel₀ _ (ne_of_gt hdx)
    constructor <;> nlinarith
  · intro hr
    have d0 : 0 ≤ (ub - x) / (ub - lb) := div_nonneg (by linarith) (le_of_lt hdx)
    have d1 : (ub - x) / (ub - lb) ≤ 1 := by rw [div_le_one hdx]; linarith
    have hb1 : 0 ≤ 1 - (ub - x) / (ub - lb) := by linarith
    have t0 : 0 ≤ (1 - (ub - x) / (ub - lb)) ^ (eta + 1) := Real.rpow_nonneg hb1 _
    have t1 : (1 - (ub - x) / (ub - lb)) ^ (eta + 1) ≤ 1 := Real.rpow_le_one hb1 (by linarith) (le_of_lt hee)
    rw [pmChildHigh_real, pmValHigh_real]
    set t := (1 - (ub - x) / (ub - lb)) ^ (eta + 1) with ht
    have hv0 : t ≤ 2 * (1 - rnd) + 2 * (rnd - 1 / 2) * t := by nlinarith
    have hv1 : 2 * (1 - rnd) + 2 * (rnd - 1 / 2) * t ≤ 1 := by nlinarith
    obtain ⟨r0, r1⟩ := root_bounds _ _ _ d1 hee hv0 hv1
    have hmul : (ub - x) / (ub - lb) * (ub - lb) = ub - x := div_mul_cancel₀ _ (ne_of_gt hdx)
    constructor <;> nlinarith

/-! ## Non-vacuity: concrete instances of the hypotheses -/

-- parents on the bounds, both β-values far outside: the children are clipped (and swapped)
example : sbx [⟨0, 1, 0⟩] true [0] [1] [⟨true, -1/2, 3/2, true⟩] = some ([1], [0]) := by
  norm_num [sbx, sbxLoop, sbxCoord, apart, epsilon, clip, pmax, pmin]
-- a two-parameter box (one negative range with a declared tolerance): first coordinate crossed, second copied
example : sbx [⟨0, 1, 0⟩, ⟨-5, -2, 1/10⟩] true [0, -2] [1, -5]
    [⟨true, -1/2, 1/3, false⟩, ⟨false, 0, 0, false⟩] = some ([0, -2], [1/3, -5]) := by
  norm_num [sbx, sbxLoop, sbxCoord, apart, epsilon, clip, pmax, pmin]
-- coincident parents are copied even when the coordinate is selected
example : sbx [⟨0, 1, 0⟩] true [1/2] [1/2] [⟨true, 7, 9, false⟩] = some ([1/2], [1/2]) := by
  norm_num [sbx, sbxLoop, sbxCoord, apart, epsilon]
example : ValidBox [⟨0, 1, 0⟩, ⟨-5, -2, 1/10⟩] := by
  intro p hp
  simp only [List.mem_cons, List.not_mem_nil, or_false] at hp
  rcases hp with rfl | rfl <;> constructor <;> norm_num
-- a design half a rounding step outside is "in the box" up to the declared tolerance
example : inBox [⟨0, 1, 0⟩, ⟨-5, -2, 1/10⟩] [1, -51/10] = true := by
  norm_num [inBox, withinTol]
example : mutate [⟨0, 1, 0⟩, ⟨-5, -2, 1/10⟩] [1, -51/10] [⟨true, 2⟩, ⟨false, 0⟩] = some [1, -51/10] := by
  norm_num [mutate, mutCoord, clip, pmax, pmin]
-- gen_number: ordinary rounding, and a lower bound off the rounding grid (design half a step below it)
example : genNumber 0 1 (1/10) (37/100) = 2/5 := by
  have : ((37:Rat)/10).floor = 3 := by
    show ⌊(37:ℚ)/10⌋ = 3
    rw [Int.floor_eq_iff]; norm_num
  norm_num [genNumber, effPrecision, roundHalfEven, this]
example : genNumber (1/20) 1 (1/10) 0 = 0 := by
  have : ((1:Rat)/2).floor = 0 := by
    show ⌊(1:ℚ)/2⌋ = 0
    rw [Int.floor_eq_iff]; norm_num
  norm_num [genNumber, effPrecision, roundHalfEven, this]
-- update_position: overshoot is reset to the bound
example : updatePosition (-1) [⟨0, 1, 0⟩] [1/2] [3] = some [1] := by
  norm_num [updatePosition, updatePos]
-- run envelope: second design copies an out-of-[lb,ub] coordinate of the initial design (admitted),
-- the third brings a new value outside [lb, ub] (rejected)
example : firstBad [⟨0, 1, 1/10⟩] [[21/20]] [[21/20], [1/2], [11/10]] 0 = some 2 := by
  norm_num [firstBad, admitsDesign, within]
example : firstBad [⟨0, 1, 1/10⟩] [[21/20]] [[21/20], [1/2], [1]] 0 = none := by
  norm_num [firstBad, admitsDesign, within]
-- R3 hypotheses at their boundary: parent on the lower bound (gap = 0), distribution index 0, draw 0
example := sbx_bases_nonneg 0 1 0 0 (le_refl _) one_pos (le_refl _) (le_refl _) one_pos
-- parent on the lower bound of [0, 1], draw 0, index 20;  parent on the upper bound, draw 1
example := pm_bases_nonneg 0 1 0 0 20 one_pos (le_refl _) zero_le_one (le_refl _) zero_le_one
example := pm_bases_nonneg 0 1 1 1 20 one_pos zero_le_one (le_refl _) zero_le_one (le_refl _)
-- last iteration (it = max_it = 5), draw 0
example := nonuniform_bases_nonneg 5 5 (1/2) 0 (by norm_num) (le_refl _) (by norm_num) (le_refl _)
-- parents on both bounds of [0, 1], index 15, draw 0;  mutation of a parent on the upper bound
example := sbx_children_in_box_real 0 1 0 1 15 0 (le_refl _) one_pos (le_refl _) (by norm_num) (le_refl _) one_pos
example := pm_child_in_box_real 0 1 1 (1/4) 20 one_pos zero_le_one (le_refl _) (by norm_num) (by norm_num) (by norm_num)

end Artap.C08
