import ArtapModel.Proofs.DoeBB
import ArtapModel.Proofs.DoeGsd
/-!
# C13 — factorial and screening designs have their defining combinatorial structure

Property theorems only.  Model: `Model/Doe.lean`; helper lemmas: `Proofs/Doe.lean`.
-/
namespace Artap.C13
open Artap.Doe

/-! ## Full factorial -/

/-- `fullfact(levels)` returns every combination of level indices exactly once
(`InBox row levels`: one index below each level count), for every non-empty list of level counts. -/
theorem fullfact_bijective (levels : List Nat) (h : levels ≠ []) :
    ∃ H, fullfact levels = some H ∧ H.Nodup ∧ H.length = prod levels ∧
      ∀ row, row ∈ H ↔ InBox row levels := by
  refine ⟨fullfactRows levels, ?_, nodup_fullfactRows _, length_fullfactRows _, fun row => mem_fullfactRows⟩
  cases levels with
  | nil => exact absurd rfl h
  | cons _ _ => simp [fullfact]

example : fullfact [2, 3] = some [[0, 0], [1, 0], [0, 1], [1, 1], [0, 2], [1, 2]] := by decide

/-- `build_full_fact` / `FullFactorLevelsGenerator`: the design is exactly the set of combinations of the supplied
level values, one run per combination of level positions; with distinct values per factor no run repeats. -/
theorem construct_df_levels {α : Type} (lists : List (List α)) (h : lists ≠ []) :
    ∃ D, buildFullFact lists = some D ∧ D.length = prod (lists.map List.length) ∧
      (∀ row, row ∈ D ↔ List.Forall₂ (· ∈ ·) row lists) ∧
      ((∀ l ∈ lists, l.Nodup) → D.Nodup) := by
  have hff : fullfact (lists.map List.length) = some (fullfactRows (lists.map List.length)) := by
    cases lists with
    | nil => exact absurd rfl h
    | cons _ _ => simp [fullfact]
  have hmap : (toIntRows (fullfactRows (lists.map List.length))).map (pickRow lists)
      = (fullfactRows (lists.map List.length)).map (pickNat lists) := by
    simp only [toIntRows, List.map_map]
    apply List.map_congr_left
    intro row _
    exact pickRow_ofNat lists row
  obtain ⟨D, hD⟩ : ∃ D, allSome ((fullfactRows (lists.map List.length)).map (pickNat lists)) = some D := by
    apply allSome_isSome
    intro x hx
    obtain ⟨row, hrow, rfl⟩ := List.mem_map.mp hx
    exact pickNat_isSome (mem_fullfactRows.mp hrow)
  have hD' := allSome_eq_some.mp hD
  refine ⟨D, ?_, ?_, ?_, ?_⟩
  · simp only [buildFullFact, hff, constructDf, hmap, hD]
  · have := congrArg List.length hD'
    simpa [length_fullfactRows] using this.symm
  · intro row
    rw [← pickNat_range]
    have : row ∈ D ↔ some row ∈ D.map some := by simp
    rw [this, ← hD']
    simp only [List.mem_map, mem_fullfactRows]
  · intro hn
    have hnd : ((fullfactRows (lists.map List.length)).map (pickNat lists)).Nodup := by
      apply List.Nodup.map_on _ (nodup_fullfactRows _)
      intro r1 h1 r2 h2 e
      have l1 := length_of_inBox (mem_fullfactRows.mp h1)
      have l2 := length_of_inBox (mem_fullfactRows.mp h2)
      obtain ⟨out, ho⟩ := pickNat_isSome (mem_fullfactRows.mp h1)
      simp only [List.length_map] at l1 l2
      exact pickNat_inj hn l1 l2 ho (e ▸ ho)
    rw [hD'] at hnd
    exact List.Nodup.of_map _ hnd

example : buildFullFact [[10, 20], [1, 2, 3]] = some [[10, 1], [20, 1], [10, 2], [20, 2], [10, 3], [20, 3]] := by decide

/-! ## Plackett–Burman

`Had m H`: `m` rows of `m` entries `±1`, first column all ones, distinct columns orthogonal (`colDot H i j = 0`). -/

/-- 12-run seed `toeplitz` table (finite: `decide +kernel` in `Proofs/DoePB.lean`). -/
theorem h12_cols_orth : Had 12 h12 := had_h12

/-- 20-run seed `hankel` table (finite: `decide +kernel`). -/
theorem h20_cols_orth : Had 20 h20 := had_h20

/-- Sylvester doubling `[[H, H], [H, -H]]` preserves the `±1` entries, the all-ones first column and the pairwise
orthogonality of the columns – for every size. -/
theorem double_cols_orth {m : Nat} {H : List (List Int)} (hm : 0 < m) (h : Had m H) : Had (2 * m) (double H) :=
  had_double hm h

/-- `pbdesign n`, whenever it returns: `4(⌊n/4⌋+1)` runs of `n` entries `±1`, every column balanced (sum 0, i.e. as
many `+1` as `-1`), distinct columns orthogonal.  Holds for every `n` and every seed / doubling exponent. -/
theorem pb_design {n : Nat} {D : List (List Int)} (h : pbdesign n = some D) :
    D.length = 4 * (n / 4 + 1) ∧
    (∀ r ∈ D, r.length = n ∧ ∀ x ∈ r, x = 1 ∨ x = -1) ∧
    (∀ j, j < n → colSum D j = 0) ∧
    (∀ i j, i < n → j < n → i ≠ j → colDot D i j = 0) := by
  unfold pbdesign at h
  split at h
  · exact absurd h (by simp)
  · split at h
    · exact absurd h (by simp)
    · next H0 e hs =>
      obtain ⟨m0, hm0, hH0, hN⟩ := pbSeed_had hs
      have hH := doubleN_had e hm0 hH0
      rw [← hN] at hH
      simp only [Option.some.injEq] at h
      subst h
      have hn : n + 1 ≤ 4 * (n / 4 + 1) := by omega
      refine ⟨by simp [hH.rows], ?_, ?_, ?_⟩
      · intro r hr
        obtain ⟨a, ha, rfl⟩ := List.mem_map.mp (List.mem_reverse.mp hr)
        refine ⟨by simp [hH.width a ha]; omega, fun x hx => hH.pm a ha x ?_⟩
        exact List.mem_of_mem_drop (List.mem_of_mem_take hx)
      · intro j hj
        rw [colSum_sel _ _ _ hj]
        exact hH.colSum_zero (by omega) (by omega)
      · intro i j hi hj hij
        rw [colDot_sel _ _ _ _ hi hj]
        exact hH.orth _ _ (by omega) (by omega) (by omega)

example : pbdesign 3 = some [[-1, -1, 1], [1, -1, -1], [-1, 1, -1], [1, 1, 1]] := by decide

/-- Supported sizes: every factor count `1..23` yields a design (run counts 4, 8, 12, 16, 20, 24) … -/
theorem pb_supported {n : Nat} (h1 : 1 ≤ n) (h23 : n ≤ 23) : ∃ D, pbdesign n = some D := by
  have hs : (pbSeed (4 * (n / 4 + 1))).isSome = true := by
    have : n / 4 = 0 ∨ n / 4 = 1 ∨ n / 4 = 2 ∨ n / 4 = 3 ∨ n / 4 = 4 ∨ n / 4 = 5 := by omega
    rcases this with e | e | e | e | e | e <;> rw [e] <;> decide
  obtain ⟨⟨H0, e⟩, hse⟩ := Option.isSome_iff_exists.mp hs
  simp only [pbdesign, if_neg (show ¬ n = 0 by omega), hse]
  exact ⟨_, rfl⟩

/-- … while 24–27 factors (28 runs: neither `2^a`, `12·2^a` nor `20·2^a`) raise. -/
theorem pb_unsupported {n : Nat} (h1 : 24 ≤ n) (h2 : n ≤ 27) : pbdesign n = none := by
  have : n / 4 = 6 := by omega
  have hs : pbSeed (4 * (n / 4 + 1)) = none := by rw [this]; decide
  simp [pbdesign, hs]

/-- `PlackettBurmanGenerator`: the runs use only the two bounds of each factor – coded `-1` is the lower, `+1`
the upper bound – so run count, balance and orthogonality carry over from `pb_design`. -/
theorem pb_bounds {α : Type} (bounds : List (α × α)) :
    buildPB bounds = (pbdesign bounds.length).map fun D => D.map fun r => List.zipWith selBound r bounds := by
  unfold buildPB
  cases h : pbdesign bounds.length with
  | none => rfl
  | some D =>
    obtain ⟨_, hD, _, _⟩ := pb_design h
    simp only [Option.map_some, constructDf, List.map_map]
    apply allSome_eq_some.mpr
    simp only [List.map_map]
    apply List.map_congr_left
    intro r hr
    simp only [Function.comp]
    exact pickRow_pm bounds r (hD r hr).1 (hD r hr).2

example : buildPB [(10, 20), (1, 2), (5, 7)] = some [[10, 1, 7], [20, 1, 5], [10, 2, 5], [20, 2, 7]] := by decide

/-! ## Box–Behnken

`corner n i j a b`: the run with `a` at factor `i`, `b` at factor `j` and the mid-level `0` everywhere else. -/

/-- `bbdesign(n, center=1)` for every `n ≥ 3`: the runs are exactly the `±1` corners of every factor pair `i < j`
(other factors at mid-level) plus the centre run, each exactly once – `2n(n-1) + 1 = 4·C(n,2) + 1` runs. -/
theorem bb_design {n : Nat} (hn : 3 ≤ n) :
    ∃ D, bbdesign n 1 = some D ∧ D.Nodup ∧ D.length = 2 * (n * (n - 1)) + 1 ∧
      ∀ row, row ∈ D ↔ (row = List.replicate n 0 ∨
        ∃ i j a b, i < j ∧ j < n ∧ (a = 1 ∨ a = -1) ∧ (b = 1 ∨ b = -1) ∧ row = corner n i j a b) := by
  have hmem : ∀ row, row ∈ (pairs n).flatMap (bbBlock n) ↔
      ∃ i j a b, i < j ∧ j < n ∧ (a = 1 ∨ a = -1) ∧ (b = 1 ∨ b = -1) ∧ row = corner n i j a b := by
    intro row
    simp only [List.mem_flatMap, mem_bbBlock]
    constructor
    · rintro ⟨p, hp, a, b, ha, hb, rfl⟩
      obtain ⟨h1, h2⟩ := mem_pairs.mp hp
      exact ⟨p.1, p.2, a, b, h1, h2, ha, hb, rfl⟩
    · rintro ⟨i, j, a, b, h1, h2, ha, hb, rfl⟩
      exact ⟨(i, j), mem_pairs.mpr ⟨h1, h2⟩, a, b, ha, hb, rfl⟩
  refine ⟨(pairs n).flatMap (bbBlock n) ++ List.replicate 1 (List.replicate n 0),
    by simp [bbdesign, show ¬ n < 3 by omega], ?_, ?_, ?_⟩
  · rw [List.nodup_append]
    refine ⟨nodup_blocks n, by simp, ?_⟩
    intro row hr z hz
    obtain ⟨i, j, a, b, h1, h2, _, hb, rfl⟩ := (hmem row).mp hr
    simp only [List.replicate_one, List.mem_singleton] at hz
    subst hz
    have hb0 : b ≠ 0 := by rcases hb with rfl | rfl <;> decide
    exact corner_ne_zeros (by omega) h2 hb0
  · rw [List.length_append, List.length_flatMap, List.map_congr_left (fun p _ => length_bbBlock n p)]
    have := length_pairs n
    simp only [List.map_const', List.sum_replicate_nat, List.length_replicate]
    omega
  · intro row
    rw [List.mem_append, hmem]
    simp only [List.replicate_one, List.mem_singleton]
    exact or_comm

example : bbdesign 3 1 = some [[-1, -1, 0], [1, -1, 0], [-1, 1, 0], [1, 1, 0], [-1, 0, -1], [1, 0, -1],
    [-1, 0, 1], [1, 0, 1], [0, -1, -1], [0, 1, -1], [0, -1, 1], [0, 1, 1], [0, 0, 0]] := by decide

/-- fewer than three factors: `assert n >= 3` -/
theorem bb_needs_three {n c : Nat} (hn : n < 3) : bbdesign n c = none := by simp [bbdesign, hn]

/-- `BoxBehnkenGenerator`: coded `-1 / 0 / +1` become the smaller bound, the mid-point `(lb+ub)/2` and the larger
bound of the factor (the level list `[lb, ub, (lb+ub)/2]` is sorted by the code), so the structure of `bb_design`
carries over to the real levels. -/
theorem bb_levels (bounds : List (Rat × Rat)) :
    buildBB bounds = (bbdesign bounds.length 1).map fun D => D.map fun r => List.zipWith selLevel r bounds := by
  unfold buildBB
  by_cases hn : bounds.length < 3
  · simp [bb_needs_three hn]
  · obtain ⟨D, hD, _, _, hmem⟩ := bb_design (n := bounds.length) (by omega)
    simp only [hD, Option.map_some, constructDf, List.map_map]
    apply allSome_eq_some.mpr
    simp only [List.map_map]
    apply List.map_congr_left
    intro r hr
    simp only [Function.comp]
    apply pickRow_bb
    · rcases (hmem r).mp hr with rfl | ⟨i, j, a, b, _, _, _, _, rfl⟩
      · simp
      · exact length_corner _ _ _ _ _
    · intro x hx
      rcases (hmem r).mp hr with rfl | ⟨i, j, a, b, _, _, ha, hb, rfl⟩
      · exact .inr (.inr (List.eq_of_mem_replicate hx))
      · rcases List.mem_or_eq_of_mem_set hx with hx | rfl
        · rcases List.mem_or_eq_of_mem_set hx with hx | rfl
          · exact .inr (.inr (List.eq_of_mem_replicate hx))
          · rcases ha with rfl | rfl <;> simp
        · rcases hb with rfl | rfl <;> simp

example : buildBB [(0, 2), (10, 20), (7, 5)] = some [[0, 10, 6], [2, 10, 6], [0, 20, 6], [2, 20, 6], [0, 15, 5],
    [2, 15, 5], [0, 15, 7], [2, 15, 7], [1, 10, 5], [1, 20, 5], [1, 10, 7], [1, 20, 7], [1, 15, 6]] := by
  decide +kernel

/-! ## Generalized subset designs

`InOA r i row` is the recursion of `_make_orthogonal_arrays` read as a predicate: `[v]` belongs to array `v`;
`c :: rest` belongs to array `i` iff `c < r` and `rest` belongs to array `latin[i][c] = (i + c) mod r`.
`InBox y levels`: `y` is a run of the full factorial over `levels` (0-based level indices). -/

/-- Orthogonal-array layer, recursive form: for every reduction `r`, width `k ≥ 1` and `i < r`, array `i` lists
exactly the rows of length `k` in class `i`, each once. -/
theorem oa_mem_rec (r : Nat) {k i : Nat} (hk : 1 ≤ k) (hi : i < r) :
    ((orthArrays r k).getD i []).Nodup ∧
    ∀ row, row ∈ (orthArrays r k).getD i [] ↔ row.length = k ∧ InOA r i row :=
  ⟨(oaInv_orthArrays r hk).nodup i hi, (oaInv_orthArrays r hk).mem i hi⟩

/-- Orthogonal-array layer, closed form (DESIGN.md Appendix A.4 `oa_mem`): `row ∈ OA_i` iff it has `k` entries, all
but the last below `r`, and `last = (i + Σ others) mod r`, i.e. `row[k-1] − Σ_{j<k-1} row[j] ≡ i (mod r)`
(the last entry is then below `r` too). -/
theorem oa_mem (r : Nat) {k i : Nat} (hk : 1 ≤ k) (hi : i < r) (row : List Nat) :
    row ∈ (orthArrays r k).getD i [] ↔
      row.length = k ∧ ∃ init last, row = init ++ [last] ∧ (∀ x ∈ init, x < r) ∧ last = (i + init.sum) % r := by
  rw [(oa_mem_rec r hk hi).2 row, inOA_closed hi]

/-- Every non-empty row over `[0, r)` lies in exactly one of the `r` classes – the arrays partition `[0,r)^k`. -/
theorem oa_class_unique {r : Nat} {row : List Nat} (hne : row ≠ []) (hlt : ∀ x ∈ row, x < r) :
    ∃ i, i < r ∧ InOA r i row ∧ ∀ j, j < r → InOA r j row → j = i := by
  obtain ⟨i, hi, hin⟩ := inOA_exists hne hlt
  exact ⟨i, hi, hin, fun j hj hjn => inOA_unique hj hi hjn hin⟩

/-- Each returned design is a duplicate-free subset of the full factorial – for all level lists, reductions and
design counts on which `build_gsd` succeeds. -/
theorem gsd_subset_nodup {levels : List Nat} {r n : Nat} {out : List (List (List Nat))}
    (h : buildGsd levels r n = .ok out) (hk : 1 ≤ levels.length) :
    ∀ d ∈ out, d.Nodup ∧ ∀ y ∈ d, InBox y levels := by
  obtain ⟨_, _, _, hget⟩ := buildGsd_ok h hk
  intro d hd
  obtain ⟨i, hid⟩ := List.mem_iff_getElem?.mp hd
  obtain ⟨hi, rfl⟩ := hget i d hid
  exact ⟨nodup_design0 hk hi, fun y hy => design0_box hk hi hy⟩

/-- Complementary designs are pairwise disjoint. -/
theorem gsd_disjoint {levels : List Nat} {r n : Nat} {out : List (List (List Nat))}
    (h : buildGsd levels r n = .ok out) (hk : 1 ≤ levels.length) {i j : Nat} {d1 d2 : List (List Nat)}
    (h1 : out[i]? = some d1) (h2 : out[j]? = some d2) (hij : i ≠ j) : ∀ y ∈ d1, y ∉ d2 := by
  obtain ⟨_, _, _, hget⟩ := buildGsd_ok h hk
  obtain ⟨hi, rfl⟩ := hget i d1 h1
  obtain ⟨hj, rfl⟩ := hget j d2 h2
  intro y hy1 hy2
  exact hij (design0_disjoint hk hi hj hy1 hy2)

/-- All `r` complementary designs (`n ≥ r`) together make up the whole full factorial, for every level list with at
least two levels per factor. (With `gsd_subset_nodup` and `gsd_disjoint`: they partition it.) -/
theorem gsd_cover {levels : List Nat} {r n : Nat} {out : List (List (List Nat))}
    (h : buildGsd levels r n = .ok out) (hk : 1 ≤ levels.length) (hn : r ≤ n) (hL : ∀ L ∈ levels, 2 ≤ L) :
    out.length = r ∧ ∀ y, InBox y levels → ∃ d ∈ out, y ∈ d := by
  obtain ⟨hr, _, hlen, hget⟩ := buildGsd_ok h hk
  have hlen' : out.length = r := by omega
  refine ⟨hlen', fun y hy => ?_⟩
  obtain ⟨i, hi, hyi⟩ := design0_cover hk hr hL hy
  have hio : i < out.length := by omega
  have hid : out[i]? = some out[i] := List.getElem?_eq_getElem hio
  obtain ⟨_, e⟩ := hget i _ hid
  exact ⟨out[i], List.getElem_mem hio, e ▸ hyi⟩

/-- `GSDGenerator` (one design): every run is a combination of the supplied level values, and with distinct values per
factor no run repeats – a duplicate-free subset of the full factorial over the supplied levels. -/
theorem gsd_generator_subset {α : Type} {values : List (List α)} {r : Nat} {V : List (List α)}
    (h : gsdGen values r = .ok (some V)) (hk : 1 ≤ values.length) :
    (∀ v ∈ V, List.Forall₂ (· ∈ ·) v values) ∧ ((∀ l ∈ values, l.Nodup) → V.Nodup) := by
  unfold gsdGen at h
  split at h
  · exact absurd h (by simp)
  · next ds hds =>
    simp only [Except.ok.injEq] at h
    have hk' : 1 ≤ (values.map List.length).length := by simpa using hk
    obtain ⟨hr, _, hlen, _⟩ := buildGsd_ok hds hk'
    have hsub := gsd_subset_nodup hds hk'
    cases ds with
    | nil => simp only [List.length_nil] at hlen; omega
    | cons d _ =>
      obtain ⟨hnd, hbox⟩ := hsub d (by simp)
      exact constructDf_box hnd hbox h

example : gsdGen [[1, 3, 2], [6, 8, 4]] 2 = .ok (some [[1, 6], [1, 4], [2, 6], [2, 4], [3, 8]]) := by decide

example : buildGsd [3, 4] 2 2 = .ok [[[0, 0], [0, 2], [2, 0], [2, 2], [1, 1], [1, 3]],
    [[0, 1], [0, 3], [2, 1], [2, 3], [1, 0], [1, 2]]] := by decide

end Artap.C13
