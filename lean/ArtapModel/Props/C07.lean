import ArtapModel.Proofs.Concurrency
import ArtapModel.Proofs.ConcEval
/-!
# C07 — Parallel evaluation is equivalent to serial evaluation under every schedule

Property theorems for the schedule model of `Model/Concurrency.lean`.  They are unbounded in
the batch size, in the number of workers (a schedule does not even mention workers: any
assignment of steps to threads induces one) and in the schedule.

What is *proved*: under the footprint built into the model (an action touches only its own
design's record, its own store row and appends to the call log) every schedule that lets each
design finish yields exactly the serial result.  What is *tested* (harness/c07.py): that the
real threads have this footprint, by forcing schedules at objective-call / store-sync
granularity.  Interleavings inside one action (bytecode level, SQLite's own locking) are
outside the model – the claim is labelled partial in MANIFEST.json.
-/
namespace Artap.C07
open Artap.Conc

variable {L B : Type}

/-- Projection: after any schedule the triple (record, row, pc) of design `t` is what running
`t` alone for `count t σ` steps gives. -/
theorem proj_run (prog : List (Action L B)) (s : Sys L B) (n : Nat) (h : WF s n) (σ : List Nat) (t : Nat) :
    view (run prog σ s) t = (view s t).map (iter (tstep prog) (σ.count t)) :=
  run_view prog h σ t

/-- Schedules that give every design the same number of steps are indistinguishable: same
records, same store, same program counters, call logs equal as multisets. -/
theorem schedule_independent (prog : List (Action L B)) (s : Sys L B) (n : Nat) (h : WF s n)
    (σ τ : List Nat) (hc : ∀ t, t < n → σ.count t = τ.count t) :
    (run prog σ s).locals = (run prog τ s).locals ∧
    (run prog σ s).store = (run prog τ s).store ∧
    (run prog σ s).pc = (run prog τ s).pc ∧
    ∀ t, (run prog σ s).calls.count t = (run prog τ s).calls.count t := by
  have hv : ∀ t, t < n → view (run prog σ s) t = view (run prog τ s) t := by
    intro t ht; rw [run_view prog h, run_view prog h, hc t ht]
  obtain ⟨a, b, c⟩ := ext_of_view (run_wf prog h σ) (run_wf prog h τ) hv
  refine ⟨a, b, c, ?_⟩
  intro t
  rw [run_calls prog h, run_calls prog h]
  by_cases ht : t < n
  · rw [hc t ht]
  · rw [view_none_of_ge h (Nat.le_of_not_lt ht)]

/-- What `Job.evaluate` leaves in a design (specification of the per-design result). -/
def finalDesign (P : Prob) (d : Design) : Design :=
  if d.state = St.evaluated then { d with skip := true } else
    let c := P.cons d.vec
    let feas := if c.isEmpty then d.feasible else some (c.all (fun v => v < 0))
    { vec := d.vec, state := St.evaluated, costs := P.obj d.vec,
      signed := zipMul P.signs ((P.obj d.vec).map P.rnd),
      marker := (match feas with | some f => !f | none => true),
      feasible := feas, skip := false }

def finalRow (P : Prob) (d : Design) : Option Row :=
  if d.state = St.evaluated then none else
    let f := finalDesign P d
    some { vec := f.vec, costs := f.costs, signed := f.signed, marker := f.marker, state := St.evaluated }

/-- One design alone: five steps of the `Job.evaluate` program produce `finalDesign`, write
exactly the final row (nothing for an already evaluated design) and call the objective once
(never for an evaluated design). -/
theorem job_alone (P : Prob) (d : Design) :
    iter (tstep (jobProg P)) 5 (d, none, 0) = (finalDesign P d, finalRow P d, 5) ∧
    tcalls (jobProg P) 5 (d, none, 0) = (if d.state = St.evaluated then 0 else 1) := by
  by_cases h : d.state = St.evaluated
  · constructor
    · simp [iter, tstep, jobProg, finalDesign, finalRow, h]
    · simp [tcalls, tcall, tstep, jobProg, h]
  · constructor
    · simp only [iter, tstep, jobProg, finalDesign, finalRow, h]
      cases hc : P.cons d.vec <;> simp [hc, h]
      cases d.feasible <;> rfl
    · cases hc : P.cons d.vec <;> simp [tcalls, tcall, tstep, jobProg, h, hc]

/-- **Parallel = serial.**  For every batch, every problem and every schedule in which each
design gets its five steps, each design ends with the fields serial evaluation gives it, the
store holds exactly the final row of every newly evaluated design, and the objective has been
called exactly once per not-yet-evaluated design and never for an evaluated one. -/
theorem parallel_fields (P : Prob) (ds : List Design) (σ : List Nat)
    (hσ : ∀ t, t < ds.length → σ.count t = 5) (t : Nat) (ht : t < ds.length) :
    let r := run (jobProg P) σ (init ds)
    r.locals[t]? = some (finalDesign P ds[t]) ∧
    r.store[t]? = some (finalRow P ds[t]) ∧
    r.calls.count t = (if ds[t].state = St.evaluated then 0 else 1) := by
  intro r
  have hw := init_wf (B := Row) ds
  have hv := run_view (jobProg P) hw σ t
  rw [init_view ds t ht, hσ t ht, Option.map_some, (job_alone P ds[t]).1] at hv
  have hc := run_calls (jobProg P) hw σ t
  rw [init_view ds t ht, hσ t ht] at hc
  simp only [(job_alone P ds[t]).2] at hc
  have hwf := run_wf (jobProg P) hw σ
  obtain ⟨w1, w2, w3⟩ := hwf
  unfold view at hv
  have a1 : t < (run (jobProg P) σ (init ds)).locals.length := by omega
  have a2 : t < (run (jobProg P) σ (init ds)).store.length := by omega
  have a3 : t < (run (jobProg P) σ (init ds)).pc.length := by omega
  simp only [List.getElem?_eq_getElem a1, List.getElem?_eq_getElem a2, List.getElem?_eq_getElem a3,
    Option.some.injEq, Prod.mk.injEq] at hv
  refine ⟨?_, ?_, ?_⟩
  · show (run (jobProg P) σ (init ds)).locals[t]? = _
    rw [List.getElem?_eq_getElem a1, hv.1]
  · show (run (jobProg P) σ (init ds)).store[t]? = _
    rw [List.getElem?_eq_getElem a2, hv.2.1]
  · show (run (jobProg P) σ (init ds)).calls.count t = _
    rw [hc]; simp [init]

/-- The serial schedule is one of the complete schedules, so `parallel_fields` is a statement
about equality with serial evaluation. -/
theorem parallel_eq_serial (P : Prob) (ds : List Design) (σ : List Nat)
    (hσ : ∀ t, t < ds.length → σ.count t = 5) :
    let par := run (jobProg P) σ (init ds)
    let ser := run (jobProg P) (serialSchedule ds.length 5) (init ds)
    par.locals = ser.locals ∧ par.store = ser.store ∧ ∀ t, par.calls.count t = ser.calls.count t := by
  intro par ser
  have := schedule_independent (jobProg P) (init ds) ds.length (init_wf ds) σ (serialSchedule ds.length 5)
    (by intro t ht; rw [hσ t ht, count_serial]; simp [ht])
  exact ⟨this.1, this.2.1, this.2.2.2⟩

/-- No call is ever attributed to something that is not a design of the batch. -/
theorem no_stray_calls (P : Prob) (ds : List Design) (σ : List Nat) (t : Nat) (ht : ds.length ≤ t) :
    (run (jobProg P) σ (init ds)).calls.count t = 0 := by
  rw [run_calls (jobProg P) (init_wf ds) σ t, view_none_of_ge (init_wf ds) ht]
  simp [init]

/-! ## Refinement to the sequential model of Job.evaluate

`jobProg P` was written by hand next to the sequential model `Eval.jobEvaluate` (Model/Eval.lean, properties
C05/C06), and that model is tied to the current source by translation (`Tie/Eval.lean`: the function
regenerated from artap/job.py on every run *is* `Eval.jobEvaluate`).  The theorems below close the gap
between the two hand-written models: under the abstraction map `ConcEval.absDesign` (Proofs/ConcEval.lean)
five steps of `jobProg P` compute what `Eval.jobEvaluate` computes on the success path.  The corollary
about the generated function lives in `Tie/ConcEval.lean` (`parallel_eq_generated_serial`), because the
root library must not depend on a regenerated file.

Hypotheses: `Abs c e` – the record `c` of the schedule model is the image of the design `e` of the sequential
model (vector, state, costs, signed costs, marker, feasibility; the incoming value of the output field `skip`
is irrelevant); `Agree P env e` – same constraint values at `e`'s vector, same signs, `P.rnd` is
`env.rnd e.prec` on the objective's values, and the first objective call on `e` succeeds with `P.obj e.vec`.
`Agree` is needed only for a design that is not yet evaluated.  No hypothesis on the state: the two models
agree for every state (`EMPTY` and `EVALUATED` are the ones the C07 harness hands to `evaluate`). -/
section Refinement
open Artap.ConcEval

/-- **Refinement.**  Five steps of `jobProg P` on `c` (what `job_alone` computes) against
`Eval.jobEvaluate env e w`: no error; the final record is the image of the final design, with
`skip` set exactly for an evaluated design; the row written to the store is the image of the final design
(nothing is written for an evaluated design); the number of objective calls is 0 for an evaluated design
and 1 otherwise, and it is the number of entries `(e.key, e.vec)` by which the call log and the ghost call
counter of the sequential model advance; `Problem.failed` is untouched; and the marker of a newly
evaluated design is exactly the 0/1 value of the schedule model's Boolean marker (so nothing is lost in
`absMarker`). -/
theorem jobProg_refines_jobEvaluate (P : Prob) (env : Eval.Env) (c : Design) (e : Eval.Design) (w : Eval.World)
    (hc : Abs c e) (hA : e.state ≠ .evaluated → Agree P env e) :
    let out := Eval.jobEvaluate env e w
    let n := tcalls (jobProg P) 5 (c, none, 0)
    out.1 = none ∧
    iter (tstep (jobProg P)) 5 (c, none, 0) =
      ({ absDesign out.2.1 with skip := decide (e.state = .evaluated) },
       (if e.state = .evaluated then none else some (absRow out.2.1)), 5) ∧
    n = (if e.state = .evaluated then 0 else 1) ∧
    out.2.2.log = w.log ++ List.replicate n (e.key, e.vec) ∧
    out.2.2.failed = w.failed ∧
    out.2.1.ncalls = e.ncalls + n ∧
    (e.state ≠ .evaluated → out.2.1.marker = some (b2i (absDesign out.2.1).marker)) := by
  intro out n
  by_cases hs : e.state = .evaluated
  · have h1 := jobEvaluate_skip env e w hs
    have h2 := jobProg_skip P hc hs
    have hout : out = (none, e, w) := h1
    have hn : n = 0 := h2.2
    rw [hout, hn, h2.1]
    simp [hs]
  · have h1 := jobEvaluate_success w hs (hA hs)
    have h2 := jobProg_success hc hs (hA hs)
    have hout : out = (none, Eval.succeed env e (P.obj e.vec), Eval.logCall e w) := h1
    have hn : n = 1 := h2.2
    rw [hout, hn, h2.1]
    refine ⟨rfl, ?_, ?_, ?_, ?_, ?_, ?_⟩
    · simp [hs, absDesign]
    · simp [hs]
    · simp [Eval.logCall]
    · rfl
    · rfl
    · intro _
      exact marker_exact _

/-- The same statement for the specification `finalDesign` / `finalRow` used by `parallel_fields`. -/
theorem finalDesign_refines_jobEvaluate (P : Prob) (env : Eval.Env) (c : Design) (e : Eval.Design) (w : Eval.World)
    (hc : Abs c e) (hA : e.state ≠ .evaluated → Agree P env e) :
    finalDesign P c = { absDesign (Eval.jobEvaluate env e w).2.1 with skip := decide (e.state = .evaluated) } ∧
    finalRow P c = (if e.state = .evaluated then none else some (absRow (Eval.jobEvaluate env e w).2.1)) ∧
    (c.state = St.evaluated ↔ e.state = .evaluated) := by
  have h := (jobProg_refines_jobEvaluate P env c e w hc hA).2.1
  rw [(job_alone P c).1] at h
  simp only [Prod.mk.injEq, and_true] at h
  refine ⟨h.1, h.2, ?_⟩
  have hst : c.state = absSt e.state := congrArg Design.state hc
  rw [hst]
  exact absSt_evaluated _

/-- **Parallel = sequential model.**  For every batch `ds` of the schedule model that stands, design by
design, for a list `es` of designs of the sequential model, and every complete schedule: design `t` ends
with the image of what `Eval.jobEvaluate` returns for `es[t]` (started from any world `w`), its store row
is the image of that final design, and its number of objective calls is the number of entries by which
`Eval.jobEvaluate` extends the call log and the ghost call counter. -/
theorem parallel_eq_jobEvaluate (P : Prob) (env : Eval.Env) (ds : List Design) (es : List Eval.Design)
    (habs : ∀ (t : Nat) (c : Design) (e : Eval.Design), ds[t]? = some c → es[t]? = some e → Abs c e)
    (hagree : ∀ e, e ∈ es → e.state ≠ .evaluated → Agree P env e)
    (σ : List Nat) (hσ : ∀ t, t < ds.length → σ.count t = 5)
    (t : Nat) (e : Eval.Design) (ht : t < ds.length) (het : es[t]? = some e) (w : Eval.World) :
    let r := run (jobProg P) σ (init ds)
    let out := Eval.jobEvaluate env e w
    out.1 = none ∧
    r.locals[t]? = some { absDesign out.2.1 with skip := decide (e.state = .evaluated) } ∧
    r.store[t]? = some (if e.state = .evaluated then none else some (absRow out.2.1)) ∧
    r.calls.count t = (if e.state = .evaluated then 0 else 1) ∧
    out.2.2.log = w.log ++ List.replicate (r.calls.count t) (e.key, e.vec) ∧
    out.2.2.failed = w.failed ∧
    out.2.1.ncalls = e.ncalls + r.calls.count t := by
  intro r out
  have hc : Abs ds[t] e := habs t ds[t] e (List.getElem?_eq_getElem ht) het
  have hA : e.state ≠ .evaluated → Agree P env e := hagree e (List.mem_of_getElem? het)
  obtain ⟨p1, p2, p3⟩ := parallel_fields P ds σ hσ t ht
  obtain ⟨q1, q2, q3⟩ := finalDesign_refines_jobEvaluate P env ds[t] e w hc hA
  obtain ⟨r1, _, r3, r4, r5, r6, _⟩ := jobProg_refines_jobEvaluate P env ds[t] e w hc hA
  have hcnt : r.calls.count t = tcalls (jobProg P) 5 (ds[t], none, 0) := by
    rw [r3]; show (run (jobProg P) σ (init ds)).calls.count t = _
    rw [p3]; simp only [q3]
  refine ⟨r1, ?_, ?_, ?_, ?_, r5, ?_⟩
  · show (run (jobProg P) σ (init ds)).locals[t]? = _
    rw [p1, q1]
  · show (run (jobProg P) σ (init ds)).store[t]? = _
    rw [p2, q2]
  · rw [hcnt, r3]
  · rw [hcnt]; exact r4
  · rw [hcnt]; exact r6

/-- **Parallel = `evaluate_serial` of the sequential model.**  `Eval.evalSerial` is the loop of
`Evaluator.evaluate_serial` (it hands only `EMPTY` designs to `Job.evaluate`, whereas `evaluate_parallel`
hands over every design – the two differ on designs in state `IN_PROGRESS`/`FAILED`, hence the hypothesis on
the states, which are the ones the C07 harness uses).  For a batch of `EMPTY`/`EVALUATED` designs on the
success path and every complete schedule: the serial loop raises nothing, the records after the parallel
run are the images of the designs after the serial loop, the store holds the image of every newly evaluated
design, the serial call log grows by one entry per not yet evaluated design (in batch order), and the
parallel run attributes to design `t` exactly as many calls as the serial loop makes for it. -/
theorem parallel_eq_evalSerial (P : Prob) (env : Eval.Env) (ds : List Design) (es : List Eval.Design)
    (hlen : ds.length = es.length)
    (habs : ∀ (t : Nat) (c : Design) (e : Eval.Design), ds[t]? = some c → es[t]? = some e → Abs c e)
    (hagree : ∀ e, e ∈ es → e.state ≠ .evaluated → Agree P env e)
    (hst : ∀ e, e ∈ es → e.state = .empty ∨ e.state = .evaluated)
    (σ : List Nat) (hσ : ∀ t, t < ds.length → σ.count t = 5) (w : Eval.World) :
    let r := run (jobProg P) σ (init ds)
    let s := Eval.evalSerial env es w
    s.1 = none ∧
    r.locals = List.zipWith (fun e e' => { absDesign e' with skip := decide (e.state = .evaluated) }) es s.2.1 ∧
    r.store = List.zipWith (fun e e' => if e.state = .evaluated then none else some (absRow e')) es s.2.1 ∧
    s.2.2.log = w.log ++ serialCalls es ∧
    s.2.2.failed = w.failed ∧
    (∀ t e, es[t]? = some e → r.calls.count t = (serialCalls [e]).length) := by
  intro r s
  have hs : s = (none, es.map (serialResult P env), { log := w.log ++ serialCalls es, failed := w.failed }) :=
    evalSerial_success es w hagree hst
  have hwf := run_wf (jobProg P) (init_wf (B := Row) ds) σ
  obtain ⟨w1, w2, _⟩ := hwf
  have key : ∀ t e, es[t]? = some e →
      r.locals[t]? = some { absDesign (serialResult P env e) with skip := decide (e.state = .evaluated) } ∧
      r.store[t]? = some (if e.state = .evaluated then none else some (absRow (serialResult P env e))) ∧
      r.calls.count t = (if e.state = .evaluated then 0 else 1) := by
    intro t e het
    have ht : t < ds.length := by
      have := (List.getElem?_eq_some_iff.1 het).1; omega
    have hA := hagree e (List.mem_of_getElem? het)
    obtain ⟨_, a2, a3, a4, _⟩ := parallel_eq_jobEvaluate P env ds es habs hagree σ hσ t e ht het w
    rw [jobEvaluate_serialResult w hA] at a2 a3
    exact ⟨a2, a3, a4⟩
  rw [hs]
  refine ⟨rfl, ?_, ?_, rfl, rfl, ?_⟩
  · apply List.ext_getElem?
    intro t
    simp only [List.getElem?_zipWith, List.getElem?_map]
    cases het : es[t]? with
    | none =>
      have : es.length ≤ t := List.getElem?_eq_none_iff.1 het
      rw [List.getElem?_eq_none_iff]
      show (run (jobProg P) σ (init ds)).locals.length ≤ t
      omega
    | some e => simp [(key t e het).1]
  · apply List.ext_getElem?
    intro t
    simp only [List.getElem?_zipWith, List.getElem?_map]
    cases het : es[t]? with
    | none =>
      have : es.length ≤ t := List.getElem?_eq_none_iff.1 het
      rw [List.getElem?_eq_none_iff]
      show (run (jobProg P) σ (init ds)).store.length ≤ t
      omega
    | some e => simp [(key t e het).2.1]
  · intro t e het
    rw [(key t e het).2.2]
    by_cases h : e.state = .evaluated <;> simp [serialCalls, h]

end Refinement

/-! ## Non-vacuity: a concrete batch, problem and an interleaved complete schedule -/

def exP : Prob := { obj := fun v => 7 :: v, cons := fun _ => [], signs := [1], rnd := id }
def exBatch : List Design :=
  [ { vec := [1], state := St.empty, costs := [], signed := [], marker := false, feasible := none },
    { vec := [3], state := St.empty, costs := [], signed := [], marker := false, feasible := none } ]
def exSched : List Nat := [1, 0, 0, 1, 1, 0, 1, 0, 0, 1]

example : ∀ t, t < exBatch.length → exSched.count t = 5 := by decide
example : ((run (jobProg exP) exSched (init exBatch)).locals.map (·.costs)) = [[7, 1], [7, 3]] := by decide


/-! ### Non-vacuity of the refinement hypotheses

A problem with a constraint (`x - 2 < 0`), two objectives with signs `1, -1`, rounding to two decimals that
really rounds (`1/3 ↦ 0.33`), and a batch with a feasible new design, an already evaluated design and an
infeasible new design. -/

def exEnv : Eval.Env :=
  { obj := fun _ _ v => .ok (v.map (· * 2) ++ [1 / 3]), reroll := fun _ _ => [],
    cons := fun v => v.map (· - 2), signs := [1, -1], rnd := Eval.roundDec }
def exP2 : Prob :=
  { obj := fun v => v.map (· * 2) ++ [1 / 3], cons := fun v => v.map (· - 2), signs := [1, -1],
    rnd := Eval.roundDec 2 }
def exEs : List Eval.Design :=
  [ Eval.fresh 0 2 [1],
    { key := 1, vec := [5], state := .evaluated, costs := [10, 1 / 3], signed := [10, -33 / 100],
      marker := some 1, feasible := .no, prec := 2, ncalls := 1 },
    Eval.fresh 2 2 [3] ]
def exSched3 : List Nat := [2, 0, 1, 1, 0, 2, 2, 0, 1, 0, 2, 1, 1, 0, 2]

example : ∀ e, e ∈ exEs → e.state ≠ .evaluated → ConcEval.Agree exP2 exEnv e := by
  intro e he hs
  simp only [exEs, List.mem_cons, List.not_mem_nil, or_false] at he
  rcases he with rfl | rfl | rfl
  · exact ⟨rfl, rfl, fun _ _ => rfl, rfl⟩
  · exact absurd rfl hs
  · exact ⟨rfl, rfl, fun _ _ => rfl, rfl⟩

example : ∀ (t : Nat) (c : Design) (e : Eval.Design),
    (exEs.map ConcEval.absDesign)[t]? = some c → exEs[t]? = some e → ConcEval.Abs c e := by
  intro t c e h1 h2
  rw [List.getElem?_map, h2] at h1
  cases h1
  exact ConcEval.abs_absDesign e

example : ∀ t, t < (exEs.map ConcEval.absDesign).length → exSched3.count t = 5 := by decide

/-- The theorem instantiated on this batch (all hypotheses discharged). -/
example (t : Nat) (e : Eval.Design) (ht : t < (exEs.map ConcEval.absDesign).length) (het : exEs[t]? = some e)
    (w : Eval.World) :=
  parallel_eq_jobEvaluate exP2 exEnv (exEs.map ConcEval.absDesign) exEs
    (by intro t c e h1 h2
        rw [List.getElem?_map, h2] at h1
        cases h1
        exact ConcEval.abs_absDesign e)
    (by intro e he hs
        simp only [exEs, List.mem_cons, List.not_mem_nil, or_false] at he
        rcases he with rfl | rfl | rfl
        · exact ⟨rfl, rfl, fun _ _ => rfl, rfl⟩
        · exact absurd rfl hs
        · exact ⟨rfl, rfl, fun _ _ => rfl, rfl⟩)
    exSched3 (by decide) t e ht het w

example : ∀ e, e ∈ exEs → e.state = .empty ∨ e.state = .evaluated := by
  intro e he
  simp only [exEs, List.mem_cons, List.not_mem_nil, or_false] at he
  rcases he with rfl | rfl | rfl
  · exact Or.inl rfl
  · exact Or.inr rfl
  · exact Or.inl rfl

/-- What the interleaved run leaves behind (the parts that do not need rational arithmetic in the kernel;
`#eval` gives signed costs `[2, -33/100]`, `[10, -33/100]`, `[6, -33/100]` and markers `false, true, true`
for both models). -/
example :
    let r := run (jobProg exP2) exSched3 (init (exEs.map ConcEval.absDesign))
    (r.locals.map (fun d => (d.state, d.skip)), r.store.map Option.isSome, [0, 1, 2].map (fun t => r.calls.count t)) =
      ([(St.evaluated, false), (St.evaluated, true), (St.evaluated, false)], [true, false, true], [1, 0, 1]) := by
  decide

/-- Why `parallel_eq_evalSerial` needs the hypothesis on the states (it is not a disagreement between the two
models of `Job.evaluate`, which agree for every state, but a difference between the two loops of
`Evaluator`): `evaluate_serial` leaves a `FAILED` design alone, `evaluate_parallel` evaluates it. -/
example :
    let eF : Eval.Design := { Eval.fresh 0 2 [1] with state := .failed }
    (Eval.evalSerial exEnv [eF] ⟨[], []⟩).2.1.map (·.state) = [.failed] ∧
    (Eval.evalSerial exEnv [eF] ⟨[], []⟩).2.2.log.length = 0 ∧
    (run (jobProg exP2) [0, 0, 0, 0, 0] (init [ConcEval.absDesign eF])).locals.map (·.state) = [St.evaluated] ∧
    (run (jobProg exP2) [0, 0, 0, 0, 0] (init [ConcEval.absDesign eF])).calls = [0] := by decide

end Artap.C07
