import ArtapModel.Proofs.Concurrency
/-!
# C07 — Parallel evaluation is equivalent to serial evaluation under every schedule

Property theorems for the schedule model of `Model/Concurrency.lean`.  They are unbounded in
the batch size, in the number of workers (a schedule does not even mention workers: any
assignment of steps to threads induces one) and in the schedule.

What is *proved*: under the footprint built into the model (an action touches only its own
design's record, its own store row and appends to the call log) every schedule that lets each
design finish yields exactly the serial result.  What is *tested* (harness/c07.py): that the
real threads have this footprint, by forcing schedules at objective-call / store-sync
granularity.  Interleavings inside one action (bytecode level, SQLite's own locking) are
outside the model – the claim is labelled partial in MANIFEST.json.
-/
namespace Artap.C07
open Artap.Conc

variable {L B : Type}

/-- Projection: after any schedule the triple (record, row, pc) of design `t` is what running
`t` alone for `count t σ` steps gives. -/
theorem proj_run (prog : List (Action L B)) (s : Sys L B) (n : Nat) (h : WF s n) (σ : List Nat) (t : Nat) :
    view (run prog σ s) t = (view s t).map (iter (tstep prog) (σ.count t)) :=
  run_view prog h σ t

/-- Schedules that give every design the same number of steps are indistinguishable: same
records, same store, same program counters, call logs equal as multisets. -/
theorem schedule_independent (prog : List (Action L B)) (s : Sys L B) (n : Nat) (h : WF s n)
    (σ τ : List Nat) (hc : ∀ t, t < n → σ.count t = τ.count t) :
    (run prog σ s).locals = (run prog τ s).locals ∧
    (run prog σ s).store = (run prog τ s).store ∧
    (run prog σ s).pc = (run prog τ s).pc ∧
    ∀ t, (run prog σ s).calls.count t = (run prog τ s).calls.count t := by
  have hv : ∀ t, t < n → view (run prog σ s) t = view (run prog τ s) t := by
    intro t ht; rw [run_view prog h, run_view prog h, hc t ht]
  obtain ⟨a, b, c⟩ := ext_of_view (run_wf prog h σ) (run_wf prog h τ) hv
  refine ⟨a, b, c, ?_⟩
  intro t
  rw [run_calls prog h, run_calls prog h]
  by_cases ht : t < n
  · rw [hc t ht]
  · rw [view_none_of_ge h (Nat.le_of_not_lt ht)]

/-- What `Job.evaluate` leaves in a design (specification of the per-design result). -/
def finalDesign (P : Prob) (d : Design) : Design :=
  if d.state = St.evaluated then { d with skip := true } else
    let c := P.cons d.vec
    let feas := if c.isEmpty then d.feasible else some (c.all (fun v => v < 0))
    { vec := d.vec, state := St.evaluated, costs := P.obj d.vec,
      signed := zipMul P.signs ((P.obj d.vec).map P.rnd),
      marker := (match feas with | some f => !f | none => true),
      feasible := feas, skip := false }

def finalRow (P : Prob) (d : Design) : Option Row :=
  if d.state = St.evaluated then none else
    let f := finalDesign P d
    some { vec := f.vec, costs := f.costs, signed := f.signed, marker := f.marker, state := St.evaluated }

/-- One design alone: five steps of the `Job.evaluate` program produce `finalDesign`, write
exactly the final row (nothing for an already evaluated design) and call the objective once
(never for an evaluated design). -/
theorem job_alone (P : Prob) (d : Design) :
    iter (tstep (jobProg P)) 5 (d, none, 0) = (finalDesign P d, finalRow P d, 5) ∧
    tcalls (jobProg P) 5 (d, none, 0) = (if d.state = St.evaluated then 0 else 1) := by
  by_cases h : d.state = St.evaluated
  · constructor
    · simp [iter, tstep, jobProg, finalDesign, finalRow, h]
    · simp [tcalls, tcall, tstep, jobProg, h]
  · constructor
    · simp only [iter, tstep, jobProg, finalDesign, finalRow, h]
      cases hc : P.cons d.vec <;> simp [hc, h]
      cases d.feasible <;> rfl
    · cases hc : P.cons d.vec <;> simp [tcalls, tcall, tstep, jobProg, h, hc]

/-- **Parallel = serial.**  For every batch, every problem and every schedule in which each
design gets its five steps, each design ends with the fields serial evaluation gives it, the
store holds exactly the final row of every newly evaluated design, and the objective has been
called exactly once per not-yet-evaluated design and never for an evaluated one. -/
theorem parallel_fields (P : Prob) (ds : List Design) (σ : List Nat)
    (hσ : ∀ t, t < ds.length → σ.count t = 5) (t : Nat) (ht : t < ds.length) :
    let r := run (jobProg P) σ (init ds)
    r.locals[t]? = some (finalDesign P ds[t]) ∧
    r.store[t]? = some (finalRow P ds[t]) ∧
    r.calls.count t = (if ds[t].state = St.evaluated then 0 else 1) := by
  intro r
  have hw := init_wf (B := Row) ds
  have hv := run_view (jobProg P) hw σ t
  rw [init_view ds t ht, hσ t ht, Option.map_some, (job_alone P ds[t]).1] at hv
  have hc := run_calls (jobProg P) hw σ t
  rw [init_view ds t ht, hσ t ht] at hc
  simp only [(job_alone P ds[t]).2] at hc
  have hwf := run_wf (jobProg P) hw σ
  obtain ⟨w1, w2, w3⟩ := hwf
  unfold view at hv
  have a1 : t < (run (jobProg P) σ (init ds)).locals.length := by omega
  have a2 : t < (run (jobProg P) σ (init ds)).store.length := by omega
  have a3 : t < (run (jobProg P) σ (init ds)).pc.length := by omega
  simp only [List.getElem?_eq_getElem a1, List.getElem?_eq_getElem a2, List.getElem?_eq_getElem a3,
    Option.some.injEq, Prod.mk.injEq] at hv
  refine ⟨?_, ?_, ?_⟩
  · show (run (jobProg P) σ (init ds)).locals[t]? = _
    rw [List.getElem?_eq_getElem a1, hv.1]
  · show (run (jobProg P) σ (init ds)).store[t]? = _
    rw [List.getElem?_eq_getElem a2, hv.2.1]
  · show (run (jobProg P) σ (init ds)).calls.count t = _
    rw [hc]; simp [init]

/-- The serial schedule is one of the complete schedules, so `parallel_fields` is a statement
about equality with serial evaluation. -/
theorem parallel_eq_serial (P : Prob) (ds : List Design) (σ : List Nat)
    (hσ : ∀ t, t < ds.length → σ.count t = 5) :
    let par := run (jobProg P) σ (init ds)
    let ser := run (jobProg P) (serialSchedule ds.length 5) (init ds)
    par.locals = ser.locals ∧ par.store = ser.store ∧ ∀ t, par.calls.count t = ser.calls.count t := by
  intro par ser
  have := schedule_independent (jobProg P) (init ds) ds.length (init_wf ds) σ (serialSchedule ds.length 5)
    (by intro t ht; rw [hσ t ht, count_serial]; simp [ht])
  exact ⟨this.1, this.2.1, this.2.2.2⟩

/-- No call is ever attributed to something that is not a design of the batch. -/
theorem no_stray_calls (P : Prob) (ds : List Design) (σ : List Nat) (t : Nat) (ht : ds.length ≤ t) :
    (run (jobProg P) σ (init ds)).calls.count t = 0 := by
  rw [run_calls (jobProg P) (init_wf ds) σ t, view_none_of_ge (init_wf ds) ht]
  simp [init]

/-! ## Non-vacuity: a concrete batch, problem and an interleaved complete schedule -/

def exP : Prob := { obj := fun v => 7 :: v, cons := fun _ => [], signs := [1], rnd := id }
def exBatch : List Design :=
  [ { vec := [1], state := St.empty, costs := [], signed := [], marker := false, feasible := none },
    { vec := [3], state := St.empty, costs := [], signed := [], marker := false, feasible := none } ]
def exSched : List Nat := [1, 0, 0, 1, 1, 0, 1, 0, 0, 1]

example : ∀ t, t < exBatch.length → exSched.count t = 5 := by decide
example : ((run (jobProg exP) exSched (init exBatch)).locals.map (·.costs)) = [[7, 1], [7, 3]] := by decide

end Artap.C07
