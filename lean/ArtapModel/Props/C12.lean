import ArtapModel.Proofs.Halton
import ArtapModel.Proofs.LhsComplete
/-!
# C12 — Space-filling samplers have their defining coverage structure

Property theorems only.  Model: `Model/Sampling.lean`; helper lemmas and the specification notions
(`InStratum`, `radicalInverse`, `levels`, `entry`) are in `Proofs/Sampling.lean`, `Proofs/Halton.lean`.

* `entry X i j`            – coordinate `j` of design `i` (`none` outside the matrix);
* `InStratum N lb ub s x`  – `lb + s·w ≤ x < lb + (s+1)·w`, `w = (ub − lb)/N` (the `s`-th of `N` equal-width strata);
* `radicalInverse b i`     – `Σ_k digit_k(i) / b^(k+1)` over `Nat.digits b i`.

The uniform draws and permutations of the Latin hypercube and the `random()` values of the random generator are
universally quantified inputs of the model (all seeds).
-/
namespace Artap.C12
open Artap.Sampling

/-! ## Latin hypercube -/

/-- **LHS is Latin.**  For every sample count `N ≥ 1`, bounds `lb < ub`, uniform draws in `[0,1)` and
permutations of `0..N−1`: the design has `N` rows, one coordinate per parameter, and for every parameter every one
of the `N` equal-width strata contains exactly one sample. -/
theorem lhs_latin {N : Nat} {bounds : List (Rat × Rat)} {u : List (List Rat)} {perms : List (List Nat)}
    {X : List (List Rat)} (hN : 1 ≤ N)
    (hb : ∀ b ∈ bounds, b.1 < b.2)
    (hu : ∀ row ∈ u, ∀ x ∈ row, 0 ≤ x ∧ x < 1)
    (hp : ∀ p ∈ perms, p.Perm (List.range N))
    (h : buildLhs N bounds u perms = some X) :
    X.length = N ∧ (∀ row ∈ X, row.length = bounds.length) ∧
    ∀ (j : Nat) (b : Rat × Rat), bounds[j]? = some b → ∀ s : Nat, s < N →
      ∃! i : Nat, ∃ x, entry X i j = some x ∧ InStratum N b.1 b.2 s x := by
  obtain ⟨h1, h2, h3⟩ := lhs_latin_aux hN hb hu hp h
  refine ⟨h1, h2, fun j b hjb s hs => ?_⟩
  obtain ⟨p, hp0, hiff⟩ := h3 j b hjb
  obtain ⟨i, hi, huniq⟩ := perm_unique_index (hp p (List.mem_of_getElem? hp0)) hs
  exact ⟨i, (hiff i s).mpr hi, fun i' hi' => huniq i' ((hiff i' s).mp hi')⟩

example : buildLhs 2 [(0, 1), (0, 2)] [[1/2, 1/2], [1/4, 1/4]] [[0, 1], [1, 0]]
    = some [[1/4, 5/4], [5/8, 1/2]] := by decide +kernel

/-- non-vacuity: all hypotheses of `lhs_latin` hold for this instance (2 samples, 2 parameters) -/
example : ∀ s : Nat, s < 2 → ∃! i : Nat, ∃ x, entry [[1/4, 5/4], [5/8, 1/2]] i 1 = some x ∧ InStratum 2 0 2 s x :=
  (lhs_latin (N := 2) (bounds := [(0, 1), (0, 2)]) (u := [[1/2, 1/2], [1/4, 1/4]]) (perms := [[0, 1], [1, 0]])
    (by decide) (by decide +kernel) (by decide +kernel) (by decide) (by decide +kernel)).2.2 1 (0, 2) rfl

/-- The sample of row `i` lies in the stratum the `j`-th permutation assigns to `i` (the draws only move it
inside that stratum). -/
theorem lhs_stratum_is_perm {N : Nat} {bounds : List (Rat × Rat)} {u : List (List Rat)} {perms : List (List Nat)}
    {X : List (List Rat)} (hN : 1 ≤ N)
    (hb : ∀ b ∈ bounds, b.1 < b.2)
    (hu : ∀ row ∈ u, ∀ x ∈ row, 0 ≤ x ∧ x < 1)
    (hp : ∀ p ∈ perms, p.Perm (List.range N))
    (h : buildLhs N bounds u perms = some X) (j : Nat) (b : Rat × Rat) (hjb : bounds[j]? = some b) :
    ∃ p, perms[j]? = some p ∧ ∀ i s : Nat,
      (∃ x, entry X i j = some x ∧ InStratum N b.1 b.2 s x) ↔ p[i]? = some s :=
  (lhs_latin_aux hN hb hu hp h).2.2 j b hjb

/-- **LHS completeness.**  Every Latin design (one sample per stratum in every parameter) is produced by the
model for some uniform draws in `[0,1)` and some permutations – the envelope "the model admits the observed
design" used by the correspondence check is therefore exactly the Latin check. -/
theorem lhs_complete {N : Nat} {bounds : List (Rat × Rat)} {X : List (List Rat)} (hN : 1 ≤ N)
    (hb : ∀ b ∈ bounds, b.1 < b.2)
    (hlen : X.length = N) (hdim : ∀ row ∈ X, row.length = bounds.length)
    (hlatin : ∀ (j : Nat) (b : Rat × Rat), bounds[j]? = some b → ∀ s : Nat, s < N →
      ∃! i : Nat, ∃ x, entry X i j = some x ∧ InStratum N b.1 b.2 s x) :
    ∃ (u : List (List Rat)) (perms : List (List Nat)),
      (∀ row ∈ u, ∀ x ∈ row, 0 ≤ x ∧ x < 1) ∧ (∀ p ∈ perms, p.Perm (List.range N)) ∧
      buildLhs N bounds u perms = some X :=
  ⟨uOf N bounds X, permsOf N bounds X, lhs_complete_aux hN hb ⟨hlen, hdim, hlatin⟩⟩

example : ∃ (u : List (List Rat)) (perms : List (List Nat)),
    (∀ row ∈ u, ∀ x ∈ row, 0 ≤ x ∧ x < 1) ∧ (∀ p ∈ perms, p.Perm (List.range 2)) ∧
    buildLhs 2 [(0, 1), (0, 2)] u perms = some [[1/4, 5/4], [5/8, 1/2]] :=
  lhs_complete (by decide) (by decide +kernel) rfl (by decide)
    ((isLatinDesign_iff' (by decide) (by decide +kernel)).mp (by decide +kernel)).2.2

/-- The affine map of `construct_df_from_random_matrix` preserves strata: `lb + w·|ub − lb|` lies in stratum `s`
of `[lb, ub]` iff `w` lies in stratum `s` of the unit interval. -/
theorem affine_strata {N s : Nat} {lb ub w : Rat} (hN : 1 ≤ N) (hb : lb < ub) :
    InStratum N lb ub s (affine lb ub w) ↔ (s : Rat) ≤ N * w ∧ (N : Rat) * w < s + 1 :=
  affine_inStratum hN hb

/-- A value in one of the `N` strata lies in `[lb, ub)`; with `lhs_latin` every LHS coordinate is in bounds. -/
theorem stratum_in_bounds {N s : Nat} {lb ub x : Rat} (hN : 1 ≤ N) (hb : lb < ub) (hs : s < N)
    (h : InStratum N lb ub s x) : lb ≤ x ∧ x < ub := inStratum_bounds hN hb hs h

/-- The executable stratum index used by the driver's Latin check is the stratum of `InStratum`. -/
theorem stratum_iff {N s : Nat} {lb ub x : Rat} (hN : 1 ≤ N) (hb : lb < ub) :
    stratum N lb ub x = (s : Int) ↔ InStratum N lb ub s x :=
  stratum_eq_iff hN hb

/-- The driver's executable check `isLatinDesign` (evaluated on the implementation's output by the correspondence
check) is exactly the conclusion of `lhs_latin`. -/
theorem isLatinDesign_iff {N : Nat} {bounds : List (Rat × Rat)} {X : List (List Rat)} (hN : 1 ≤ N)
    (hb : ∀ b ∈ bounds, b.1 < b.2) :
    isLatinDesign N bounds X = true ↔
      X.length = N ∧ (∀ row ∈ X, row.length = bounds.length) ∧
      ∀ (j : Nat) (b : Rat × Rat), bounds[j]? = some b → ∀ s : Nat, s < N →
        ∃! i : Nat, ∃ x, entry X i j = some x ∧ InStratum N b.1 b.2 s x :=
  isLatinDesign_iff' hN hb

example : isLatinDesign 2 [(0, 1), (0, 2)] [[1/4, 5/4], [5/8, 1/2]] = true := by decide +kernel
example : isLatinDesign 2 [(0, 1), (0, 2)] [[1/4, 5/4], [3/8, 1/2]] = false := by decide +kernel

/-! ## Halton -/

/-- The `while` loop of `_van_der_corput` computes the radical inverse (all bases `b ≥ 2`, all `i`). -/
theorem vdc_eq_radicalInverse {b : Nat} (hb : 2 ≤ b) (i : Nat) :
    vanDerCorput b i = some (radicalInverse b i) := by
  have : ¬ b < 2 := by omega
  simp only [vanDerCorput, this, if_false]
  rw [vdcLoop_eq hb i 1 0 one_ne_zero]; simp

example : vanDerCorput 2 6 = some (3/8) := by decide +kernel

/-- The radical inverse lies in `[0, 1)`. -/
theorem radicalInverse_mem_unit {b : Nat} (hb : 2 ≤ b) (i : Nat) :
    0 ≤ radicalInverse b i ∧ radicalInverse b i < 1 := radicalInverse_unit hb i

/-- The bases of `halton` are the first `dim` primes: `dim` of them, strictly increasing, all prime, and no
prime below one of them is missing. -/
theorem firstPrimes_spec {dim : Nat} {l : List Nat} (h : haltonBases dim = some l) :
    l.length = dim ∧ l.Pairwise (· < ·) ∧ (∀ p ∈ l, Nat.Prime p) ∧
    ∀ p ∈ l, ∀ q, Nat.Prime q → q < p → q ∈ l := haltonBases_spec h

example : haltonBases 6 = some [2, 3, 5, 7, 11, 13] := by decide +kernel

/-- The bases loop succeeds for up to 169 parameters (two rounds of the sieve: primes below 10, below 1010).
PARTIAL.  Full statement, not proved: `∀ dim, ∃ l, haltonBases dim = some l` – the loop of `halton` terminates
for every dimension; it needs the prime-counting bound `dim ≤ π(10 + 1000·dim)`.  For larger `dim` the model
answers `none` explicitly when its (artificial) fuel runs out, and `firstPrimes_spec`/`halton_point` are stated
for the successful case; the correspondence check exercises 175 and (thorough) up to 200 parameters. -/
theorem haltonBases_defined_partial {dim : Nat} (h : dim ≤ 169) : ∃ l, haltonBases dim = some l :=
  haltonBases_defined_169 h

/-- **Halton point.**  The `(i+1)`-th point (`i` 0-based: the burn-in point of index 0 is dropped) has, for the
`j`-th parameter, the radical inverse of `i+1` in the `j`-th prime, scaled to the bounds; `N` points, one
coordinate per parameter. -/
theorem halton_point {N : Nat} {bounds : List (Rat × Rat)} {X : List (List Rat)}
    (h : buildHalton N bounds = some X) :
    ∃ base, haltonBases bounds.length = some base ∧ X.length = N ∧
      (∀ row ∈ X, row.length = bounds.length) ∧
      ∀ (i j p : Nat) (b : Rat × Rat), i < N → base[j]? = some p → bounds[j]? = some b →
        entry X i j = some (b.1 + radicalInverse p (i + 1) * |b.2 - b.1|) := by
  obtain ⟨base, h1, _, h3, h4, h5⟩ := buildHalton_spec h
  exact ⟨base, h1, h3, h4, h5⟩

example : buildHalton 3 [(-5/2, 5), (1, 17/5), (6, 10)]
    = some [[5/4, 9/5, 34/5], [-5/8, 13/5, 38/5], [25/8, 19/15, 42/5]] := by
  decide +kernel

/-- Every Halton coordinate lies inside its parameter's bounds. -/
theorem halton_in_bounds {N : Nat} {bounds : List (Rat × Rat)} {X : List (List Rat)}
    (h : buildHalton N bounds = some X) (hb : ∀ b ∈ bounds, b.1 ≤ b.2)
    {i j : Nat} {b : Rat × Rat} (hi : i < N) (hjb : bounds[j]? = some b) :
    ∃ x, entry X i j = some x ∧ b.1 ≤ x ∧ x ≤ b.2 := by
  obtain ⟨base, h1, _, _, _, h5⟩ := buildHalton_spec h
  obtain ⟨blen, _, hprime, _⟩ := haltonBases_spec h1
  have hj : j < base.length := by rw [blen]; exact (List.getElem?_eq_some_iff.mp hjb).1
  have hp2 : 2 ≤ base[j] := (hprime _ (List.getElem_mem hj)).two_le
  obtain ⟨r0, r1⟩ := radicalInverse_unit hp2 (i + 1)
  have hle := hb b (List.mem_of_getElem? hjb)
  refine ⟨_, h5 i j base[j] b hi (List.getElem?_eq_getElem hj) hjb, ?_, ?_⟩
  · have := mul_nonneg r0 (abs_nonneg (b.2 - b.1)); linarith
  · rw [abs_of_nonneg (by linarith)]
    nlinarith

/-! ## Uniform grid -/

/-- One level raises (`ZeroDivisionError`), every other level count succeeds. -/
theorem grid_raises_iff (lb ub : Rat) (k : Nat) : gridLevels lb ub k = none ↔ k = 1 := by
  constructor
  · intro h
    by_contra hk
    rw [gridLevels_eq hk] at h
    cases h
  · rintro rfl; exact gridLevels_none lb ub

/-- `k ≥ 2` levels: the first is the lower bound, the last is the upper bound. -/
theorem grid_endpoints {lb ub : Rat} {k : Nat} {l : List Rat} (hk : 2 ≤ k) (h : gridLevels lb ub k = some l) :
    l.length = k ∧ l[0]? = some lb ∧ l[k - 1]? = some ub := by
  rw [gridLevels_eq (by omega)] at h
  cases Option.some.inj h
  refine ⟨levels_length lb ub k, ?_, levels_last hk⟩
  rw [levels_get (by omega)]; simp

/-- The levels are equally spaced: level `i` is `lb + i·(ub − lb)/(k − 1)`; consecutive levels differ by
`(ub − lb)/(k − 1)`; for `lb < ub` they are strictly increasing. -/
theorem grid_equally_spaced {lb ub : Rat} {k : Nat} {l : List Rat} (hk : 2 ≤ k) (h : gridLevels lb ub k = some l) :
    (∀ i : Nat, i < k → l[i]? = some (lb + (i : Rat) * ((ub - lb) / ((k : Rat) - 1)))) ∧
    (∀ (i : Nat) (x y : Rat), l[i]? = some x → l[i + 1]? = some y → y - x = (ub - lb) / ((k : Rat) - 1)) ∧
    (lb < ub → l.Pairwise (· < ·)) := by
  rw [gridLevels_eq (by omega)] at h
  cases Option.some.inj h
  refine ⟨fun i hi => levels_get hi, ?_, levels_sorted hk⟩
  intro i x y hx hy
  have hi1 : i + 1 < k := by
    have := (List.getElem?_eq_some_iff.mp hy).1
    rwa [levels_length] at this
  rw [levels_get (by omega)] at hx
  rw [levels_get hi1] at hy
  cases Option.some.inj hx
  cases Option.some.inj hy
  push_cast
  ring

example : gridLevels (-5/2) 5 4 = some [-5/2, 0, 5/2, 5] := by decide +kernel

/-- **Full grid.**  For `k ≥ 2` the generator returns `k^n` rows; a row is returned iff each of its coordinates
is one of the `k` levels of its parameter (so every combination of levels occurs, and every row has one
coordinate per parameter); for `lb < ub` no combination occurs twice. -/
theorem grid_full {bounds : List (Rat × Rat)} {k : Nat} {G : List (List Rat)} (hk : 2 ≤ k)
    (h : uniformGrid bounds k = some G) :
    G.length = k ^ bounds.length ∧
    (∀ row, row ∈ G ↔ List.Forall₂
      (fun x b => ∃ i : Nat, i < k ∧ x = b.1 + (i : Rat) * ((b.2 - b.1) / ((k : Rat) - 1))) row bounds) ∧
    ((∀ b ∈ bounds, b.1 < b.2) → G.Nodup) := by
  rw [uniformGrid_eq (by omega)] at h
  cases Option.some.inj h
  refine ⟨?_, ?_, ?_⟩
  · rw [length_product, List.map_map]
    have : (List.length ∘ fun b : Rat × Rat => levels b.1 b.2 k) = fun _ => k := by
      funext b; simp [levels_length]
    rw [this, List.map_const', List.prod_replicate]
  · intro row
    rw [mem_product, List.forall₂_map_right_iff]
    simp only [mem_levels]
  · intro hb
    apply nodup_product
    intro l hl
    obtain ⟨b, hbm, rfl⟩ := List.mem_map.mp hl
    exact (levels_sorted hk (hb b hbm)).imp fun h => ne_of_lt h

theorem grid_dim {bounds : List (Rat × Rat)} {k : Nat} {G : List (List Rat)} (hk : 2 ≤ k)
    (h : uniformGrid bounds k = some G) : ∀ row ∈ G, row.length = bounds.length := by
  intro row hrow
  exact ((grid_full hk h).2.1 row).mp hrow |>.length_eq

example : uniformGrid [(0, 1), (2, 4)] 3
    = some [[0, 2], [0, 3], [0, 4], [1/2, 2], [1/2, 3], [1/2, 4], [1, 2], [1, 3], [1, 4]] := by decide +kernel

/-! ## Random generator -/

/-- `gen_number` stays within half a precision step of the box (any positive precision). -/
theorem genNumber_bounds {lb ub prec u : Rat} (hp : 0 < prec) (hlu : lb ≤ ub) (h0 : 0 ≤ u) (h1 : u < 1) :
    lb - prec / 2 ≤ genNumber lb ub prec u ∧ genNumber lb ub prec u ≤ ub + prec / 2 :=
  genNumber_near hp hlu h0 h1.le

/-- When the bounds are multiples of the precision, `gen_number` is exactly inside the box. -/
theorem genNumber_bounds_grid {lb ub prec u : Rat} {a c : Int} (hp : 0 < prec) (ha : lb = a * prec)
    (hc : ub = c * prec) (hlu : lb ≤ ub) (h0 : 0 ≤ u) (h1 : u < 1) :
    lb ≤ genNumber lb ub prec u ∧ genNumber lb ub prec u ≤ ub :=
  genNumber_mem_grid hp ha hc hlu h0 h1.le

example : genNumber 0 1 (1/4) (3/8) = 1/2 := by decide +kernel

/-- **Random generator.**  Exactly `N` designs, one coordinate per parameter, every coordinate within half a
precision step of its bounds, for all `random()` values in `[0,1)`. -/
theorem random_count_bounds {N : Nat} {params : List (Rat × Rat × Rat)} {draws : List (List Rat)}
    {X : List (List Rat)}
    (hpar : ∀ p ∈ params, p.1 ≤ p.2.1 ∧ 0 < p.2.2)
    (hu : ∀ us ∈ draws, ∀ u ∈ us, 0 ≤ u ∧ u < 1)
    (h : randomDesigns N params draws = some X) :
    X.length = N ∧ ∀ row ∈ X, row.length = params.length ∧
      List.Forall₂ (fun x p => p.1 - p.2.2 / 2 ≤ x ∧ x ≤ p.2.1 + p.2.2 / 2) row params := by
  obtain ⟨h1, h2⟩ := randomDesigns_spec h
  refine ⟨h1, fun row hrow => ?_⟩
  obtain ⟨us, hus, hg⟩ := h2 row hrow
  have hf := genVector_spec hg
  refine ⟨hf.length_eq, ?_⟩
  have hmem := List.forall₂_iff_zip.mp hf
  refine List.forall₂_iff_zip.mpr ⟨hmem.1, fun {x p} hz => ?_⟩
  obtain ⟨u, huu, rfl⟩ := hmem.2 hz
  obtain ⟨hle, hpos⟩ := hpar p (List.of_mem_zip hz).2
  obtain ⟨u0, u1⟩ := hu us hus u huu
  exact genNumber_near hpos hle u0 u1.le

/-- With bounds on the precision grid all designs are exactly in bounds. -/
theorem random_in_bounds {N : Nat} {params : List (Rat × Rat × Rat)} {draws : List (List Rat)}
    {X : List (List Rat)}
    (hpar : ∀ p ∈ params, p.1 ≤ p.2.1 ∧ 0 < p.2.2 ∧ ∃ a c : Int, p.1 = a * p.2.2 ∧ p.2.1 = c * p.2.2)
    (hu : ∀ us ∈ draws, ∀ u ∈ us, 0 ≤ u ∧ u < 1)
    (h : randomDesigns N params draws = some X) :
    X.length = N ∧ ∀ row ∈ X, List.Forall₂ (fun x p => p.1 ≤ x ∧ x ≤ p.2.1) row params := by
  obtain ⟨h1, h2⟩ := randomDesigns_spec h
  refine ⟨h1, fun row hrow => ?_⟩
  obtain ⟨us, hus, hg⟩ := h2 row hrow
  have hf := genVector_spec hg
  have hmem := List.forall₂_iff_zip.mp hf
  refine List.forall₂_iff_zip.mpr ⟨hmem.1, fun {x p} hz => ?_⟩
  obtain ⟨u, huu, rfl⟩ := hmem.2 hz
  obtain ⟨hle, hpos, a, c, ha, hc⟩ := hpar p (List.of_mem_zip hz).2
  obtain ⟨u0, u1⟩ := hu us hus u huu
  exact genNumber_mem_grid hpos ha hc hle u0 u1.le

example : randomDesigns 2 [(0, 1, 1/4), (0, 2, 1/2)] [[1/8, 1/2], [3/8, 99/100]]
    = some [[0, 1], [1/2, 2]] := by decide +kernel

end Artap.C12
