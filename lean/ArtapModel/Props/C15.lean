import ArtapModel.Proofs.Bench
import ArtapModel.Proofs.SixHump
import ArtapModel.Proofs.BenchNumeric
/-!
# C15 — single-objective benchmarks: optimum where and as documented (theorems over ℝ)

The formulas are the polymorphic definitions of `Model/Bench.lean` (the very terms the driver runs on
`Float` against the implementation), read in `Num ℝ`.  For each of the fifteen families Sphere … XinSheYang3,
SixHump and **every dimension `n`** (SixHump: two parameters):

* `F_at_opt` – the value at the documented coordinates is the documented optimum,
* `F_bound`  – no point at all (in particular no point of the box) has a smaller value.

Guards are explicit, never totalisation: `1 ≤ n` / `xs ≠ []` where the code divides by the dimension
(Ackley) or takes `1/√n` (EqualityConstr).  `table_at_opt` / `table_bound` restate the two clauses
through the model's table (`optCoords`, `optimum`, `eval`), i.e. with exactly the constants the
harness compares with the implementation's `global_optimum`, `global_optimum_coords`.

SixHump's documented constants are rounded (−1.0316 at (0.0898, −0.7126); true minimum −1.0316284535), so both of
its clauses are stated to the documented precision: `sixHump_at_opt` (`|f(documented coordinates) − documented
optimum| ≤ 10⁻³`) and `sixHump_bound` (`documented optimum − 10⁻³ ≤ f` at **every** real point; weighted AM–GM on
the cross term with a different rational weight on three regions of `x²`, see `Proofs/SixHump.lean`).  It is not a
member of `provedFamilies` (whose `table_at_opt` is an exact equality); `sixHump_table_at_opt` /
`sixHump_table_bound` restate its two clauses through the table.

Numeric clauses proved late (section of that name below; `Proofs/BenchNumeric.lean`), all to the documented
precision 10⁻³ and with restatements through the table (`…_table_at_opt` / `…_table_bound`):
* GramacyLee: `gramacyLee_at_opt` (periodicity + `Real.cos_bound`, π to four decimals) and `gramacyLee_bound`
  (three regions of `x`: `sin u ≤ u` / Taylor bound of `cos` / `sin ≥ −1`, then polynomial inequalities);
* Synthetic2D, Synthetic1D (maximised): `synthetic2D_at_opt`, `synthetic2D_bound`, `synthetic1D_at_opt`,
  `synthetic1D_bound` – the bounds hold at **every** real point, by verified interval arithmetic for `exp`
  (Taylor partial sums as rational lower bounds of `exp t`) on a bisection tree of 63 rectangles / 68 intervals;
* Synthetic5D, Synthetic10D (maximised): `synthetic5D_at_opt`, `synthetic5D_bound`, `synthetic10D_at_opt`,
  `synthetic10D_bound` – for every point with 5 / 10 real coordinates: the ten centres are pairwise so far apart
  that at most one Gaussian is not negligible;
* value clause only: `michalewicz_at_opt` (n = 2, the only dimension with documented coordinates) and
  `schwefel_at_opt` (every n ≤ 1000).
That makes 20 of 23 families with both clauses proved.  The `…_partial` value clauses of the four synthetic families
are kept under their old names next to the full-strength ones.

Not proved here (tested by dense search on the implementation — see `harness/c15.py`): the bound clause of
Schwefel and Michalewicz (2, 5, 10) and both clauses of Schubert (no coordinates are documented, so its value
clause would be "some point of the box comes within 10⁻³ of −186.7309"); they need verified interval arithmetic for
`sin`/`cos` of large arguments on boxes in up to 30 dimensions.
Full statements kept for the record:
  -- theorem schwefel_bound (xs) (h : ∀ c ∈ xs, -500 ≤ c ∧ c ≤ 500) : 0 - 1e-3 ≤ schwefel xs          (n ≤ 30)
  -- theorem michalewicz_bound n ∈ {2,5,10}, xs ∈ [0,π]^n : opt n - 1e-3 ≤ michalewicz xs
  -- theorem schubert_bound (x y ∈ [-10,10]) : -186.7309 - 1e-3 ≤ schubert x y
  -- theorem schubert_attained : ∃ x y ∈ [-10,10], |schubert x y - (-186.7309)| ≤ 1e-3
-/
namespace Artap.C15
open Artap Artap.Bench

/-! ## Sphere -/
theorem sphere_at_opt (n : ℕ) : sphere (List.replicate n (0 : ℝ)) = 0 := sphere_zero n
theorem sphere_bound (xs : List ℝ) : 0 ≤ sphere xs := sphere_nonneg xs
example : sphere ([1, 2] : List ℝ) = 5 := by
  simp [sphere, sumFrom, List.zipIdx]; norm_num

/-! ## Booth -/
theorem booth_at_opt : booth (1 : ℝ) 3 = 0 := booth_opt
theorem booth_bound (x y : ℝ) : 0 ≤ booth x y := booth_nonneg x y
example : booth (0 : ℝ) 0 = 74 := by
  simp [booth]; norm_num

/-! ## Rosenbrock -/
theorem rosenbrock_at_opt (n : ℕ) : rosenbrock (List.replicate n (1 : ℝ)) = 0 := rosenbrock_one n
theorem rosenbrock_bound (xs : List ℝ) : 0 ≤ rosenbrock xs := rosenbrock_nonneg xs
example : rosenbrock ([0, 0] : List ℝ) = 1 := by
  simp [rosenbrock]

/-! ## Zakharov -/
theorem zakharov_at_opt (n : ℕ) : zakharov (List.replicate n (0 : ℝ)) = 0 := zakharov_zero n
theorem zakharov_bound (xs : List ℝ) : 0 ≤ zakharov xs := zakharov_nonneg xs

/-! ## Rastrigin -/
theorem rastrigin_at_opt (n : ℕ) : rastrigin (List.replicate n (0 : ℝ)) = 0 := rastrigin_zero n
theorem rastrigin_bound (xs : List ℝ) : 0 ≤ rastrigin xs := rastrigin_nonneg xs

/-! ## Griewank -/
theorem griewank_at_opt (n : ℕ) : griewank (List.replicate n (0 : ℝ)) = 0 := griewank_zero n
theorem griewank_bound (xs : List ℝ) : 0 ≤ griewank xs := griewank_nonneg xs

/-! ## Alpine -/
theorem alpine_at_opt (n : ℕ) : alpine (List.replicate n (0 : ℝ)) = 0 := alpine_zero n
theorem alpine_bound (xs : List ℝ) : 0 ≤ alpine xs := alpine_nonneg xs

/-! ## Ackley (divides by the dimension: `1 ≤ n`) -/
theorem ackley_at_opt (n : ℕ) (hn : 1 ≤ n) : ackley (List.replicate n (0 : ℝ)) = 0 := ackley_zero n hn
theorem ackley_bound (xs : List ℝ) (hne : xs ≠ []) : 0 ≤ ackley xs := ackley_nonneg xs hne
example : ([1] : List ℝ) ≠ [] := by simp

/-! ## ModifiedEasom (as repaired by e193300) -/
theorem modifiedEasom_at_opt (n : ℕ) : modifiedEasom (List.replicate n Real.pi) = -1 := modifiedEasom_pi n
theorem modifiedEasom_bound (xs : List ℝ) : -1 ≤ modifiedEasom xs := modifiedEasom_ge xs

/-! ## EqualityConstr (as repaired by 5820b59); bound by AM–GM -/
theorem equalityConstr_at_opt (n : ℕ) (hn : 1 ≤ n) :
    equalityConstr (List.replicate n (1 / √(n : ℝ))) = -1 := equalityConstr_opt n hn
/-- on the constraint `Σx² = 1` nothing is below the documented minimum -/
theorem equalityConstr_bound_on_constraint (xs : List ℝ) (h1 : (xs.map (fun c => c * c)).sum = 1) :
    -1 ≤ equalityConstr xs := equalityConstr_ge_on_sphere xs h1
/-- everywhere: the `abs(Σx² − 1) < 1e-9` band of the code scales the bound by at most `(1+1e-9)^{n/2}` -/
theorem equalityConstr_bound (xs : List ℝ) :
    -√((1 + 1 / 1000000000) ^ xs.length) ≤ equalityConstr xs := equalityConstr_ge xs
/-- … which stays within the documented precision 10⁻³ for every dimension up to 10⁶ -/
theorem equalityConstr_bound_tol (xs : List ℝ) (hn : xs.length ≤ 1000000) :
    -1 - 1 / 1000 ≤ equalityConstr xs := equalityConstr_ge_tol xs hn
example : (([3 / 5, 4 / 5] : List ℝ).map (fun c => c * c)).sum = 1 := by norm_num

/-! ## Perm -/
theorem perm_at_opt (n : ℕ) : perm (harmonic n : List ℝ) = 0 := perm_harmonic n
theorem perm_bound (xs : List ℝ) : 0 ≤ perm xs := perm_nonneg xs

/-! ## Xin-She-Yang 1, 2 (the code's loops assign: only the last coordinate counts) -/
theorem xinSheYang1_at_opt (n : ℕ) : xinSheYang1 (List.replicate n (0 : ℝ)) = 0 := xinSheYang1_zero n
theorem xinSheYang1_bound (xs : List ℝ) : 0 ≤ xinSheYang1 xs := xinSheYang1_nonneg xs
theorem xinSheYang2_at_opt (n : ℕ) : xinSheYang2 (List.replicate n (0 : ℝ)) = -1 := xinSheYang2_zero n
theorem xinSheYang2_bound (xs : List ℝ) : -1 ≤ xinSheYang2 xs := xinSheYang2_ge xs

/-! ## Xin-She-Yang 3 (randomised): clause by clause for **every** draw -/
/-- at the documented coordinates the value is 0 whatever the draws are -/
theorem xinSheYang3_at_opt (eps : List ℝ) (n : ℕ) : xinSheYang3 eps (harmonic n : List ℝ) = 0 :=
  xinSheYang3_harmonic eps n
/-- non-negative draws (`uniform(0,1)`) never give a value below the documented minimum 0 -/
theorem xinSheYang3_bound (eps xs : List ℝ) (he : ∀ e ∈ eps, 0 ≤ e) : 0 ≤ xinSheYang3 eps xs :=
  xinSheYang3_nonneg eps xs he
/-- envelope used by the harness when the draws cannot be observed: draws ≤ 1 give at most the value
with every draw replaced by 1 -/
theorem xinSheYang3_envelope (eps xs : List ℝ) (he : ∀ e ∈ eps, e ≤ 1) :
    xinSheYang3 eps xs ≤ xinSheYang3 (List.replicate eps.length 1) xs := xinSheYang3_le eps xs he
example : ∀ e ∈ ([1 / 2, 0, 1] : List ℝ), 0 ≤ e ∧ e ≤ 1 := by
  intro e he; simp at he; rcases he with rfl | rfl | rfl <;> norm_num

/-! ## Six-hump camel back: both clauses to the documented precision 10⁻³ -/
/-- value clause: `|f(0.0898, −0.7126) − (−1.0316)| ≤ 10⁻³` -/
theorem sixHump_at_opt :
    |sixHump (898 / 10000 : ℝ) (-(7126 / 10000)) - (-(10316 / 10000))| ≤ 1 / 1000 := sixHump_documented
/-- bound clause: no real point at all (in particular no point of the box `[−3,3]×[−2,2]`) has a value below
the documented optimum −1.0316 by more than 10⁻³ -/
theorem sixHump_bound (x y : ℝ) : -(10316 / 10000 : ℝ) - 1 / 1000 ≤ sixHump x y := sixHump_ge x y
/-- the bound is tight to within 10⁻³: the documented point comes that close -/
example : sixHump (898 / 10000 : ℝ) (-(7126 / 10000)) ≤ -(10316 / 10000) + 1 / 1000 := by
  have h := abs_le.1 sixHump_documented
  linarith [h.2]
/-- the same two clauses through the model's table (`optCoords`, `optimum`, `eval`) -/
theorem sixHump_table_at_opt (n : ℕ) (cs : List ℝ) (o : ℝ) (hc : optCoords .sixHump n = some cs)
    (ho : optimum .sixHump n = some o) : ∃ v : ℝ, eval .sixHump cs = some v ∧ |v - o| ≤ 1 / 1000 := by
  simp only [optCoords, optimum, Option.some.injEq] at hc ho
  subst hc; subst ho
  refine ⟨_, rfl, ?_⟩
  have := sixHump_documented
  simpa using this
theorem sixHump_table_bound (n : ℕ) (xs : List ℝ) (o v : ℝ) (ho : optimum .sixHump n = some o)
    (hv : eval .sixHump xs = some v) : o - 1 / 1000 ≤ v := by
  simp only [optimum, Option.some.injEq] at ho; subst ho
  match xs, hv with
  | x :: y :: _, hv =>
    simp only [eval, Option.some.injEq] at hv; subst hv
    have := sixHump_ge x y
    simp only [real_neg, rat_real]; push_cast; linarith
example : eval .sixHump ([0, 0] : List ℝ) = some (sixHump 0 0) ∧
    optimum .sixHump 2 = some (Num.neg (rat (10316 / 10000)) : ℝ) := ⟨rfl, rfl⟩

/-! ## Synthetic 1D / 2D / 5D / 10D (maximised): value clause under the old `…_partial` names (bound clauses: late section) -/
/-- `|f(11) − 3.23| ≤ 10⁻³` (`exp(−9/2)`, `exp(−50/9)` from Taylor bounds, twelve tails below `2⁻¹⁸`) -/
theorem synthetic1D_at_opt_partial : |synthetic1D (11 : ℝ) - 323 / 100| ≤ 1 / 1000 := synthetic1D_documented
/-- `|f(3, 4) − 1.21112| ≤ 10⁻³` -/
theorem synthetic2D_at_opt_partial : |synthetic2D (3 : ℝ) 4 - 121112 / 100000| ≤ 1 / 1000 := synthetic2D_documented
/-- at the documented coordinates the ten Gaussians sum to `1.2` within `10⁻³` -/
theorem synthetic5D_at_opt_partial :
    ∃ v : ℝ, eval .synthetic5D [nat 3, nat 4, rat (13/10), nat 5, nat 5] = some v ∧ |v - 12 / 10| ≤ 1 / 1000 :=
  synthetic5D_documented
theorem synthetic10D_at_opt_partial :
    ∃ v : ℝ, eval .synthetic10D [nat 3, nat 4, rat (13/10), nat 5, nat 5, nat 3, nat 4, rat (13/10), nat 5, nat 5]
      = some v ∧ |v - 12 / 10| ≤ 1 / 1000 :=
  synthetic10D_documented
example : optCoords .synthetic5D 5 = some ([nat 3, nat 4, rat (13/10), nat 5, nat 5] : List ℝ) ∧
    optimum .synthetic5D 5 = some (rat (12/10) : ℝ) ∧ minimised .synthetic5D = false := ⟨rfl, rfl, rfl⟩

/-! ## Numeric clauses proved late (`Proofs/BenchNumeric.lean`: periodicity reduction, Taylor enclosures of
`sin`/`cos`/`exp` with explicit rational bounds for π) -/

/-! ### GramacyLee: both clauses to the documented precision 10⁻³ -/
/-- value clause: `|f(0.548563444114526) − (−0.8690111349895)| ≤ 10⁻³` (the proof gives 2·10⁻⁵) -/
theorem gramacyLee_at_opt :
    |gramacyLee (548563444114526 / 1000000000000000 : ℝ) - (-(869011134989500 / 1000000000000000))| ≤ 1 / 1000 :=
  gramacyLee_documented
/-- bound clause: no point of the box `[0.5, 2.5]` has a value below the documented optimum by more than 10⁻³
(only `1/2 ≤ x` is used) -/
theorem gramacyLee_bound (x : ℝ) (h : 1 / 2 ≤ x ∧ x ≤ 5 / 2) :
    -(869011134989500 / 1000000000000000 : ℝ) - 1 / 1000 ≤ gramacyLee x := gramacyLee_ge x h.1

/-- the same two clauses through the model's table (`optCoords`, `optimum`, `box`, `eval`) -/
theorem gramacyLee_table_at_opt (n : ℕ) (cs : List ℝ) (o : ℝ) (hc : optCoords .gramacyLee n = some cs)
    (ho : optimum .gramacyLee n = some o) : ∃ v : ℝ, eval .gramacyLee cs = some v ∧ |v - o| ≤ 1 / 1000 := by
  simp only [optCoords, optimum, Option.some.injEq] at hc ho
  subst hc; subst ho
  refine ⟨_, rfl, ?_⟩
  have := gramacyLee_documented
  simpa using this

theorem gramacyLee_table_bound (n : ℕ) (xs : List ℝ) (o v : ℝ) (ho : optimum .gramacyLee n = some o)
    (hbox : List.Forall₂ (fun x (b : ℝ × ℝ) => b.1 ≤ x ∧ x ≤ b.2) xs (box .gramacyLee n))
    (hv : eval .gramacyLee xs = some v) : o - 1 / 1000 ≤ v := by
  simp only [optimum, Option.some.injEq] at ho; subst ho
  match xs, hbox, hv with
  | x :: _, hbox, hv =>
    simp only [eval, Option.some.injEq] at hv; subst hv
    simp only [box, List.forall₂_cons] at hbox
    have h1 : (1 / 2 : ℝ) ≤ x := by
      have := hbox.1.1
      simpa using this
    have := gramacyLee_ge x h1
    simp only [real_neg, rat_real]; push_cast; linarith
example : List.Forall₂ (fun x (b : ℝ × ℝ) => b.1 ≤ x ∧ x ≤ b.2) ([1] : List ℝ) (box .gramacyLee 1) := by
  simp [box]; norm_num

/-! ### Synthetic2D, Synthetic1D (maximised): both clauses to the documented precision 10⁻³ -/
/-- value clause (the statement of `synthetic2D_at_opt_partial`, no longer partial: the bound clause follows) -/
theorem synthetic2D_at_opt : |synthetic2D (3 : ℝ) 4 - 121112 / 100000| ≤ 1 / 1000 := synthetic2D_documented
/-- bound clause: no real point at all (in particular no point of the box `[0,5]²`) has a value above the
documented maximum 1.21112 by more than 10⁻³ (verified interval arithmetic on 63 rectangles) -/
theorem synthetic2D_bound (x y : ℝ) : synthetic2D x y ≤ 121112 / 100000 + 1 / 1000 := synthetic2D_le x y
/-- value clause (the statement of `synthetic1D_at_opt_partial`) -/
theorem synthetic1D_at_opt : |synthetic1D (11 : ℝ) - 323 / 100| ≤ 1 / 1000 := synthetic1D_documented
/-- bound clause: no real point at all (in particular no point of the box `[0,12]`) has a value above the
documented maximum 3.23 by more than 10⁻³ (verified interval arithmetic on 68 intervals) -/
theorem synthetic1D_bound (x : ℝ) : synthetic1D x ≤ 323 / 100 + 1 / 1000 := synthetic1D_le x
/-- the bounds are tight to within 2·10⁻³: the documented points come that close -/
example : 121112 / 100000 - 1 / 1000 ≤ synthetic2D (3 : ℝ) 4 ∧ 323 / 100 - 1 / 1000 ≤ synthetic1D (11 : ℝ) := by
  have h2 := abs_le.1 synthetic2D_documented
  have h1 := abs_le.1 synthetic1D_documented
  constructor <;> linarith [h2.1, h1.1]
/-- the same clauses through the model's table (`optCoords`, `optimum`, `eval`; both families are maximised) -/
theorem synthetic2D_table_at_opt (n : ℕ) (cs : List ℝ) (o : ℝ) (hc : optCoords .synthetic2D n = some cs)
    (ho : optimum .synthetic2D n = some o) : ∃ v : ℝ, eval .synthetic2D cs = some v ∧ |v - o| ≤ 1 / 1000 := by
  simp only [optCoords, optimum, Option.some.injEq] at hc ho
  subst hc; subst ho
  refine ⟨_, rfl, ?_⟩
  have := synthetic2D_documented
  simpa using this
theorem synthetic2D_table_bound (n : ℕ) (xs : List ℝ) (o v : ℝ) (ho : optimum .synthetic2D n = some o)
    (hv : eval .synthetic2D xs = some v) : v ≤ o + 1 / 1000 ∧ minimised .synthetic2D = false := by
  simp only [optimum, Option.some.injEq] at ho; subst ho
  match xs, hv with
  | x :: y :: _, hv =>
    simp only [eval, Option.some.injEq] at hv; subst hv
    have := synthetic2D_le x y
    refine ⟨?_, rfl⟩
    simp only [rat_real]; push_cast; linarith
theorem synthetic1D_table_at_opt (n : ℕ) (cs : List ℝ) (o : ℝ) (hc : optCoords .synthetic1D n = some cs)
    (ho : optimum .synthetic1D n = some o) : ∃ v : ℝ, eval .synthetic1D cs = some v ∧ |v - o| ≤ 1 / 1000 := by
  simp only [optCoords, optimum, Option.some.injEq] at hc ho
  subst hc; subst ho
  refine ⟨_, rfl, ?_⟩
  have := synthetic1D_documented
  simpa using this
theorem synthetic1D_table_bound (n : ℕ) (xs : List ℝ) (o v : ℝ) (ho : optimum .synthetic1D n = some o)
    (hv : eval .synthetic1D xs = some v) : v ≤ o + 1 / 1000 ∧ minimised .synthetic1D = false := by
  simp only [optimum, Option.some.injEq] at ho; subst ho
  match xs, hv with
  | x :: _, hv =>
    simp only [eval, Option.some.injEq] at hv; subst hv
    have := synthetic1D_le x
    refine ⟨?_, rfl⟩
    simp only [rat_real]; push_cast; linarith
example : eval .synthetic2D ([0, 0] : List ℝ) = some (synthetic2D 0 0) ∧
    optimum .synthetic2D 2 = some (rat (121112 / 100000) : ℝ) ∧
    eval .synthetic1D ([5] : List ℝ) = some (synthetic1D 5) ∧ optimum .synthetic1D 1 = some (rat (323 / 100) : ℝ) :=
  ⟨rfl, rfl, rfl, rfl⟩

/-! ### Synthetic5D, Synthetic10D (maximised): both clauses to the documented precision 10⁻³ -/
/-- value clause (the statement of `synthetic5D_at_opt_partial`) -/
theorem synthetic5D_at_opt :
    ∃ v : ℝ, eval .synthetic5D [nat 3, nat 4, rat (13/10), nat 5, nat 5] = some v ∧ |v - 12 / 10| ≤ 1 / 1000 :=
  synthetic5D_documented
/-- bound clause: no point with five real coordinates (in particular no point of the box `[0,5]⁵`) has a value
above the documented maximum 1.2 by more than 10⁻³.  The length hypothesis is needed: the code (and the model) zip
the point with the centres, so a shorter vector sees fewer squared distances (`eval .synthetic5D [] = some 6.45`). -/
theorem synthetic5D_bound (xs : List ℝ) (hlen : xs.length = 5) (v : ℝ) (hv : eval .synthetic5D xs = some v) :
    v ≤ 12 / 10 + 1 / 1000 := by
  match xs, hlen, hv with
  | [x1, x2, x3, x4, x5], _, hv => exact syn5_le x1 x2 x3 x4 x5 v hv
theorem synthetic10D_at_opt :
    ∃ v : ℝ, eval .synthetic10D [nat 3, nat 4, rat (13/10), nat 5, nat 5, nat 3, nat 4, rat (13/10), nat 5, nat 5]
      = some v ∧ |v - 12 / 10| ≤ 1 / 1000 :=
  synthetic10D_documented
theorem synthetic10D_bound (xs : List ℝ) (hlen : xs.length = 10) (v : ℝ) (hv : eval .synthetic10D xs = some v) :
    v ≤ 12 / 10 + 1 / 1000 := by
  match xs, hlen, hv with
  | [x1, x2, x3, x4, x5, x6, x7, x8, x9, x10], _, hv => exact syn10_le x1 x2 x3 x4 x5 x6 x7 x8 x9 x10 v hv
/-- through the table: every point of the declared box has the right number of coordinates -/
theorem synthetic5D_table_bound (n : ℕ) (xs : List ℝ) (o v : ℝ) (ho : optimum .synthetic5D n = some o)
    (hbox : List.Forall₂ (fun x (b : ℝ × ℝ) => b.1 ≤ x ∧ x ≤ b.2) xs (box .synthetic5D n))
    (hv : eval .synthetic5D xs = some v) : v ≤ o + 1 / 1000 := by
  simp only [optimum, Option.some.injEq] at ho; subst ho
  have hlen : xs.length = 5 := by
    have := hbox.length_eq
    simpa [box] using this
  have := synthetic5D_bound xs hlen v hv
  simp only [rat_real]; push_cast; linarith
theorem synthetic10D_table_bound (n : ℕ) (xs : List ℝ) (o v : ℝ) (ho : optimum .synthetic10D n = some o)
    (hbox : List.Forall₂ (fun x (b : ℝ × ℝ) => b.1 ≤ x ∧ x ≤ b.2) xs (box .synthetic10D n))
    (hv : eval .synthetic10D xs = some v) : v ≤ o + 1 / 1000 := by
  simp only [optimum, Option.some.injEq] at ho; subst ho
  have hlen : xs.length = 10 := by
    have := hbox.length_eq
    simpa [box] using this
  have := synthetic10D_bound xs hlen v hv
  simp only [rat_real]; push_cast; linarith
example : ([1, 2, 3, 4, 5] : List ℝ).length = 5 ∧
    List.Forall₂ (fun x (b : ℝ × ℝ) => b.1 ≤ x ∧ x ≤ b.2) ([1, 2, 3, 4, 5] : List ℝ) (box .synthetic5D 5) := by
  refine ⟨rfl, ?_⟩
  simp [box, List.replicate]
  norm_num

/-! ### Michalewicz (n = 2), Schwefel: the value clause (the bound clause remains tested) -/
/-- value clause for the only dimension with documented coordinates: `|f(2.20, 1.57) − (−1.8013)| ≤ 10⁻³`
(the proof encloses `f` in `[−1.80125, −1.80111]`) -/
theorem michalewicz_at_opt :
    |michalewicz [(220 / 100 : ℝ), 157 / 100] - (-(18013 / 10000))| ≤ 1 / 1000 := michalewicz_documented
theorem michalewicz_table_at_opt (n : ℕ) (cs : List ℝ) (o : ℝ) (hc : optCoords .michalewicz n = some cs)
    (ho : optimum .michalewicz n = some o) : ∃ v : ℝ, eval .michalewicz cs = some v ∧ |v - o| ≤ 1 / 1000 := by
  by_cases h2 : n = 2
  · subst h2
    simp only [optCoords, optimum, if_true, Option.some.injEq] at hc ho
    subst hc; subst ho
    refine ⟨_, rfl, ?_⟩
    have := michalewicz_documented
    simpa using this
  · simp [optCoords, h2] at hc
/-- value clause for every dimension up to 1000: each coordinate 420.9687 contributes between −6.9·10⁻⁷ and
1.7·10⁻⁷ (`418.982887 − 420.9687·sin √420.9687`) -/
theorem schwefel_at_opt (n : ℕ) (hn : n ≤ 1000) :
    |schwefel (List.replicate n (4209687 / 10000 : ℝ)) - 0| ≤ 1 / 1000 := by
  have h := schwefel_documented n
  have hn' : (n : ℝ) ≤ 1000 := by exact_mod_cast hn
  rw [sub_zero]
  calc _ ≤ (n : ℝ) / 1000000 := h
    _ ≤ 1 / 1000 := by linarith
theorem schwefel_table_at_opt (n : ℕ) (hn : n ≤ 1000) (cs : List ℝ) (o : ℝ) (hc : optCoords .schwefel n = some cs)
    (ho : optimum .schwefel n = some o) : ∃ v : ℝ, eval .schwefel cs = some v ∧ |v - o| ≤ 1 / 1000 := by
  simp only [optCoords, optimum, Option.some.injEq] at hc ho
  subst hc; subst ho
  refine ⟨_, rfl, ?_⟩
  have := schwefel_at_opt n hn
  simpa using this
example : optCoords .michalewicz 2 = some ([rat (220/100), rat (157/100)] : List ℝ) ∧
    optCoords .schwefel 3 = some (List.replicate 3 (rat (4209687/10000)) : List ℝ) := ⟨rfl, rfl⟩

/-! ## The same two clauses through the model's table -/

/-- all proved families are minimised -/
theorem table_minimised (F : Family) (hF : F ∈ provedFamilies) : minimised F = true := by
  simp only [provedFamilies, List.mem_cons, List.not_mem_nil, or_false] at hF
  rcases hF with rfl | rfl | rfl | rfl | rfl | rfl | rfl | rfl | rfl | rfl | rfl | rfl | rfl <;> rfl


/-- value clause: for every proved family and every dimension `n ≥ 1`, evaluating at the table's documented
coordinates gives the table's documented optimum -/
theorem table_at_opt (F : Family) (hF : F ∈ provedFamilies) (n : ℕ) (hn : 1 ≤ n)
    (cs : List ℝ) (o : ℝ) (hc : optCoords F n = some cs) (ho : optimum F n = some o) :
    eval F cs = some o := by
  obtain ⟨k, rfl⟩ : ∃ k, n = k + 1 := ⟨n - 1, by omega⟩
  simp only [provedFamilies, List.mem_cons, List.not_mem_nil, or_false] at hF
  rcases hF with rfl | rfl | rfl | rfl | rfl | rfl | rfl | rfl | rfl | rfl | rfl | rfl | rfl <;>
    simp only [optCoords, optimum, Option.some.injEq] at hc ho <;> subst hc <;> subst ho
  · simp [eval, rosenbrock_one]
  · have := ackley_zero (k + 1) hn
    simp only [List.replicate_succ] at this ⊢
    simp [eval, this]
  · simp [eval, sphere_zero]
  · simp [eval, modifiedEasom_pi]
  · have := equalityConstr_opt (k + 1) hn
    simp [eval] at this ⊢
    simpa using this
  · simp [eval, griewank_zero]
  · simp [eval, perm_harmonic]
  · simp [eval, rastrigin_zero]
  · simp [eval, zakharov_zero]
  · simp [eval, xinSheYang1_zero]
  · simp [eval, xinSheYang2_zero]
  · simp [eval, booth_opt]
  · simp [eval, alpine_zero]

example : Family.perm ∈ provedFamilies ∧ optCoords .perm 3 = some (harmonic 3 : List ℝ) ∧
    optimum .perm 3 = some (nat 0 : ℝ) := ⟨by decide, rfl, rfl⟩

/-- bound clause: for every proved family, every dimension and **every** point (so every point of the box)
the value is not below the table's documented optimum by more than the documented precision 10⁻³
(the per-family theorems above give the exact bound; only EqualityConstr's equality band needs the 10⁻³) -/
theorem table_bound (F : Family) (hF : F ∈ provedFamilies) (n : ℕ) (xs : List ℝ)
    (hbig : xs.length ≤ 1000000) (o v : ℝ) (ho : optimum F n = some o) (hv : eval F xs = some v) :
    o - 1 / 1000 ≤ v := by
  simp only [provedFamilies, List.mem_cons, List.not_mem_nil, or_false] at hF
  rcases hF with rfl | rfl | rfl | rfl | rfl | rfl | rfl | rfl | rfl | rfl | rfl | rfl | rfl <;>
    simp only [optimum, Option.some.injEq] at ho <;> subst ho
  · simp only [eval, Option.some.injEq] at hv; subst hv
    have := rosenbrock_nonneg xs; simp; linarith
  · cases xs with
    | nil => simp [eval] at hv
    | cons x t =>
      simp only [eval, Option.some.injEq] at hv; subst hv
      have := ackley_nonneg (x :: t) (by simp); simp; linarith
  · simp only [eval, Option.some.injEq] at hv; subst hv
    have := sphere_nonneg xs; simp; linarith
  · simp only [eval, Option.some.injEq] at hv; subst hv
    have := modifiedEasom_ge xs; simp; linarith
  · simp only [eval, Option.some.injEq] at hv; subst hv
    have := equalityConstr_ge_tol xs hbig; simp; linarith
  · simp only [eval, Option.some.injEq] at hv; subst hv
    have := griewank_nonneg xs; simp; linarith
  · simp only [eval, Option.some.injEq] at hv; subst hv
    have := perm_nonneg xs; simp; linarith
  · simp only [eval, Option.some.injEq] at hv; subst hv
    have := rastrigin_nonneg xs; simp; linarith
  · simp only [eval, Option.some.injEq] at hv; subst hv
    have := zakharov_nonneg xs; simp; linarith
  · simp only [eval, Option.some.injEq] at hv; subst hv
    have := xinSheYang1_nonneg xs; simp; linarith
  · simp only [eval, Option.some.injEq] at hv; subst hv
    have := xinSheYang2_ge xs; simp; linarith
  · match xs, hv with
    | x :: y :: _, hv =>
      simp only [eval, Option.some.injEq] at hv; subst hv
      have := booth_nonneg x y; simp; linarith
  · simp only [eval, Option.some.injEq] at hv; subst hv
    have := alpine_nonneg xs; simp; linarith

example : eval .booth ([0, 0] : List ℝ) = some (booth 0 0) ∧ optimum .booth 2 = some (nat 0 : ℝ) := ⟨rfl, rfl⟩

end Artap.C15
