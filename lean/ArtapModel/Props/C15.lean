import ArtapModel.Proofs.Bench
import ArtapModel.Proofs.SixHump
/-!
# C15 — single-objective benchmarks: optimum where and as documented (theorems over ℝ)

The formulas are the polymorphic definitions of `Model/Bench.lean` (the very terms the driver runs on
`Float` against the implementation), read in `Num ℝ`.  For each of the fifteen families Sphere … XinSheYang3,
SixHump and **every dimension `n`** (SixHump: two parameters):

* `F_at_opt` – the value at the documented coordinates is the documented optimum,
* `F_bound`  – no point at all (in particular no point of the box) has a smaller value.

Guards are explicit, never totalisation: `1 ≤ n` / `xs ≠ []` where the code divides by the dimension
(Ackley) or takes `1/√n` (EqualityConstr).  `table_at_opt` / `table_bound` restate the two clauses
through the model's table (`optCoords`, `optimum`, `eval`), i.e. with exactly the constants the
harness compares with the implementation's `global_optimum`, `global_optimum_coords`.

SixHump's documented constants are rounded (−1.0316 at (0.0898, −0.7126); true minimum −1.0316284535), so both of
its clauses are stated to the documented precision: `sixHump_at_opt` (`|f(documented coordinates) − documented
optimum| ≤ 10⁻³`) and `sixHump_bound` (`documented optimum − 10⁻³ ≤ f` at **every** real point; weighted AM–GM on
the cross term with a different rational weight on three regions of `x²`, see `Proofs/SixHump.lean`).  It is not a
member of `provedFamilies` (whose `table_at_opt` is an exact equality); `sixHump_table_at_opt` /
`sixHump_table_bound` restate its two clauses through the table.

Partial (named `…_partial`): for Synthetic1D, Synthetic2D, Synthetic5D, Synthetic10D only the value
clause is proved (`|f(documented coordinates) − documented optimum| ≤ 10⁻³`).
Not proved here (tested by dense search on the implementation — see `harness/c15.py`): the bound clause of
those four, and both numeric clauses of Schwefel, Michalewicz (2, 5, 10), Schubert, GramacyLee (they need
verified interval arithmetic for `sin`/`exp` on boxes).
Full statements kept for the record:
  -- theorem schwefel_bound (xs) (h : ∀ c ∈ xs, -500 ≤ c ∧ c ≤ 500) : 0 - 1e-3 ≤ schwefel xs          (n ≤ 30)
  -- theorem schwefel_at_opt (n ≤ 30) : |schwefel (replicate n 420.9687) - 0| ≤ 1e-3
  -- theorem michalewicz_bound n ∈ {2,5,10}, xs ∈ [0,π]^n : opt n - 1e-3 ≤ michalewicz xs ;  michalewicz_at_opt (n = 2)
  -- theorem schubert_bound (x y ∈ [-10,10]) : -186.7309 - 1e-3 ≤ schubert x y
  -- theorem gramacyLee_bound (x ∈ [0.5,2.5]) : -0.8690111349895 - 1e-3 ≤ gramacyLee x ; gramacyLee_at_opt
  -- theorem synthetic1D_bound (x ∈ [0,12]) : synthetic1D x ≤ 3.23 + 1e-3 ; synthetic1D_at_opt : |synthetic1D 11 - 3.23| ≤ 1e-3
  -- theorem synthetic2D_bound (x y ∈ [0,5]) : synthetic2D x y ≤ 1.21112 + 1e-3 ; synthetic2D_at_opt
  -- theorem synthetic5D_bound (xs ∈ [0,5]^5) : ∀ v, eval .synthetic5D xs = some v → v ≤ 1.2 + 1e-3 ; _at_opt ; same for 10D
-/
namespace Artap.C15
open Artap Artap.Bench

/-! ## Sphere -/
theorem sphere_at_opt (n : ℕ) : sphere (List.replicate n (0 : ℝ)) = 0 := sphere_zero n
theorem sphere_bound (xs : List ℝ) : 0 ≤ sphere xs := sphere_nonneg xs
example : sphere ([1, 2] : List ℝ) = 5 := by
  simp [sphere, sumFrom, List.zipIdx]; norm_num

/-! ## Booth -/
theorem booth_at_opt : booth (1 : ℝ) 3 = 0 := booth_opt
theorem booth_bound (x y : ℝ) : 0 ≤ booth x y := booth_nonneg x y
example : booth (0 : ℝ) 0 = 74 := by
  simp [booth]; norm_num

/-! ## Rosenbrock -/
theorem rosenbrock_at_opt (n : ℕ) : rosenbrock (List.replicate n (1 : ℝ)) = 0 := rosenbrock_one n
theorem rosenbrock_bound (xs : List ℝ) : 0 ≤ rosenbrock xs := rosenbrock_nonneg xs
example : rosenbrock ([0, 0] : List ℝ) = 1 := by
  simp [rosenbrock]

/-! ## Zakharov -/
theorem zakharov_at_opt (n : ℕ) : zakharov (List.replicate n (0 : ℝ)) = 0 := zakharov_zero n
theorem zakharov_bound (xs : List ℝ) : 0 ≤ zakharov xs := zakharov_nonneg xs

/-! ## Rastrigin -/
theorem rastrigin_at_opt (n : ℕ) : rastrigin (List.replicate n (0 : ℝ)) = 0 := rastrigin_zero n
theorem rastrigin_bound (xs : List ℝ) : 0 ≤ rastrigin xs := rastrigin_nonneg xs

/-! ## Griewank -/
theorem griewank_at_opt (n : ℕ) : griewank (List.replicate n (0 : ℝ)) = 0 := griewank_zero n
theorem griewank_bound (xs : List ℝ) : 0 ≤ griewank xs := griewank_nonneg xs

/-! ## Alpine -/
theorem alpine_at_opt (n : ℕ) : alpine (List.replicate n (0 : ℝ)) = 0 := alpine_zero n
theorem alpine_bound (xs : List ℝ) : 0 ≤ alpine xs := alpine_nonneg xs

/-! ## Ackley (divides by the dimension: `1 ≤ n`) -/
theorem ackley_at_opt (n : ℕ) (hn : 1 ≤ n) : ackley (List.replicate n (0 : ℝ)) = 0 := ackley_zero n hn
theorem ackley_bound (xs : List ℝ) (hne : xs ≠ []) : 0 ≤ ackley xs := ackley_nonneg xs hne
example : ([1] : List ℝ) ≠ [] := by simp

/-! ## ModifiedEasom (as repaired by e193300) -/
theorem modifiedEasom_at_opt (n : ℕ) : modifiedEasom (List.replicate n Real.pi) = -1 := modifiedEasom_pi n
theorem modifiedEasom_bound (xs : List ℝ) : -1 ≤ modifiedEasom xs := modifiedEasom_ge xs

/-! ## EqualityConstr (as repaired by 5820b59); bound by AM–GM -/
theorem equalityConstr_at_opt (n : ℕ) (hn : 1 ≤ n) :
    equalityConstr (List.replicate n (1 / √(n : ℝ))) = -1 := equalityConstr_opt n hn
/-- on the constraint `Σx² = 1` nothing is below the documented minimum -/
theorem equalityConstr_bound_on_constraint (xs : List ℝ) (h1 : (xs.map (fun c => c * c)).sum = 1) :
    -1 ≤ equalityConstr xs := equalityConstr_ge_on_sphere xs h1
/-- everywhere: the `abs(Σx² − 1) < 1e-9` band of the code scales the bound by at most `(1+1e-9)^{n/2}` -/
theorem equalityConstr_bound (xs : List ℝ) :
    -√((1 + 1 / 1000000000) ^ xs.length) ≤ equalityConstr xs := equalityConstr_ge xs
/-- … which stays within the documented precision 10⁻³ for every dimension up to 10⁶ -/
theorem equalityConstr_bound_tol (xs : List ℝ) (hn : xs.length ≤ 1000000) :
    -1 - 1 / 1000 ≤ equalityConstr xs := equalityConstr_ge_tol xs hn
example : (([3 / 5, 4 / 5] : List ℝ).map (fun c => c * c)).sum = 1 := by norm_num

/-! ## Perm -/
theorem perm_at_opt (n : ℕ) : perm (harmonic n : List ℝ) = 0 := perm_harmonic n
theorem perm_bound (xs : List ℝ) : 0 ≤ perm xs := perm_nonneg xs

/-! ## Xin-She-Yang 1, 2 (the code's loops assign: only the last coordinate counts) -/
theorem xinSheYang1_at_opt (n : ℕ) : xinSheYang1 (List.replicate n (0 : ℝ)) = 0 := xinSheYang1_zero n
theorem xinSheYang1_bound (xs : List ℝ) : 0 ≤ xinSheYang1 xs := xinSheYang1_nonneg xs
theorem xinSheYang2_at_opt (n : ℕ) : xinSheYang2 (List.replicate n (0 : ℝ)) = -1 := xinSheYang2_zero n
theorem xinSheYang2_bound (xs : List ℝ) : -1 ≤ xinSheYang2 xs := xinSheYang2_ge xs

/-! ## Xin-She-Yang 3 (randomised): clause by clause for **every** draw -/
/-- at the documented coordinates the value is 0 whatever the draws are -/
theorem xinSheYang3_at_opt (eps : List ℝ) (n : ℕ) : xinSheYang3 eps (harmonic n : List ℝ) = 0 :=
  xinSheYang3_harmonic eps n
/-- non-negative draws (`uniform(0,1)`) never give a value below the documented minimum 0 -/
theorem xinSheYang3_bound (eps xs : List ℝ) (he : ∀ e ∈ eps, 0 ≤ e) : 0 ≤ xinSheYang3 eps xs :=
  xinSheYang3_nonneg eps xs he
/-- envelope used by the harness when the draws cannot be observed: draws ≤ 1 give at most the value
with every draw replaced by 1 -/
theorem xinSheYang3_envelope (eps xs : List ℝ) (he : ∀ e ∈ eps, e ≤ 1) :
    xinSheYang3 eps xs ≤ xinSheYang3 (List.replicate eps.length 1) xs := xinSheYang3_le eps xs he
example : ∀ e ∈ ([1 / 2, 0, 1] : List ℝ), 0 ≤ e ∧ e ≤ 1 := by
  intro e he; simp at he; rcases he with rfl | rfl | rfl <;> norm_num

/-! ## Six-hump camel back: both clauses to the documented precision 10⁻³ -/
/-- value clause: `|f(0.0898, −0.7126) − (−1.0316)| ≤ 10⁻³` -/
theorem sixHump_at_opt :
    |sixHump (898 / 10000 : ℝ) (-(7126 / 10000)) - (-(10316 / 10000))| ≤ 1 / 1000 := sixHump_documented
/-- bound clause: no real point at all (in particular no point of the box `[−3,3]×[−2,2]`) has a value below
the documented optimum −1.0316 by more than 10⁻³ -/
theorem sixHump_bound (x y : ℝ) : -(10316 / 10000 : ℝ) - 1 / 1000 ≤ sixHump x y := sixHump_ge x y
/-- the bound is tight to within 10⁻³: the documented point comes that close -/
example : sixHump (898 / 10000 : ℝ) (-(7126 / 10000)) ≤ -(10316 / 10000) + 1 / 1000 := by
  have h := abs_le.1 sixHump_documented
  linarith [h.2]
/-- the same two clauses through the model's table (`optCoords`, `optimum`, `eval`) -/
theorem sixHump_table_at_opt (n : ℕ) (cs : List ℝ) (o : ℝ) (hc : optCoords .sixHump n = some cs)
    (ho : optimum .sixHump n = some o) : ∃ v : ℝ, eval .sixHump cs = some v ∧ |v - o| ≤ 1 / 1000 := by
  simp only [optCoords, optimum, Option.some.injEq] at hc ho
  subst hc; subst ho
  refine ⟨_, rfl, ?_⟩
  have := sixHump_documented
  simpa using this
theorem sixHump_table_bound (n : ℕ) (xs : List ℝ) (o v : ℝ) (ho : optimum .sixHump n = some o)
    (hv : eval .sixHump xs = some v) : o - 1 / 1000 ≤ v := by
  simp only [optimum, Option.some.injEq] at ho; subst ho
  match xs, hv with
  | x :: y :: _, hv =>
    simp only [eval, Option.some.injEq] at hv; subst hv
    have := sixHump_ge x y
    simp only [real_neg, rat_real]; push_cast; linarith
example : eval .sixHump ([0, 0] : List ℝ) = some (sixHump 0 0) ∧
    optimum .sixHump 2 = some (Num.neg (rat (10316 / 10000)) : ℝ) := ⟨rfl, rfl⟩

/-! ## Synthetic 1D / 2D / 5D / 10D (maximised): value clause only (bound: tested, see header) -/
/-- `|f(11) − 3.23| ≤ 10⁻³` (`exp(−9/2)`, `exp(−50/9)` from Taylor bounds, twelve tails below `2⁻¹⁸`) -/
theorem synthetic1D_at_opt_partial : |synthetic1D (11 : ℝ) - 323 / 100| ≤ 1 / 1000 := synthetic1D_documented
/-- `|f(3, 4) − 1.21112| ≤ 10⁻³` -/
theorem synthetic2D_at_opt_partial : |synthetic2D (3 : ℝ) 4 - 121112 / 100000| ≤ 1 / 1000 := synthetic2D_documented
/-- at the documented coordinates the ten Gaussians sum to `1.2` within `10⁻³` -/
theorem synthetic5D_at_opt_partial :
    ∃ v : ℝ, eval .synthetic5D [nat 3, nat 4, rat (13/10), nat 5, nat 5] = some v ∧ |v - 12 / 10| ≤ 1 / 1000 :=
  synthetic5D_documented
theorem synthetic10D_at_opt_partial :
    ∃ v : ℝ, eval .synthetic10D [nat 3, nat 4, rat (13/10), nat 5, nat 5, nat 3, nat 4, rat (13/10), nat 5, nat 5]
      = some v ∧ |v - 12 / 10| ≤ 1 / 1000 :=
  synthetic10D_documented
example : optCoords .synthetic5D 5 = some ([nat 3, nat 4, rat (13/10), nat 5, nat 5] : List ℝ) ∧
    optimum .synthetic5D 5 = some (rat (12/10) : ℝ) ∧ minimised .synthetic5D = false := ⟨rfl, rfl, rfl⟩

/-! ## The same two clauses through the model's table -/

/-- all proved families are minimised -/
theorem table_minimised (F : Family) (hF : F ∈ provedFamilies) : minimised F = true := by
  simp only [provedFamilies, List.mem_cons, List.not_mem_nil, or_false] at hF
  rcases hF with rfl | rfl | rfl | rfl | rfl | rfl | rfl | rfl | rfl | rfl | rfl | rfl | rfl <;> rfl


/-- value clause: for every proved family and every dimension `n ≥ 1`, evaluating at the table's documented
coordinates gives the table's documented optimum -/
theorem table_at_opt (F : Family) (hF : F ∈ provedFamilies) (n : ℕ) (hn : 1 ≤ n)
    (cs : List ℝ) (o : ℝ) (hc : optCoords F n = some cs) (ho : optimum F n = some o) :
    eval F cs = some o := by
  obtain ⟨k, rfl⟩ : ∃ k, n = k + 1 := ⟨n - 1, by omega⟩
  simp only [provedFamilies, List.mem_cons, List.not_mem_nil, or_false] at hF
  rcases hF with rfl | rfl | rfl | rfl | rfl | rfl | rfl | rfl | rfl | rfl | rfl | rfl | rfl <;>
    simp only [optCoords, optimum, Option.some.injEq] at hc ho <;> subst hc <;> subst ho
  · simp [eval, rosenbrock_one]
  · have := ackley_zero (k + 1) hn
    simp only [List.replicate_succ] at this ⊢
    simp [eval, this]
  · simp [eval, sphere_zero]
  · simp [eval, modifiedEasom_pi]
  · have := equalityConstr_opt (k + 1) hn
    simp [eval] at this ⊢
    simpa using this
  · simp [eval, griewank_zero]
  · simp [eval, perm_harmonic]
  · simp [eval, rastrigin_zero]
  · simp [eval, zakharov_zero]
  · simp [eval, xinSheYang1_zero]
  · simp [eval, xinSheYang2_zero]
  · simp [eval, booth_opt]
  · simp [eval, alpine_zero]

example : Family.perm ∈ provedFamilies ∧ optCoords .perm 3 = some (harmonic 3 : List ℝ) ∧
    optimum .perm 3 = some (nat 0 : ℝ) := ⟨by decide, rfl, rfl⟩

/-- bound clause: for every proved family, every dimension and **every** point (so every point of the box)
the value is not below the table's documented optimum by more than the documented precision 10⁻³
(the per-family theorems above give the exact bound; only EqualityConstr's equality band needs the 10⁻³) -/
theorem table_bound (F : Family) (hF : F ∈ provedFamilies) (n : ℕ) (xs : List ℝ)
    (hbig : xs.length ≤ 1000000) (o v : ℝ) (ho : optimum F n = some o) (hv : eval F xs = some v) :
    o - 1 / 1000 ≤ v := by
  simp only [provedFamilies, List.mem_cons, List.not_mem_nil, or_false] at hF
  rcases hF with rfl | rfl | rfl | rfl | rfl | rfl | rfl | rfl | rfl | rfl | rfl | rfl | rfl <;>
    simp only [optimum, Option.some.injEq] at ho <;> subst ho
  · simp only [eval, Option.some.injEq] at hv; subst hv
    have := rosenbrock_nonneg xs; simp; linarith
  · cases xs with
    | nil => simp [eval] at hv
    | cons x t =>
      simp only [eval, Option.some.injEq] at hv; subst hv
      have := ackley_nonneg (x :: t) (by simp); simp; linarith
  · simp only [eval, Option.some.injEq] at hv; subst hv
    have := sphere_nonneg xs; simp; linarith
  · simp only [eval, Option.some.injEq] at hv; subst hv
    have := modifiedEasom_ge xs; simp; linarith
  · simp only [eval, Option.some.injEq] at hv; subst hv
    have := equalityConstr_ge_tol xs hbig; simp; linarith
  · simp only [eval, Option.some.injEq] at hv; subst hv
    have := griewank_nonneg xs; simp; linarith
  · simp only [eval, Option.some.injEq] at hv; subst hv
    have := perm_nonneg xs; simp; linarith
  · simp only [eval, Option.some.injEq] at hv; subst hv
    have := rastrigin_nonneg xs; simp; linarith
  · simp only [eval, Option.some.injEq] at hv; subst hv
    have := zakharov_nonneg xs; simp; linarith
  · simp only [eval, Option.some.injEq] at hv; subst hv
    have := xinSheYang1_nonneg xs; simp; linarith
  · simp only [eval, Option.some.injEq] at hv; subst hv
    have := xinSheYang2_ge xs; simp; linarith
  · match xs, hv with
    | x :: y :: _, hv =>
      simp only [eval, Option.some.injEq] at hv; subst hv
      have := booth_nonneg x y; simp; linarith
  · simp only [eval, Option.some.injEq] at hv; subst hv
    have := alpine_nonneg xs; simp; linarith

example : eval .booth ([0, 0] : List ℝ) = some (booth 0 0) ∧ optimum .booth 2 = some (nat 0 : ℝ) := ⟨rfl, rfl⟩

end Artap.C15
