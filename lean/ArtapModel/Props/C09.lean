import ArtapModel.Model.Runs
import ArtapModel.Props.C02
import ArtapModel.Props.C03
/-!
# C09 — generation bookkeeping, evaluation budget, ε-MOEA acceptance

Property theorems for `Model/Runs.lean` (core Lean only).  The elitism clause is proved in
`Props/C03.lean` (`truncate_rank_first`, `truncate_no_survivor_dominated`) and is tied to real
NSGA-II runs by harness/c09.py.
-/
namespace Artap.C09
open Artap Artap.Runs

variable {D : Type}

/-- No offspring equals an earlier one (`child == offspring` is evaluated as `eq new old`). -/
def NoEq (eq : D → D → Bool) (l : List D) : Prop := l.Pairwise (fun old new => eq new old = false)

theorem noEq_append_one {eq : D → D → Bool} {l : List D} {c : D} (h : NoEq eq l)
    (hc : l.any (fun o => eq c o) = false) : NoEq eq (l ++ [c]) := by
  unfold NoEq at *
  rw [List.pairwise_append]
  refine ⟨h, List.pairwise_singleton _ _, ?_⟩
  intro a ha b hb
  simp only [List.mem_singleton] at hb
  subst hb
  rw [List.any_eq_false] at hc
  simpa using hc a ha

/-- The loop body keeps `≤ N` pairwise unequal offspring (population size at least two). -/
theorem genStep_inv (eq : D → D → Bool) (N : Nat) (hN : 2 ≤ N) (offs : List D) (c1 c2 : D)
    (hlen : offs.length < N) (hne : NoEq eq offs) :
    (genStep eq N offs c1 c2).length ≤ N ∧ NoEq eq (genStep eq N offs c1 c2) ∧
    offs.length < (genStep eq N offs c1 c2).length ∨
    ((genStep eq N offs c1 c2).length ≤ N ∧ NoEq eq (genStep eq N offs c1 c2) ∧
      offs.length ≤ (genStep eq N offs c1 c2).length) := by
  right
  unfold genStep
  -- stage 1
  by_cases h0 : offs.length = 0
  · have e : offs = [] := List.eq_nil_of_length_eq_zero h0
    subst e
    -- o1 = [c1]; stage 2: any (eq c1 c1)?
    simp only [List.length_nil, beq_self_eq_true, if_true, List.nil_append]
    by_cases h11 : eq c1 c1 = true
    · have hlt : (1 : Nat) < N := by omega
      simp only [List.any_cons, h11, List.any_nil, Bool.or_false, List.length_singleton, hlt,
        decide_true, Bool.and_self, if_true]
      by_cases h21 : eq c2 c1 = true
      · simp only [List.any_cons, h21, List.any_nil, Bool.or_false, List.length_singleton, hlt,
          decide_true, Bool.and_self, if_true]
        exact ⟨by omega, by simp [NoEq], by simp⟩
      · have h21' : eq c2 c1 = false := by simpa using h21
        simp only [List.any_cons, h21', List.any_nil, Bool.or_false, Bool.false_and, Bool.false_eq_true,
          if_false, List.length_singleton, hlt, if_true]
        refine ⟨by simp; omega, ?_, by simp⟩
        simp [NoEq, h21']
    · have h11' : eq c1 c1 = false := by simpa using h11
      simp only [List.any_cons, h11', List.any_nil, Bool.or_false, Bool.false_and,
        Bool.false_eq_true, if_false]
      -- o2 = [c1, c1]: the code appends child1 twice when `child1 == child1` is false (NaN vectors)
      by_cases h2 : ([c1] ++ [c1]).any (fun o => eq c2 o) = true ∧ ([c1] ++ [c1]).length < N
      · simp only [h2.1, h2.2, decide_true, Bool.and_self, if_true]
        refine ⟨by simp; omega, ?_, by simp⟩
        simp [NoEq, h11']
      · by_cases h3 : ([c1] ++ [c1]).length < N
        · have hany : ([c1] ++ [c1]).any (fun o => eq c2 o) = false := by
            cases hh : ([c1] ++ [c1]).any (fun o => eq c2 o)
            · rfl
            · exact absurd ⟨hh, h3⟩ h2
          simp only [hany, Bool.false_and, Bool.false_eq_true, if_false, h3, if_true]
          refine ⟨by simp at h3 ⊢; omega, ?_, by simp⟩
          have : NoEq eq ([c1] ++ [c1]) := by simp [NoEq, h11']
          exact noEq_append_one this hany
        · have hd : decide (([c1] ++ [c1]).length < N) = false := by simpa using h3
          simp only [hd, Bool.and_false, Bool.false_eq_true, if_false, h3]
          refine ⟨by simp at h3 ⊢; omega, ?_, by simp⟩
          simp [NoEq, h11']
  · have hb : (offs.length == 0) = false := by simpa using h0
    simp only [hb, Bool.false_eq_true, if_false]
    -- stage 2
    have hd : decide (offs.length < N) = true := by simpa using hlen
    cases ha : offs.any (fun o => eq c1 o) with
    | true =>
      simp only [hd, Bool.and_self, if_true]
      -- stage 3 on offs
      cases hb2 : offs.any (fun o => eq c2 o) with
      | true =>
        simp only [hd, Bool.and_self, if_true]
        refine ⟨?_, hne, ?_⟩ <;> omega
      | false =>
        simp only [Bool.false_and, Bool.false_eq_true, if_false, hlen, if_true]
        exact ⟨by simp; omega, noEq_append_one hne hb2, by simp⟩
    | false =>
      simp only [Bool.false_and, Bool.false_eq_true, if_false]
      have hne1 : NoEq eq (offs ++ [c1]) := noEq_append_one hne ha
      by_cases h3 : (offs ++ [c1]).length < N
      · have hd3 : decide ((offs ++ [c1]).length < N) = true := by simpa using h3
        cases hb2 : (offs ++ [c1]).any (fun o => eq c2 o) with
        | true => simp only [hd3, Bool.and_self, if_true]; exact ⟨by omega, hne1, by simp⟩
        | false =>
          simp only [Bool.false_and, Bool.false_eq_true, if_false, h3, if_true]
          refine ⟨by simp at h3 ⊢; omega, noEq_append_one hne1 hb2, by simp only [List.length_append, List.length_singleton]; omega⟩
      · have hd3 : decide ((offs ++ [c1]).length < N) = false := by simpa using h3
        rw [hd3]
        simp only [Bool.and_false, Bool.false_eq_true, if_false, h3]
        exact ⟨by simp at h3 ⊢; omega, hne1, by simp⟩

/-- **`generate` returns exactly `N` pairwise unequal offspring** whenever it returns (for every
oracle of children, every equality test, every `N ≥ 2`). -/
theorem generate_size (eq : D → D → Bool) (N : Nat) (hN : 2 ≤ N) (ps : List (D × D)) (offs res : List D)
    (hlen : offs.length ≤ N) (hne : NoEq eq offs) (h : generate eq N ps offs = some res) :
    res.length = N ∧ NoEq eq res := by
  induction ps generalizing offs with
  | nil =>
    unfold generate at h
    split at h
    · cases h
    · cases h; exact ⟨by omega, hne⟩
  | cons p ps ih =>
    obtain ⟨c1, c2⟩ := p
    unfold generate at h
    split at h
    · rename_i hlt
      rcases genStep_inv eq N hN offs c1 c2 hlt hne with ⟨a, b, _⟩ | ⟨a, b, _⟩
      · exact ih _ a b h
      · exact ih _ a b h
    · cases h; exact ⟨by omega, hne⟩

/-- Acceptance keeps the size of the working population, whatever the comparator flags and
random picks are (non-empty population, reflexive `==`). -/
theorem popAccept_size (eq : D → D → Bool) (hrefl : ∀ a, eq a a = true) (pop : List D) (flags : List Nat)
    (x : D) (p1 p2 : Nat) (hpop : 0 < pop.length) :
    (popAccept eq pop flags x p1 p2).length = pop.length := by
  unfold popAccept
  simp only
  split
  · rename_i hd
    have hidx : ∀ (dom : List Nat), dom = (List.range pop.length).filter (fun i => flags.getD i 0 == 1) →
        dom.length > 0 → dom.getD (p1 % dom.length) 0 < pop.length := by
      intro dom hdom hd
      have hlt : p1 % dom.length < dom.length := Nat.mod_lt _ hd
      have : dom.getD (p1 % dom.length) 0 = dom[p1 % dom.length] := by simp [List.getD, hlt]
      rw [this]
      have hm : dom[p1 % dom.length] ∈ dom := List.getElem_mem hlt
      have hall : ∀ y ∈ dom, y < pop.length := by
        intro y hy; rw [hdom, List.mem_filter, List.mem_range] at hy; exact hy.1
      exact hall _ hm
    have := hidx _ rfl hd
    rw [List.length_append, List.length_eraseIdx]
    simp only [this, if_true, List.length_singleton]; omega
  · split
    · have hlt : p2 % pop.length < pop.length := Nat.mod_lt _ hpop
      rw [List.getElem?_eq_getElem hlt]
      simp only
      have hm : pop[p2 % pop.length] ∈ pop := List.getElem_mem hlt
      cases hf : pop.findIdx? (fun o => eq o pop[p2 % pop.length]) with
      | none =>
        rw [List.findIdx?_eq_none_iff] at hf
        have := hf _ hm
        simp [hrefl] at this
      | some j =>
        simp only
        have hj := List.findIdx?_eq_some_iff_getElem.mp hf
        obtain ⟨hjlt, _⟩ := hj
        rw [List.length_append, List.length_eraseIdx]
        simp only [hjlt, if_true, List.length_singleton]; omega
    · rfl

/-- The three clauses of the acceptance step. -/
theorem popAccept_cases (eq : D → D → Bool) (pop : List D) (flags : List Nat) (x : D) (p1 p2 : Nat) :
    -- (a) the offspring dominates members: it replaces one of the members it dominates
    ((∃ i, i < pop.length ∧ flags.getD i 0 = 1) →
      ∃ i, i < pop.length ∧ flags.getD i 0 = 1 ∧ popAccept eq pop flags x p1 p2 = pop.eraseIdx i ++ [x]) ∧
    -- (b) dominated without dominating any member: rejected
    ((¬ ∃ i, i < pop.length ∧ flags.getD i 0 = 1) → (∃ i, i < pop.length ∧ flags.getD i 0 = 2) →
      popAccept eq pop flags x p1 p2 = pop) ∧
    -- (c) otherwise: replaces one arbitrary member (or is appended if none is found equal to the pick)
    ((¬ ∃ i, i < pop.length ∧ flags.getD i 0 = 1) → (¬ ∃ i, i < pop.length ∧ flags.getD i 0 = 2) →
      (∃ j, j < pop.length ∧ popAccept eq pop flags x p1 p2 = pop.eraseIdx j ++ [x]) ∨
      popAccept eq pop flags x p1 p2 = pop ++ [x]) := by
  have key : ∀ k, ((List.range pop.length).filter (fun i => flags.getD i 0 == k)).length > 0 ↔
      ∃ i, i < pop.length ∧ flags.getD i 0 = k := by
    intro k
    rw [gt_iff_lt, List.length_pos_iff_exists_mem]
    constructor
    · rintro ⟨i, hi⟩
      rw [List.mem_filter, List.mem_range] at hi
      exact ⟨i, hi.1, by simpa using hi.2⟩
    · rintro ⟨i, h1, h2⟩
      exact ⟨i, by rw [List.mem_filter, List.mem_range]; exact ⟨h1, by simpa using h2⟩⟩
  have keyAny : (List.range pop.length).any (fun i => flags.getD i 0 == 2) = true ↔
      ∃ i, i < pop.length ∧ flags.getD i 0 = 2 := by
    rw [List.any_eq_true]
    constructor
    · rintro ⟨i, hi, h⟩; exact ⟨i, List.mem_range.mp hi, by simpa using h⟩
    · rintro ⟨i, h1, h2⟩; exact ⟨i, List.mem_range.mpr h1, by simpa using h2⟩
  refine ⟨?_, ?_, ?_⟩
  · intro h
    have hd := (key 1).mpr h
    unfold popAccept
    simp only [hd, if_true]
    have aux : ∀ (dom : List Nat), dom = (List.range pop.length).filter (fun i => flags.getD i 0 == 1) →
        dom.length > 0 → dom.getD (p1 % dom.length) 0 < pop.length ∧
          flags.getD (dom.getD (p1 % dom.length) 0) 0 = 1 := by
      intro dom hdom hd
      have hlt : p1 % dom.length < dom.length := Nat.mod_lt _ hd
      have e : dom.getD (p1 % dom.length) 0 = dom[p1 % dom.length] := by simp [List.getD, hlt]
      have hm : dom[p1 % dom.length] ∈ dom := List.getElem_mem hlt
      have hall : ∀ y ∈ dom, y < pop.length ∧ flags.getD y 0 = 1 := by
        intro y hy; rw [hdom, List.mem_filter, List.mem_range] at hy; exact ⟨hy.1, by simpa using hy.2⟩
      rw [e]
      exact hall _ hm
    obtain ⟨a, b⟩ := aux _ rfl hd
    exact ⟨_, a, b, rfl⟩
  · intro h1 h2
    have hd : ¬ ((List.range pop.length).filter (fun i => flags.getD i 0 == 1)).length > 0 :=
      fun c => h1 ((key 1).mp c)
    have ha := keyAny.mpr h2
    unfold popAccept
    simp only [hd, if_false, ha, Bool.not_true, Bool.false_eq_true]
  · intro h1 h2
    have hd : ¬ ((List.range pop.length).filter (fun i => flags.getD i 0 == 1)).length > 0 :=
      fun c => h1 ((key 1).mp c)
    have ha : (List.range pop.length).any (fun i => flags.getD i 0 == 2) = false := by
      cases hh : (List.range pop.length).any (fun i => flags.getD i 0 == 2)
      · rfl
      · exact absurd (keyAny.mp hh) h2
    unfold popAccept
    simp only [hd, if_false, ha, Bool.not_false, if_true]
    cases hg : pop[p2 % pop.length]? with
    | none => right; rfl
    | some v =>
      simp only
      cases hf : pop.findIdx? (fun o => eq o v) with
      | none => right; rfl
      | some j =>
        left
        exact ⟨j, (List.findIdx?_eq_some_iff_getElem.mp hf).1, rfl⟩

/-! ### run counters -/

theorem fold_log (N : Nat) (base : Nat) (k : Nat) (l0 : Log) :
    ((List.range k).foldl
      (fun l it => { evals := l.evals + N, tags := l.tags ++ List.replicate N (it + base) }) l0).evals
      = l0.evals + k * N ∧
    ∀ t, ((List.range k).foldl
      (fun l it => { evals := l.evals + N, tags := l.tags ++ List.replicate N (it + base) }) l0).tags.count t
      = l0.tags.count t + (if base ≤ t ∧ t < base + k then N else 0) := by
  induction k with
  | zero =>
    refine ⟨by simp, fun t => ?_⟩
    have : ¬ (base ≤ t ∧ t < base + 0) := by omega
    rw [if_neg this]; simp
  | succ k ih =>
    rw [List.range_succ, List.foldl_append]
    simp only [List.foldl_cons, List.foldl_nil]
    refine ⟨?_, ?_⟩
    · rw [ih.1]; rw [Nat.succ_mul]; omega
    · intro t
      rw [List.count_append, ih.2 t, List.count_replicate]
      by_cases h3 : k + base = t
      · have h1 : ¬ (base ≤ t ∧ t < base + k) := by omega
        have h2 : base ≤ t ∧ t < base + (k + 1) := by omega
        rw [if_neg h1, if_pos h2]; simp [h3]
      · have e : ((k + base) == t) = false := by simpa using h3
        by_cases h1 : base ≤ t ∧ t < base + k
        · have h2 : base ≤ t ∧ t < base + (k + 1) := ⟨h1.1, by omega⟩
          rw [if_pos h1, if_pos h2]; simp [e]
        · have h2 : ¬ (base ≤ t ∧ t < base + (k + 1)) := by omega
          rw [if_neg h1, if_neg h2]; simp [e]

/-- **NSGA-II**: exactly `N·G` successful evaluations; generations `1..G` of exactly `N` designs,
nothing recorded under any other tag. -/
theorem nsga2_budget_and_generations (N G : Nat) (hG : 1 ≤ G) :
    (nsga2Log N G).evals = N * G ∧
    ∀ t, (nsga2Log N G).tags.count t = (if 1 ≤ t ∧ t ≤ G then N else 0) := by
  unfold nsga2Log
  obtain ⟨h1, h2⟩ := fold_log N 2 (G - 1) { evals := N, tags := List.replicate N 1 }
  refine ⟨?_, ?_⟩
  · rw [h1]
    have : G = (G - 1) + 1 := by omega
    conv => rhs; rw [this, Nat.mul_succ]
    simp [Nat.mul_comm]; omega
  · intro t
    rw [h2 t, List.count_replicate]
    by_cases a : t = 1
    · subst a
      have : ¬ (2 ≤ 1 ∧ 1 < 2 + (G - 1)) := by omega
      simp [this, hG]
    · have e : ((1 : Nat) == t) = false := by simpa using (fun h => a h.symm)
      simp only [e, Bool.false_eq_true, if_false, Nat.zero_add]
      by_cases b : 2 ≤ t ∧ t < 2 + (G - 1)
      · have : 1 ≤ t ∧ t ≤ G := by omega
        simp [b, this]
      · have : ¬ (1 ≤ t ∧ t ≤ G) := by omega
        simp [b, this]

/-- **ε-MOEA, OMOPSO, SMPSO**: `N·(G+1)` evaluations; generations `0..G` of exactly `N` designs. -/
theorem steady_budget_and_generations (N G : Nat) :
    (steadyLog N G).evals = N * (G + 1) ∧
    ∀ t, (steadyLog N G).tags.count t = (if t ≤ G then N else 0) := by
  unfold steadyLog
  obtain ⟨h1, h2⟩ := fold_log N 1 G { evals := N, tags := List.replicate N 0 }
  refine ⟨?_, ?_⟩
  · rw [h1]; show N + G * N = N * (G + 1)
    rw [Nat.mul_succ, Nat.mul_comm G N]; omega
  · intro t
    rw [h2 t, List.count_replicate]
    by_cases a : t = 0
    · subst a; simp
    · have e : ((0 : Nat) == t) = false := by simpa using (fun h => a h.symm)
      simp only [e, Bool.false_eq_true, if_false, Nat.zero_add]
      by_cases b : 1 ≤ t ∧ t < 1 + G
      · have : t ≤ G := by omega
        simp [b, this]
      · have : ¬ t ≤ G := by omega
        simp [b, this]

/-! ### generational elitism: composition of C02 (true Pareto rank) and C03 (rank-first truncation) -/

/-- **NSGA-II elitism.**  Let `costs` be the signed costs (with markers) of the merged population
of one generation step (offspring and copies of the parents), `pop` the same members as seen by
the truncation (design, front number, crowding distance) with the front numbers that
non-dominated sorting computes (`rankOf`, C02).  Whatever order `set()` produces and whatever `k`
is: no survivor is dominated by a member whose design has no surviving copy – in particular by
no dropped design of the previous generation. -/
theorem nsga2_elitism {α : Type} [LinearOrder α] (costs : List (List α × Int)) (hs : SameLen costs)
    (pop : List Ind) (hlen : pop.length = costs.length)
    (hfront : ∀ i (hi : i < pop.length), rankOf costs i = some (pop[i].front))
    (hc : RankConsistent pop) (k : Nat) (o r : List Nat) (h : truncate pop k o = some r)
    (i j : Nat) (hi : i ∈ r) (hip : i < pop.length) (hj : j < pop.length)
    (hdisc : DesignDiscarded pop r pop[j]) : ¬ Dom costs j i := by
  intro hd
  have hx : Kept pop r pop[i] := ⟨i, hi, List.getElem?_eq_getElem hip⟩
  have hle := C03.truncate_rank_first pop k o r h hc pop[i] pop[j] hx hdisc
  obtain ⟨rj, ri, ej, ei, hlt⟩ := C02.rank_lt_of_dom costs (rankOf costs) (C02.fnds_rank costs hs) j i hd
  rw [hfront j hj] at ej
  rw [hfront i hip] at ei
  cases ej; cases ei
  omega

/-! ## Non-vacuity -/
example : generate (fun (a b : Nat) => a == b) 3 [(1, 1), (1, 2), (3, 4)] [] = some [1, 2, 3] := by decide
example : popAccept (fun (a b : Nat) => a == b) [10, 20, 30] [0, 1, 1] 99 1 0 = [10, 20, 99] := by decide
example : popAccept (fun (a b : Nat) => a == b) [10, 20, 30] [0, 2, 0] 99 1 0 = [10, 20, 30] := by decide
example : popAccept (fun (a b : Nat) => a == b) [10, 20, 30] [0, 0, 0] 99 1 1 = [10, 30, 99] := by decide
example : (nsga2Log 3 4).evals = 12 := by decide

end Artap.C09
