import ArtapModel.Model.Runs
import ArtapModel.Props.C02
import ArtapModel.Props.C03
import ArtapModel.Proofs.Nsga2
/-!
# C09 — generation bookkeeping, evaluation budget, ε-MOEA acceptance

Property theorems for `Model/Runs.lean` (the `generate` loop, `pop_acceptance`, run counters) and
for the composed run model `Model/Nsga2.lean` (`nsga2Run`, `epsMoeaRun`: the generation loops
built from `generate`, the evaluator model with its fault oracle, `fnds`, `crowding`, `truncate`,
`popAccept`, `Archive.add`): `nsga2_run_budget`, `nsga2_run_generations`, `nsga2_run_elitism`
(with `nsga2_step_elitism`, which discharges the hypotheses of `nsga2_elitism` for the front
numbers computed inside the step), `nsga2_best_monotone`, `epsmoea_run_budget_generations`.
Helper lemmas: `Proofs/Nsga2.lean`.  harness/c09.py replays recorded real runs step by step and
as a whole through the run model.
-/
namespace Artap.C09
open Artap Artap.Runs

variable {D : Type}

/-- No offspring equals an earlier one (`child == offspring` is evaluated as `eq new old`). -/
def NoEq (eq : D → D → Bool) (l : List D) : Prop := l.Pairwise (fun old new => eq new old = false)

theorem noEq_append_one {eq : D → D → Bool} {l : List D} {c : D} (h : NoEq eq l)
    (hc : l.any (fun o => eq c o) = false) : NoEq eq (l ++ [c]) := by
  unfold NoEq at *
  rw [List.pairwise_append]
  refine ⟨h, List.pairwise_singleton _ _, ?_⟩
  intro a ha b hb
  simp only [List.mem_singleton] at hb
  subst hb
  rw [List.any_eq_false] at hc
  simpa using hc a ha

/-- The loop body keeps `≤ N` pairwise unequal offspring (population size at least two). -/
theorem genStep_inv (eq : D → D → Bool) (N : Nat) (hN : 2 ≤ N) (offs : List D) (c1 c2 : D)
    (hlen : offs.length < N) (hne : NoEq eq offs) :
    (genStep eq N offs c1 c2).length ≤ N ∧ NoEq eq (genStep eq N offs c1 c2) ∧
    offs.length < (genStep eq N offs c1 c2).length ∨
    ((genStep eq N offs c1 c2).length ≤ N ∧ NoEq eq (genStep eq N offs c1 c2) ∧
      offs.length ≤ (genStep eq N offs c1 c2).length) := by
  right
  unfold genStep
  -- stage 1
  by_cases h0 : offs.length = 0
  · have e : offs = [] := List.eq_nil_of_length_eq_zero h0
    subst e
    -- o1 = [c1]; stage 2: any (eq c1 c1)?
    simp only [List.length_nil, beq_self_eq_true, if_true, List.nil_append]
    by_cases h11 : eq c1 c1 = true
    · have hlt : (1 : Nat) < N := by omega
      simp only [List.any_cons, h11, List.any_nil, Bool.or_false, List.length_singleton, hlt,
        decide_true, Bool.and_self, if_true]
      by_cases h21 : eq c2 c1 = true
      · simp only [List.any_cons, h21, List.any_nil, Bool.or_false, List.length_singleton, hlt,
          decide_true, Bool.and_self, if_true]
        exact ⟨by omega, by simp [NoEq], by simp⟩
      · have h21' : eq c2 c1 = false := by simpa using h21
        simp only [List.any_cons, h21', List.any_nil, Bool.or_false, Bool.false_and, Bool.false_eq_true,
          if_false, List.length_singleton, hlt, if_true]
        refine ⟨by simp; omega, ?_, by simp⟩
        simp [NoEq, h21']
    · have h11' : eq c1 c1 = false := by simpa using h11
      simp only [List.any_cons, h11', List.any_nil, Bool.or_false, Bool.false_and,
        Bool.false_eq_true, if_false]
      -- o2 = [c1, c1]: the code appends child1 twice when `child1 == child1` is false (NaN vectors)
      by_cases h2 : ([c1] ++ [c1]).any (fun o => eq c2 o) = true ∧ ([c1] ++ [c1]).length < N
      · simp only [h2.1, h2.2, decide_true, Bool.and_self, if_true]
        refine ⟨by simp; omega, ?_, by simp⟩
        simp [NoEq, h11']
      · by_cases h3 : ([c1] ++ [c1]).length < N
        · have hany : ([c1] ++ [c1]).any (fun o => eq c2 o) = false := by
            cases hh : ([c1] ++ [c1]).any (fun o => eq c2 o)
            · rfl
            · exact absurd ⟨hh, h3⟩ h2
          simp only [hany, Bool.false_and, Bool.false_eq_true, if_false, h3, if_true]
          refine ⟨by simp at h3 ⊢; omega, ?_, by simp⟩
          have : NoEq eq ([c1] ++ [c1]) := by simp [NoEq, h11']
          exact noEq_append_one this hany
        · have hd : decide (([c1] ++ [c1]).length < N) = false := by simpa using h3
          simp only [hd, Bool.and_false, Bool.false_eq_true, if_false, h3]
          refine ⟨by simp at h3 ⊢; omega, ?_, by simp⟩
          simp [NoEq, h11']
  · have hb : (offs.length == 0) = false := by simpa using h0
    simp only [hb, Bool.false_eq_true, if_false]
    -- stage 2
    have hd : decide (offs.length < N) = true := by simpa using hlen
    cases ha : offs.any (fun o => eq c1 o) with
    | true =>
      simp only [hd, Bool.and_self, if_true]
      -- stage 3 on offs
      cases hb2 : offs.any (fun o => eq c2 o) with
      | true =>
        simp only [hd, Bool.and_self, if_true]
        refine ⟨?_, hne, ?_⟩ <;> omega
      | false =>
        simp only [Bool.false_and, Bool.false_eq_true, if_false, hlen, if_true]
        exact ⟨by simp; omega, noEq_append_one hne hb2, by simp⟩
    | false =>
      simp only [Bool.false_and, Bool.false_eq_true, if_false]
      have hne1 : NoEq eq (offs ++ [c1]) := noEq_append_one hne ha
      by_cases h3 : (offs ++ [c1]).length < N
      · have hd3 : decide ((offs ++ [c1]).length < N) = true := by simpa using h3
        cases hb2 : (offs ++ [c1]).any (fun o => eq c2 o) with
        | true => simp only [hd3, Bool.and_self, if_true]; exact ⟨by omega, hne1, by simp⟩
        | false =>
          simp only [Bool.false_and, Bool.false_eq_true, if_false, h3, if_true]
          refine ⟨by simp at h3 ⊢; omega, noEq_append_one hne1 hb2, by simp only [List.length_append, List.length_singleton]; omega⟩
      · have hd3 : decide ((offs ++ [c1]).length < N) = false := by simpa using h3
        rw [hd3]
        simp only [Bool.and_false, Bool.false_eq_true, if_false, h3]
        exact ⟨by simp at h3 ⊢; omega, hne1, by simp⟩

/-- **`generate` returns exactly `N` pairwise unequal offspring** whenever it returns (for every
oracle of children, every equality test, every `N ≥ 2`). -/
theorem generate_size (eq : D → D → Bool) (N : Nat) (hN : 2 ≤ N) (ps : List (D × D)) (offs res : List D)
    (hlen : offs.length ≤ N) (hne : NoEq eq offs) (h : generate eq N ps offs = some res) :
    res.length = N ∧ NoEq eq res := by
  induction ps generalizing offs with
  | nil =>
    unfold generate at h
    split at h
    · cases h
    · cases h; exact ⟨by omega, hne⟩
  | cons p ps ih =>
    obtain ⟨c1, c2⟩ := p
    unfold generate at h
    split at h
    · rename_i hlt
      rcases genStep_inv eq N hN offs c1 c2 hlt hne with ⟨a, b, _⟩ | ⟨a, b, _⟩
      · exact ih _ a b h
      · exact ih _ a b h
    · cases h; exact ⟨by omega, hne⟩

/-- Acceptance keeps the size of the working population, whatever the comparator flags and
random picks are (non-empty population, reflexive `==`). -/
theorem popAccept_size (eq : D → D → Bool) (hrefl : ∀ a, eq a a = true) (pop : List D) (flags : List Nat)
    (x : D) (p1 p2 : Nat) (hpop : 0 < pop.length) :
    (popAccept eq pop flags x p1 p2).length = pop.length := by
  unfold popAccept
  simp only
  split
  · rename_i hd
    have hidx : ∀ (dom : List Nat), dom = (List.range pop.length).filter (fun i => flags.getD i 0 == 1) →
        dom.length > 0 → dom.getD (p1 % dom.length) 0 < pop.length := by
      intro dom hdom hd
      have hlt : p1 % dom.length < dom.length := Nat.mod_lt _ hd
      have : dom.getD (p1 % dom.length) 0 = dom[p1 % dom.length] := by simp [List.getD, hlt]
      rw [this]
      have hm : dom[p1 % dom.length] ∈ dom := List.getElem_mem hlt
      have hall : ∀ y ∈ dom, y < pop.length := by
        intro y hy; rw [hdom, List.mem_filter, List.mem_range] at hy; exact hy.1
      exact hall _ hm
    have := hidx _ rfl hd
    rw [List.length_append, List.length_eraseIdx]
    simp only [this, if_true, List.length_singleton]; omega
  · split
    · have hlt : p2 % pop.length < pop.length := Nat.mod_lt _ hpop
      rw [List.getElem?_eq_getElem hlt]
      simp only
      have hm : pop[p2 % pop.length] ∈ pop := List.getElem_mem hlt
      cases hf : pop.findIdx? (fun o => eq o pop[p2 % pop.length]) with
      | none =>
        rw [List.findIdx?_eq_none_iff] at hf
        have := hf _ hm
        simp [hrefl] at this
      | some j =>
        simp only
        have hj := List.findIdx?_eq_some_iff_getElem.mp hf
        obtain ⟨hjlt, _⟩ := hj
        rw [List.length_append, List.length_eraseIdx]
        simp only [hjlt, if_true, List.length_singleton]; omega
    · rfl

/-- The three clauses of the acceptance step. -/
theorem popAccept_cases (eq : D → D → Bool) (pop : List D) (flags : List Nat) (x : D) (p1 p2 : Nat) :
    -- (a) the offspring dominates members: it replaces one of the members it dominates
    ((∃ i, i < pop.length ∧ flags.getD i 0 = 1) →
      ∃ i, i < pop.length ∧ flags.getD i 0 = 1 ∧ popAccept eq pop flags x p1 p2 = pop.eraseIdx i ++ [x]) ∧
    -- (b) dominated without dominating any member: rejected
    ((¬ ∃ i, i < pop.length ∧ flags.getD i 0 = 1) → (∃ i, i < pop.length ∧ flags.getD i 0 = 2) →
      popAccept eq pop flags x p1 p2 = pop) ∧
    -- (c) otherwise: replaces one arbitrary member (or is appended if none is found equal to the pick)
    ((¬ ∃ i, i < pop.length ∧ flags.getD i 0 = 1) → (¬ ∃ i, i < pop.length ∧ flags.getD i 0 = 2) →
      (∃ j, j < pop.length ∧ popAccept eq pop flags x p1 p2 = pop.eraseIdx j ++ [x]) ∨
      popAccept eq pop flags x p1 p2 = pop ++ [x]) := by
  have key : ∀ k, ((List.range pop.length).filter (fun i => flags.getD i 0 == k)).length > 0 ↔
      ∃ i, i < pop.length ∧ flags.getD i 0 = k := by
    intro k
    rw [gt_iff_lt, List.length_pos_iff_exists_mem]
    constructor
    · rintro ⟨i, hi⟩
      rw [List.mem_filter, List.mem_range] at hi
      exact ⟨i, hi.1, by simpa using hi.2⟩
    · rintro ⟨i, h1, h2⟩
      exact ⟨i, by rw [List.mem_filter, List.mem_range]; exact ⟨h1, by simpa using h2⟩⟩
  have keyAny : (List.range pop.length).any (fun i => flags.getD i 0 == 2) = true ↔
      ∃ i, i < pop.length ∧ flags.getD i 0 = 2 := by
    rw [List.any_eq_true]
    constructor
    · rintro ⟨i, hi, h⟩; exact ⟨i, List.mem_range.mp hi, by simpa using h⟩
    · rintro ⟨i, h1, h2⟩; exact ⟨i, List.mem_range.mpr h1, by simpa using h2⟩
  refine ⟨?_, ?_, ?_⟩
  · intro h
    have hd := (key 1).mpr h
    unfold popAccept
    simp only [hd, if_true]
    have aux : ∀ (dom : List Nat), dom = (List.range pop.length).filter (fun i => flags.getD i 0 == 1) →
        dom.length > 0 → dom.getD (p1 % dom.length) 0 < pop.length ∧
          flags.getD (dom.getD (p1 % dom.length) 0) 0 = 1 := by
      intro dom hdom hd
      have hlt : p1 % dom.length < dom.length := Nat.mod_lt _ hd
      have e : dom.getD (p1 % dom.length) 0 = dom[p1 % dom.length] := by simp [List.getD, hlt]
      have hm : dom[p1 % dom.length] ∈ dom := List.getElem_mem hlt
      have hall : ∀ y ∈ dom, y < pop.length ∧ flags.getD y 0 = 1 := by
        intro y hy; rw [hdom, List.mem_filter, List.mem_range] at hy; exact ⟨hy.1, by simpa using hy.2⟩
      rw [e]
      exact hall _ hm
    obtain ⟨a, b⟩ := aux _ rfl hd
    exact ⟨_, a, b, rfl⟩
  · intro h1 h2
    have hd : ¬ ((List.range pop.length).filter (fun i => flags.getD i 0 == 1)).length > 0 :=
      fun c => h1 ((key 1).mp c)
    have ha := keyAny.mpr h2
    unfold popAccept
    simp only [hd, if_false, ha, Bool.not_true, Bool.false_eq_true]
  · intro h1 h2
    have hd : ¬ ((List.range pop.length).filter (fun i => flags.getD i 0 == 1)).length > 0 :=
      fun c => h1 ((key 1).mp c)
    have ha : (List.range pop.length).any (fun i => flags.getD i 0 == 2) = false := by
      cases hh : (List.range pop.length).any (fun i => flags.getD i 0 == 2)
      · rfl
      · exact absurd (keyAny.mp hh) h2
    unfold popAccept
    simp only [hd, if_false, ha, Bool.not_false, if_true]
    cases hg : pop[p2 % pop.length]? with
    | none => right; rfl
    | some v =>
      simp only
      cases hf : pop.findIdx? (fun o => eq o v) with
      | none => right; rfl
      | some j =>
        left
        exact ⟨j, (List.findIdx?_eq_some_iff_getElem.mp hf).1, rfl⟩

/-! ### run counters -/

theorem fold_log (N : Nat) (base : Nat) (k : Nat) (l0 : Log) :
    ((List.range k).foldl
      (fun l it => { evals := l.evals + N, tags := l.tags ++ List.replicate N (it + base) }) l0).evals
      = l0.evals + k * N ∧
    ∀ t, ((List.range k).foldl
      (fun l it => { evals := l.evals + N, tags := l.tags ++ List.replicate N (it + base) }) l0).tags.count t
      = l0.tags.count t + (if base ≤ t ∧ t < base + k then N else 0) := by
  induction k with
  | zero =>
    refine ⟨by simp, fun t => ?_⟩
    have : ¬ (base ≤ t ∧ t < base + 0) := by omega
    rw [if_neg this]; simp
  | succ k ih =>
    rw [List.range_succ, List.foldl_append]
    simp only [List.foldl_cons, List.foldl_nil]
    refine ⟨?_, ?_⟩
    · rw [ih.1]; rw [Nat.succ_mul]; omega
    · intro t
      rw [List.count_append, ih.2 t, List.count_replicate]
      by_cases h3 : k + base = t
      · have h1 : ¬ (base ≤ t ∧ t < base + k) := by omega
        have h2 : base ≤ t ∧ t < base + (k + 1) := by omega
        rw [if_neg h1, if_pos h2]; simp [h3]
      · have e : ((k + base) == t) = false := by simpa using h3
        by_cases h1 : base ≤ t ∧ t < base + k
        · have h2 : base ≤ t ∧ t < base + (k + 1) := ⟨h1.1, by omega⟩
          rw [if_pos h1, if_pos h2]; simp [e]
        · have h2 : ¬ (base ≤ t ∧ t < base + (k + 1)) := by omega
          rw [if_neg h1, if_neg h2]; simp [e]

/-- **NSGA-II**: exactly `N·G` successful evaluations; generations `1..G` of exactly `N` designs,
nothing recorded under any other tag. -/
theorem nsga2_budget_and_generations (N G : Nat) (hG : 1 ≤ G) :
    (nsga2Log N G).evals = N * G ∧
    ∀ t, (nsga2Log N G).tags.count t = (if 1 ≤ t ∧ t ≤ G then N else 0) := by
  unfold nsga2Log
  obtain ⟨h1, h2⟩ := fold_log N 2 (G - 1) { evals := N, tags := List.replicate N 1 }
  refine ⟨?_, ?_⟩
  · rw [h1]
    have : G = (G - 1) + 1 := by omega
    conv => rhs; rw [this, Nat.mul_succ]
    simp [Nat.mul_comm]; omega
  · intro t
    rw [h2 t, List.count_replicate]
    by_cases a : t = 1
    · subst a
      have : ¬ (2 ≤ 1 ∧ 1 < 2 + (G - 1)) := by omega
      simp [this, hG]
    · have e : ((1 : Nat) == t) = false := by simpa using (fun h => a h.symm)
      simp only [e, Bool.false_eq_true, if_false, Nat.zero_add]
      by_cases b : 2 ≤ t ∧ t < 2 + (G - 1)
      · have : 1 ≤ t ∧ t ≤ G := by omega
        simp [b, this]
      · have : ¬ (1 ≤ t ∧ t ≤ G) := by omega
        simp [b, this]

/-- **ε-MOEA, OMOPSO, SMPSO**: `N·(G+1)` evaluations; generations `0..G` of exactly `N` designs. -/
theorem steady_budget_and_generations (N G : Nat) :
    (steadyLog N G).evals = N * (G + 1) ∧
    ∀ t, (steadyLog N G).tags.count t = (if t ≤ G then N else 0) := by
  unfold steadyLog
  obtain ⟨h1, h2⟩ := fold_log N 1 G { evals := N, tags := List.replicate N 0 }
  refine ⟨?_, ?_⟩
  · rw [h1]; show N + G * N = N * (G + 1)
    rw [Nat.mul_succ, Nat.mul_comm G N]; omega
  · intro t
    rw [h2 t, List.count_replicate]
    by_cases a : t = 0
    · subst a; simp
    · have e : ((0 : Nat) == t) = false := by simpa using (fun h => a h.symm)
      simp only [e, Bool.false_eq_true, if_false, Nat.zero_add]
      by_cases b : 1 ≤ t ∧ t < 1 + G
      · have : t ≤ G := by omega
        simp [b, this]
      · have : ¬ t ≤ G := by omega
        simp [b, this]

/-! ### generational elitism: composition of C02 (true Pareto rank) and C03 (rank-first truncation) -/

/-- **NSGA-II elitism.**  Let `costs` be the signed costs (with markers) of the merged population
of one generation step (offspring and copies of the parents), `pop` the same members as seen by
the truncation (design, front number, crowding distance) with the front numbers that
non-dominated sorting computes (`rankOf`, C02).  Whatever order `set()` produces and whatever `k`
is: no survivor is dominated by a member whose design has no surviving copy – in particular by
no dropped design of the previous generation. -/
theorem nsga2_elitism {α : Type} [LinearOrder α] (costs : List (List α × Int)) (hs : SameLen costs)
    (pop : List Ind) (hlen : pop.length = costs.length)
    (hfront : ∀ i (hi : i < pop.length), rankOf costs i = some (pop[i].front))
    (hc : RankConsistent pop) (k : Nat) (o r : List Nat) (h : truncate pop k o = some r)
    (i j : Nat) (hi : i ∈ r) (hip : i < pop.length) (hj : j < pop.length)
    (hdisc : DesignDiscarded pop r pop[j]) : ¬ Dom costs j i := by
  intro hd
  have hx : Kept pop r pop[i] := ⟨i, hi, List.getElem?_eq_getElem hip⟩
  have hle := C03.truncate_rank_first pop k o r h hc pop[i] pop[j] hx hdisc
  obtain ⟨rj, ri, ej, ei, hlt⟩ := C02.rank_lt_of_dom costs (rankOf costs) (C02.fnds_rank costs hs) j i hd
  rw [hfront j hj] at ej
  rw [hfront i hip] at ei
  cases ej; cases ei
  omega

/-! ## The composed run model (`Model/Nsga2.lean`)

`nsga2Run cfg G init steps = some r` says: the NSGA-II run with `max_population_size = cfg.N`,
`max_population_number = G`, initial vectors `init` (the generator's output), the per-iteration
oracles `steps` (children delivered by selection/crossover/mutation, order of `list(set(…))`)
and the evaluation oracle `cfg.env` (objective, fault pattern, re-rolled vectors) ran to its end
and recorded `r.recorded`.  `none` = the real run would not end normally (children oracle dry –
the real loop keeps drawing –, an exception escaped the evaluator after five failures, the
`set()` oracle is not a de-duplication of the merged population, a comparator raised).
`gen t r.recorded` is recorded generation `t`.  All theorems hold for every oracle. -/

section RunModel
open Artap.Nsga2 Artap.Eval

/-- `generate_size` for the run model's configuration. -/
theorem run_generate_size (cfg : Cfg) (hN : 2 ≤ cfg.N) (ps : List (Vec × Vec)) (offs : List Vec)
    (h : generate cfg.eq cfg.N ps [] = some offs) : offs.length = cfg.N ∧ NoEq cfg.eq offs :=
  generate_size cfg.eq cfg.N hN ps [] offs (by simp) (by simp [NoEq]) h

/-- **Budget.**  A run that ends made exactly `N·G` successful objective evaluations – whatever
failed in between (every call is logged, every failed call is also on `Problem.failed`). -/
theorem nsga2_run_budget (cfg : Cfg) (G : Nat) (init : List Vec) (steps : List StepOracle) (r : RunResult)
    (hN : 2 ≤ cfg.N) (hG : 1 ≤ G) (hinit : init.length = cfg.N)
    (h : nsga2Run cfg G init steps = some r) :
    r.evals = cfg.N * G ∧ r.world.log.length = r.world.failed.length + cfg.N * G := by
  obtain ⟨s0, s, h0, hl, _, hev, hw, _⟩ := nsga2Run_some h
  have F0 := nsga2Init_some h0
  have key := loop_history (cfg := cfg)
    (fun k s => s.world.log.length = s.world.failed.length + cfg.N * (k + 1)) (fun _ _ => True) (fun _ _ _ => True)
    (by
      intro it o s s' hi _ hstep
      obtain ⟨offs, fc, r, F⟩ := nsga2Step_some hstep
      have hc := (stepEval_length F.heval).2
      have hn := (run_generate_size cfg hN _ _ F.hgen).1
      refine ⟨?_, trivial, trivial⟩
      rw [F.hworld, Nat.mul_succ]
      omega)
    (G - 1) steps s0 s (init_book F0) hl (by rw [init_count F0, hinit]; simp) trivial
  have hcount := key.2.1
  have e : G - 1 + 1 = G := by omega
  rw [e] at hcount
  refine ⟨?_, by rw [hw]; exact hcount⟩
  rw [hev]; unfold okCalls; omega

/-- **Generations.**  Everything recorded carries a tag in `1..G`; every generation `1..G` has
exactly `N` designs; within every generation after the first the designs are pairwise different.

Hypothesis `hfirst` – needed for the *first* iteration only, later ones inherit distinct parents
from `truncate_nodup`: either the initial generation (as evaluated) consists of pairwise different
designs, or no objective call fails and `==` is reflexive, so that the `N` pairwise unequal
offspring of `generate_size` are `N` different designs.  (With failures a re-rolled vector may in
principle collide with another design; then `set()` leaves fewer than `N`.) -/
theorem nsga2_run_generations (cfg : Cfg) (G : Nat) (init : List Vec) (steps : List StepOracle) (r : RunResult)
    (hN : 2 ≤ cfg.N) (hG : 1 ≤ G) (hinit : init.length = cfg.N)
    (h : nsga2Run cfg G init steps = some r)
    (hfirst : ((gen 1 r.recorded).map (·.d.vec)).Nodup ∨
      ((∃ f, cfg.env.AlwaysOk f) ∧ ∀ v, cfg.eq v v = true)) :
    (∀ m ∈ r.recorded, 1 ≤ m.tag ∧ m.tag ≤ G) ∧
    (∀ t, 1 ≤ t → t ≤ G → (gen t r.recorded).length = cfg.N) ∧
    (∀ t, 2 ≤ t → t ≤ G → ((gen t r.recorded).map (·.d.vec)).Nodup) := by
  obtain ⟨s0, s, h0, hl, hrec, _, _, _⟩ := nsga2Run_some h
  have F0 := nsga2Init_some h0
  have e : G - 1 + 1 = G := by omega
  have hlen0 : s0.parents.length = cfg.N := by rw [F0.hlen, hinit]
  -- generation 1 of the record is the initial population
  have hg1 : gen 1 r.recorded = s0.parents := by
    have key := loop_history (cfg := cfg) (fun _ _ => True) (fun t g => t = 1 → g = s0.parents) (fun _ _ _ => True)
      (by intro it o s s' _ _ _; exact ⟨trivial, by omega, trivial⟩)
      (G - 1) steps s0 s (init_book F0) hl trivial (fun _ => rfl)
    rw [hrec]; exact key.2.2.1 1 (by omega) (by omega) rfl
  rcases hfirst with hnd | ⟨⟨f, hok⟩, hrefl⟩
  · rw [hg1] at hnd
    have key := loop_history (cfg := cfg) (fun _ _ => True)
      (fun _ g => g.length = cfg.N ∧ (g.map (·.d.vec)).Nodup) (fun _ _ _ => True)
      (by
        intro it o s s' _ hr hstep
        obtain ⟨offs, fc, r, F⟩ := nsga2Step_some hstep
        exact ⟨trivial, ⟨step_size_of_parents F hr.2 hr.1, step_nodup F⟩, trivial⟩)
      (G - 1) steps s0 s (init_book F0) hl trivial ⟨hlen0, hnd⟩
    rw [e] at key
    rw [hrec]
    exact ⟨fun m hm => by have := key.1.tags m hm; omega,
      fun t h1 h2 => (key.2.2.1 t h1 h2).1, fun t h1 h2 => (key.2.2.1 t (by omega) h2).2⟩
  · have key := loop_history (cfg := cfg) (fun _ _ => True)
      (fun t g => g.length = cfg.N ∧ (2 ≤ t → (g.map (·.d.vec)).Nodup)) (fun _ _ _ => True)
      (by
        intro it o s s' _ _ hstep
        obtain ⟨offs, fc, r, F⟩ := nsga2Step_some hstep
        obtain ⟨hn, hne⟩ := run_generate_size cfg hN _ _ F.hgen
        refine ⟨trivial, ⟨step_size_of_offspring F ?_ hn, fun _ => step_nodup F⟩, trivial⟩
        -- no call fails: the evaluated offspring still carry the vectors `generate` returned
        have hv : (stepEval cfg s offs).2.1.map (·.vec) = offs := by
          unfold stepEval
          rw [evalSerial_ok hok]
          simp only [List.map_map]
          have : ∀ (k : Nat) (vs : List Vec),
              (freshFrom k cfg.prec vs).map ((fun d : Design => d.vec) ∘ evalOne cfg.env f) = vs := by
            intro k vs
            induction vs generalizing k with
            | nil => rfl
            | cons v vs ih =>
              simp only [freshFrom, List.map_cons, Function.comp, ih]
              simp [evalOne, fresh, succeed]
          exact this _ _
        rw [hv]
        unfold NoEq at hne
        exact hne.imp (fun {a b} hab e => by subst e; rw [hrefl] at hab; cases hab))
      (G - 1) steps s0 s (init_book F0) hl trivial ⟨hlen0, fun h2 => by omega⟩
    rw [e] at key
    rw [hrec]
    exact ⟨fun m hm => by have := key.1.tags m hm; omega,
      fun t h1 h2 => (key.2.2.1 t h1 h2).1, fun t h1 h2 => (key.2.2.1 t (by omega) h2).2 h1⟩

/-- Member `y` dominates member `x` (verdict `1` of the comparator on their signed costs). -/
def DomM (y x : Member) : Prop :=
  ∃ my mx, y.d.marker = some my ∧ x.d.marker = some mx ∧ paretoCompare y.d.signed x.d.signed my mx = 1

/-- Elitism of one iteration, for the front numbers that `fnds` computes *inside* the step:
`nsga2_elitism` (C02 + C03) applied to the merged population of the run model.  Its hypotheses
are discharged here: `SameLen` and `RankConsistent` follow from "costs are a function of the
design" (`Good`, which evaluation establishes for a pure objective and parent copies inherit). -/
theorem nsga2_step_elitism (cfg : Cfg) (it : Nat) (o : StepOracle) (s s' : RunState)
    (f : Vec → List Rat) (m : Nat) (hp : Pure cfg.env f) (hlen : ∀ v, (f v).length = m)
    (hgood : ∀ p ∈ s.parents, Good cfg.env f cfg.prec p.d)
    (h : nsga2Step cfg it o s = some s') :
    ∀ x ∈ s'.parents, ∀ y ∈ s.parents, (∀ z ∈ s'.parents, z.d.vec ≠ y.d.vec) → ¬ DomM y x := by
  obtain ⟨offs, fc, r, F⟩ := nsga2Step_some h
  have hg := stepMerged_good hp hgood F.heval
  obtain ⟨pop, hpl, hfc, hs, hget, hfront, hc⟩ := sorting_facts hg hlen F.hsort
  obtain ⟨hsl, _, hsg⟩ := step_survivors F
  have hil := mkInds_length hfc
  intro x hx y hy hdrop ⟨my, mx, hmy, hmx, hdom⟩
  obtain ⟨k, hk, rfl⟩ := List.mem_iff_getElem.1 hx
  obtain ⟨j0, hj0, rfl⟩ := List.mem_iff_getElem.1 hy
  obtain ⟨hd, _, exd, _⟩ := hsg k hk (by omega)
  obtain ⟨hjm, ev, es, em⟩ := stepMerged_parent F.heval j0 hj0
  have hir : r[k]'(by omega) ∈ r := List.getElem_mem _
  have hdisc : DesignDiscarded (mkInds (stepMerged cfg s offs) fc) r
      ((mkInds (stepMerged cfg s offs) fc)[offs.length + j0]'(by omega)) := by
    refine ⟨List.getElem_mem _, ?_⟩
    rintro x' ⟨i', hi', hx'⟩ hde
    obtain ⟨k', hk', rfl⟩ := List.mem_iff_getElem.1 hi'
    obtain ⟨hd', _, ezd, _⟩ := hsg k' (by omega) hk'
    obtain ⟨_, ex'⟩ := List.getElem?_eq_some_iff.1 hx'
    rw [← ex', mkInds_get hfc _ hd', mkInds_get hfc _ hjm] at hde
    have hv := (designId_inj hd' hjm).1 hde
    exact hdrop _ (List.getElem_mem (by omega : k' < s'.parents.length)) (by rw [ezd, hv, ev])
  have := nsga2_elitism pop hs _ (by rw [hil, hpl]) hfront hc cfg.N o.setOrder r F.htrunc
    (r[k]'(by omega)) (offs.length + j0) hir (by omega) (by omega) hdisc
  apply this
  unfold Dom
  rw [popCmp_eq (by omega) (by omega), hget _ (by omega) hjm, hget _ (by omega) hd]
  simp only
  have g1 := (hg _ (List.getElem_mem hjm)).marker
  have g2 := (hg _ (List.getElem_mem hd)).marker
  rw [em, hmy] at g1
  rw [← exd, hmx] at g2
  rw [es, ← exd, ← Option.some.inj g1, ← Option.some.inj g2]
  exact hdom

/-- **Generational elitism of the run.**  For a pure objective with cost vectors of one length
(faults are allowed): between consecutive recorded generations no surviving design is dominated
by a design of the previous generation that was dropped (no design of the next generation has
its vector). -/
theorem nsga2_run_elitism (cfg : Cfg) (G : Nat) (init : List Vec) (steps : List StepOracle) (r : RunResult)
    (f : Vec → List Rat) (m : Nat) (hp : Pure cfg.env f) (hlen : ∀ v, (f v).length = m)
    (h : nsga2Run cfg G init steps = some r) :
    ∀ t, 1 ≤ t → t < G → ∀ x ∈ gen (t + 1) r.recorded, ∀ y ∈ gen t r.recorded,
      (∀ z ∈ gen (t + 1) r.recorded, z.d.vec ≠ y.d.vec) → ¬ DomM y x := by
  obtain ⟨s0, s, h0, hl, hrec, _, _, _⟩ := nsga2Run_some h
  have F0 := nsga2Init_some h0
  have key := loop_history (cfg := cfg)
    (fun _ s => ∀ p ∈ s.parents, Good cfg.env f cfg.prec p.d) (fun _ _ => True)
    (fun _ g g' => ∀ x ∈ g', ∀ y ∈ g, (∀ z ∈ g', z.d.vec ≠ y.d.vec) → ¬ DomM y x)
    (by
      intro it o s s' hi _ hstep
      obtain ⟨offs, fc, r, F⟩ := nsga2Step_some hstep
      exact ⟨step_good F hp hi, trivial, nsga2_step_elitism cfg it o s s' f m hp hlen hi hstep⟩)
    (G - 1) steps s0 s (init_book F0) hl (init_good F0 hp) trivial
  intro t h1 h2
  rw [hrec]
  exact key.2.2.2 t h1 (by omega)

/-- One iteration, single unconstrained objective: for every parent there is a survivor that is
at least as good (its own copy if the design survives; otherwise *any* survivor, because no
survivor is dominated by a dropped parent). -/
theorem nsga2_step_best (cfg : Cfg) (it : Nat) (o : StepOracle) (s s' : RunState) (f : Vec → List Rat)
    (hN : 1 ≤ cfg.N) (hp : Pure cfg.env f) (hone : ∀ v, (f v).length = 1) (hsg : cfg.env.signs ≠ [])
    (hcons : ∀ v, cfg.env.cons v = []) (hgood : ∀ p ∈ s.parents, Good cfg.env f cfg.prec p.d)
    (h : nsga2Step cfg it o s = some s') :
    ∀ y ∈ s.parents, ∃ x ∈ s'.parents, ∃ cx cy, x.d.signed = [cx] ∧ y.d.signed = [cy] ∧ cx ≤ cy := by
  obtain ⟨offs, fc, r, F⟩ := nsga2Step_some h
  have hgood' := step_good F hp hgood
  intro y hy
  obtain ⟨cy, hcy⟩ := signed_single (hgood y hy) hone hsg
  by_cases hex : ∃ z ∈ s'.parents, z.d.vec = y.d.vec
  · obtain ⟨z, hz, hv⟩ := hex
    refine ⟨z, hz, cy, cy, ?_, hcy, le_refl _⟩
    rw [(hgood' z hz).signed, hv, ← (hgood y hy).signed, hcy]
  · have hdrop : ∀ z ∈ s'.parents, z.d.vec ≠ y.d.vec := fun z hz e => hex ⟨z, hz, e⟩
    -- there is a survivor
    have hpos : 0 < s'.parents.length := by
      obtain ⟨j0, hj0, rfl⟩ := List.mem_iff_getElem.1 hy
      obtain ⟨hjm, ev, _, _⟩ := stepMerged_parent F.heval j0 hj0
      have h1 := C03.truncate_size _ _ _ _ F.htrunc
      have h2 := distinct_of_vecs (step_fc_length F) [s.parents[j0].d.vec] (by simp)
        (by intro v hv; simp only [List.mem_singleton] at hv; subst hv; exact ⟨_, List.getElem_mem hjm, ev⟩)
      rw [(step_survivors F).1, h1]
      simp only [List.length_singleton] at h2
      omega
    have hx : s'.parents[0] ∈ s'.parents := List.getElem_mem hpos
    obtain ⟨cx, hcx⟩ := signed_single (hgood' _ hx) hone hsg
    refine ⟨_, hx, cx, cy, hcx, hcy, ?_⟩
    by_contra hlt
    have hlt' : cy < cx := not_le.1 hlt
    apply nsga2_step_elitism cfg it o s s' f 1 hp hone hgood h _ hx y hy hdrop
    refine ⟨1, 1, ?_, ?_, ?_⟩
    · rw [(hgood y hy).marker, markerFn_unconstrained hcons]
    · rw [(hgood' _ hx).marker, markerFn_unconstrained hcons]
    · rw [hcy, hcx]; exact pareto_single cy cx hlt'

/-- **Best cost never gets worse.**  Single objective (`costs_signed` has one entry), no
constraints, pure objective (faults allowed): for every design of generation `t` generation
`t + 1` contains a design whose signed cost is at most as large – so the minimum over a recorded
generation never increases. -/
theorem nsga2_best_monotone (cfg : Cfg) (G : Nat) (init : List Vec) (steps : List StepOracle) (r : RunResult)
    (f : Vec → List Rat) (hN : 1 ≤ cfg.N) (hp : Pure cfg.env f) (hone : ∀ v, (f v).length = 1)
    (hsg : cfg.env.signs ≠ []) (hcons : ∀ v, cfg.env.cons v = [])
    (h : nsga2Run cfg G init steps = some r) :
    ∀ t, 1 ≤ t → t < G → ∀ y ∈ gen t r.recorded,
      ∃ x ∈ gen (t + 1) r.recorded, ∃ cx cy, x.d.signed = [cx] ∧ y.d.signed = [cy] ∧ cx ≤ cy := by
  obtain ⟨s0, s, h0, hl, hrec, _, _, _⟩ := nsga2Run_some h
  have F0 := nsga2Init_some h0
  have key := loop_history (cfg := cfg)
    (fun _ s => ∀ p ∈ s.parents, Good cfg.env f cfg.prec p.d) (fun _ _ => True)
    (fun _ g g' => ∀ y ∈ g, ∃ x ∈ g', ∃ cx cy, x.d.signed = [cx] ∧ y.d.signed = [cy] ∧ cx ≤ cy)
    (by
      intro it o s s' hi _ hstep
      obtain ⟨offs, fc, r, F⟩ := nsga2Step_some hstep
      exact ⟨step_good F hp hi, trivial, nsga2_step_best cfg it o s s' f hN hp hone hsg hcons hi hstep⟩)
    (G - 1) steps s0 s (init_book F0) hl (init_good F0 hp) trivial
  intro t h1 h2
  rw [hrec]
  exact key.2.2.2 t h1 (by omega)

/-! ### ε-MOEA run model -/

/-- Every acceptance step of the run model keeps the size of the working population
(`popAccept_size` for `Individual.__eq__` on the vectors). -/
theorem epsmoea_accept_size (cfg : Cfg) (hrefl : ∀ v, cfg.eq v v = true) :
    PopSize (fun a b => cfg.eq a.d.vec b.d.vec) :=
  fun pop flags x p1 p2 hpos =>
    popAccept_size (fun a b => cfg.eq a.d.vec b.d.vec) (fun a => hrefl a.d.vec) pop flags x p1 p2 hpos

/-- **ε-MOEA.**  A run that ends recorded generations `0..G` of exactly `N` designs each (nothing
under another tag), made `N·(G+1)` successful evaluations, and its working population – which
went through `N·G` acceptance steps – still has `N` members. -/
theorem epsmoea_run_budget_generations (cfg : Cfg) (eps : List Rat) (G : Nat) (init : List Vec)
    (steps : List EpsOracle) (r : EpsResult) (hN : 2 ≤ cfg.N) (hinit : init.length = cfg.N)
    (hrefl : ∀ v, cfg.eq v v = true) (h : epsMoeaRun cfg eps G init steps = some r) :
    r.evals = cfg.N * (G + 1) ∧ r.world.log.length = r.world.failed.length + cfg.N * (G + 1) ∧
    (∀ m ∈ r.recorded, m.tag ≤ G) ∧ (∀ t, t ≤ G → (gen t r.recorded).length = cfg.N) ∧
    r.pop.length = cfg.N := by
  obtain ⟨s0, s, h0, hl, hrec, hev, hw, hpop⟩ := epsMoeaRun_some h
  have I0 := epsInit_inv h0
  rw [hinit] at I0
  rw [List.range_eq_range'] at hl
  have I := epsLoop_induct (cfg := cfg) (eps := eps) (fun k s => EpsInv cfg.N k s)
    (fun it o s s' hi hstep => epsStep_inv (epsmoea_accept_size cfg hrefl)
      (fun ps offs hg => (run_generate_size cfg hN ps offs hg).1) (by omega) hi hstep)
    G 0 steps s0 s hl I0
  simp only [Nat.zero_add] at I
  refine ⟨?_, by rw [hw]; exact I.count, by rw [hrec]; exact I.tags, by rw [hrec]; exact I.sizes,
    by rw [hpop]; exact I.pop⟩
  rw [hev]; unfold okCalls; have := I.count; omega

end RunModel

/-! ### Non-vacuity of the run-model theorems

A concrete run with `N = 2`, `G = 3`, one objective `f v = [v₀]`; the first call on the second
initial design fails with a transient error and the design is re-rolled to `[5]`.  Generation 1
is `[1], [5]`; iteration 0 delivers the children `[3], [4]` and keeps `[1], [3]`; iteration 1
delivers `[1], [0]` – the offspring `[1]` equals a parent, `set()` keeps the parent's copy – and
keeps `[0], [1]`.  (The `set()` oracles list the de-duplicated merged population in sorted order,
so that the kernel can evaluate the run, `runS_sound_P`.) -/
section NonVacuity
open Artap.Nsga2 Artap.Eval

def exEnv : Env :=
  { obj := fun key n v => if key = 1 ∧ n = 0 then .transient 0 else .ok [v.headD 0],
    reroll := fun _ _ => [5], cons := fun _ => [], signs := [1], rnd := fun _ y => y }

def exCfg : Cfg := { env := exEnv, eq := fun a b => decide (a = b), prec := 7, N := 2 }

def exSteps : List StepOracle :=
  [{ children := [([3], [4])], setOrder := [2, 0, 1, 3] },
   { children := [([1], [0])], setOrder := [1, 2, 3] }]

/-- The run ends; 6 = N·G successful evaluations out of 7 calls; generation 1 has no repetition
(hypothesis `hfirst` of `nsga2_run_generations`); the best cost goes 1, 1, 0. -/
example : ∃ r, nsga2Run exCfg 3 [[1], [2]] exSteps = some r ∧
    (decide (((gen 1 r.recorded).map (·.d.vec)).Nodup) && r.evals == 6 && r.world.log.length == 7 &&
      ((gen 3 r.recorded).map (·.d.signed) == [[0], [1]])) = true :=
  runS_sound_P _ (by decide +kernel)

example : Pure exEnv (fun v => [v.headD 0]) := by
  intro key n v c h
  simp only [exEnv] at h
  split at h
  · cases h
  · cases h; rfl

example : (∀ v, ((fun v : Vec => [v.headD 0]) v).length = 1) ∧ exEnv.signs ≠ [] ∧ (∀ v, exEnv.cons v = []) :=
  ⟨fun _ => rfl, by simp [exEnv], fun _ => rfl⟩

/-- The other alternative of `hfirst`: an objective that never fails, reflexive `==`. -/
example : (∃ f, ({ exEnv with obj := fun _ _ v => .ok [v.headD 0] } : Env).AlwaysOk f) ∧
    ∀ v, exCfg.eq v v = true :=
  ⟨⟨fun v => [v.headD 0], fun _ _ _ => rfl⟩, fun v => by simp [exCfg]⟩

/-- An ε-MOEA run with `N = 2`, `G = 2`, ε = 1/2 that ends: 6 = N·(G+1) evaluations, 7 calls. -/
example : (epsMoeaRun exCfg [1 / 2] 2 [[1], [2]]
    [{ children := [([3], [4])], picks := [(0, 0), (0, 1)] },
     { children := [([0], [0]), ([0], [2])], picks := [(0, 0), (1, 0)] }]).map
      (fun r => r.evals == 6 && r.world.log.length == 7 && r.pop.length == 2) = some true := by
  decide +kernel

end NonVacuity

/-! ## Non-vacuity -/
example : generate (fun (a b : Nat) => a == b) 3 [(1, 1), (1, 2), (3, 4)] [] = some [1, 2, 3] := by decide
example : popAccept (fun (a b : Nat) => a == b) [10, 20, 30] [0, 1, 1] 99 1 0 = [10, 20, 99] := by decide
example : popAccept (fun (a b : Nat) => a == b) [10, 20, 30] [0, 2, 0] 99 1 0 = [10, 20, 30] := by decide
example : popAccept (fun (a b : Nat) => a == b) [10, 20, 30] [0, 0, 0] 99 1 1 = [10, 30, 99] := by decide
example : (nsga2Log 3 4).evals = 12 := by decide

end Artap.C09
