import ArtapModel.Gen.Bench
/-!
# Translation tie for the single-objective benchmark functions (artap/benchmark_functions.py, C15)

`ArtapModel/Gen/Bench.lean` is regenerated from the source by `tools/py2lean.py` on every run: the `evaluate`
methods of nineteen benchmark classes, each as a function of the coordinate list `xs : List α` over **any**
carrier `α` with the operations of `Artap.Num` (so every tie holds for the executable `Num Float` and for the
`Num ℝ` that the theorems of `Props/C15.lean` are about).  The hand-written model is `Model/Bench.lean`.

Reading fixed by the spec entries (`_bench` in tools/py2lean_specs.py): `x.vector` is `xs`; the result is the
returned one-element list; `none` is the Python exception (`IndexError` of the fixed-arity families on a
short vector, `ZeroDivisionError` of Ackley on the empty vector, the oracle of XinSheYang3 running dry).
The conventions for float arithmetic are printed in the header of the generated file.

Hypotheses (only where the model and the code have different parameters):
* `self.dimension` is a parameter of the generated function for Rosenbrock, Rastrigin, EqualityConstr and
  Perm; the model uses the length of the vector, so these ties are stated at `dimension = xs.length`
  (what `BenchmarkFunction.set_dimension` establishes for every vector the optimiser produces).
* XinSheYang3: the draws `uniform(0, 1)` are the oracle list `eps`; the tie needs one draw per coordinate
  (`xs.length ≤ eps.length`), otherwise the generated function is `none` while the model truncates.
Everything else holds for all inputs.
-/
set_option linter.unusedSimpArgs false
set_option linter.unusedVariables false
namespace Artap.Tie.Bench
open Artap Artap.Bench Artap.Gen.Bench

variable {α : Type} [Num α]

/-! ## general facts -/

/-- a fold over `enumerate(xs)` that ignores the index is the fold over `xs` -/
theorem foldl_zipIdx_fst {γ β : Type} (g : β → γ → β) (xs : List γ) (k : Nat) (a : β) :
    (xs.zipIdx k).foldl (fun acc p => g acc p.1) a = xs.foldl g a := by
  induction xs generalizing k a with
  | nil => rfl
  | cons x xs ih => simp only [List.zipIdx_cons, List.foldl_cons]; exact ih _ _

theorem sumFrom_const (a : α) (h : α → α) (xs : List α) :
    sumFrom a (fun _ c => h c) xs = xs.foldl (fun acc c => Num.add acc (h c)) a :=
  foldl_zipIdx_fst (fun acc c => Num.add acc (h c)) xs 0 a

theorem prodFrom_const (a : α) (h : α → α) (xs : List α) :
    prodFrom a (fun _ c => h c) xs = xs.foldl (fun acc c => Num.mul acc (h c)) a :=
  foldl_zipIdx_fst (fun acc c => Num.mul acc (h c)) xs 0 a

theorem ite_singleton {β : Type} (c : Prop) [Decidable c] (a b : β) :
    [if c then a else b] = if c then [a] else [b] := by split <;> rfl

theorem half : ((5 : Rat) / 10) = 1 / 2 := by decide +kernel

/-! ## Sphere -/

theorem Sphere_loop (l : List α) (a : α) :
    Sphere_evaluate_loop1 l a = [l.foldl (fun acc c => Num.add acc (sq c)) a] := by
  induction l generalizing a with
  | nil => rfl
  | cons c l ih => simp only [Sphere_evaluate_loop1, List.foldl_cons]; exact ih _

theorem tie_Sphere_evaluate (xs : List α) : Sphere_evaluate xs = [sphere xs] := by
  simp only [Sphere_evaluate, Sphere_loop, sphere, sumFrom_const]
  rfl

/-! ## Booth, SixHump, GramacyLee (fixed arity: a short vector is the IndexError) -/

theorem tie_Booth_evaluate (xs : List α) :
    Booth_evaluate xs = match xs with | x :: y :: _ => some [booth x y] | _ => none := by
  match xs with
  | [] => rfl
  | [x] => rfl
  | x :: y :: r => rfl

theorem tie_SixHump_evaluate (xs : List α) :
    SixHump_evaluate xs = match xs with | x :: y :: _ => some [sixHump x y] | _ => none := by
  match xs with
  | [] => rfl
  | [x] => rfl
  | x :: y :: r => rfl

theorem tie_GramacyLee_evaluate (xs : List α) :
    GramacyLee_evaluate xs = match xs with | x :: _ => some [gramacyLee x] | _ => none := by
  match xs with
  | [] => rfl
  | x :: r => rfl

/-! ## Rosenbrock (index loop over `range(0, dimension - 1)` = fold over adjacent pairs) -/

/-- one pass of the loop on the pair `(x[i], x[i+1])` -/
def rosenStep (acc : α) (p : α × α) : α :=
  Num.add acc (Num.add (Num.mul (Num.sub (nat 1) p.1) (Num.sub (nat 1) p.1))
    (Num.mul (Num.mul (Num.sub p.2 (sq p.1)) (Num.sub p.2 (sq p.1))) (nat 100)))

theorem Rosenbrock_loop (x : List α) : ∀ (n s : Nat) (acc : α), (n = 0 ∨ s + n + 1 ≤ x.length) →
    Rosenbrock_evaluate_loop1 (List.range' s n) x acc
      = some [(((x.drop s).zip (x.drop (s + 1))).take n).foldl rosenStep acc] := by
  intro n
  induction n with
  | zero => intro s acc _; simp [Rosenbrock_evaluate_loop1]
  | succ n ih =>
    intro s acc h
    have hs : s < x.length := by omega
    have hs1 : s + 1 < x.length := by omega
    rw [List.range'_succ]
    simp only [Rosenbrock_evaluate_loop1, List.getElem?_eq_getElem hs, List.getElem?_eq_getElem hs1]
    rw [ih (s + 1) _ (by omega)]
    have hz : (x.drop s).zip (x.drop (s + 1)) = (x[s], x[s + 1]) :: (x.drop (s + 1)).zip (x.drop (s + 1 + 1)) := by
      conv => lhs; rw [List.drop_eq_getElem_cons hs]; arg 2; rw [List.drop_eq_getElem_cons hs1]
      rfl
    rw [hz, List.take_succ_cons, List.foldl_cons]
    rfl

theorem tie_Rosenbrock_evaluate (xs : List α) :
    Rosenbrock_evaluate xs.length xs = some [rosenbrock xs] := by
  have hn : (Int.toNat ((xs.length : Int) - ((1 : Nat) : Int))) - (0 : Nat) = xs.length - 1 := by omega
  simp only [Rosenbrock_evaluate, hn]
  rw [Rosenbrock_loop xs (xs.length - 1) 0 _ (by omega)]
  have ht : ((List.drop 0 xs).zip (List.drop (0 + 1) xs)).take (xs.length - 1) = xs.zip xs.tail := by
    rw [List.take_of_length_le (by simp <;> omega)]
    simp
  rw [ht]
  rfl

/-! ## Zakharov, Rastrigin, Griewank, Alpine, Schwefel, Michalewicz, ModifiedEasom (accumulating loops) -/

theorem Zakharov_loop (l : List (α × Nat)) (a b c : α) :
    Zakharov_evaluate_loop1 l a b c =
      [Num.add (Num.add (l.foldl (fun acc p => Num.add acc (sq p.1)) a)
        (sq (l.foldl (fun acc p => Num.add acc (Num.mul (Num.mul (rat (1 / 2)) (nat (p.2 + 1))) p.1)) b)))
        (sq (l.foldl (fun acc p => Num.add acc (Num.mul (Num.mul (rat (1 / 2)) (nat (p.2 + 1))) p.1)) c))] := by
  induction l generalizing a b c with
  | nil => rfl
  | cons p l ih =>
    obtain ⟨x, i⟩ := p
    simp only [Zakharov_evaluate_loop1, List.foldl_cons, half]
    exact ih _ _ _

theorem tie_Zakharov_evaluate (xs : List α) : Zakharov_evaluate xs = [zakharov xs] := by
  simp only [Zakharov_evaluate, Zakharov_loop]
  rfl

theorem Rastrigin_loop (l : List α) (a : α) :
    Rastrigin_evaluate_loop1 l a =
      [l.foldl (fun acc c => Num.add acc (Num.sub (sq c) (Num.mul (nat 10) (Num.cos (Num.mul (Num.mul (nat 2) Num.pi) c))))) a] := by
  induction l generalizing a with
  | nil => rfl
  | cons c l ih => simp only [Rastrigin_evaluate_loop1, List.foldl_cons]; exact ih _

theorem tie_Rastrigin_evaluate (xs : List α) : Rastrigin_evaluate xs.length xs = [rastrigin xs] := by
  simp only [Rastrigin_evaluate, Rastrigin_loop, rastrigin, sumFrom_const]
  rfl

theorem Griewank_loop (l : List (α × Nat)) (a b : α) :
    Griewank_evaluate_loop1 l a b =
      [Num.add (Num.sub (l.foldl (fun acc p => Num.add acc (Num.div (sq p.1) (nat 4000))) a)
        (l.foldl (fun acc p => Num.mul acc (Num.cos (Num.div p.1 (Num.sqrt (nat (p.2 + 1)))))) b)) (nat 1)] := by
  induction l generalizing a b with
  | nil => rfl
  | cons p l ih =>
    obtain ⟨x, i⟩ := p
    simp only [Griewank_evaluate_loop1, List.foldl_cons]
    exact ih _ _

theorem tie_Griewank_evaluate (xs : List α) : Griewank_evaluate xs = [griewank xs] := by
  simp only [Griewank_evaluate, Griewank_loop]
  rfl

theorem Alpine_loop (l : List α) (a : α) :
    AlpineFunction_evaluate_loop1 l a =
      [l.foldl (fun acc c => Num.add acc (Num.abs (Num.add (Num.mul c (Num.sin c)) (Num.mul (rat (1 / 10)) c)))) a] := by
  induction l generalizing a with
  | nil => rfl
  | cons c l ih => simp only [AlpineFunction_evaluate_loop1, List.foldl_cons]; exact ih _

theorem tie_AlpineFunction_evaluate (xs : List α) : AlpineFunction_evaluate xs = [alpine xs] := by
  simp only [AlpineFunction_evaluate, Alpine_loop, alpine, sumFrom_const]
  rfl

theorem Schwefel_loop (l : List α) (a k : α) :
    Schwefel_evaluate_loop1 l a k =
      [l.foldl (fun acc c => Num.add (Num.sub acc (Num.mul c (Num.sin (Num.sqrt (Num.abs c))))) k) a] := by
  induction l generalizing a with
  | nil => rfl
  | cons c l ih => simp only [Schwefel_evaluate_loop1, List.foldl_cons]; exact ih _

theorem tie_Schwefel_evaluate (xs : List α) : Schwefel_evaluate xs = [schwefel xs] := by
  simp only [Schwefel_evaluate, Schwefel_loop]
  rfl

theorem Michaelwicz_loop (l : List (α × Nat)) (a : α) (m : Nat) :
    Michaelwicz_evaluate_loop1 l a m =
      [Num.neg (l.foldl (fun acc p => Num.add acc (Num.mul (Num.sin p.1)
        (Num.pow (Num.sin (Num.div (Num.mul (Num.mul (nat (p.2 + 1)) p.1) p.1) Num.pi)) (nat (2 * m))))) a)] := by
  induction l generalizing a with
  | nil => rfl
  | cons p l ih =>
    obtain ⟨x, i⟩ := p
    simp only [Michaelwicz_evaluate_loop1, List.foldl_cons]
    exact ih _

theorem tie_Michaelwicz_evaluate (xs : List α) : Michaelwicz_evaluate xs = [michalewicz xs] := by
  simp only [Michaelwicz_evaluate, Michaelwicz_loop]
  rfl

theorem ModifiedEasom_loop (l : List α) (p s : α) :
    ModifiedEasom_evaluate_loop1 l p s =
      [Num.mul (l.foldl (fun acc c => Num.mul acc (Num.pow (Num.cos c) (nat 2))) p)
        (Num.exp (Num.neg (l.foldl (fun acc c => Num.add acc (sq (Num.sub c Num.pi))) s)))] := by
  induction l generalizing p s with
  | nil => rfl
  | cons c l ih => simp only [ModifiedEasom_evaluate_loop1, List.foldl_cons]; exact ih _ _

theorem tie_ModifiedEasom_evaluate (xs : List α) : ModifiedEasom_evaluate xs = [modifiedEasom xs] := by
  simp only [ModifiedEasom_evaluate, ModifiedEasom_loop, modifiedEasom, sumFrom_const, prodFrom_const]
  rfl

/-! ## Ackley (`n = float(len(x))`: the empty vector is the ZeroDivisionError) -/

theorem Ackley_loop (l x : List α) (a b : α) :
    Ackley_evaluate_loop1 l a b x =
      if x.length ≠ 0 then
        some [Num.add (Num.add (Num.sub
          (Num.mul (Num.neg (nat 20)) (Num.exp (Num.mul (Num.neg (rat (2 / 10)))
            (Num.sqrt (Num.div (l.foldl (fun acc c => Num.add acc (sq c)) a) (nat x.length))))))
          (Num.exp (Num.div (l.foldl (fun acc c => Num.add acc (Num.cos (Num.mul (Num.mul (nat 2) Num.pi) c))) b)
            (nat x.length)))) (nat 20)) (Num.exp (nat 1))]
      else none := by
  induction l generalizing a b with
  | nil => rfl
  | cons c l ih => simp only [Ackley_evaluate_loop1, List.foldl_cons]; exact ih _ _

theorem tie_Ackley_evaluate (xs : List α) :
    Ackley_evaluate xs = if xs.length ≠ 0 then some [ackley xs] else none := by
  simp only [Ackley_evaluate, Ackley_loop, ackley, sumFrom_const]
  rfl

/-! ## EqualityConstr -/

theorem EqualityConstr_loop [NumOrd α] (d : Nat) (l : List α) (a b : α) :
    EqualityConstr_evaluate_loop1 d l a b =
      if NumOrd.lt (Num.abs (Num.sub (l.foldl (fun acc c => Num.add acc (Num.mul c c)) b) (nat 1)))
          (rat (1 / 1000000000)) = true
      then [Num.mul (Num.neg (nat 1)) (l.foldl (fun acc c => Num.mul acc (Num.mul c (Num.sqrt (nat d)))) a)]
      else [nat 0] := by
  induction l generalizing a b with
  | nil => rfl
  | cons c l ih => simp only [EqualityConstr_evaluate_loop1, List.foldl_cons]; exact ih _ _

theorem tie_EqualityConstr_evaluate [NumOrd α] (xs : List α) :
    EqualityConstr_evaluate xs.length xs = [equalityConstr xs] := by
  simp only [EqualityConstr_evaluate, EqualityConstr_loop, equalityConstr, sumFrom_const, prodFrom_const]
  rw [ite_singleton]
  rfl

/-! ## Perm (nested loops; `range(1, dimension + 1)`) -/

/-- the inner loop `for j, d in enumerate(x)` for the exponent `i` -/
def permInner (b i : Nat) (f : α) (l : List (α × Nat)) : α :=
  l.foldl (fun acc p => Num.add acc (Num.mul (nat (p.2 + 1 + b))
    (sq (Num.sub (Num.pow p.1 (nat i)) (Num.div (nat 1) (Num.pow (nat (p.2 + 1)) (nat i))))))) f

theorem Perm_loop2 (b i : Nat) (l : List (α × Nat)) (f : α) :
    Perm_evaluate_loop2 b i l f = permInner b i f l := by
  induction l generalizing f with
  | nil => rfl
  | cons p l ih =>
    obtain ⟨x, j⟩ := p
    simp only [Perm_evaluate_loop2, permInner, List.foldl_cons]
    exact ih _

theorem Perm_loop1 (is : List Nat) (x : List α) (b : Nat) (f : α) :
    Perm_evaluate_loop1 is x b f = [is.foldl (fun acc i => permInner b i acc x.zipIdx) f] := by
  induction is generalizing f with
  | nil => rfl
  | cons i is ih => simp only [Perm_evaluate_loop1, Perm_loop2, List.foldl_cons]; exact ih _

theorem tie_Perm_evaluate (xs : List α) : Perm_evaluate xs.length xs = [perm xs] := by
  simp only [Perm_evaluate, Perm_loop1, Nat.add_sub_cancel, List.range'_eq_map_range, List.foldl_map, perm]
  congr 2
  funext acc i
  simp only [permInner, sumFrom, Nat.add_comm 1 i]

/-! ## XinSheYang 1, 2 (the loops assign: only the last coordinate counts), XinSheYang3 (random factor) -/

theorem XinSheYang_loop (l : List α) (a b : α) :
    XinSheYang_evaluate_loop1 l a b =
      [Num.mul (lastOf a (fun c => Num.abs c) l) (Num.exp (Num.neg (lastOf b (fun c => Num.sin (sq c)) l)))] := by
  induction l generalizing a b with
  | nil => rfl
  | cons c l ih => simp only [XinSheYang_evaluate_loop1, lastOf, List.foldl_cons]; exact ih _ _

theorem tie_XinSheYang_evaluate (xs : List α) : XinSheYang_evaluate xs = [xinSheYang1 xs] := by
  simp only [XinSheYang_evaluate, XinSheYang_loop]
  rfl

theorem XinSheYang2_loop (l : List α) (beta m : Nat) (hb : beta ≠ 0) (a b c : α) :
    XinSheYang2_evaluate_loop1 l beta m a b c =
      some [Num.mul (Num.sub
        (Num.exp (lastOf a (fun c => Num.mul (Num.neg (nat 1)) (Num.pow (Num.div c (nat beta)) (nat (2 * m)))) l))
        (Num.mul (nat 2) (Num.exp (lastOf b (fun c => Num.mul (Num.neg (nat 1)) (sq c)) l))))
        (lastOf c (fun c => Num.pow (Num.cos c) (nat 2)) l)] := by
  induction l generalizing a b c with
  | nil => rfl
  | cons x l ih =>
    simp only [XinSheYang2_evaluate_loop1, lastOf, List.foldl_cons, hb, ne_eq, not_false_eq_true, if_true]
    exact ih _ _ _

theorem tie_XinSheYang2_evaluate (xs : List α) : XinSheYang2_evaluate xs = some [xinSheYang2 xs] := by
  simp only [XinSheYang2_evaluate]
  rw [XinSheYang2_loop xs 15 5 (by decide)]
  rfl

theorem XinSheYang3_loop (xs : List α) : ∀ (eps : List α) (k : Nat) (acc : α), xs.length ≤ eps.length →
    XinSheYang3_evaluate_loop1 (xs.zipIdx k) eps acc =
      some [((eps.zip xs).zipIdx k).foldl
        (fun _ p => Num.mul p.1.1 (Num.abs (Num.sub p.1.2 (Num.div (nat 1) (nat (p.2 + 1)))))) acc] := by
  induction xs with
  | nil => intro eps k acc _; simp [XinSheYang3_evaluate_loop1]
  | cons x xs ih =>
    intro eps k acc h
    match eps, h with
    | e :: eps, h =>
      simp only [List.zipIdx_cons, XinSheYang3_evaluate_loop1, List.head?_cons, List.tail_cons, Option.map_some,
        ne_eq, Nat.add_one_ne_zero, not_false_eq_true, if_true, List.zip_cons_cons, List.foldl_cons]
      exact ih eps (k + 1) _ (by simpa using h)

/-- one draw per coordinate: `xs.length ≤ eps.length` -/
theorem tie_XinSheYang3_evaluate (eps xs : List α) (h : xs.length ≤ eps.length) :
    XinSheYang3_evaluate eps xs = some [xinSheYang3 eps xs] := by
  simp only [XinSheYang3_evaluate]
  rw [XinSheYang3_loop xs eps 0 _ h]
  rfl

/-- the oracle running dry is the only way the generated function fails -/
theorem XinSheYang3_evaluate_dry (xs : List α) : ∀ (eps : List α) (k : Nat) (acc : α), eps.length < xs.length →
    XinSheYang3_evaluate_loop1 (xs.zipIdx k) eps acc = none := by
  induction xs with
  | nil => intro eps k acc h; simp at h
  | cons x xs ih =>
    intro eps k acc h
    match eps, h with
    | [], _ => simp [XinSheYang3_evaluate_loop1]
    | e :: eps, h =>
      simp only [List.zipIdx_cons, XinSheYang3_evaluate_loop1, List.head?_cons, List.tail_cons, Option.map_some,
        ne_eq, Nat.add_one_ne_zero, not_false_eq_true, if_true]
      exact ih eps (k + 1) _ (by simpa using h)

/-! ## Schubert (`for i in range(1, n + 1)` with n = 5, reading `x[0]`, `x[1]`) -/

theorem tie_Schubert_evaluate (xs : List α) :
    Schubert_evaluate xs = match xs with | x :: y :: _ => some [schubert x y] | _ => none := by
  have hr : List.range' (1 : Nat) (((5 : Nat) + (1 : Nat)) - (1 : Nat)) = [1, 2, 3, 4, 5] := by decide
  match xs with
  | [] => simp [Schubert_evaluate, hr, Schubert_evaluate_loop1]
  | [x] => simp [Schubert_evaluate, hr, Schubert_evaluate_loop1]
  | x :: y :: r =>
    simp only [Schubert_evaluate, hr, Schubert_evaluate_loop1, List.getElem?_cons_zero, List.getElem?_cons_succ]
    rfl

/-! ## The same ties through the model's table `Artap.Bench.eval` (what `table_at_opt` / `table_bound` of
`Props/C15.lean` are stated about) -/

section table
variable [NumOrd α]

/-- the generated function of each family of this module at `dimension = xs.length`; `none` = the call raises.
(`XinSheYang3` needs its draws and the four synthetic families live in `Gen/BenchRobust.lean`: not in this table.) -/
def genEval : Family → List α → Option (List α)
  | .rosenbrock, xs => Rosenbrock_evaluate xs.length xs
  | .ackley, xs => Ackley_evaluate xs
  | .sphere, xs => some (Sphere_evaluate xs)
  | .schwefel, xs => some (Schwefel_evaluate xs)
  | .modifiedEasom, xs => some (ModifiedEasom_evaluate xs)
  | .equalityConstr, xs => some (EqualityConstr_evaluate xs.length xs)
  | .griewank, xs => some (Griewank_evaluate xs)
  | .michalewicz, xs => some (Michaelwicz_evaluate xs)
  | .perm, xs => some (Perm_evaluate xs.length xs)
  | .rastrigin, xs => some (Rastrigin_evaluate xs.length xs)
  | .sixHump, xs => SixHump_evaluate xs
  | .schubert, xs => Schubert_evaluate xs
  | .zakharov, xs => some (Zakharov_evaluate xs)
  | .xinSheYang1, xs => some (XinSheYang_evaluate xs)
  | .xinSheYang2, xs => XinSheYang2_evaluate xs
  | .booth, xs => Booth_evaluate xs
  | .gramacyLee, xs => GramacyLee_evaluate xs
  | .alpine, xs => some (AlpineFunction_evaluate xs)
  | _, _ => none

def tiedFamilies : List Family :=
  [.rosenbrock, .ackley, .sphere, .schwefel, .modifiedEasom, .equalityConstr, .griewank, .michalewicz, .perm,
   .rastrigin, .sixHump, .schubert, .zakharov, .xinSheYang1, .xinSheYang2, .booth, .gramacyLee, .alpine]

/-- for the eighteen deterministic families of benchmark_functions.py: the generated `evaluate` returns the
one-element list of the model's `eval`, and raises exactly where `eval` is `none` -/
theorem tie_eval (F : Family) (hF : F ∈ tiedFamilies) (xs : List α) :
    genEval F xs = (eval F xs).map (fun v => [v]) := by
  simp only [tiedFamilies, List.mem_cons, List.not_mem_nil, or_false] at hF
  rcases hF with rfl | rfl | rfl | rfl | rfl | rfl | rfl | rfl | rfl | rfl | rfl | rfl | rfl | rfl | rfl | rfl | rfl | rfl
  · simp [genEval, eval, tie_Rosenbrock_evaluate]
  · cases xs <;> simp [genEval, eval, tie_Ackley_evaluate]
  · simp [genEval, eval, tie_Sphere_evaluate]
  · simp [genEval, eval, tie_Schwefel_evaluate]
  · simp [genEval, eval, tie_ModifiedEasom_evaluate]
  · simp [genEval, eval, tie_EqualityConstr_evaluate]
  · simp [genEval, eval, tie_Griewank_evaluate]
  · simp [genEval, eval, tie_Michaelwicz_evaluate]
  · simp [genEval, eval, tie_Perm_evaluate]
  · simp [genEval, eval, tie_Rastrigin_evaluate]
  · rcases xs with _ | ⟨x, _ | ⟨y, r⟩⟩ <;> simp [genEval, eval, tie_SixHump_evaluate]
  · rcases xs with _ | ⟨x, _ | ⟨y, r⟩⟩ <;> simp [genEval, eval, tie_Schubert_evaluate]
  · simp [genEval, eval, tie_Zakharov_evaluate]
  · simp [genEval, eval, tie_XinSheYang_evaluate]
  · simp [genEval, eval, tie_XinSheYang2_evaluate]
  · rcases xs with _ | ⟨x, _ | ⟨y, r⟩⟩ <;> simp [genEval, eval, tie_Booth_evaluate]
  · rcases xs with _ | ⟨x, r⟩ <;> simp [genEval, eval, tie_GramacyLee_evaluate]
  · simp [genEval, eval, tie_AlpineFunction_evaluate]

end table

end Artap.Tie.Bench
