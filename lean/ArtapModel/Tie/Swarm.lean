import ArtapModel.Gen.Swarm
/-!
# Translation tie for the swarm helpers (artap/algorithm_swarm.py)

`ArtapModel/Gen/Swarm.lean` is regenerated from the source by `tools/py2lean.py` on every run:
`SwarmAlgorithm.speed_constriction`, `SwarmAlgorithm.update_particle_best` and the three copies of
`update_position` (OMOPSO, SMPSO, PSOGA).  The hand-written model is `Model/Swarm.lean` (properties C18, C08):
`speedConstriction`, `pbestReplaced` / `updatePBest`, and the per-coordinate `updatePosition f` with the
factor `f = -1` (OMOPSO, PSOGA: reverse) or `f = 1/1000` (SMPSO: damp).

Reading fixed by the spec entry: a swarm is a list of record values (`Particle`: vector and velocity;
`PBest`: signed costs, best costs, vector, best vector), the loop `for individual in individuals` that
updates attributes of its members rebinds every member (the members are distinct objects), and
`self.parameters` is the list of `(lower, upper)` bounds.

* `tie_speed_constriction`: generated = `speedConstriction`, all inputs.
* `tie_update_particle_best_cmp`: for every comparator the generated function maps `pbestStep` over the
  swarm; `tie_update_particle_best`: with the Pareto comparator of C01 the new best costs are `updatePBest`,
  the best vector is replaced exactly when `pbestReplaced`, nothing else changes.  (Typing assumption of
  the spec entry: `best_cost` is a cost vector, i.e. `init_pbest` has run.)
* `tie_<X>_update_position`: the generated function (index loop over `zip(self.parameters,
  range(len(vector)))`, three reads and up to five in-place writes per coordinate) is `posAll f`:
  `updatePosition f` on every coordinate that the loop visits (`posCoords`: as many as there are
  parameters and coordinates; a velocity list that is too short is the `IndexError`, `none`), for every
  particle, in order.  No hypotheses.  `posCoords_zip4` is the equal-lengths case in the form the model's
  protocol handler (`c18.pos`: `zip4` and `map`) computes.
-/
set_option linter.unusedSimpArgs false
set_option linter.unusedVariables false
namespace Artap.Tie.Swarm
open Artap Artap.Swarm Artap.Gen.Swarm

/-! ## `speed_constriction` -/

theorem tie_speed_constriction (v ub lb : Rat) : speed_constriction v ub lb = speedConstriction v ub lb := by
  rfl

/-! ## `update_particle_best` -/

section pbest
variable {κ V : Type}

/-- one particle of `update_particle_best` for a comparator `cmp` -/
def pbestStep (cmp : κ → κ → Nat) (p : PBest κ V) : PBest κ V :=
  if cmp p.costs_signed p.best_cost ≠ 2 then { p with best_cost := p.costs_signed, best_vector := p.vector } else p

theorem pbest_loop (cmp : κ → κ → Nat) (pop done : List (PBest κ V)) :
    update_particle_best_loop1 cmp pop done = done ++ pop.map (pbestStep cmp) := by
  induction pop generalizing done with
  | nil => simp [update_particle_best_loop1]
  | cons p pop ih =>
    simp only [update_particle_best_loop1, List.map_cons, pbestStep]
    by_cases h : cmp p.costs_signed p.best_cost = 2
    · simp [h, ih]
    · simp [h, ih]

theorem tie_update_particle_best_cmp (cmp : κ → κ → Nat) (pop : List (PBest κ V)) :
    update_particle_best cmp pop = pop.map (pbestStep cmp) := by
  simp [update_particle_best, pbest_loop]

/-- With the Pareto comparator (`self.dominance = ParetoDominance()`; costs_signed = (costs, marker)). -/
theorem tie_update_particle_best {κ : Type} [LT κ] [DecidableLT κ] (pop : List (PBest (List κ × Int) V)) :
    update_particle_best (fun a b => paretoCompare a.1 b.1 a.2 b.2) pop =
      pop.map (fun p => { p with
        best_cost := updatePBest p.costs_signed p.best_cost,
        best_vector := if pbestReplaced p.costs_signed p.best_cost then p.vector else p.best_vector }) := by
  rw [tie_update_particle_best_cmp]
  apply List.map_congr_left
  intro p _
  simp only [pbestStep, updatePBest, pbestReplaced, bne_iff_ne, ne_eq]
  by_cases h : paretoCompare p.costs_signed.1 p.best_cost.1 p.costs_signed.2 p.best_cost.2 = 2
  · simp [h]
  · simp [h]

end pbest

/-! ## `update_position` -/

/-- `updatePosition f` along the coordinates that `zip(self.parameters, range(len(vector)))` visits:
bounds, positions, velocities ↦ new positions and velocities.  Coordinates beyond the shorter of
(parameters, vector) are left alone; a missing velocity entry is the `IndexError`. -/
def posCoords (f : Rat) : List (Rat × Rat) → List Rat → List Rat → Option (List Rat × List Rat)
  | [], x, v => some (x, v)
  | _ :: _, [], v => some ([], v)
  | _ :: _, _ :: _, [] => none
  | bd :: ps, a :: x, b :: v =>
    (posCoords f ps x v).map (fun r =>
      ((updatePosition f a b bd.1 bd.2).1 :: r.1, (updatePosition f a b bd.1 bd.2).2 :: r.2))

def posParticle (f : Rat) (ps : List (Rat × Rat)) (p : Particle) : Option Particle :=
  (posCoords f ps p.vector p.velocity).map (fun r => ⟨r.1, r.2⟩)

/-- every particle in order; the first exception aborts -/
def posAll (f : Rat) (ps : List (Rat × Rat)) : List Particle → Option (List Particle)
  | [] => some []
  | p :: rest =>
    match posParticle f ps p with
    | none => none
    | some q => (posAll f ps rest).map (fun t => q :: t)

/-- What the tie needs to know about a generated coordinate loop `L` (proved from its defining equations for
each of the three copies). -/
structure PosLoop (f : Rat) (L : List ((Rat × Rat) × Nat) → Particle → Option Particle) : Prop where
  nil : ∀ p, L [] p = some p
  vec_none : ∀ bd i tl p, p.vector[i]? = none → L ((bd, i) :: tl) p = none
  vel_none : ∀ bd i tl p a, p.vector[i]? = some a → p.velocity[i]? = none → L ((bd, i) :: tl) p = none
  step : ∀ bd i tl p a b, p.vector[i]? = some a → p.velocity[i]? = some b →
    L ((bd, i) :: tl) p = L tl ⟨p.vector.set i (updatePosition f a b bd.1 bd.2).1,
                               p.velocity.set i (updatePosition f a b bd.1 bd.2).2⟩

theorem set_mid {α : Type} (pre : List α) (a b : α) (x : List α) :
    (pre ++ a :: x).set pre.length b = (pre ++ [b]) ++ x := by
  rw [List.set_append_right _ _ (Nat.le_refl _)]
  simp

theorem set_same {α : Type} (l : List α) (i : Nat) (b : α) (h : l[i]? = some b) : l.set i b = l := by
  obtain ⟨hi, hb⟩ := List.getElem?_eq_some_iff.mp h
  subst hb
  exact List.set_getElem_self hi

theorem get_mid {α : Type} (pre : List α) (x : List α) : (pre ++ x)[pre.length]? = x[0]? := by
  rw [List.getElem?_append_right (Nat.le_refl _)]
  simp

theorem posLoop_eq {f : Rat} {L} (hL : PosLoop f L) (ps : List (Rat × Rat)) (x v pre prev : List Rat)
    (hk : prev.length = pre.length) :
    L (List.zip ps (List.range' pre.length x.length)) ⟨pre ++ x, prev ++ v⟩ =
      (posCoords f ps x v).map (fun r => ⟨pre ++ r.1, prev ++ r.2⟩) := by
  induction ps generalizing x v pre prev with
  | nil => simp [posCoords, hL.nil]
  | cons bd ps ih =>
    cases x with
    | nil => simp [posCoords, hL.nil]
    | cons a x =>
      have hvec : (⟨pre ++ a :: x, prev ++ v⟩ : Particle).vector[pre.length]? = some a := by
        simp [get_mid]
      simp only [List.length_cons, List.range'_succ, List.zip_cons_cons]
      cases v with
      | nil =>
        have hvel : (⟨pre ++ a :: x, prev ++ []⟩ : Particle).velocity[pre.length]? = none := by
          simp [← hk]
        rw [hL.vel_none bd _ _ _ a hvec hvel]
        simp [posCoords]
      | cons b v =>
        have hvel : (⟨pre ++ a :: x, prev ++ b :: v⟩ : Particle).velocity[pre.length]? = some b := by
          simp [← hk, get_mid]
        rw [hL.step bd _ _ _ a b hvec hvel]
        have h1 : (pre ++ a :: x).set pre.length (updatePosition f a b bd.1 bd.2).1
            = (pre ++ [(updatePosition f a b bd.1 bd.2).1]) ++ x := set_mid _ _ _ _
        have h2 : (prev ++ b :: v).set pre.length (updatePosition f a b bd.1 bd.2).2
            = (prev ++ [(updatePosition f a b bd.1 bd.2).2]) ++ v := by rw [← hk]; exact set_mid _ _ _ _
        simp only [h1, h2]
        have := ih x v (pre ++ [(updatePosition f a b bd.1 bd.2).1]) (prev ++ [(updatePosition f a b bd.1 bd.2).2])
          (by simp [hk])
        simp only [List.length_append, List.length_cons, List.length_nil, Nat.zero_add] at this
        rw [this]
        simp only [posCoords, Option.map_map]
        congr 1
        funext r
        simp

theorem posLoop_particle {f : Rat} {L} (hL : PosLoop f L) (ps : List (Rat × Rat)) (p : Particle) :
    L (List.zip ps (List.range p.vector.length)) p = posParticle f ps p := by
  have := posLoop_eq hL ps p.vector p.velocity [] [] rfl
  simpa [List.range_eq_range', posParticle] using this

/-- the particle loop: `L1` calls the coordinate loop `L2` on every member and collects the results -/
structure OuterLoop (L1 : List (Rat × Rat) → List Particle → List Particle → Option (List Particle))
    (L2 : List ((Rat × Rat) × Nat) → Particle → Option Particle) : Prop where
  nil : ∀ ps d, L1 ps [] d = some d
  cons : ∀ ps p tl d, L1 ps (p :: tl) d =
    match L2 (List.zip ps (List.range p.vector.length)) p with
    | some q => L1 ps tl (d ++ [q])
    | none => none

theorem outer_eq {f : Rat} {L1 L2} (h1 : OuterLoop L1 L2) (h2 : PosLoop f L2) (ps : List (Rat × Rat))
    (inds done : List Particle) :
    L1 ps inds done = (posAll f ps inds).map (fun t => done ++ t) := by
  induction inds generalizing done with
  | nil => simp [h1.nil, posAll]
  | cons p tl ih =>
    rw [h1.cons, posLoop_particle h2, posAll]
    cases posParticle f ps p with
    | none => rfl
    | some q =>
      simp only [ih, Option.map_map]
      congr 1
      funext t
      simp

/-! ### the three generated copies -/

/-- proves `PosLoop f L` from the defining equations of the generated loop `L` -/
macro "pos_loop" L:ident : tactic => `(tactic| (
  refine ⟨fun p => by simp [$L:ident], ?_, ?_, ?_⟩
  · intro bd i tl p h
    simp [$L:ident, h]
  · intro bd i tl p a h1 h2
    simp [$L:ident, h1, h2]
  · intro bd i tl p a b h1 h2
    have hi : i < p.vector.length := (List.getElem?_eq_some_iff.mp h1).1
    have hj : i < p.velocity.length := (List.getElem?_eq_some_iff.mp h2).1
    simp only [$L:ident, h1, h2, hi, hj, if_true, List.getElem?_set_self, List.length_set, List.set_set,
      updatePosition]
    by_cases c1 : bd.2 < a + b
    · by_cases c2 : bd.2 < bd.1
      · simp [c1, c2, hi, hj, List.getElem?_set_self, List.length_set, List.set_set]
      · simp [c1, c2, hi, hj, List.getElem?_set_self, List.length_set, List.set_set]
    · by_cases c2 : a + b < bd.1
      · simp [c1, c2, hi, hj, List.getElem?_set_self, List.length_set, List.set_set]
      · simp [c1, c2, hi, hj, List.getElem?_set_self, List.length_set, List.set_set, set_same _ _ _ h2]))

theorem omopso_loop2 : PosLoop (-1) OMOPSO_update_position_loop2 := by pos_loop OMOPSO_update_position_loop2
theorem smpso_loop2 : PosLoop (1 / 1000) SMPSO_update_position_loop2 := by pos_loop SMPSO_update_position_loop2
theorem psoga_loop2 : PosLoop (-1) PSOGA_update_position_loop2 := by pos_loop PSOGA_update_position_loop2

theorem omopso_loop1 : OuterLoop OMOPSO_update_position_loop1 OMOPSO_update_position_loop2 :=
  ⟨fun _ _ => by simp [OMOPSO_update_position_loop1], fun _ _ _ _ => by simp only [OMOPSO_update_position_loop1]; rfl⟩
theorem smpso_loop1 : OuterLoop SMPSO_update_position_loop1 SMPSO_update_position_loop2 :=
  ⟨fun _ _ => by simp [SMPSO_update_position_loop1], fun _ _ _ _ => by simp only [SMPSO_update_position_loop1]; rfl⟩
theorem psoga_loop1 : OuterLoop PSOGA_update_position_loop1 PSOGA_update_position_loop2 :=
  ⟨fun _ _ => by simp [PSOGA_update_position_loop1], fun _ _ _ _ => by simp only [PSOGA_update_position_loop1]; rfl⟩

theorem tie_OMOPSO_update_position (ps : List (Rat × Rat)) (inds : List Particle) :
    OMOPSO_update_position ps inds = posAll (-1) ps inds := by
  simp [OMOPSO_update_position, outer_eq omopso_loop1 omopso_loop2]

theorem tie_SMPSO_update_position (ps : List (Rat × Rat)) (inds : List Particle) :
    SMPSO_update_position ps inds = posAll (1 / 1000) ps inds := by
  simp [SMPSO_update_position, outer_eq smpso_loop1 smpso_loop2]

theorem tie_PSOGA_update_position (ps : List (Rat × Rat)) (inds : List Particle) :
    PSOGA_update_position ps inds = posAll (-1) ps inds := by
  simp [PSOGA_update_position, outer_eq psoga_loop1 psoga_loop2]

/-- The factors are those of the model's table `factorOf`. -/
theorem factors : factorOf "OMOPSO" = some (-1) ∧ factorOf "SMPSO" = some (1 / 1000) ∧ factorOf "PSOGA" = some (-1) :=
  ⟨rfl, rfl, rfl⟩

/-- Equal lengths (what the model's handler `c18.pos` accepts): `posCoords` is the handler's `zip4` + `map`. -/
theorem posCoords_zip4 (f : Rat) (xs vs lbs ubs : List Rat) (q : List (Rat × Rat × Rat × Rat))
    (h : zip4 xs vs lbs ubs = some q) :
    posCoords f (List.zip lbs ubs) xs vs =
      some ((q.map (fun t => updatePosition f t.1 t.2.1 t.2.2.1 t.2.2.2)).map Prod.fst,
            (q.map (fun t => updatePosition f t.1 t.2.1 t.2.2.1 t.2.2.2)).map Prod.snd) := by
  induction xs generalizing vs lbs ubs q with
  | nil =>
    cases vs <;> cases lbs <;> cases ubs <;> simp [zip4] at h
    subst h; simp [posCoords]
  | cons a xs ih =>
    cases vs with
    | nil => cases lbs <;> cases ubs <;> simp [zip4] at h
    | cons b vs =>
      cases lbs with
      | nil => cases ubs <;> simp [zip4] at h
      | cons l lbs =>
        cases ubs with
        | nil => simp [zip4] at h
        | cons u ubs =>
          simp only [zip4] at h
          cases hq : zip4 xs vs lbs ubs with
          | none => simp [hq] at h
          | some q' =>
            simp only [hq, Option.map_some, Option.some.injEq] at h
            subst h
            simp [posCoords, ih vs lbs ubs q' hq]

end Artap.Tie.Swarm
