import ArtapModel.Gen.Signed
/-!
# Translation tie for `Individual.calc_signed_costs` (artap/individual.py)

`ArtapModel/Gen/Signed.lean` is regenerated from the source by `tools/py2lean.py` on every run:
`list(map(lambda x, y: x * np.round(y, decimals=precision), p_signs, self.costs))` (`List.zipWith`, `map`
stops at the shorter list) followed by `costs_signed.append(not features["feasible"])`.

`tie_Individual_calc_signed_costs`: called with `p_signs = self.problem.signs` (as `Job.evaluate` does), for
every environment, precision, cost list, feasibility value and stale `costs_signed`, the new `costs_signed`
is the model's `signedCosts` followed by the model's marker `markerOf` (the Python bool as the number 1 / 0).
This is the callee that the `Job.evaluate` tie (`Tie/Eval.lean`) takes from the model.
-/
namespace Artap.Tie.Signed
open Artap.Eval Artap.Gen.Signed

theorem tie_Individual_calc_signed_costs (env : Env) (prec : Nat) (costs : List Rat) (f : Feas) (stale : List Rat) :
    Individual_calc_signed_costs env prec costs f env.signs stale =
      signedCosts env prec costs ++ [((markerOf f : Int) : Rat)] := by
  unfold Individual_calc_signed_costs signedCosts markerOf
  cases h : f.truthy <;> simp

end Artap.Tie.Signed
