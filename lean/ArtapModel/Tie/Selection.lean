import ArtapModel.Gen.Selection
/-!
# Translation tie for `nondominated_cmp` and `TournamentSelector.select` (artap/operators.py)

`ArtapModel/Gen/Selection.lean` is regenerated from the source by `tools/py2lean.py` on every run.
The generated functions are the hand-written `cmpND` and `select` of `Model/Selection.lean`
(properties C03, C09), for all inputs.
-/
set_option linter.unusedSimpArgs false
namespace Artap.Tie.Selection
open Artap Artap.Gen.Selection

theorem tie_nondominated_cmp (p q : Ind) : nondominated_cmp p q = cmpND p q := by
  simp only [nondominated_cmp, cmpND]

/-- The decision of the binary tournament: `random.sample` ↦ the positions `i`, `j`,
`random.choice` ↦ `coin`, `self.dominance.compare` ↦ the Pareto comparator of the model. -/
theorem tie_TournamentSelector_select (pop : List Cand) (i j : Nat) (coin : Bool) :
    TournamentSelector_select (fun a b => paretoCompare a.costs b.costs a.marker b.marker) pop i j coin
      = select pop i j coin := by
  have key : ∀ (l : List Cand), l.length ≠ 1 →
      TournamentSelector_select (fun a b => paretoCompare a.costs b.costs a.marker b.marker) l i j coin
        = if i = j then none else
          match l[i]?, l[j]? with
          | some a, some b => some (tournament a b coin)
          | _, _ => none := by
    intro l hl
    simp only [TournamentSelector_select, hl, if_false]
    by_cases hij : i = j
    · simp [hij]
    · simp only [ne_eq, hij, not_false_eq_true, if_true, if_false]
      cases l[i]? <;> cases l[j]? <;> simp only [tournament]
      repeat' split
      all_goals simp_all
  rcases pop with _ | ⟨x, _ | ⟨y, r⟩⟩
  · rw [key [] (by simp)]; rfl
  · simp [TournamentSelector_select, select]
  · rw [key (x :: y :: r) (by simp)]; rfl

end Artap.Tie.Selection
