import ArtapModel.Gen.Sorting
/-!
# Translation tie for `Selector.fast_nondominated_sorting` (artap/operators.py)

`ArtapModel/Gen/Sorting.lean` is regenerated from the source by `tools/py2lean.py` on every run
(reset loop, the two nested comparison loops, the `while` peeling loop with its two nested `for`
loops, the final `pop`).  Reading of the source fixed by the spec entry (`tools/py2lean_specs.py`):
individuals are positions `0 … n-1` (ids = positions, i.e. distinct ids – the assumption of the
hand-written model), the three features the function writes are three tables indexed by position whose
stale content on entry is a parameter, `self.comparator.compare` on two members is `cmp i j`,
`self.individual(individuals, id)` is the member at position `id` (guard `id < n`), the `while` loop
runs on fuel `n + 1` (out of fuel = `none`), the trailing `crowding_distance` calls are ignored (they
never write a front number).  Every table access of the generated code is partial (`xs[i]?`, `none` =
the Python exception); the model uses total `getD`/`set`.

Theorems (all for every verdict table `cmp`, size `n`, fuel, state):

* `loop6_eq`, `loop2_eq`: inner / outer comparison loop = fold of `cmpStep` / `outerStep` (`phase1`);
* `loop5_eq`, `loop4_eq`: `for individual_id in p.features['dominate']` / `for p in front` =
  fold of `decStep` / `procStep` (`level`);
* `loop3_eq`: the `while` loop = `peel`, fuel for fuel (so "fuel suffices" is exactly `C02.peel_fuel`);
* `tie_Selector_fast_nondominated_sorting`: generated function = `fndsCmp n cmp`; `tie_fnds`: = `fnds? pop`.

The only hypotheses are `counter.length = dominate.length = front.length = n` (each individual has a
features dictionary); no hypothesis on `cmp` (no partial-order assumption) is needed: the invariant `WF`
(table lengths, `dominate` entries are positions `< n`) is proved here for arbitrary verdicts.
-/
set_option linter.unusedSimpArgs false
set_option linter.unusedVariables false
namespace Artap.Tie.Sorting
open Artap Artap.Gen.Sorting

local notation "L1" => Selector_fast_nondominated_sorting_loop1
local notation "L2" => Selector_fast_nondominated_sorting_loop2
local notation "L3" => Selector_fast_nondominated_sorting_loop3
local notation "L4" => Selector_fast_nondominated_sorting_loop4
local notation "L5" => Selector_fast_nondominated_sorting_loop5
local notation "L6" => Selector_fast_nondominated_sorting_loop6

/-- Well-formed feature tables: one entry per individual, `dominate` entries are positions. -/
structure WF (n : Nat) (s : SortState) : Prop where
  hc : s.counter.length = n
  hd : s.dominate.length = n
  hf : s.front.length = n
  hm : ∀ l ∈ s.dominate, ∀ x ∈ l, x < n

theorem bump_get (l : List Int) (i : Nat) (d : Int) (h : i < l.length) :
    ∃ c, l[i]? = some c ∧ bump l i d = l.set i (c + d) :=
  ⟨l[i], List.getElem?_eq_getElem h, by simp [bump, List.getD_eq_getElem?_getD, List.getElem?_eq_getElem h]⟩

theorem push_get (l : List (List Nat)) (i x : Nat) (h : i < l.length) :
    ∃ c, l[i]? = some c ∧ c ∈ l ∧ push l i x = l.set i (c ++ [x]) :=
  ⟨l[i], List.getElem?_eq_getElem h, List.getElem_mem h,
    by simp [push, List.getD_eq_getElem?_getD, List.getElem?_eq_getElem h]⟩

theorem mem_set_bound {n : Nat} (l : List (List Nat)) (i : Nat) (v : List Nat)
    (hl : ∀ a ∈ l, ∀ x ∈ a, x < n) (hv : ∀ x ∈ v, x < n) : ∀ a ∈ l.set i v, ∀ x ∈ a, x < n := by
  intro a ha
  rcases List.mem_or_eq_of_mem_set ha with h | h
  · exact hl a h
  · subst h; exact hv

theorem cmpStep_eq (cmp : Nat → Nat → Nat) (i : Nat) (s : SortState) (j : Nat) :
    cmpStep cmp i s j =
      if cmp i j = 1 then { s with dominate := push s.dominate i j, counter := bump s.counter j 1 }
      else if cmp i j = 2 then { s with counter := bump s.counter i 1, dominate := push s.dominate j i }
      else s := by
  unfold cmpStep
  split
  · next h => rw [if_pos h]
  · next h => rw [if_neg (by omega), if_pos h]
  · next h1 h2 => rw [if_neg h1, if_neg h2]

theorem cmpStep_wf {n : Nat} (cmp : Nat → Nat → Nat) {i j : Nat} {s : SortState} (hs : WF n s)
    (hi : i < n) (hj : j < n) : WF n (cmpStep cmp i s j) ∧ (cmpStep cmp i s j).front = s.front := by
  rw [cmpStep_eq]
  have hdi : i < s.dominate.length := by rw [hs.hd]; exact hi
  have hdj : j < s.dominate.length := by rw [hs.hd]; exact hj
  obtain ⟨a, _, ham, hpa⟩ := push_get s.dominate i j hdi
  obtain ⟨b, _, hbm, hpb⟩ := push_get s.dominate j i hdj
  split
  · refine ⟨⟨by simp [bump, hs.hc], by simp [push, hs.hd], hs.hf, ?_⟩, rfl⟩
    simp only [hpa]
    refine mem_set_bound _ _ _ hs.hm ?_
    intro x hx
    rcases List.mem_append.mp hx with h | h
    · exact hs.hm a ham x h
    · simp at h; omega
  · split
    · refine ⟨⟨by simp [bump, hs.hc], by simp [push, hs.hd], hs.hf, ?_⟩, rfl⟩
      simp only [hpb]
      refine mem_set_bound _ _ _ hs.hm ?_
      intro x hx
      rcases List.mem_append.mp hx with h | h
      · exact hs.hm b hbm x h
      · simp at h; omega
    · exact ⟨hs, rfl⟩

/-- The inner `for j in range(i + 1, len(individuals))` loop is the model's fold of `cmpStep`. -/
theorem loop6_eq (cmp : Nat → Nat → Nat) (n i : Nat) (hi : i < n) (l : List Nat) (s : SortState)
    (hs : WF n s) (hl : ∀ j ∈ l, j < n) :
    L6 cmp n i l s.dominate s.counter =
      some ((l.foldl (cmpStep cmp i) s).dominate, (l.foldl (cmpStep cmp i) s).counter)
    ∧ WF n (l.foldl (cmpStep cmp i) s) ∧ (l.foldl (cmpStep cmp i) s).front = s.front := by
  induction l generalizing s with
  | nil => exact ⟨by simp [Selector_fast_nondominated_sorting_loop6], hs, rfl⟩
  | cons j l ih =>
    have hj : j < n := hl j (by simp)
    have hw := cmpStep_wf cmp hs hi hj
    have ih' := ih (cmpStep cmp i s j) hw.1 (fun x hx => hl x (by simp [hx]))
    refine ⟨?_, by simpa using ih'.2.1, by simpa [hw.2] using ih'.2.2⟩
    rw [List.foldl_cons, ← ih'.1, Selector_fast_nondominated_sorting_loop6.eq_2, cmpStep_eq]
    have hdi : i < s.dominate.length := by rw [hs.hd]; exact hi
    have hdj : j < s.dominate.length := by rw [hs.hd]; exact hj
    have hci : i < s.counter.length := by rw [hs.hc]; exact hi
    have hcj : j < s.counter.length := by rw [hs.hc]; exact hj
    obtain ⟨a, ha, _, hpa⟩ := push_get s.dominate i j hdi
    obtain ⟨b, hb, _, hpb⟩ := push_get s.dominate j i hdj
    obtain ⟨c, hc, hbc⟩ := bump_get s.counter i 1 hci
    obtain ⟨d, hd, hbd⟩ := bump_get s.counter j 1 hcj
    simp only [List.getElem?_range hj, ha, hb, hc, hd, hpa, hpb, hbc, hbd]
    by_cases h1 : cmp i j = 1
    · simp only [h1, if_true]
    · by_cases h2 : cmp i j = 2
      · simp [h2]
      · simp only [h1, h2, if_false]

theorem pyGet_last {α : Type} (pre : List α) (x : α) (k : Nat) (hk : pre.length + 1 = k) :
    pyGet (pre ++ [x]) ((k : Int) - ((1 : Nat) : Int)) = some x := by
  have h0 : (0 : Int) ≤ (k : Int) - ((1 : Nat) : Int) := by omega
  have h1 : ((k : Int) - ((1 : Nat) : Int)).toNat = pre.length := by omega
  unfold pyGet
  rw [if_pos h0, h1]
  simp

theorem pySet_last {α : Type} (pre : List α) (x v : α) (k : Nat) (hk : pre.length + 1 = k) :
    pySet (pre ++ [x]) ((k : Int) - ((1 : Nat) : Int)) v = some (pre ++ [v]) := by
  have h0 : (0 : Int) ≤ (k : Int) - ((1 : Nat) : Int) := by omega
  have h1 : ((k : Int) - ((1 : Nat) : Int)).toNat = pre.length := by omega
  unfold pySet
  rw [if_pos h0, h1]
  simp

/-- The outer `for i, p in enumerate(individuals)` loop (with the inner loop and the
"selects the pareto values" test) is the model's fold of `outerStep`. -/
theorem loop2_eq (cmp : Nat → Nat → Nat) (n m k : Nat) (hkm : k + m ≤ n) (s : SortState) (f : List Nat)
    (hs : WF n s) (hf : ∀ x ∈ f, x < n) :
    L2 cmp n ((List.range' k m).zipIdx k) s.dominate s.counter s.front 1 [f] =
      L2 cmp n [] ((List.range' k m).foldl (outerStep cmp n) (s, f)).1.dominate
        ((List.range' k m).foldl (outerStep cmp n) (s, f)).1.counter
        ((List.range' k m).foldl (outerStep cmp n) (s, f)).1.front 1
        [((List.range' k m).foldl (outerStep cmp n) (s, f)).2]
    ∧ WF n ((List.range' k m).foldl (outerStep cmp n) (s, f)).1
    ∧ ∀ x ∈ ((List.range' k m).foldl (outerStep cmp n) (s, f)).2, x < n := by
  induction m generalizing k s f with
  | zero => exact ⟨by simp, by simpa using hs, by simpa using hf⟩
  | succ m ih =>
    have hk : k < n := by omega
    have hr : ∀ j ∈ List.range' (k + 1) (n - (k + 1)), j < n := by
      intro j hj; simp [List.mem_range'] at hj; omega
    obtain ⟨h6, hw, hfr⟩ := loop6_eq cmp n k hk _ s hs hr
    simp only [List.range'_succ, List.zipIdx_cons, List.foldl_cons,
      Selector_fast_nondominated_sorting_loop2.eq_2, h6]
    generalize hS : (List.range' (k + 1) (n - (k + 1))).foldl (cmpStep cmp k) s = S at hw hfr
    have hck : k < S.counter.length := by rw [hw.hc]; exact hk
    have hfk : k < S.front.length := by rw [hw.hf]; exact hk
    have hg : S.counter.getD k 0 = S.counter[k] := by
      simp [List.getD_eq_getElem?_getD, List.getElem?_eq_getElem hck]
    have hstep : outerStep cmp n (s, f) k =
        if S.counter[k] = 0 then ({ S with front := S.front.set k (some 1) }, f ++ [k]) else (S, f) := by
      simp only [outerStep, hS, hg, beq_iff_eq]
    rw [hstep]
    have hg0 : pyGet [f] 0 = some f := by simp [pyGet]
    have hs0 : pySet [f] 0 (f ++ [k]) = some [f ++ [k]] := by simp [pySet]
    simp only [List.getElem?_eq_getElem hck, ← hfr]
    by_cases h0 : S.counter[k] = 0
    · simp only [h0, if_true, hfk]
      have hw' : WF n { S with front := S.front.set k (some 1) } :=
        ⟨hw.hc, hw.hd, by simp [hw.hf], hw.hm⟩
      have := ih (k + 1) (by omega) { S with front := S.front.set k (some 1) } (f ++ [k]) hw'
        (by intro x hx; rcases List.mem_append.mp hx with h | h
            · exact hf x h
            · simp at h; omega)
      simpa [hg0, hs0] using this
    · simp only [h0, if_false]
      have := ih (k + 1) (by omega) S f hw hf
      simpa using this

theorem decStep_eq {n : Nat} (k : Nat) (s : SortState) (nx : List Nat) (q : Nat) (hs : WF n s) (hq : q < n) :
    ∃ c fr, s.counter[q]? = some c ∧ s.front[q]? = some fr ∧
      decStep k (s, nx) q =
        if c - 1 = 0 ∧ fr = none then
          ({ s with counter := s.counter.set q (c - 1), front := s.front.set q (some k) }, nx ++ [q])
        else ({ s with counter := s.counter.set q (c - 1) }, nx) := by
  have hcq : q < s.counter.length := by rw [hs.hc]; exact hq
  have hfq : q < s.front.length := by rw [hs.hf]; exact hq
  refine ⟨s.counter[q], s.front[q], List.getElem?_eq_getElem hcq, List.getElem?_eq_getElem hfq, ?_⟩
  have h1 : (s.counter.set q (s.counter[q] - 1)).getD q 0 = s.counter[q] - 1 := by
    simp [List.getD_eq_getElem?_getD, hcq]
  have h2 : s.front.getD q none = s.front[q] := by
    simp [List.getD_eq_getElem?_getD, List.getElem?_eq_getElem hfq]
  have h3 : bump s.counter q (-1) = s.counter.set q (s.counter[q] - 1) := by
    simp [bump, List.getD_eq_getElem?_getD, List.getElem?_eq_getElem hcq, Int.sub_eq_add_neg]
  simp only [decStep, h1, h2, h3, Bool.and_eq_true, beq_iff_eq, Option.isNone_iff_eq_none]

/-- `for individual_id in p.features['dominate']` is the model's fold of `decStep`. -/
theorem loop5_eq (n k : Nat) (pre : List (List Nat)) (hpre : pre.length + 1 = k) (l : List Nat)
    (hl : ∀ q ∈ l, q < n) (s : SortState) (nx : List Nat) (hs : WF n s) (hnx : ∀ x ∈ nx, x < n) :
    L5 n k l s.counter s.front (pre ++ [nx]) =
      some ((l.foldl (decStep k) (s, nx)).1.counter, (l.foldl (decStep k) (s, nx)).1.front,
        pre ++ [(l.foldl (decStep k) (s, nx)).2])
    ∧ WF n (l.foldl (decStep k) (s, nx)).1
    ∧ (l.foldl (decStep k) (s, nx)).1.dominate = s.dominate
    ∧ ∀ x ∈ (l.foldl (decStep k) (s, nx)).2, x < n := by
  induction l generalizing s nx with
  | nil => exact ⟨by simp [Selector_fast_nondominated_sorting_loop5], hs, rfl, hnx⟩
  | cons q l ih =>
    have hq : q < n := hl q (by simp)
    have hl' : ∀ x ∈ l, x < n := fun x hx => hl x (by simp [hx])
    obtain ⟨c, fr, hc, hfr, hstep⟩ := decStep_eq k s nx q hs hq
    have hcq : q < s.counter.length := by rw [hs.hc]; exact hq
    have hfq : q < s.front.length := by rw [hs.hf]; exact hq
    simp only [List.foldl_cons, hstep, Selector_fast_nondominated_sorting_loop5.eq_2, hq, if_true, hc,
      List.getElem?_set_self hcq, hfr, hfq, pyGet_last pre nx k hpre, pySet_last pre nx _ k hpre]
    generalize c - 1 = c'
    have happ : ∀ x ∈ nx ++ [q], x < n := by
      intro x hx
      rcases List.mem_append.mp hx with h | h
      · exact hnx x h
      · simp at h; omega
    by_cases h0 : c' = 0
    · by_cases h1 : fr = none
      · rw [if_pos h0, if_pos h1, if_pos ⟨h0, h1⟩]
        exact ih hl' { s with counter := s.counter.set q c', front := s.front.set q (some k) } (nx ++ [q])
          ⟨by simp [hs.hc], hs.hd, by simp [hs.hf], hs.hm⟩ happ
      · rw [if_pos h0, if_neg h1, if_neg (fun h => h1 h.2)]
        exact ih hl' { s with counter := s.counter.set q c' } nx ⟨by simp [hs.hc], hs.hd, hs.hf, hs.hm⟩ hnx
    · rw [if_neg h0, if_neg (fun h => h0 h.1)]
      exact ih hl' { s with counter := s.counter.set q c' } nx ⟨by simp [hs.hc], hs.hd, hs.hf, hs.hm⟩ hnx

/-- `for p in pareto_front[front_number - 2]` (one pass of the `while` body) is the model's `level`. -/
theorem loop4_eq (n k : Nat) (pre : List (List Nat)) (hpre : pre.length + 1 = k) (cur : List Nat)
    (hcur : ∀ p ∈ cur, p < n) (s : SortState) (nx : List Nat) (hs : WF n s) (hnx : ∀ x ∈ nx, x < n) :
    L4 n s.dominate k cur s.counter s.front (pre ++ [nx]) =
      some ((cur.foldl (procStep k) (s, nx)).1.counter, (cur.foldl (procStep k) (s, nx)).1.front,
        pre ++ [(cur.foldl (procStep k) (s, nx)).2])
    ∧ WF n (cur.foldl (procStep k) (s, nx)).1
    ∧ (cur.foldl (procStep k) (s, nx)).1.dominate = s.dominate
    ∧ ∀ x ∈ (cur.foldl (procStep k) (s, nx)).2, x < n := by
  induction cur generalizing s nx with
  | nil => exact ⟨by simp [Selector_fast_nondominated_sorting_loop4], hs, rfl, hnx⟩
  | cons p cur ih =>
    have hp : p < n := hcur p (by simp)
    have hcur' : ∀ x ∈ cur, x < n := fun x hx => hcur x (by simp [hx])
    have hdp : p < s.dominate.length := by rw [hs.hd]; exact hp
    have hD : s.dominate[p]? = some s.dominate[p] := List.getElem?_eq_getElem hdp
    have hDm : ∀ x ∈ s.dominate[p], x < n := hs.hm _ (List.getElem_mem hdp)
    have hproc : procStep k (s, nx) p = (s.dominate[p]).foldl (decStep k) (s, nx) := by
      simp [procStep, List.getD_eq_getElem?_getD, hD]
    obtain ⟨h5, hw, hdom, hb⟩ := loop5_eq n k pre hpre s.dominate[p] hDm s nx hs hnx
    obtain ⟨i4, iw, idom, ib⟩ := ih hcur' _ _ hw hb
    rw [hdom] at i4
    simp only [List.foldl_cons, hproc, Selector_fast_nondominated_sorting_loop4.eq_2, hD, h5]
    exact ⟨i4, iw, by rw [idom, hdom], ib⟩

theorem pyGet_nat {α : Type} (xs : List α) (i : Nat) (k : Int) (h : k = (i : Int)) :
    pyGet xs k = xs[i]? := by
  subst h
  have h0 : (0 : Int) ≤ (i : Int) := by omega
  unfold pyGet
  rw [if_pos h0]
  simp

/-- The `while len(pareto_front[front_number - 1]) > 0` loop is the model's `peel`, fuel for fuel
(the code after the loop only pops an empty last front; the trailing `crowding_distance` calls are
ignored, see the generated header). -/
theorem loop3_eq (n fuel k : Nat) (pre : List (List Nat)) (hpre : pre.length + 1 = k) (cur : List Nat)
    (hcur : ∀ p ∈ cur, p < n) (s : SortState) (hs : WF n s) :
    L3 n fuel (pre ++ [cur]) k s.dominate s.counter s.front = (peel fuel s cur k).map (·.front) := by
  induction fuel generalizing k pre cur s with
  | zero =>
    rw [Selector_fast_nondominated_sorting_loop3.eq_1, pyGet_last pre cur k hpre]
    cases cur with
    | nil => simp [peel]
    | cons a l => simp [peel]
  | succ fuel ih =>
    rw [Selector_fast_nondominated_sorting_loop3.eq_2, pyGet_last pre cur k hpre]
    cases cur with
    | nil => simp [peel]
    | cons a l =>
      have hlen : 0 < (a :: l).length := by simp
      have hg : (2 : Int) ≤ ((k + 1 : Nat) : Int) := by omega
      have hget : pyGet (pre ++ [a :: l] ++ [([] : List Nat)]) (((k + 1 : Nat) : Int) - ((2 : Nat) : Int))
          = some (a :: l) := by
        rw [pyGet_nat _ pre.length _ (by omega)]
        simp
      obtain ⟨h4, hw, hdom, hb⟩ := loop4_eq n (k + 1) (pre ++ [a :: l]) (by simp; omega) (a :: l) hcur s [] hs
        (by simp)
      have := ih (k + 1) (pre ++ [a :: l]) (by simp; omega) _ hb _ hw
      rw [hdom] at this
      simp only [hlen, if_true, hg, hget, h4, this]
      simp [peel, level]

/-- The reset loop, the two nested comparison loops and the first-front test are the model's `phase1`;
the rest of the function is `peel` on its result. -/
theorem tie_phase1_peel (cmp : Nat → Nat → Nat) (n : Nat) (s0 : SortState) (hs0 : WF n s0) :
    L2 cmp n ((List.range n).zipIdx) s0.dominate s0.counter s0.front 1 [[]] =
      (peel (n + 1) ((List.range n).foldl (outerStep cmp n) (s0, [])).1
        ((List.range n).foldl (outerStep cmp n) (s0, [])).2 1).map (·.front) := by
  obtain ⟨h2, hw, hb⟩ := loop2_eq cmp n n 0 (by omega) s0 [] hs0 (by simp)
  rw [List.range_eq_range', show (List.range' 0 n).zipIdx = (List.range' 0 n).zipIdx 0 from rfl, h2,
    Selector_fast_nondominated_sorting_loop2.eq_1]
  exact loop3_eq n (n + 1) 1 [] rfl _ hb _ hw

theorem foldl_set_getElem? {α : Type} (v : α) (l : List Nat) (c : List α) (j : Nat) :
    (l.foldl (fun c i => c.set i v) c)[j]? = if j ∈ l ∧ j < c.length then some v else c[j]? := by
  induction l generalizing c with
  | nil => simp
  | cons i l ih =>
    rw [List.foldl_cons, ih, List.length_set, List.getElem?_set]
    by_cases hj : j < c.length
    · by_cases h1 : j ∈ l
      · simp [h1, hj]
      · by_cases h2 : i = j
        · subst h2; simp [h1, hj]
        · have h3 : ¬ j = i := fun h => h2 h.symm
          simp [h1, h2, h3, hj]
    · have : c[j]? = none := by simp; omega
      by_cases h2 : i = j
      · subst h2; simp [hj, this]
      · simp [hj, h2]

theorem foldl_set_range {α : Type} (v : α) (n : Nat) (c : List α) (hc : c.length = n) :
    (List.range n).foldl (fun c i => c.set i v) c = List.replicate n v := by
  apply List.ext_getElem?
  intro j
  rw [foldl_set_getElem?]
  by_cases hj : j < n
  · simp [hj, hc]
  · have : c[j]? = none := by simp; omega
    simp [hj, hc, this]

theorem foldl_set_length {α : Type} (v : α) (l : List Nat) (c : List α) :
    (l.foldl (fun c i => c.set i v) c).length = c.length := by
  induction l generalizing c with
  | nil => rfl
  | cons i l ih => rw [List.foldl_cons, ih, List.length_set]

/-- The reset loop. -/
theorem loop1_eq (cmp : Nat → Nat → Nat) (n : Nat) (l : List Nat) (hl : ∀ i ∈ l, i < n)
    (c : List Int) (f : List (Option Nat)) (d : List (List Nat))
    (hc : c.length = n) (hf : f.length = n) (hd : d.length = n) (k : Nat) (pf : List (List Nat)) :
    L1 cmp n l c f d k pf =
      L1 cmp n [] (l.foldl (fun c i => c.set i 0) c) (l.foldl (fun c i => c.set i none) f)
        (l.foldl (fun c i => c.set i []) d) k pf := by
  induction l generalizing c f d with
  | nil => rfl
  | cons i l ih =>
    have hi : i < n := hl i (by simp)
    rw [Selector_fast_nondominated_sorting_loop1.eq_2]
    simp only [hc, hf, hd, hi, if_true, List.foldl_cons]
    exact ih (fun x hx => hl x (by simp [hx])) _ _ _ (by simp [hc]) (by simp [hf]) (by simp [hd])

/-- **Translation tie for `Selector.fast_nondominated_sorting`.**  For every comparator verdict table
`cmp`, every population size `n` and every (stale) content of the three feature tables with one entry
per individual, the function generated from the source returns exactly what the hand-written model
`fndsCmp` returns (in particular it raises / runs out of fuel iff the model's `peel` runs out of fuel,
which `Artap.C02.peel_fuel` excludes). -/
theorem tie_Selector_fast_nondominated_sorting (cmp : Nat → Nat → Nat) (n : Nat)
    (counter : List Int) (dominate : List (List Nat)) (front : List (Option Nat))
    (hc : counter.length = n) (hd : dominate.length = n) (hf : front.length = n) :
    Selector_fast_nondominated_sorting cmp n counter dominate front = fndsCmp n cmp := by
  unfold Selector_fast_nondominated_sorting fndsCmp phase1
  simp only []
  rw [loop1_eq cmp n (List.range n) (by intro i hi; simpa using hi) counter front dominate hc hf hd,
    foldl_set_range _ n counter hc, foldl_set_range _ n front hf, foldl_set_range _ n dominate hd,
    Selector_fast_nondominated_sorting_loop1.eq_1]
  exact tie_phase1_peel cmp n (SortState.init n)
    ⟨by simp [SortState.init], by simp [SortState.init], by simp [SortState.init],
     by intro l hl; simp [SortState.init, List.mem_replicate] at hl; simp [hl.2]⟩

/-- The same for a population of `(costs, marker)` pairs compared by `ParetoDominance.compare`
(which `Tie/Dominance.lean` ties to `paretoCompare`): the generated function is `fnds?`. -/
theorem tie_fnds {α : Type} [LT α] [DecidableLT α] (pop : List (List α × Int))
    (counter : List Int) (dominate : List (List Nat)) (front : List (Option Nat))
    (hc : counter.length = pop.length) (hd : dominate.length = pop.length) (hf : front.length = pop.length) :
    Selector_fast_nondominated_sorting (popCmp pop) pop.length counter dominate front = fnds? pop :=
  tie_Selector_fast_nondominated_sorting (popCmp pop) pop.length counter dominate front hc hd hf

end Artap.Tie.Sorting
