import ArtapModel.Gen.Store
/-!
# Translation tie for the store documents (artap/individual.py, C10 / C11)

`ArtapModel/Gen/Store.lean` is regenerated from the source by `tools/py2lean.py` on every run: `Individual.to_string`,
`Individual._replace_individual_id`, `Individual.to_dict`, `Individual.from_dict`.  The hand-written model is
`Model/Store.lean` (`stateJ`, `replaceIds`, `toDict`, `decode`).

Reading fixed by the spec entries: the Python values that travel through the store are the model's trees `J`
(None, bool, int, float, str, list, dict with string keys, a reference to an Individual object).  What
`isinstance(value, Iterable)`, `isinstance(value, Individual)`, `for item in value`, `value.id` and `dictionary[key]`
mean on such a tree is stated once, in the prelude of the generated file (`jIsIterable`, `jIsInd`, `jIter`, `jIndId`,
`jGet`: a str iterates over its characters, each a str of length one; a dict over its keys); dicts built by the code are
association lists with string keys (`pyDict*`); exceptions are `none`.

* `tie_Individual_to_string`, `tie_Individual_from_dict`: all inputs (for `from_dict` also every fresh object `v`).
* `tie_Individual_replace_individual_id`: the function calls itself, so it is generated in open-recursion form and
  closed with a **recursion budget** `depth` (the number of nested calls the interpreter still allows); running out is
  the RecursionError.  Hypothesis: `jDepth j < depth` - the budget covers the nesting of the value (one call per list
  level, one for the keys of a dict).  For a non-empty str both sides are `none` whatever the budget (`rid_char`): the
  unbounded recursion that the model asserts is here a theorem about the generated code.
* `tie_Individual_to_dict`: hypotheses - the budget covers every parent, child and feature value, and the keys of
  `self.features` are distinct (it is a Python dict; the model builds the new dict by a map, the code by item
  assignment).  Key order, the nine initial items and the overwriting of `features` are compared literally.
-/
set_option linter.unusedSimpArgs false
set_option linter.unusedVariables false
set_option linter.unusedSectionVars false
namespace Artap.Tie.Store
open Artap Artap.Store Artap.Gen.Store

/-! ## `to_string` -/

theorem tie_Individual_to_string (st : Option State) : Individual_to_string st = stateJ st := by
  match st with
  | none => rfl
  | some .empty => rfl
  | some .inProgress => rfl
  | some .evaluated => rfl
  | some .failed => rfl

/-! ## `from_dict` -/

theorem tie_Individual_from_dict (v : View) (d : J) : Individual_from_dict v d = decode d := by
  cases d with
  | obj kvs =>
    simp only [Individual_from_dict, jGet, decode]
    -- every combination of present / missing keys (independent of the order in which the code reads them)
    cases dictGet kvs "id" <;> cases dictGet kvs "vector" <;> cases dictGet kvs "costs" <;>
      cases dictGet kvs "state" <;> cases dictGet kvs "costs_signed" <;> cases dictGet kvs "population_id" <;>
      cases dictGet kvs "algorithm_id" <;> cases dictGet kvs "custom" <;> cases dictGet kvs "features" <;> rfl
  | _ => rfl

/-! ## `_replace_individual_id`

The generated function is the body in open-recursion form plus the knot `Individual_replace_individual_id depth`, where
`depth` is the number of nested calls the interpreter still allows.  `jDepth j` is the nesting that a value needs: a
list one more than its deepest member, a dict one (its keys are strings, each visited by a nested call), everything
else none.  A non-empty string never terminates - whatever the budget, the answer is the RecursionError. -/

mutual
def jDepth : J → Nat
  | .arr xs => jDepthL xs + 1
  | .obj _ => 1
  | _ => 0
def jDepthL : List J → Nat
  | [] => 0
  | x :: xs => max (jDepth x) (jDepthL xs)
end

theorem jDepth_mem {x : J} {xs : List J} (h : x ∈ xs) : jDepth x ≤ jDepthL xs := by
  induction xs with
  | nil => cases h
  | cons y ys ih =>
    simp only [jDepthL]
    rcases List.mem_cons.1 h with rfl | h
    · omega
    · have := ih h; omega

/-- the loop `for item in value: val.append(rec(item))` -/
theorem rid_loop (rec_ : J → Option J) (xs acc : List J) :
    Individual_replace_individual_id_body_loop1 rec_ xs acc = (xs.mapM rec_).map (fun ys => J.arr (acc ++ ys)) := by
  induction xs generalizing acc with
  | nil => simp [Individual_replace_individual_id_body_loop1]
  | cons x xs ih =>
    simp only [Individual_replace_individual_id_body_loop1, List.mapM_cons]
    cases rec_ x with
    | none => simp
    | some y =>
      simp only [ih, Option.bind_eq_bind, Option.bind_some]
      cases xs.mapM rec_ <;> simp

theorem replaceIdsL_mapM (xs : List J) : replaceIdsL xs = xs.mapM replaceIds := by
  induction xs with
  | nil => simp [replaceIdsL]
  | cons x xs ih =>
    simp only [replaceIdsL, List.mapM_cons, ih]
    cases replaceIds x <;> cases xs.mapM replaceIds <;> simp

theorem mapM_congr' {β γ : Type} (f g : β → Option γ) (xs : List β) (h : ∀ x ∈ xs, f x = g x) :
    xs.mapM f = xs.mapM g := by
  induction xs with
  | nil => rfl
  | cons x xs ih =>
    simp only [List.mapM_cons, h x (by simp), ih (fun y hy => h y (by simp [hy]))]

/-- a one-character string never terminates -/
theorem rid_char (c : Char) : ∀ depth, Individual_replace_individual_id depth (J.str (String.singleton c)) = none := by
  intro depth
  induction depth with
  | zero => rfl
  | succ d ih =>
    simp only [Individual_replace_individual_id, Individual_replace_individual_id_body, jIsIterable, jIter,
      String.toList_singleton, List.map_cons, List.map_nil, rid_loop, List.mapM_cons, ih, if_true]
    rfl

theorem rid_str (s : String) (d : Nat) :
    Individual_replace_individual_id (d + 1) (J.str s) = if s = "" then some (J.arr []) else none := by
  simp only [Individual_replace_individual_id, Individual_replace_individual_id_body, jIsIterable, jIter, rid_loop, if_true]
  by_cases hs : s = ""
  · subst hs; simp
  · have hl : s.toList ≠ [] := by simpa using hs
    cases hc : s.toList with
    | nil => exact absurd hc hl
    | cons c cs => simp [hs, List.mapM_cons, rid_char]

theorem rid_keys (kvs : List (String × J)) (d : Nat) :
    (kvs.map (fun kv => J.str kv.1)).mapM (Individual_replace_individual_id (d + 1)) =
      if kvs.all (fun kv => kv.1 = "") then some (kvs.map fun _ => J.arr []) else none := by
  induction kvs with
  | nil => simp
  | cons kv kvs ih =>
    simp only [List.map_cons, List.mapM_cons, rid_str, ih, List.all_cons]
    by_cases h1 : kv.1 = "" <;> by_cases h2 : (kvs.all fun kv => kv.1 = "") = true <;> simp [h1, h2]

theorem tie_Individual_replace_individual_id : ∀ (depth : Nat) (j : J), jDepth j < depth →
    Individual_replace_individual_id depth j = replaceIds j := by
  intro depth
  induction depth with
  | zero => intro j h; omega
  | succ d ih =>
    intro j h
    cases j with
    | arr xs =>
      simp only [jDepth] at h
      simp only [Individual_replace_individual_id, Individual_replace_individual_id_body, jIsIterable, jIter, rid_loop,
        if_true, replaceIds, replaceIdsL_mapM]
      rw [mapM_congr' _ replaceIds xs (fun x hx => ih x (by have := jDepth_mem hx; omega))]
      cases xs.mapM replaceIds <;> simp
    | str s => rw [rid_str]; simp [replaceIds]
    | obj kvs =>
      simp only [jDepth] at h
      obtain ⟨e, rfl⟩ : ∃ e, d = e + 1 := ⟨d - 1, by omega⟩
      show Individual_replace_individual_id_body (Individual_replace_individual_id (e + 1)) (J.obj kvs) = _
      simp only [Individual_replace_individual_id_body, jIsIterable, jIter, rid_loop, if_true, replaceIds]
      rw [rid_keys kvs e]
      by_cases h2 : (kvs.all fun kv => kv.1 = "") = true <;> simp [h2]
    | ind id => rfl
    | null => rfl
    | bool b => rfl
    | int n => rfl
    | flt b => rfl

/-! ## `to_dict` -/

/-- `_replace_individual_id` with the budget `depth`, as `to_dict` calls it -/
abbrev rid (depth : Nat) : J → Option J := Individual_replace_individual_id depth

/-- the `features` loop: every value through `_replace_individual_id`, stored under its key -/
def ridItem (depth : Nat) (kv : String × J) : Option (String × J) := (rid depth kv.2).map (fun t => (kv.1, t))

theorem to_dict_loop3 (depth : Nat) (l acc out : List (String × J)) :
    Individual_to_dict_loop3 depth l acc out =
      (l.mapM (ridItem depth)).map (fun kvs =>
        J.obj (pyDictSet out "features" (J.obj (kvs.foldl (fun a kv => pyDictSet a kv.1 kv.2) acc)))) := by
  induction l generalizing acc with
  | nil => simp [Individual_to_dict_loop3]
  | cons kv l ih =>
    obtain ⟨k, v⟩ := kv
    simp only [Individual_to_dict_loop3, List.mapM_cons, ridItem, rid]
    cases Individual_replace_individual_id depth v with
    | none => simp
    | some t =>
      simp only [ih, Option.map_some, Option.bind_eq_bind, Option.bind_some]
      cases l.mapM (ridItem depth) <;> simp [ridItem, rid]

theorem to_dict_loop2 (depth : Nat) (i : Ind) (l acc : List J) (out : List (String × J)) :
    Individual_to_dict_loop2 depth i l acc out =
      (l.mapM (rid depth)).bind (fun ys =>
        Individual_to_dict_loop3 depth i.features [] (pyDictSet out "children" (J.arr (acc ++ ys)))) := by
  induction l generalizing acc with
  | nil => simp [Individual_to_dict_loop2]
  | cons x l ih =>
    simp only [Individual_to_dict_loop2, List.mapM_cons, rid]
    cases Individual_replace_individual_id depth x with
    | none => simp
    | some t =>
      simp only [ih, Option.bind_eq_bind, Option.bind_some]
      cases l.mapM (rid depth) <;> simp [rid]

theorem to_dict_loop1 (depth : Nat) (i : Ind) (l acc : List J) (out : List (String × J)) :
    Individual_to_dict_loop1 depth i l acc out =
      (l.mapM (rid depth)).bind (fun ys =>
        Individual_to_dict_loop2 depth i i.children [] (pyDictSet out "parents" (J.arr (acc ++ ys)))) := by
  induction l generalizing acc with
  | nil => simp [Individual_to_dict_loop1]
  | cons x l ih =>
    simp only [Individual_to_dict_loop1, List.mapM_cons, rid]
    cases Individual_replace_individual_id depth x with
    | none => simp
    | some t =>
      simp only [ih, Option.bind_eq_bind, Option.bind_some]
      cases l.mapM (rid depth) <;> simp [rid]

theorem replaceFeatures_mapM (l : List (String × J)) :
    replaceFeatures l = l.mapM (fun kv => (replaceIds kv.2).map (fun t => (kv.1, t))) := by
  induction l with
  | nil => simp [replaceFeatures]
  | cons kv l ih =>
    obtain ⟨k, v⟩ := kv
    simp only [replaceFeatures, List.mapM_cons, ih]
    cases replaceIds v <;> cases l.mapM (fun kv => (replaceIds kv.2).map (fun t => (kv.1, t))) <;> simp

theorem mapM_keys (l kvs : List (String × J)) (f : J → Option J)
    (h : l.mapM (fun kv => (f kv.2).map (fun t => (kv.1, t))) = some kvs) : kvs.map (·.1) = l.map (·.1) := by
  induction l generalizing kvs with
  | nil => simp at h; subst h; rfl
  | cons kv l ih =>
    simp only [List.mapM_cons] at h
    cases hv : f kv.2 with
    | none => simp [hv] at h
    | some t =>
      cases hl : l.mapM (fun kv => (f kv.2).map (fun t => (kv.1, t))) with
      | none => simp [hv, hl] at h
      | some r =>
        simp [hv, hl] at h
        subst h
        simp [ih r hl]

/-- assigning distinct new keys one after the other appends the items -/
theorem foldl_pyDictSet (kvs acc : List (String × J)) (h : (acc.map (·.1) ++ kvs.map (·.1)).Nodup) :
    kvs.foldl (fun a kv => pyDictSet a kv.1 kv.2) acc = acc ++ kvs := by
  induction kvs generalizing acc with
  | nil => simp
  | cons kv kvs ih =>
    have hk : pyDictHas acc kv.1 = false := by
      have hn : kv.1 ∉ acc.map (·.1) := by
        intro hm
        have := List.nodup_append.1 h
        exact this.2.2 _ hm _ (by simp) rfl
      simp only [pyDictHas, List.any_eq_false, decide_eq_true_eq]
      intro e he heq
      exact hn (List.mem_map.2 ⟨e, he, heq⟩)
    have hstep : pyDictSet acc kv.1 kv.2 = acc ++ [kv] := by
      simp only [pyDictSet, hk, Bool.false_eq_true, if_false]
    rw [List.foldl_cons, hstep, ih (acc ++ [kv]) (by simpa [List.append_assoc] using h)]
    simp

/-- hypotheses: the recursion budget covers every value that goes through `_replace_individual_id`, and the keys of
`self.features` are distinct (it is a Python dict) -/
theorem tie_Individual_to_dict (depth : Nat) (i : Ind)
    (hp : ∀ x ∈ i.parents, jDepth x < depth) (hc : ∀ x ∈ i.children, jDepth x < depth)
    (hf : ∀ kv ∈ i.features, jDepth kv.2 < depth) (hk : (i.features.map (·.1)).Nodup) :
    Individual_to_dict depth i = toDict i := by
  have e1 : i.parents.mapM (rid depth) = replaceIdsL i.parents := by
    rw [replaceIdsL_mapM]
    exact mapM_congr' _ _ _ (fun x hx => tie_Individual_replace_individual_id depth x (hp x hx))
  have e2 : i.children.mapM (rid depth) = replaceIdsL i.children := by
    rw [replaceIdsL_mapM]
    exact mapM_congr' _ _ _ (fun x hx => tie_Individual_replace_individual_id depth x (hc x hx))
  have e3 : i.features.mapM (ridItem depth) = replaceFeatures i.features := by
    rw [replaceFeatures_mapM]
    exact mapM_congr' _ _ _ (fun kv hkv => by
      simp only [ridItem, rid, tie_Individual_replace_individual_id depth kv.2 (hf kv hkv)])
  simp only [Individual_to_dict, to_dict_loop1, to_dict_loop2, to_dict_loop3, e1, e2, e3, toDict, tie_Individual_to_string,
    List.nil_append]
  cases replaceIdsL i.parents with
  | none => rfl
  | some ps =>
    cases replaceIdsL i.children with
    | none => rfl
    | some cs =>
      cases hfs : replaceFeatures i.features with
      | none => rfl
      | some fs =>
        have hkeys : fs.map (·.1) = i.features.map (·.1) := by
          rw [replaceFeatures_mapM] at hfs
          exact mapM_keys _ _ replaceIds hfs
        have hfold := foldl_pyDictSet fs [] (by simpa [hkeys] using hk)
        simp only [Option.bind_some, Option.map_some, hfold, List.nil_append]
        simp [pyDictSet, pyDictHas, dictSet]

end Artap.Tie.Store
