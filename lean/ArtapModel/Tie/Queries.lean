import ArtapModel.Gen.Queries
/-!
# Translation tie for the population queries (artap/problem.py)

`ArtapModel/Gen/Queries.lean` is regenerated from the source by `tools/py2lean.py` on every run:
`Problem.population`, `Problem.last_population` (its call `self.population(max_index)` is the generated
`Problem_population`) and `Problem.populations` (the dict-building loop; an insertion-ordered dict is the
list of its items, `pyDictHas` / `pyDictGet` / `pyDictSet` of the generated prelude).  The hand-written
model is `Model/Results.lean` (property C17): `population`, `lastPopulation` (`lastTag`), `populations`
(`popStep`).  `self.individuals` is the list of the model's recorded individuals, `population_id` the tag.

* `tie_Problem_population`, `tie_Problem_last_population`: generated = model, all inputs.
* `tie_Problem_populations`: the generated function never raises (the `KeyError` of
  `individuals[population_id].append` cannot happen) and returns the model's association list, all inputs.
  The proof carries the invariant that items with the same key have the same value (true of every dict
  built by `{}` and `d[k] = v`), under which "replace the value of the item with key k" (code) and "append
  to the value of every item with key k" (model) coincide.
-/
set_option linter.unusedSimpArgs false
namespace Artap.Tie.Queries
open Artap.Results Artap.Gen.Queries

theorem population_loop (pid : Int) (l acc : List Ind) :
    Problem_population_loop1 pid l acc = l.foldl (fun acc i => if i.tag == pid then acc ++ [i] else acc) acc := by
  induction l generalizing acc with
  | nil => rfl
  | cons i l ih =>
    simp only [Problem_population_loop1, List.foldl_cons]
    by_cases h : i.tag = pid
    · simp [h, ih]
    · have h' : ¬ pid = i.tag := fun e => h e.symm
      simp [h, h', ih]

theorem tie_Problem_population (inds : List Ind) (pid : Int) :
    Problem_population inds pid = population inds pid := by
  simp only [Problem_population, population, population_loop]

theorem last_loop (inds l : List Ind) (m : Int) :
    Problem_last_population_loop1 inds l m =
      population inds (l.foldl (fun m i => if i.tag > m then i.tag else m) m) := by
  induction l generalizing m with
  | nil => simp [Problem_last_population_loop1, tie_Problem_population]
  | cons i l ih =>
    simp only [Problem_last_population_loop1, List.foldl_cons, gt_iff_lt]
    rw [ih]

theorem tie_Problem_last_population (inds : List Ind) :
    Problem_last_population inds = lastPopulation inds := by
  simp only [Problem_last_population, lastPopulation, lastTag, last_loop]

/-! ## `populations` -/

/-- items with the same key carry the same value -/
def Inv (d : List (Int × List Ind)) : Prop := ∀ a ∈ d, ∀ b ∈ d, a.1 = b.1 → a.2 = b.2

theorem has_eq (d : List (Int × List Ind)) (k : Int) :
    pyDictHas d k = d.any (fun kg => kg.1 == k) := by
  unfold pyDictHas
  congr 1

theorem get_of_mem (d : List (Int × List Ind)) (k : Int) (h : pyDictHas d k = true) :
    ∃ e, e ∈ d ∧ e.1 = k ∧ pyDictGet d k = some e.2 := by
  unfold pyDictGet
  unfold pyDictHas at h
  cases hf : d.find? (fun e => decide (e.1 = k)) with
  | none =>
    rw [List.find?_eq_none] at hf
    rw [List.any_eq_true] at h
    obtain ⟨e, he, hk⟩ := h
    exact absurd hk (hf e he)
  | some e =>
    refine ⟨e, List.mem_of_find?_eq_some hf, ?_, rfl⟩
    have := List.find?_some hf
    simpa using this

/-- the key is present: the code's "replace the value of the item" is the model's step -/
theorem step_has (d : List (Int × List Ind)) (i : Ind) (hd : Inv d) (h : pyDictHas d i.tag = true) :
    ∃ t, pyDictGet d i.tag = some t ∧ pyDictSet d i.tag (t ++ [i]) = popStep d i := by
  obtain ⟨e, he, hk, hg⟩ := get_of_mem d i.tag h
  refine ⟨e.2, hg, ?_⟩
  unfold pyDictSet popStep
  rw [← has_eq, h]
  simp only [if_true]
  apply List.map_congr_left
  intro a ha
  by_cases hak : a.1 = i.tag
  · have : a.2 = e.2 := hd a ha e he (hak.trans hk.symm)
    simp [hak, this]
  · simp [hak]

/-- a new key: `d[k] = []` followed by `d[k].append(i)` is the model's step -/
theorem step_new (d : List (Int × List Ind)) (i : Ind) (h : pyDictHas d i.tag = false) :
    pyDictGet (pyDictSet d i.tag []) i.tag = some [] ∧
      pyDictSet (pyDictSet d i.tag []) i.tag ([] ++ [i]) = popStep d i := by
  have hnot : ∀ a ∈ d, a.1 ≠ i.tag := by
    intro a ha hk
    have : pyDictHas d i.tag = true := by
      unfold pyDictHas
      rw [List.any_eq_true]
      exact ⟨a, ha, by simp [hk]⟩
    rw [h] at this
    exact absurd this (by decide)
  have h0 : pyDictSet d i.tag ([] : List Ind) = d ++ [(i.tag, [])] := by
    unfold pyDictSet; simp [h]
  have hfind : d.find? (fun e => decide (e.1 = i.tag)) = none := by
    rw [List.find?_eq_none]
    intro a ha
    simpa using hnot a ha
  have hget : pyDictGet (d ++ [(i.tag, ([] : List Ind))]) i.tag = some [] := by
    unfold pyDictGet
    rw [List.find?_append, hfind]
    simp
  have hhas : pyDictHas (d ++ [(i.tag, ([] : List Ind))]) i.tag = true := by
    unfold pyDictHas; simp
  have hset : pyDictSet (d ++ [(i.tag, ([] : List Ind))]) i.tag ([] ++ [i]) = d ++ [(i.tag, [i])] := by
    unfold pyDictSet
    rw [hhas]
    simp only [if_true, List.map_append, List.map_cons, List.map_nil, List.nil_append]
    congr 1
    rw [List.map_congr_left (g := id)]
    · simp
    · intro a ha
      simp [hnot a ha]
  have hpop : popStep d i = d ++ [(i.tag, [i])] := by
    unfold popStep
    rw [← has_eq]
    simp [h]
  rw [h0, hpop]
  exact ⟨hget, hset⟩

theorem inv_popStep (d : List (Int × List Ind)) (i : Ind) (hd : Inv d) : Inv (popStep d i) := by
  unfold popStep
  by_cases h : (d.any fun kg => kg.1 == i.tag) = true
  · rw [if_pos h]
    intro a ha b hb hab
    rw [List.mem_map] at ha hb
    obtain ⟨a', ha', rfl⟩ := ha
    obtain ⟨b', hb', rfl⟩ := hb
    have key : ∀ kg : Int × List Ind,
        (if (kg.1 == i.tag) = true then (kg.1, kg.2 ++ [i]) else kg).1 = kg.1 := by
      intro kg; split <;> rfl
    rw [key, key] at hab
    have hv := hd a' ha' b' hb' hab
    by_cases h1 : (a'.1 == i.tag) = true
    · have h2 : (b'.1 == i.tag) = true := hab ▸ h1
      rw [if_pos h1, if_pos h2]
      show a'.2 ++ [i] = b'.2 ++ [i]
      rw [hv]
    · have h2 : ¬ (b'.1 == i.tag) = true := hab ▸ h1
      rw [if_neg h1, if_neg h2]
      exact hv
  · have hnot : ∀ a ∈ d, a.1 ≠ i.tag := by
      intro a ha hk
      apply h
      rw [List.any_eq_true]
      exact ⟨a, ha, by simp [hk]⟩
    rw [if_neg h]
    intro a ha b hb hab
    rw [List.mem_append] at ha hb
    rcases ha with ha | ha <;> rcases hb with hb | hb
    · exact hd a ha b hb hab
    · simp at hb; subst hb; exact absurd hab (hnot a ha)
    · simp at ha; subst ha; exact absurd hab.symm (hnot b hb)
    · simp at ha hb; subst ha; subst hb; rfl

theorem populations_loop (l : List Ind) (d : List (Int × List Ind)) (hd : Inv d) :
    Problem_populations_loop1 l d = some (l.foldl popStep d) := by
  induction l generalizing d with
  | nil => rfl
  | cons i l ih =>
    have hinv := inv_popStep d i hd
    cases h : pyDictHas d i.tag with
    | true =>
      obtain ⟨t, hg, hs⟩ := step_has d i hd h
      simp only [Problem_populations_loop1, List.foldl_cons, h, not_true_eq_false, if_false, hg, hs]
      exact ih _ hinv
    | false =>
      obtain ⟨hg, hs⟩ := step_new d i h
      simp only [Problem_populations_loop1, List.foldl_cons, h, Bool.false_eq_true, not_false_eq_true, if_true, hg, hs]
      exact ih _ hinv

theorem tie_Problem_populations (inds : List Ind) :
    Problem_populations inds = some (populations inds) := by
  unfold Problem_populations populations
  exact populations_loop inds [] (fun a ha => by simp at ha)

end Artap.Tie.Queries
