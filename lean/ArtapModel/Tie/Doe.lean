import ArtapModel.Gen.Doe
/-!
# Translation tie for the design-of-experiments module (artap/doe.py, C13)

`ArtapModel/Gen/Doe.lean` is regenerated from the source by `tools/py2lean.py` on every run: `fullfact`,
`construct_df` (the look-up of the level values, shared by every `build_*` function), `_make_partitions` (the balanced
partitioning of the generalized subset design) and `build_full_fact`.  The hand-written model is `Model/Doe.lean`
(`fullfact` / `rowGo`, `constructDf` / `pickRow`, `makePartitions` / `part`, `buildFullFact`).

* `tie_fullfact`: **all inputs**.  The code fills a numpy matrix column by column (`lvl = [0]*rep + … + [l-1]*rep`,
  `rng = lvl * range_repeat`, `H[:, i] = rng`), the model computes row `t` directly (`(t mod (rep·l)) / rep`); the
  refinement proof (`fullfact_outer`: index arithmetic of repeated lists, `lvlOf_get`, `flatten_replicate_get`) is in
  this file.  The numpy operations are not translated but *bound*, and what they are taken to mean is printed in the
  prelude of the generated file: `np.prod(levels)` is the integer product (for the empty list numpy answers the float
  1.0 and the next statement raises - the translation raises one statement earlier), it is a numpy integer, so
  `range_repeat //= levels[i]` is numpy's floor division (`x // 0 = 0` with a warning, no exception) and
  `lvl * range_repeat` repeats the list; `np.zeros((a, b))` and `H[:, i] = rng` are `NpMat.zeros` / `npSetCol`
  (IndexError, ValueError and the broadcast of a one-element list included).  No factors: TypeError (`none`) on both
  sides; a factor with no levels: the empty design on both sides (`fullfact_zero`).
* `tie_construct_df`: all inputs, any element type.  Reading fixed by the spec entry: the design matrix is a list of
  rows of integers (`int(col[index])` is that integer - the entries that `fullfact` / `pbdesign` / `bbdesign` produce
  are integral), `factor_lists[index][k]` keeps Python's signed index (a negative level index counts from the end),
  `none` = IndexError (a row longer than `factor_lists`, or a level index out of range).  The index loop
  `for index in range(len(col))` is the model's structural recursion `pickRow` in step over the row and the lists.
* `tie_make_partitions`: all inputs.  The code computes `partition_i + (level_i - 1) * num_partitions` with Python's
  signed integers (the generated lists are lists of `Int`), the model with natural numbers (truncated subtraction,
  harmless because `level_i ≥ 1`): the generated value is the model's value cast to `Int`.
* `tie_build_full_fact`: the dict `factor_level_ranges` is an association list with string keys; hypothesis: its keys
  are distinct (it is a Python dict; the code looks every key up again, the model takes the values in order).  The two
  callees are the generated `fullfact` and `construct_df`, so the whole chain is regenerated.

Not covered: `pbdesign` and `bbdesign` (`np.frexp`, `toeplitz` / `hankel`, `vstack` / `hstack`, slice assignment on row
ranges) and the other `build_*` wrappers on top of them.
-/
set_option linter.unusedSimpArgs false
set_option linter.unusedVariables false
namespace Artap.Tie.Doe
open Artap Artap.Doe Artap.Gen.Doe

/-! ## `construct_df` -/

/-- the two formulations of Python's signed index agree -/
theorem pyGet_eq {α : Type} (l : List α) (i : Int) : Artap.Gen.Doe.pyGet l i = Artap.Doe.pyGet l i := by
  unfold Artap.Gen.Doe.pyGet Artap.Doe.pyGet
  by_cases h : 0 ≤ i
  · simp [h]
  · have e : (-(l.length : Int) ≤ i) ↔ (0 ≤ (l.length : Int) + i) := by omega
    simp only [h, if_false, e]

theorem construct_df_row {α : Type} (lists : List (List α)) (row : List Int) : ∀ (n s : Nat) (acc : List α),
    s + n = row.length →
    construct_df_loop2 lists row (List.range' s n) acc = (pickRow (lists.drop s) (row.drop s)).map (acc ++ ·) := by
  intro n
  induction n with
  | zero =>
    intro s acc h
    have : row.drop s = [] := List.drop_eq_nil_of_le (by omega)
    simp [construct_df_loop2, this, pickRow]
  | succ n ih =>
    intro s acc h
    have hs : s < row.length := by omega
    rw [List.range'_succ, List.drop_eq_getElem_cons hs]
    simp only [construct_df_loop2, List.getElem?_eq_getElem hs]
    by_cases hl : s < lists.length
    · rw [List.drop_eq_getElem_cons hl]
      simp only [List.getElem?_eq_getElem hl, pyGet_eq, pickRow]
      cases Artap.Doe.pyGet lists[s] row[s] with
      | none => rfl
      | some a =>
        simp only [ih (s + 1) _ (by omega)]
        cases pickRow (List.drop (s + 1) lists) (List.drop (s + 1) row) <;> simp
    · have hn : lists[s]? = none := by simp; omega
      have hd : lists.drop s = [] := List.drop_eq_nil_of_le (by omega)
      rw [hd]
      simp only [hn]
      rfl

theorem construct_df_rows {α : Type} (lists : List (List α)) (x : List (List Int)) (acc : List (List α)) :
    construct_df_loop1 lists x acc = (allSome (x.map (pickRow lists))).map (acc ++ ·) := by
  induction x generalizing acc with
  | nil => simp [construct_df_loop1, allSome]
  | cons row x ih =>
    have hr := construct_df_row lists row row.length 0 [] (by omega)
    simp only [List.drop_zero, List.nil_append] at hr
    have hrange : List.range row.length = List.range' 0 row.length := List.range_eq_range' ..
    simp only [construct_df_loop1, hrange, Nat.sub_zero, hr, List.map_cons]
    cases pickRow lists row with
    | none => simp [allSome]
    | some r =>
      simp only [Option.map_some, ih, allSome]
      cases allSome (x.map (pickRow lists)) <;> simp

theorem tie_construct_df {α : Type} (x : List (List Int)) (lists : List (List α)) :
    construct_df x lists = constructDf x lists := by
  simp only [construct_df, construct_df_rows, constructDf]
  cases allSome (x.map (pickRow lists)) <;> simp

/-! ## `_make_partitions` -/

theorem part_loop (r p L : Nat) (idxs : List Nat) (acc : List Int) :
    make_partitions_loop3 r p L idxs acc =
      acc ++ (idxs.map (fun (li : Nat) => (p : Int) + (((li : Int) - 1) * (r : Int)))).filter (· ≤ (L : Int)) := by
  induction idxs generalizing acc with
  | nil => simp [make_partitions_loop3]
  | cons li idxs ih =>
    simp only [make_partitions_loop3, List.map_cons]
    by_cases h : (p : Int) + (((li : Int) - 1) * (r : Int)) ≤ (L : Int)
    · simp [h, ih, List.filter_cons]
    · simp [h, ih, List.filter_cons]

theorem part_cast (r p L : Nat) (idxs : List Nat) (h1 : ∀ li ∈ idxs, 1 ≤ li) :
    (idxs.map (fun (li : Nat) => (p : Int) + (((li : Int) - 1) * (r : Int)))).filter (· ≤ (L : Int)) =
      (((idxs.map fun li => p + (li - 1) * r).filter (· ≤ L)).map Int.ofNat) := by
  induction idxs with
  | nil => rfl
  | cons li idxs ih =>
    have hli : 1 ≤ li := h1 li (by simp)
    have e : (p : Int) + (((li : Int) - 1) * (r : Int)) = ((p + (li - 1) * r : Nat) : Int) := by
      have : ((li - 1 : Nat) : Int) = (li : Int) - 1 := by omega
      simp [this]
    have ih' := ih (fun j hj => h1 j (by simp [hj]))
    simp only [List.map_cons, List.filter_cons, e, Int.ofNat_le, ih']
    by_cases hle : p + (li - 1) * r ≤ L <;> simp [hle]

theorem part_eq (r p L : Nat) :
    make_partitions_loop3 r p L (List.range' 1 (L - 1)) [] = (part r L p).map Int.ofNat := by
  rw [part_loop, List.nil_append, part_cast _ _ _ _ (by intro li h; simp at h; omega)]
  rfl

theorem partitions_loop2 (r p : Nat) (levels : List Nat) (acc : List (List Int)) :
    make_partitions_loop2 r p levels acc = acc ++ levels.map (fun L => (part r L p).map Int.ofNat) := by
  induction levels generalizing acc with
  | nil => simp [make_partitions_loop2]
  | cons L levels ih => simp [make_partitions_loop2, part_eq, ih]

theorem partitions_loop1 (levels : List Nat) (r : Nat) (ps : List Nat) (acc : List (List (List Int))) :
    make_partitions_loop1 levels r ps acc =
      acc ++ ps.map (fun p => levels.map (fun L => (part r L p).map Int.ofNat)) := by
  induction ps generalizing acc with
  | nil => simp [make_partitions_loop1]
  | cons p ps ih => simp [make_partitions_loop1, partitions_loop2, ih]

theorem tie_make_partitions (levels : List Nat) (r : Nat) :
    make_partitions levels r = (makePartitions levels r).map (fun P => P.map (fun c => c.map Int.ofNat)) := by
  simp [make_partitions, partitions_loop1, makePartitions]

/-! ## `fullfact`

The code fills the matrix column by column: column `i` is `lvl * range_repeat` with
`lvl = [0]*rep + [1]*rep + … + [l-1]*rep`; the model computes row `t` directly (`rowGo`: entry `i` is
`(t mod (rep*l)) / rep`).  The numpy operations (`np.prod`, `np.zeros`, `H[:, i] = rng`, `//` and list repetition with a
numpy integer) mean what the prelude of the generated file says. -/

/-- `lvl` of the code for repetition `rep` and `l` levels -/
def lvlOf (rep l : Nat) : List Nat := (List.range l).flatMap (fun j => List.replicate rep j)

theorem fullfact_inner (rep : Nat) (js acc : List Nat) :
    fullfact_loop2 rep js acc = some (acc ++ js.flatMap (fun j => List.replicate rep j)) := by
  induction js generalizing acc with
  | nil => simp [fullfact_loop2]
  | cons j js ih => simp [fullfact_loop2, ih, List.flatMap_cons]

theorem lvlOf_length (rep l : Nat) : (lvlOf rep l).length = l * rep := by
  induction l with
  | zero => simp [lvlOf]
  | succ l ih =>
    have : lvlOf rep (l + 1) = lvlOf rep l ++ List.replicate rep l := by
      simp [lvlOf, List.range_succ, List.flatMap_append]
    rw [this, List.length_append, ih, List.length_replicate, Nat.succ_mul]

theorem lvlOf_get (rep l u : Nat) (hu : u < l * rep) : (lvlOf rep l)[u]? = some (u / rep) := by
  induction l with
  | zero => simp at hu
  | succ l ih =>
    have hsplit : lvlOf rep (l + 1) = lvlOf rep l ++ List.replicate rep l := by
      simp [lvlOf, List.range_succ, List.flatMap_append]
    rw [hsplit]
    by_cases h : u < l * rep
    · rw [List.getElem?_append_left (by rw [lvlOf_length]; exact h)]
      exact ih h
    · rw [List.getElem?_append_right (by rw [lvlOf_length]; omega), lvlOf_length, List.getElem?_replicate]
      have h2 : u < (l + 1) * rep := hu
      have hlt : u - l * rep < rep := by rw [Nat.succ_mul] at h2; omega
      rw [if_pos hlt, Nat.div_eq_of_lt_le (by omega) h2]

/-- a list repeated `k` times, read at position `t` -/
theorem flatten_replicate_get {β : Type} (xs : List β) (k t : Nat) (ht : t < k * xs.length) :
    (List.flatten (List.replicate k xs))[t]? = xs[t % xs.length]? := by
  induction k generalizing t with
  | zero => simp at ht
  | succ k ih =>
    rw [List.replicate_succ, List.flatten_cons]
    by_cases h : t < xs.length
    · rw [List.getElem?_append_left h, Nat.mod_eq_of_lt h]
    · rw [List.getElem?_append_right (by omega), ih (t - xs.length) (by rw [Nat.succ_mul] at ht; omega),
        ← Nat.mod_eq_sub_mod (by omega)]

theorem flatten_replicate_length {β : Type} (xs : List β) (k : Nat) :
    (List.flatten (List.replicate k xs)).length = k * xs.length := by
  induction k with
  | zero => simp
  | succ k ih => rw [List.replicate_succ, List.flatten_cons, List.length_append, ih, Nat.succ_mul]; omega

/-- writing the values `vals` into a row from column `i` on -/
def setFrom (row : List Nat) (i : Nat) : List Nat → List Nat
  | [] => row
  | v :: vs => setFrom (row.set i v) (i + 1) vs

theorem setFrom_get : ∀ (vals row : List Nat) (i j : Nat), i + vals.length ≤ row.length →
    (setFrom row i vals)[j]? = if i ≤ j ∧ j < i + vals.length then vals[j - i]? else row[j]? := by
  intro vals
  induction vals with
  | nil =>
    intro row i j _
    have : ¬ (i ≤ j ∧ j < i + ([] : List Nat).length) := by simp <;> omega
    simp only [setFrom, this, if_false]
  | cons v vs ih =>
    intro row i j h
    simp only [List.length_cons] at h
    rw [setFrom, ih (row.set i v) (i + 1) j (by simp; omega), List.getElem?_set]
    by_cases hji : j = i
    · subst hji
      have h1 : ¬ (j + 1 ≤ j ∧ j < j + 1 + vs.length) := by omega
      have h2 : j ≤ j ∧ j < j + (v :: vs).length := by simp
      have h3 : j < row.length := by omega
      simp [h1, h2, h3]
    · by_cases hin : i + 1 ≤ j ∧ j < i + 1 + vs.length
      · have h2 : i ≤ j ∧ j < i + (v :: vs).length := by simp; omega
        have h3 : j - i = (j - (i + 1)) + 1 := by omega
        simp only [hin, h2, and_self, if_true, h3, List.getElem?_cons_succ]
      · have h2 : ¬ (i ≤ j ∧ j < i + (v :: vs).length) := by simp; omega
        have h3 : ¬ i = j := fun h => hji h.symm
        simp only [hin, h2, h3, if_false]

theorem rowGo_length : ∀ (ls : List Nat) (rep t : Nat), (rowGo ls rep t).length = ls.length := by
  intro ls
  induction ls with
  | nil => intro rep t; rfl
  | cons l ls ih => intro rep t; simp [rowGo, ih]

theorem prod_ne_zero : ∀ (ls : List Nat), prod ls ≠ 0 → ∀ l ∈ ls, 0 < l := by
  intro ls
  induction ls with
  | nil => intro _ l hl; cases hl
  | cons a ls ih =>
    intro h l hl
    simp only [prod] at h
    have h1 : a ≠ 0 := fun h0 => h (by rw [h0, Nat.zero_mul])
    have h2 : prod ls ≠ 0 := fun h0 => h (by rw [h0, Nat.mul_zero])
    rcases List.mem_cons.1 hl with rfl | hl
    · omega
    · exact ih h2 l hl

/-- the outer loop from column `i` on, all remaining levels positive -/
theorem fullfact_outer (levels : List Nat) (N : Nat) : ∀ (ls : List Nat) (i rep : Nat) (H : NpMat),
    levels.drop i = ls → (∀ l ∈ ls, 0 < l) → H.ncols = levels.length → H.rows.length = N → rep * prod ls = N →
    0 < rep →
    fullfact_loop1 levels (List.range' i ls.length) (prod ls) rep H =
      some (H.rows.mapIdx (fun t row => setFrom row i (rowGo ls rep t))) := by
  intro ls
  induction ls with
  | nil =>
    intro i rep H _ _ _ _ _ _
    have : H.rows.mapIdx (fun t row => setFrom row i (rowGo [] rep t)) = H.rows := by
      apply List.ext_getElem?
      intro t
      simp only [List.getElem?_mapIdx, rowGo, setFrom]
      cases H.rows[t]? <;> rfl
    rw [this]
    rfl
  | cons l ls ih =>
    intro i rep H hdrop hpos hc hr hN hrep
    have hl : 0 < l := hpos l (by simp)
    have hi : i < levels.length := by
      have := congrArg List.length hdrop
      simp at this; omega
    have hget : levels[i]? = some l := by
      have := List.drop_eq_getElem_cons hi
      rw [hdrop] at this
      rw [List.getElem?_eq_getElem hi]
      exact congrArg some (List.cons.inj this).1.symm
    have hdrop' : levels.drop (i + 1) = ls := by
      have := List.drop_eq_getElem_cons hi
      rw [hdrop] at this
      exact (List.cons.inj this).2.symm
    have hdiv : prod (l :: ls) / l = prod ls := by
      simp only [prod]; exact Nat.mul_div_cancel_left _ hl
    have hNN : prod ls * (l * rep) = N := by
      rw [← hN]; simp only [prod]; ac_rfl
    have hlen : (List.flatten (List.replicate (prod ls) (lvlOf rep l))).length = H.rows.length := by
      rw [flatten_replicate_length, lvlOf_length, hr, hNN]
    rw [List.length_cons, List.range'_succ]
    simp only [fullfact_loop1, hget, hdiv, fullfact_inner, List.nil_append]
    have hset : npSetCol H i (List.flatten (List.replicate (prod ls) (lvlOf rep l))) =
        some ⟨H.ncols, List.zipWith (fun row v => row.set i v) H.rows
          (List.flatten (List.replicate (prod ls) (lvlOf rep l)))⟩ := by
      simp only [npSetCol, hc, hi, if_true, hlen]
    show (match npSetCol H i (List.flatten (List.replicate (prod ls) (lvlOf rep l))) with
      | some t6 => fullfact_loop1 levels (List.range' (i + 1) ls.length) (prod ls) (rep * l) t6
      | none => none) = _
    rw [hset]
    have key := ih (i + 1) (rep * l)
      ⟨H.ncols, List.zipWith (fun row v => row.set i v) H.rows (List.flatten (List.replicate (prod ls) (lvlOf rep l)))⟩
      hdrop' (fun x hx => hpos x (by simp [hx])) hc (by simp [hlen, hr])
      (by rw [← hN]; simp only [prod]; rw [Nat.mul_assoc]) (Nat.mul_pos hrep hl)
    show fullfact_loop1 levels (List.range' (i + 1) ls.length) (prod ls) (rep * l) _ = _
    rw [key]
    congr 1
    apply List.ext_getElem?
    intro t
    simp only [List.getElem?_mapIdx, List.getElem?_zipWith]
    cases h1 : H.rows[t]? with
    | none => simp
    | some r0 =>
      have ht : t < H.rows.length := (List.getElem?_eq_some_iff.1 h1).1
      have hK : (List.flatten (List.replicate (prod ls) (lvlOf rep l)))[t]? = some ((t % (rep * l)) / rep) := by
        rw [flatten_replicate_get _ _ _ (by rw [← flatten_replicate_length, hlen]; exact ht), lvlOf_length,
          Nat.mul_comm l rep]
        exact lvlOf_get rep l _ (by rw [Nat.mul_comm l rep]; exact Nat.mod_lt _ (Nat.mul_pos hrep hl))
      simp only [hK, Option.map_some, setFrom, rowGo]

/-- a level count of zero: no rows at all, every column assignment is the empty one -/
theorem fullfact_zero (levels : List Nat) : ∀ (k i rep : Nat), i + k ≤ levels.length →
    fullfact_loop1 levels (List.range' i k) 0 rep ⟨levels.length, []⟩ = some [] := by
  intro k
  induction k with
  | zero => intro i rep _; rfl
  | succ k ih =>
    intro i rep h
    have hi : i < levels.length := by omega
    rw [List.range'_succ]
    simp only [fullfact_loop1, List.getElem?_eq_getElem hi, Nat.zero_div, fullfact_inner, List.nil_append,
      List.replicate_zero, List.flatten_nil]
    have hset : npSetCol ⟨levels.length, []⟩ i [] = some ⟨levels.length, []⟩ := by
      simp [npSetCol, hi]
    show (match npSetCol ⟨levels.length, []⟩ i [] with
      | some t6 => fullfact_loop1 levels (List.range' (i + 1) k) 0 (rep * levels[i]) t6
      | none => none) = _
    rw [hset]
    exact ih (i + 1) _ (by omega)

theorem mapIdx_replicate_zeros (N n : Nat) (f : Nat → List Nat) (hf : ∀ t, (f t).length = n) :
    (List.replicate N (List.replicate n 0)).mapIdx (fun t row => setFrom row 0 (f t)) = (List.range N).map f := by
  apply List.ext_getElem?
  intro t
  simp only [List.getElem?_mapIdx, List.getElem?_replicate, List.getElem?_map]
  by_cases ht : t < N
  · simp only [ht, if_true, Option.map_some, List.getElem?_range ht]
    congr 1
    apply List.ext_getElem?
    intro j
    rw [setFrom_get _ _ _ _ (by simp [hf])]
    by_cases hj : j < n
    · simp [hf, hj]
    · have h1 : (f t)[j]? = none := by simp [hf] <;> omega
      simp [hf, hj, h1] <;> omega
  · have : (List.range N)[t]? = none := by simp; omega
    simp [ht, this]

/-- all inputs: no factors is the TypeError, a factor with no levels gives the empty design -/
theorem tie_fullfact (levels : List Nat) : Artap.Gen.Doe.fullfact levels = Artap.Doe.fullfact levels := by
  cases levels with
  | nil => rfl
  | cons l0 ls0 =>
    generalize hL : l0 :: ls0 = levels
    have hprod : npProd levels = some (prod levels) := by rw [← hL]; rfl
    have hmodel : Artap.Doe.fullfact levels = some ((List.range (prod levels)).map (rowGo levels 1)) := by
      rw [← hL]; rfl
    rw [hmodel]
    simp only [Artap.Gen.Doe.fullfact, hprod]
    show fullfact_loop1 levels (List.range levels.length) (prod levels) 1 (NpMat.zeros (prod levels) levels.length) = _
    rw [List.range_eq_range']
    by_cases hN : prod levels = 0
    · rw [hN]
      have := fullfact_zero levels levels.length 0 1 (by omega)
      simpa [NpMat.zeros] using this
    · rw [fullfact_outer levels (prod levels) levels 0 1 _ (by simp) (prod_ne_zero levels hN) rfl
        (by simp [NpMat.zeros]) (by simp) (by omega)]
      congr 1
      exact mapIdx_replicate_zeros _ _ _ (fun t => rowGo_length levels 1 t)

/-! ## `build_full_fact` (the two callees are the generated `fullfact` and `construct_df`) -/

theorem pyDictGet_own {β : Type} : ∀ (d : List (String × β)), (d.map (·.1)).Nodup →
    ∀ kv ∈ d, pyDictGet d kv.1 = some kv.2 := by
  intro d
  induction d with
  | nil => intro _ kv h; cases h
  | cons e d ih =>
    intro hn kv hkv
    have hn' : e.1 ∉ d.map (·.1) ∧ (d.map (·.1)).Nodup := by
      rw [List.map_cons] at hn; exact List.nodup_cons.1 hn
    rcases List.mem_cons.1 hkv with rfl | hmem
    · simp [pyDictGet]
    · have hne : ¬ e.1 = kv.1 := by
        intro heq
        exact hn'.1 (by rw [heq]; exact List.mem_map.2 ⟨kv, hmem, rfl⟩)
      have := ih hn'.2 kv hmem
      simp only [pyDictGet, List.find?_cons, hne, decide_false] at this ⊢
      exact this

/-- what the function does once the two lists are collected -/
def fullFactFinish {α : Type} (counts : List Nat) (lists : List (List α)) : Option (List (List α)) :=
  match Artap.Gen.Doe.fullfact counts with
  | some x => construct_df (toIntRows x) lists
  | none => none

theorem build_full_fact_loop {α : Type} (d : List (String × List α)) : ∀ (rest : List (String × List α)),
    (∀ kv ∈ rest, pyDictGet d kv.1 = some kv.2) → ∀ (c : List Nat) (l : List (List α)),
    build_full_fact_loop1 d (rest.map (·.1)) c l =
      fullFactFinish (c ++ rest.map (fun kv => kv.2.length)) (l ++ rest.map (·.2)) := by
  intro rest
  induction rest with
  | nil =>
    intro _ c l
    simp only [List.map_nil, List.append_nil, build_full_fact_loop1, fullFactFinish]
    cases Artap.Gen.Doe.fullfact c with
    | none => rfl
    | some x => cases hc : construct_df (toIntRows x) l <;> simp only [hc]
  | cons kv rest ih =>
    intro h c l
    have hk := h kv (by simp)
    simp only [List.map_cons, build_full_fact_loop1, hk]
    rw [ih (fun e he => h e (by simp [he]))]
    simp [List.append_assoc]

/-- hypothesis: the keys of `factor_level_ranges` are distinct (it is a Python dict) -/
theorem tie_build_full_fact {α : Type} (d : List (String × List α)) (hk : (d.map (·.1)).Nodup) :
    build_full_fact d = buildFullFact (d.map (·.2)) := by
  simp only [build_full_fact]
  rw [build_full_fact_loop d d (pyDictGet_own d hk)]
  simp only [List.nil_append, fullFactFinish, tie_fullfact, tie_construct_df, buildFullFact, List.map_map]
  have e : (List.length ∘ fun x : String × List α => x.2) = fun kv => kv.2.length := rfl
  rw [e]
  cases Artap.Doe.fullfact (d.map fun kv => kv.2.length) <;> rfl

end Artap.Tie.Doe
