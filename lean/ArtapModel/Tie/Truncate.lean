import ArtapModel.Gen.Truncate
/-!
# Translation tie for `Archive.truncate` (artap/archive.py)

`ArtapModel/Gen/Truncate.lean` is regenerated from the source by `tools/py2lean.py` on every run:
`sorted(self._contents, key=lambda x: x.features[getter])` (all keys first - `pyKeys` -, then the stable
ascending sort of the keyed members - `pySortInt`), the in-place `reverse()` when `larger_preferred`, and
the slice `[:size]` assigned back to `self._contents`.

`tie_Archive_truncate`: for every element type, feature function, contents, size and flag the generated
function returns (never raises) exactly `Artap.Archive.truncate` of `Model/Archive.lean` (C04, C18).
Reading fixed by the spec entry: `x.features[getter]` is the total feature function `feat : α → Int` (every
member carries the feature), `size` is a natural number.
-/
namespace Artap.Tie.Truncate
open Artap.Archive Artap.Gen.Truncate

variable {α : Type}

theorem pyKeys_total (feat : α → Int) (l : List α) :
    pyKeys (fun x => some (feat x)) l = some (l.map (fun x => (feat x, x))) := by
  induction l with
  | nil => rfl
  | cons a l ih => simp [pyKeys, ih]

/-- sorting the keyed members and dropping the keys = sorting the members by their keys -/
theorem pySortInt_keyed (feat : α → Int) (l : List α) :
    pySortInt (l.map (fun x => (feat x, x))) = l.mergeSort (fun a b => decide (feat a ≤ feat b)) := by
  unfold pySortInt
  rw [← List.map_mergeSort (r := fun a b => decide (feat a ≤ feat b)) (f := fun x => (feat x, x))
    (fun a _ b _ => rfl)]
  rw [List.map_map]
  have : ((fun (x : Int × α) => x.2) ∘ fun x => (feat x, x)) = id := rfl
  rw [this, List.map_id]

theorem tie_Archive_truncate (feat : α → Int) (contents : List α) (size : Nat) (larger : Bool) :
    Archive_truncate feat contents size larger = some (truncate feat contents size larger) := by
  unfold Archive_truncate truncate
  rw [pyKeys_total]
  simp only [pySortInt_keyed]
  cases larger <;> simp

end Artap.Tie.Truncate
