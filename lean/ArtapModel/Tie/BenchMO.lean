import ArtapModel.Gen.BenchMO
/-!
# Translation tie for the multi-objective benchmarks (artap/benchmark_pareto.py, C16)

`ArtapModel/Gen/BenchMO.lean` is regenerated from the source by `tools/py2lean.py` on every run:
`BiObjectiveTestProblem.evaluate`, `DTLZI/II/III/IV.evaluate`, `ZDT1.eval_g`, `ZDT1.eval_h`, `ZDT1.evaluate`, over
any carrier `α` with the operations of `Artap.Num`.  The hand-written model is `Model/BenchMO.lean`
(`biobj`, `dtlz1` … `dtlz4`, `zdt1`; the theorems of `Props/C16.lean` are about these functions at `α = ℝ`).

Reading fixed by the spec entries: `x.vector` is the variable list `xs`, `len(self.costs)` the number of
objectives `m`; the result is the returned list of objectives; `none` = the call raises (`IndexError`,
`ZeroDivisionError` of ZDT1 with one variable).  The generated code keeps Python's signed indices
(`x[m - i - 1]`, `x[len(x) - i - 1]` through `pyGet`, `x[nvar - k:]` through `pyDropFrom`) and its signed
integer `k = nvar - m + 1` (`numOfInt`); the model uses natural-number arithmetic.

* `tie_BiObjectiveTestProblem_evaluate`, `tie_ZDT1_eval_g`, `tie_ZDT1_eval_h`, `tie_ZDT1_evaluate`: all inputs.
* `tie_DTLZI_evaluate`: all `m` and all inputs (for `m = 0` both sides are `[]`, for `m > len + 1` both are the
  `IndexError` of the first product loop, in between the signed and the truncated arithmetic agree).
* `tie_DTLZII_evaluate`, `tie_DTLZIII_evaluate`, `tie_DTLZIV_evaluate`: hypothesis `10 ≤ xs.length` - the ten
  distance variables exist.  For a shorter vector Python's negative index `len(x) - i - 1` wraps around (and the
  generated function reproduces that), while the model answers `none`; such vectors are outside the quantifier of
  C16 (the model's header says so).  Nothing is assumed about `m`.
  The inner loop `for i in range(0, k)` re-uses the name of the outer loop variable; the generated loop function
  returns its last value, which nothing reads (`DTLZ*_loop3`: first component of the result).
-/
set_option linter.unusedSimpArgs false
set_option linter.unusedVariables false
set_option linter.unusedSectionVars false
namespace Artap.Tie.BenchMO
open Artap Artap.BenchMO Artap.Gen.BenchMO
open scoped Artap.NumOps

variable {α : Type} [Num α]

theorem half_eq : ((5 : Rat) / 10) = 1 / 2 := by decide +kernel

theorem ofRat_half : (Num.ofRat ((5 : Rat) / 10) : α) = half := by rw [half_eq]; rfl

/-- an integer that is known to be a natural number -/
theorem numOfInt_natCast (n : Nat) : (numOfInt (n : Int) : α) = nat n := by
  simp [numOfInt, nat]

/-! ## BiObjectiveTestProblem -/

theorem tie_BiObjectiveTestProblem_evaluate (xs : List α) : BiObjectiveTestProblem_evaluate xs = biobj xs := by
  match xs with
  | [] => rfl
  | [x] => rfl
  | x :: y :: r => rfl

/-! ## ZDT1 (`eval_g`, `eval_h`, `evaluate`) -/

theorem tie_ZDT1_eval_h (f g : α) : ZDT1_eval_h f g = nat 1 - Num.sqrt (f / g) := rfl

theorem tie_ZDT1_eval_g (xs : List α) :
    ZDT1_eval_g xs =
      match xs with
      | [] => none
      | x0 :: _ => if xs.length = 1 then none else some (nat 9 / nat (xs.length - 1) * (sumL xs - x0) + nat 1) := by
  match xs with
  | [] => rfl
  | [x] => simp [ZDT1_eval_g]
  | x :: y :: r =>
    have h1 : (((x :: y :: r).length : Int) - ((1 : Nat) : Int)) = ((r.length + 1 : Nat) : Int) := by
      simp only [List.length_cons]; omega
    have h2 : (x :: y :: r).length - 1 = r.length + 1 := by simp
    have h3 : ¬ ((x :: y :: r).length = 1) := by simp
    simp only [ZDT1_eval_g, h1, h2, h3, numOfInt_natCast, List.getElem?_cons_zero, if_false]
    have h4 : ((r.length + 1 : Nat) : Int) ≠ 0 := by omega
    simp only [h4, ne_eq, not_false_eq_true, if_true]
    rfl

theorem tie_ZDT1_evaluate (xs : List α) : ZDT1_evaluate xs = zdt1 xs := by
  match xs with
  | [] => rfl
  | [x] => simp [ZDT1_evaluate, tie_ZDT1_eval_g, zdt1]
  | x :: y :: r =>
    have h3 : ¬ ((x :: y :: r).length = 1) := by simp
    simp only [ZDT1_evaluate, tie_ZDT1_eval_g, zdt1, h3, if_false, List.getElem?_cons_zero, tie_ZDT1_eval_h]
    rfl

/-! ## general facts about the index loops -/

theorem range'_zero (n : Nat) : List.range' 0 (n - 0) = List.range n := by
  simp [List.range_eq_range']

/-- a non-negative signed index is the plain look-up -/
theorem pyGet_nonneg (x : List α) (k : Int) (h : 0 ≤ k) : pyGet x k = x[k.toNat]? := by
  simp [pyGet, h]

theorem mapM_acc {β : Type} (f : Nat → Option β) (L : List Nat → List β → Option (List β))
    (hnil : ∀ sc, L [] sc = some sc)
    (l : List Nat) (hcons : ∀ i tl sc, i ∈ l → L (i :: tl) sc = (f i).bind (fun b => L tl (sc ++ [b]))) :
    ∀ sc, L l sc = (l.mapM f).map (sc ++ ·) := by
  induction l with
  | nil => intro sc; simp [hnil]
  | cons i tl ih =>
    intro sc
    rw [hcons i tl sc (by simp), List.mapM_cons]
    cases hf : f i with
    | none => simp
    | some b =>
      have := ih (fun j tl' sc' hj => hcons j tl' sc' (by simp [hj])) (sc ++ [b])
      simp only [Option.bind_some, this]
      cases tl.mapM f <;> simp

/-! ## DTLZ1 -/

theorem DTLZI_loop2 (x : List α) (l : List Nat) (acc : α) :
    DTLZI_evaluate_loop2 x l acc = l.foldlM (fun acc j => (x[j]?).map (fun y => acc * (fun y => y) y)) acc := by
  induction l generalizing acc with
  | nil => rfl
  | cons j l ih =>
    rw [List.foldlM_cons]
    cases hx : x[j]? with
    | none => simp [DTLZI_evaluate_loop2, hx]
    | some y => simp only [DTLZI_evaluate_loop2, hx, ih, Option.map_some, Option.bind_eq_bind, Option.bind_some]; rfl

theorem DTLZI_mul (x : List α) (n : Nat) (acc : α) :
    DTLZI_evaluate_loop2 x (List.range' 0 (n - 0)) acc = mulLoop (fun y => y) x n acc := by
  rw [DTLZI_loop2, range'_zero]; rfl

theorem DTLZI_step (m : Nat) (x : List α) (factor : α) (i : Nat) (tl : List Nat) (sc : List α) (hi : i < m) :
    DTLZI_evaluate_loop1 (i :: tl) factor m x sc =
      (dtlzObj (fun y => y) (fun y => nat 1 - y) m x factor i).bind
        (fun b => DTLZI_evaluate_loop1 tl factor m x (sc ++ [b])) := by
  have hn : Int.toNat (((m : Int) - (i : Int)) - ((1 : Nat) : Int)) = m - i - 1 := by omega
  have hk : pyGet x (((m : Int) - (i : Int)) - ((1 : Nat) : Int)) = x[m - i - 1]? := by
    rw [pyGet_nonneg _ _ (by omega), hn]
  simp only [DTLZI_evaluate_loop1, hn, DTLZI_mul, hk, dtlzObj]
  cases mulLoop (fun y => y) x (m - i - 1) factor with
  | none => rfl
  | some p =>
    by_cases h0 : 0 < i
    · simp only [h0, if_true]
      cases x[m - i - 1]? <;> rfl
    · simp only [h0, if_false]
      rfl

theorem DTLZI_loop1 (m : Nat) (x : List α) (factor : α) (l : List Nat) (hl : ∀ i ∈ l, i < m) (sc : List α) :
    DTLZI_evaluate_loop1 l factor m x sc =
      (l.mapM (dtlzObj (fun y => y) (fun y => nat 1 - y) m x factor)).map (sc ++ ·) :=
  mapM_acc _ (fun l sc => DTLZI_evaluate_loop1 l factor m x sc) (fun sc => rfl) l
    (fun i tl sc hi => DTLZI_step m x factor i tl sc (hl i hi)) sc

theorem mulLoop_short (c : α → α) (x : List α) (n : Nat) (init : α) (h : x.length < n) :
    mulLoop c x n init = none := by
  obtain ⟨k, rfl⟩ : ∃ k, n = k + 1 := ⟨n - 1, by omega⟩
  have hk : x[k]? = none := by simp; omega
  simp only [mulLoop, List.range_succ, List.foldlM_append, List.foldlM_cons, List.foldlM_nil, hk, Option.map_none]
  cases List.foldlM (fun acc j => Option.map (fun y => acc * c y) x[j]?) init (List.range k) <;> rfl

theorem pyDropFrom_natCast (x : List α) (n : Nat) : pyDropFrom x (n : Int) = x.drop n := by
  simp [pyDropFrom]

/-- all inputs (for more objectives than variables + 1 both sides are the IndexError of the first product loop) -/
theorem tie_DTLZI_evaluate (m : Nat) (xs : List α) : DTLZI_evaluate m xs = dtlz1 m xs := by
  simp only [DTLZI_evaluate]
  rw [range'_zero, DTLZI_loop1 m xs _ (List.range m) (by simp)]
  by_cases h : xs.length + 1 < m
  · obtain ⟨k, rfl⟩ : ∃ k, m = k + 1 := ⟨m - 1, by omega⟩
    have h0 : ∀ f : α, dtlzObj (fun y => y) (fun y => nat 1 - y) (k + 1) xs f 0 = none := by
      intro f
      simp only [dtlzObj]
      rw [mulLoop_short _ _ _ _ (by omega)]
    simp only [dtlz1, h, if_true, List.range_succ_eq_map, List.mapM_cons, h0]
    rfl
  · by_cases hm : m = 0
    · subst hm
      simp [dtlz1]
    · have e1 : ((xs.length : Int) - (m : Int)) + (1 : Int) = ((xs.length + 1 - m : Nat) : Int) := by omega
      have e2 : (xs.length : Int) - ((xs.length + 1 - m : Nat) : Int) = ((m - 1 : Nat) : Int) := by omega
      have e3 : xs.length - (xs.length + 1 - m) = m - 1 := by omega
      simp only [e1, e2, numOfInt_natCast, pyDropFrom_natCast, ofRat_half, dtlz1, h, if_false, dtlz1G, e3]
      have hid : ∀ o : Option (List α), Option.map (fun x => [] ++ x) o = o := by
        intro o; cases o <;> simp
      rw [hid]
      rfl

/-! ## DTLZ2, DTLZ3, DTLZ4 (ten distance variables read from the end: `x[len(x) - i - 1]`) -/

/-- one objective as the model computes it: position part, distance part, combination -/
def dtlzOne (c s h : α → α) (g0 : α) (fin : α → α → α) (m : Nat) (x : List α) (i : Nat) : Option α :=
  match dtlzObj c s m x (nat 1) i, distLoop h x kDist g0 with
  | some fi, some gm => some (fin fi gm)
  | _, _ => none

/-- one pass of the distance loop of the model -/
def distStep (h : α → α) (x : List α) (acc : α) (i : Nat) : Option α :=
  if i + 1 ≤ x.length then (x[x.length - i - 1]?).map (fun y => acc + h y) else none

theorem distLoop_eq (h : α → α) (x : List α) (k : Nat) (init : α) :
    distLoop h x k init = (List.range k).foldlM (distStep h x) init := rfl

theorem pyGet_fromEnd (x : List α) (i : Nat) (hi : i + 1 ≤ x.length) :
    pyGet x ((((List.length x) : Int) - (i : Int)) - ((1 : Nat) : Int)) = x[x.length - i - 1]? := by
  rw [pyGet_nonneg _ _ (by omega)]
  congr 1
  omega

theorem pyGet_pos (x : List α) (m i : Nat) (hi : i < m) :
    pyGet x (((m : Int) - (i : Int)) - ((1 : Nat) : Int)) = x[m - i - 1]? := by
  rw [pyGet_nonneg _ _ (by omega)]
  congr 1
  omega

theorem toNat_pos (m i : Nat) : Int.toNat (((m : Int) - (i : Int)) - ((1 : Nat) : Int)) = m - i - 1 := by omega

/-- the accumulator form of the outer loop from its step equation -/
theorem dtlz_outer (c s h : α → α) (g0 : α) (fin : α → α → α) (m : Nat) (x : List α)
    (L : List Nat → List α → Option (List α)) (hnil : ∀ sc, L [] sc = some sc)
    (hstep : ∀ i tl sc, i < m → L (i :: tl) sc = (dtlzOne c s h g0 fin m x i).bind (fun b => L tl (sc ++ [b]))) :
    L (List.range m) [] = (List.range m).mapM (dtlzOne c s h g0 fin m x) := by
  rw [mapM_acc (dtlzOne c s h g0 fin m x) L hnil (List.range m)
    (fun i tl sc hi => hstep i tl sc (by simpa using hi)) []]
  cases (List.range m).mapM (dtlzOne c s h g0 fin m x) <;> simp

/-! ### DTLZ2 -/

theorem DTLZII_loop2 (x : List α) (l : List Nat) (acc : α) :
    DTLZII_evaluate_loop2 x l acc =
      l.foldlM (fun acc j => (x[j]?).map (fun y => acc * (fun y => Num.cos (half * y * Num.pi)) y)) acc := by
  induction l generalizing acc with
  | nil => rfl
  | cons j l ih =>
    rw [List.foldlM_cons]
    cases hx : x[j]? with
    | none => simp [DTLZII_evaluate_loop2, hx]
    | some y =>
      simp only [DTLZII_evaluate_loop2, hx, ih, Option.map_some, Option.bind_eq_bind, Option.bind_some, ofRat_half]
      rfl

theorem DTLZII_loop3 (x : List α) (l : List Nat) (hl : ∀ i ∈ l, i + 1 ≤ x.length) (acc : α) (i0 : Nat) :
    (DTLZII_evaluate_loop3 x l acc i0).map Prod.fst = l.foldlM (distStep sqTerm x) acc := by
  induction l generalizing acc i0 with
  | nil => rfl
  | cons i l ih =>
    have hi : i + 1 ≤ x.length := hl i (by simp)
    rw [List.foldlM_cons]
    simp only [DTLZII_evaluate_loop3, pyGet_fromEnd x i hi, distStep, hi, if_true]
    cases hx : x[x.length - i - 1]? with
    | none => rfl
    | some y =>
      simp only [Option.map_some, Option.bind_eq_bind, Option.bind_some, ofRat_half]
      exact ih (fun j hj => hl j (by simp [hj])) _ _

theorem DTLZII_step (m : Nat) (x : List α) (h10 : 10 ≤ x.length) (i : Nat) (tl : List Nat) (sc : List α) (hi : i < m) :
    DTLZII_evaluate_loop1 (i :: tl) m x 10 sc =
      (dtlzOne (fun y => Num.cos (half * y * Num.pi)) (fun y => Num.sin (y * Num.pi / nat 2)) sqTerm (nat 0)
        (fun fi gm => fi * (nat 1 + gm)) m x i).bind (fun b => DTLZII_evaluate_loop1 tl m x 10 (sc ++ [b])) := by
  have h3 : (DTLZII_evaluate_loop3 x (List.range' 0 (10 - 0)) (Num.ofNat 0) i).map Prod.fst =
      List.foldlM (distStep sqTerm x) (nat 0) (List.range 10) := by
    rw [DTLZII_loop3 x (List.range' 0 (10 - 0)) (by intro j hj; simp at hj; omega), range'_zero]; rfl
  have hm : DTLZII_evaluate_loop2 x (List.range' 0 (m - i - 1 - 0)) (Num.ofNat 1) =
      mulLoop (fun y => Num.cos (half * y * Num.pi)) x (m - i - 1) (nat 1) := by
    rw [DTLZII_loop2, range'_zero]; rfl
  simp only [DTLZII_evaluate_loop1, toNat_pos, pyGet_pos x m i hi, hm, dtlzOne, dtlzObj, distLoop_eq, kDist]
  cases mulLoop (fun y => Num.cos (half * y * Num.pi)) x (m - i - 1) (nat 1) with
  | none => rfl
  | some p =>
    by_cases h0 : 0 < i
    · simp only [h0, if_true]
      cases x[m - i - 1]? with
      | none => rfl
      | some t =>
        cases hl : DTLZII_evaluate_loop3 x (List.range' 0 (10 - 0)) (Num.ofNat 0) i with
        | none => rw [hl] at h3; rw [← h3]; rfl
        | some r => rw [hl] at h3; rw [← h3]; rfl
    · simp only [h0, if_false]
      cases hl : DTLZII_evaluate_loop3 x (List.range' 0 (10 - 0)) (Num.ofNat 0) i with
      | none => rw [hl] at h3; rw [← h3]; rfl
      | some r => rw [hl] at h3; rw [← h3]; rfl

/-- at least the ten distance variables exist (for fewer, Python's negative indices wrap around: outside the model) -/
theorem tie_DTLZII_evaluate (m : Nat) (xs : List α) (h10 : 10 ≤ xs.length) : DTLZII_evaluate m xs = dtlz2 m xs := by
  simp only [DTLZII_evaluate, range'_zero]
  exact dtlz_outer _ _ _ _ _ m xs (fun l sc => DTLZII_evaluate_loop1 l m xs 10 sc) (fun sc => rfl)
    (fun i tl sc hi => DTLZII_step m xs h10 i tl sc hi)

/-! ### DTLZ3 -/

theorem DTLZIII_loop2 (x : List α) (l : List Nat) (acc : α) :
    DTLZIII_evaluate_loop2 x l acc =
      l.foldlM (fun acc j => (x[j]?).map (fun y => acc * (fun y => Num.cos (half * y * Num.pi)) y)) acc := by
  induction l generalizing acc with
  | nil => rfl
  | cons j l ih =>
    rw [List.foldlM_cons]
    cases hx : x[j]? with
    | none => simp [DTLZIII_evaluate_loop2, hx]
    | some y =>
      simp only [DTLZIII_evaluate_loop2, hx, ih, Option.map_some, Option.bind_eq_bind, Option.bind_some, ofRat_half]
      rfl

theorem DTLZIII_loop3 (x : List α) (l : List Nat) (hl : ∀ i ∈ l, i + 1 ≤ x.length) (acc : α) (i0 : Nat) :
    (DTLZIII_evaluate_loop3 x l acc i0).map Prod.fst = l.foldlM (distStep rastTerm3 x) acc := by
  induction l generalizing acc i0 with
  | nil => rfl
  | cons i l ih =>
    have hi : i + 1 ≤ x.length := hl i (by simp)
    rw [List.foldlM_cons]
    simp only [DTLZIII_evaluate_loop3, pyGet_fromEnd x i hi, distStep, hi, if_true]
    cases hx : x[x.length - i - 1]? with
    | none => rfl
    | some y =>
      simp only [Option.map_some, Option.bind_eq_bind, Option.bind_some, ofRat_half]
      exact ih (fun j hj => hl j (by simp [hj])) _ _

theorem DTLZIII_step (m : Nat) (x : List α) (h10 : 10 ≤ x.length) (i : Nat) (tl : List Nat) (sc : List α) (hi : i < m) :
    DTLZIII_evaluate_loop1 (i :: tl) m x 10 sc =
      (dtlzOne (fun y => Num.cos (half * y * Num.pi)) (fun y => Num.sin (y * Num.pi / nat 2)) rastTerm3 (nat kDist)
        (fun fi gm => fi * (nat 1 + nat 100 * gm)) m x i).bind (fun b => DTLZIII_evaluate_loop1 tl m x 10 (sc ++ [b])) := by
  have h3 : (DTLZIII_evaluate_loop3 x (List.range' 0 (10 - 0)) (Num.ofNat 10) i).map Prod.fst =
      List.foldlM (distStep rastTerm3 x) (nat 10) (List.range 10) := by
    rw [DTLZIII_loop3 x (List.range' 0 (10 - 0)) (by intro j hj; simp at hj; omega), range'_zero]; rfl
  have hm : DTLZIII_evaluate_loop2 x (List.range' 0 (m - i - 1 - 0)) (Num.ofNat 1) =
      mulLoop (fun y => Num.cos (half * y * Num.pi)) x (m - i - 1) (nat 1) := by
    rw [DTLZIII_loop2, range'_zero]; rfl
  simp only [DTLZIII_evaluate_loop1, toNat_pos, pyGet_pos x m i hi, hm, dtlzOne, dtlzObj, distLoop_eq, kDist]
  cases mulLoop (fun y => Num.cos (half * y * Num.pi)) x (m - i - 1) (nat 1) with
  | none => rfl
  | some p =>
    by_cases h0 : 0 < i
    · simp only [h0, if_true]
      cases x[m - i - 1]? with
      | none => rfl
      | some t =>
        cases hl : DTLZIII_evaluate_loop3 x (List.range' 0 (10 - 0)) (Num.ofNat 10) i with
        | none => rw [hl] at h3; rw [← h3]; rfl
        | some r => rw [hl] at h3; rw [← h3]; rfl
    · simp only [h0, if_false]
      cases hl : DTLZIII_evaluate_loop3 x (List.range' 0 (10 - 0)) (Num.ofNat 10) i with
      | none => rw [hl] at h3; rw [← h3]; rfl
      | some r => rw [hl] at h3; rw [← h3]; rfl

/-- at least the ten distance variables exist (for fewer, Python's negative indices wrap around: outside the model) -/
theorem tie_DTLZIII_evaluate (m : Nat) (xs : List α) (h10 : 10 ≤ xs.length) : DTLZIII_evaluate m xs = dtlz3 m xs := by
  simp only [DTLZIII_evaluate, range'_zero]
  exact dtlz_outer _ _ _ _ _ m xs (fun l sc => DTLZIII_evaluate_loop1 l m xs 10 sc) (fun sc => rfl)
    (fun i tl sc hi => DTLZIII_step m xs h10 i tl sc hi)


/-! ### DTLZ4 -/

theorem DTLZIV_loop2 (x : List α) (l : List Nat) (acc : α) :
    DTLZIV_evaluate_loop2 x 100 l acc =
      l.foldlM (fun acc j => (x[j]?).map (fun y => acc * (fun y => Num.cos (half * Num.pow y (nat alpha) * Num.pi)) y)) acc := by
  induction l generalizing acc with
  | nil => rfl
  | cons j l ih =>
    rw [List.foldlM_cons]
    cases hx : x[j]? with
    | none => simp [DTLZIV_evaluate_loop2, hx]
    | some y =>
      simp only [DTLZIV_evaluate_loop2, hx, ih, Option.map_some, Option.bind_eq_bind, Option.bind_some, ofRat_half]
      rfl

theorem DTLZIV_loop3 (x : List α) (l : List Nat) (hl : ∀ i ∈ l, i + 1 ≤ x.length) (acc : α) (i0 : Nat) :
    (DTLZIV_evaluate_loop3 x l acc i0).map Prod.fst = l.foldlM (distStep sqTerm x) acc := by
  induction l generalizing acc i0 with
  | nil => rfl
  | cons i l ih =>
    have hi : i + 1 ≤ x.length := hl i (by simp)
    rw [List.foldlM_cons]
    simp only [DTLZIV_evaluate_loop3, pyGet_fromEnd x i hi, distStep, hi, if_true]
    cases hx : x[x.length - i - 1]? with
    | none => rfl
    | some y =>
      simp only [Option.map_some, Option.bind_eq_bind, Option.bind_some, ofRat_half]
      exact ih (fun j hj => hl j (by simp [hj])) _ _

theorem DTLZIV_step (m : Nat) (x : List α) (h10 : 10 ≤ x.length) (i : Nat) (tl : List Nat) (sc : List α) (hi : i < m) :
    DTLZIV_evaluate_loop1 (i :: tl) m x 100 10 sc =
      (dtlzOne (fun y => Num.cos (half * Num.pow y (nat alpha) * Num.pi)) (fun y => Num.sin (Num.pow y (nat alpha) * Num.pi / nat 2)) sqTerm (nat 0)
        (fun fi gm => fi * (nat 1 + gm)) m x i).bind (fun b => DTLZIV_evaluate_loop1 tl m x 100 10 (sc ++ [b])) := by
  have h3 : (DTLZIV_evaluate_loop3 x (List.range' 0 (10 - 0)) (Num.ofNat 0) i).map Prod.fst =
      List.foldlM (distStep sqTerm x) (nat 0) (List.range 10) := by
    rw [DTLZIV_loop3 x (List.range' 0 (10 - 0)) (by intro j hj; simp at hj; omega), range'_zero]; rfl
  have hm : DTLZIV_evaluate_loop2 x 100 (List.range' 0 (m - i - 1 - 0)) (Num.ofNat 1) =
      mulLoop (fun y => Num.cos (half * Num.pow y (nat alpha) * Num.pi)) x (m - i - 1) (nat 1) := by
    rw [DTLZIV_loop2, range'_zero]; rfl
  simp only [DTLZIV_evaluate_loop1, toNat_pos, pyGet_pos x m i hi, hm, dtlzOne, dtlzObj, distLoop_eq, kDist]
  cases mulLoop (fun y => Num.cos (half * Num.pow y (nat alpha) * Num.pi)) x (m - i - 1) (nat 1) with
  | none => rfl
  | some p =>
    by_cases h0 : 0 < i
    · simp only [h0, if_true]
      cases x[m - i - 1]? with
      | none => rfl
      | some t =>
        cases hl : DTLZIV_evaluate_loop3 x (List.range' 0 (10 - 0)) (Num.ofNat 0) i with
        | none => rw [hl] at h3; rw [← h3]; rfl
        | some r => rw [hl] at h3; rw [← h3]; rfl
    · simp only [h0, if_false]
      cases hl : DTLZIV_evaluate_loop3 x (List.range' 0 (10 - 0)) (Num.ofNat 0) i with
      | none => rw [hl] at h3; rw [← h3]; rfl
      | some r => rw [hl] at h3; rw [← h3]; rfl

/-- at least the ten distance variables exist (for fewer, Python's negative indices wrap around: outside the model) -/
theorem tie_DTLZIV_evaluate (m : Nat) (xs : List α) (h10 : 10 ≤ xs.length) : DTLZIV_evaluate m xs = dtlz4 m xs := by
  simp only [DTLZIV_evaluate, range'_zero]
  exact dtlz_outer _ _ _ _ _ m xs (fun l sc => DTLZIV_evaluate_loop1 l m xs 100 10 sc) (fun sc => rfl)
    (fun i tl sc hi => DTLZIV_step m xs h10 i tl sc hi)


end Artap.Tie.BenchMO
