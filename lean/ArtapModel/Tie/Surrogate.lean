import ArtapModel.Gen.Surrogate
/-!
# Translation tie for the surrogate wrappers (artap/surrogate.py)

`ArtapModel/Gen/Surrogate.lean` is regenerated from the source by `tools/py2lean.py` on every run:
`SurrogateModel.add_data`, `SurrogateModelPredict.evaluate_individual`, `SurrogateModelPredict.evaluate`
and `SurrogateModelEval.evaluate`.  The hand-written model is `Model/Surrogate.lean` (property C19).

Reading fixed by the spec entries: the wrapper object is the record state `s : St` (counters, `trained`,
training set, and the model's ghost fields), `individual` is the request `r : Req` (its vector and what
the user's `predict` hook would answer), `self.problem.evaluate` is the objective `f` (every call is
logged in `fcalls`), `"predict" in dir(self.problem)` is `hasHook`, `self.train_step` is `ts`,
`self.train()` is what the model says about it (counted, sets `trained`), the construction of the default
regressor is ignored, Python's integer `%` is `Int.fmod`.

* `tie_SurrogateModelEval_evaluate` = `passStep`, all inputs.
* `tie_SurrogateModelPredict_evaluate_individual` = `trueEval`, all inputs (`none` = the
  `ZeroDivisionError` of `eval_counter % 0`).
* `tie_SurrogateModelPredict_evaluate` = `step` (the returned object is `some` of the model's value), all
  inputs.
-/
set_option linter.unusedSimpArgs false
namespace Artap.Tie.Surrogate
open Artap.Surrogate Artap.Gen.Surrogate

theorem tie_SurrogateModel_add_data (s : St) (x y : List Int) :
    SurrogateModel_add_data s x y = { s with xs := s.xs ++ [x], ys := s.ys ++ [y] } := rfl

theorem tie_SurrogateModelEval_evaluate (f : List Int → List Int) (s : St) (r : Req) :
    SurrogateModelEval_evaluate f s r = passStep f s r := rfl

/-- floored and euclidean remainder vanish together -/
theorem fmod_zero_iff (a b : Int) : Int.fmod a b = 0 ↔ a % b = 0 := by
  rw [← Int.dvd_iff_fmod_eq_zero, Int.dvd_iff_emod_eq_zero]

theorem tie_SurrogateModelPredict_evaluate_individual (f : List Int → List Int) (ts : Int) (s : St) (r : Req) :
    SurrogateModelPredict_evaluate_individual f ts s r = trueEval f ts s r := by
  unfold SurrogateModelPredict_evaluate_individual trueEval
  simp only [tie_SurrogateModel_add_data]
  by_cases h1 : ts = -1
  · simp [h1]
  · by_cases h0 : ts = 0
    · simp [h1, h0]
    · simp only [h1, h0, ne_eq, not_false_eq_true, if_true, if_false, fmod_zero_iff]

theorem tie_SurrogateModelPredict_evaluate (f : List Int → List Int) (hasHook : Bool) (ts : Int) (s : St) (r : Req) :
    SurrogateModelPredict_evaluate f hasHook ts s r = (step f hasHook ts s r).map (fun p => (p.1, some p.2)) := by
  unfold SurrogateModelPredict_evaluate step prediction
  simp only [tie_SurrogateModelPredict_evaluate_individual]
  cases ht : s.trained <;> cases hk : hasHook <;> cases hh : r.hook <;> cases trueEval f ts s r <;> simp

end Artap.Tie.Surrogate
