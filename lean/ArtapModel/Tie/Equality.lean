import ArtapModel.Gen.Equality
/-!
# Translation tie for `Individual.__eq__` (artap/individual.py)

`ArtapModel/Gen/Equality.lean` is regenerated from the source by `tools/py2lean.py` on every run.
The generated function (an index loop over `range(len(self.vector))` with `IndexError` = `none`) is
the hand-written `indEq` of `Model/Equality.lean` (property C20), for all inputs.
-/
set_option linter.unusedSimpArgs false
namespace Artap.Tie.Equality
open Artap.Equality Artap.Gen.Equality

theorem pyAbs_eq (x : Rat) : pyAbs x = absR x := rfl

/-- The index loop started at position `k = pv.length = pw.length` is the structural loop of the
model on the remaining suffixes. -/
theorem eq_loop (v w pv pw : List Rat) (h : pv.length = pw.length) (d : Rat) :
    Individual_eq_loop1 (pv ++ v) (pw ++ w) (List.range' pv.length v.length) d = eqLoop v w d := by
  induction v generalizing w pv pw d with
  | nil => simp only [List.length_nil, List.range'_zero, Individual_eq_loop1, eqLoop]; rfl
  | cons a as ih =>
    cases w with
    | nil =>
      simp only [List.length_cons, List.range'_succ, Individual_eq_loop1, eqLoop, List.append_nil]
      have h2 : pw[pv.length]? = none := by simp [h]
      simp [h2]
    | cons b bs =>
      simp only [List.length_cons, List.range'_succ, Individual_eq_loop1, eqLoop]
      have h1 : (pv ++ a :: as)[pv.length]? = some a := by simp
      have h2 : (pw ++ b :: bs)[pv.length]? = some b := by simp [h]
      have ih' := ih bs (pv ++ [a]) (pw ++ [b]) (by simp [h]) (pyAbs (a - b))
      simp only [List.append_assoc, List.singleton_append, List.length_append, List.length_singleton] at ih'
      have ht : ((1 : Rat) / 10000000000) = tol := rfl
      simp only [h1, h2, pyAbs_eq, ht] at ih' ⊢
      by_cases hc : absR (a - b) < tol
      · have hc' : ¬ tol ≤ absR (a - b) := Rat.not_le.mpr hc      -- (absorbs `diff >= tol` spellings)
        simp only [hc, hc', not_true_eq_false, if_false, if_true, ih']
      · have hc' : tol ≤ absR (a - b) := Rat.not_lt.mp hc
        simp only [hc, hc', not_false_eq_true, if_true, if_false]

theorem tie_Individual_eq (v w : List Rat) : Individual_eq v w = indEq v w := by
  have := eq_loop v w [] [] rfl 1
  simpa [Individual_eq, indEq, List.range_eq_range'] using this

end Artap.Tie.Equality
