import ArtapModel.Gen.Robust
/-!
# Translation tie for `WorstCaseEvaluator.add` (artap/operators.py)

`ArtapModel/Gen/Robust.lean` is regenerated from the source by `tools/py2lean.py` on every run: the
neighbour construction loops (`for i in range(len(vector))`, `for sign in [-1, 1]`, `vector = x.copy();
vector[i] += sign * parameter['tol']`, `children.append(Individual(vector))`) and the two work-list appends.
The hand-written model is `Model/Robust.lean` (property C14): `wcChildVecs` / `wcPairs` / `shift`,
`wcAddInd`, `wcAdd`.

Reading fixed by the spec entry: the submitted design is the record `d : Ind` with identity `i`; the work
lists hold identities; two statements are ignored because of the shape of the model and listed in the
generated header (the back reference `children[-1].parents.append(individual)`, and
`to_evaluate.extend(children)`: the model keeps `to_evaluate` as the list of the parents' identities).

* `tie_WorstCaseEvaluator_add`: for all inputs the generated function is: children := the model's
  `wcChildVecs` (fresh), both work lists extended by the identity; `none` (IndexError / KeyError) exactly when
  the model says so.
* `tie_wcAdd`: on a heap, for a known identity, this is the model's `wcAdd`.

Not covered (stated in DESIGN 11.4): `WorstCaseEvaluator.run` and `GradientEvaluator.run` - they start with
`super().evaluate(self.to_evaluate)` on shared, mutated objects and end by clearing the work lists while the
objects live on; the model expresses that with a heap of identities (`applyAt`, `foldO`), which the
value-based translation cannot produce.
-/
set_option linter.unusedSimpArgs false
set_option linter.unusedVariables false
namespace Artap.Tie.Robust
open Artap.Robust Artap.Gen.Robust

theorem set_eq_modify (x : List Rat) (k : Nat) (a dd : Rat) (h : x[k]? = some a) :
    x.set k (a + dd) = x.modify k (· + dd) := by
  induction x generalizing k with
  | nil => simp at h
  | cons b x ih =>
    cases k with
    | zero => simp at h; subst h; rfl
    | succ k =>
      simp only [List.getElem?_cons_succ] at h
      simp only [List.set_cons_succ, List.modify_succ_cons, ih k h]

/-- the `for sign in [-1, 1]` loop on axis `k` with tolerance entry `te` -/
theorem loop2_eq (k : Nat) (te : Option Rat) (d : Ind) (a : Rat) (hk : d.x[k]? = some a) :
    WorstCaseEvaluator_add_loop2 k te [(-1 : Int), (1 : Int)] d =
      match te with
      | some t => some { d with children := d.children ++ [Child.fresh (shift d.x k ((-1) * t)),
                                                           Child.fresh (shift d.x k (1 * t))] }
      | none => none := by
  cases te with
  | none => simp [WorstCaseEvaluator_add_loop2, hk]
  | some t =>
    simp only [WorstCaseEvaluator_add_loop2, hk, shift]
    rw [set_eq_modify d.x k a _ hk, set_eq_modify d.x k a _ hk]
    simp [Rat.mul_comm]

theorem loop1_eq (tol : List (Option Rat)) (i : Nat) (ks : List Nat) (d : Ind) (te inds : List Nat)
    (hks : ∀ k ∈ ks, k < d.x.length) :
    WorstCaseEvaluator_add_loop1 i ks tol d te inds =
      match wcPairs tol d.x ks with
      | some r => some ({ d with children := d.children ++ r.map Child.fresh }, inds, te ++ [i])
      | none => none := by
  induction ks generalizing d with
  | nil => simp [WorstCaseEvaluator_add_loop1, wcPairs]
  | cons k ks ih =>
    have hk : k < d.x.length := hks k (by simp)
    obtain ⟨a, ha⟩ : ∃ a, d.x[k]? = some a := ⟨d.x[k], by simp [hk]⟩
    simp only [WorstCaseEvaluator_add_loop1, wcPairs]
    cases htk : tol[k]? with
    | none => rfl
    | some tk =>
      simp only [loop2_eq k tk d a ha]
      cases tk with
      | none => rfl
      | some t =>
        simp only []
        rw [ih _ (by simpa using fun k' hk' => hks k' (by simp [hk']))]
        cases wcPairs tol d.x ks with
        | none => rfl
        | some r => simp

theorem tie_WorstCaseEvaluator_add (tol : List (Option Rat)) (i : Nat) (d : Ind) (inds te : List Nat) :
    WorstCaseEvaluator_add tol i d inds te =
      match wcChildVecs tol d.x with
      | some vs => some ({ d with children := vs.map Child.fresh }, inds ++ [i], te ++ [i])
      | none => none := by
  unfold WorstCaseEvaluator_add wcChildVecs
  rw [loop1_eq tol i _ _ te (inds ++ [i]) (by intro k hk; simpa using hk)]
  cases wcPairs tol d.x (List.range d.x.length) with
  | none => rfl
  | some r => simp

/-- On a heap: for a known identity the generated `add` is the model's `wcAdd`. -/
theorem tie_wcAdd (P : Prob) (e : Ev) (i : Nat) (hi : i < e.heap.next) :
    wcAdd P e i =
      (WorstCaseEvaluator_add P.tol i (e.heap.mem i) e.individuals e.toEvaluate).map (fun r =>
        { e with heap := { e.heap with mem := upd e.heap.mem i r.1 }, individuals := r.2.1, toEvaluate := r.2.2 }) := by
  rw [tie_WorstCaseEvaluator_add]
  unfold wcAdd applyAt wcAddInd
  simp only [hi, if_true]
  cases wcChildVecs P.tol (e.heap.mem i).x with
  | none => rfl
  | some vs => simp

end Artap.Tie.Robust
