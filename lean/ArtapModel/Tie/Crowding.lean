import ArtapModel.Gen.Crowding
/-!
# Translation tie for `crowding_distance` (artap/operators.py)

`ArtapModel/Gen/Crowding.lean` is regenerated from the source by `tools/py2lean.py` on every run: the
three early returns, the reset loop, the `for dim` loop with the in-place stable sort
(`front.sort(key=lambda x: x.costs_signed[dim])` ↦ `pyKeys` / `pySort`: all keys first, then
`List.mergeSort` on `key a ≤ key b`), the two end members set to inf, `max_distance`, and the nested
index loop `for i in range(1, n - 1)` reading `front[i + 1]`, `front[i - 1]` and updating `front[i]`.
Reading fixed by the spec entry: the front is a list of record values `Artap.CEnt` (position, costs,
distance with `none` = `math.inf`; the model's ghost field `rest` is never touched), a feature write
through `front[i]` replaces member `i` (members of a front are distinct objects), `inf + x = inf` is the
model's `addOpt`, `x.costs_signed[dim]` is the cost `x.costs[dim]?` (reading the marker at
`dim = len(costs)` is not translated, as in the model).

The hand-written model has a different shape (entries peel their `rest`, `sweep` / `interior` walk the
sorted list structurally instead of by index); the tie therefore is a refinement proof:

* `loop3_eq`: the index loop on `pre ++ [p] ++ suf` leaves `pre ++ [p] ++ interior mx key(p) suf`;
* `loop2_step`: one pass of the `for dim` body leaves `sweep` of the sorted keyed members;
* `crowdPeel_eq`, `sort_map`, `sweep_map`: the model's ghost field commutes with all of it;
* `loop2_eq`: the `for dim` loop is `crowdLoop`;
* `tie_crowding_distance`: for every list of cost vectors and every front carrying them (arbitrary stale
  distances), generated function and `Artap.crowding` leave the same members in the same order with the
  same distances (`view` = position, costs, distance), or both raise.  No hypotheses beyond "the front
  carries these cost vectors at these positions".
-/
set_option linter.unusedSimpArgs false
set_option linter.unusedVariables false
namespace Artap.Tie.Crowding
open Artap Artap.Gen.Crowding

local notation "L1" => crowding_distance_loop1
local notation "L2" => crowding_distance_loop2
local notation "L3" => crowding_distance_loop3

/-- The ghost field of the model: the objectives not processed yet. -/
def setRest (d : Nat) (e : CEnt) : CEnt := { e with rest := e.costs.drop d }

/-- What `crowding_distance` is about: original position, costs, distance. -/
def view (e : CEnt) : Nat × List Rat × Option Rat := (e.idx, e.costs, e.acc)

/-! ## Signed indices -/

theorem pyGet_m1 {α : Type} (pre : List α) (x : α) : pyGet (pre ++ [x]) (-1 : Int) = some x := by
  have h1 : ¬ (0 : Int) ≤ -1 := by omega
  have h2 : -(((pre ++ [x]).length : Nat) : Int) ≤ -1 := by simp; omega
  have h3 : (((pre ++ [x]).length : Nat) + (-1 : Int)).toNat = pre.length := by simp; omega
  unfold pyGet
  rw [if_neg h1, if_pos h2, h3]
  simp

theorem pySet_m1 {α : Type} (pre : List α) (x v : α) : pySet (pre ++ [x]) (-1 : Int) v = some (pre ++ [v]) := by
  have h1 : ¬ (0 : Int) ≤ -1 := by omega
  have h2 : -(((pre ++ [x]).length : Nat) : Int) ≤ -1 := by simp; omega
  have h3 : (((pre ++ [x]).length : Nat) + (-1 : Int)).toNat = pre.length := by simp; omega
  unfold pySet
  rw [if_neg h1, if_pos h2, h3]
  simp

theorem pyGet_pred {α : Type} (pre : List α) (x : α) (suf : List α) (i : Nat) (hi : i = pre.length + 1) :
    pyGet (pre ++ x :: suf) ((i : Int) - ((1 : Nat) : Int)) = some x := by
  have h0 : (0 : Int) ≤ (i : Int) - ((1 : Nat) : Int) := by omega
  have h1 : ((i : Int) - ((1 : Nat) : Int)).toNat = pre.length := by omega
  unfold pyGet
  rw [if_pos h0, h1]
  simp

/-! ## The interior loop -/

/-- `interior` does not read the distance of the last member (it overwrites it with inf). -/
theorem interior_last (mx : Rat) (prev : Rat) (init : List (Rat × CEnt)) (k : Rat) (e : CEnt) (a : Option Rat) :
    interior mx prev (init ++ [(k, { e with acc := a })]) = interior mx prev (init ++ [(k, e)]) := by
  induction init generalizing prev with
  | nil => simp [interior]
  | cons p init ih =>
    obtain ⟨kp, ep⟩ := p
    cases init with
    | nil => simp [interior]
    | cons q r =>
      obtain ⟨kq, eq⟩ := q
      simp only [List.cons_append, interior]
      rw [show (kq, eq) :: (r ++ [(k, { e with acc := a })]) = ((kq, eq) :: r) ++ [(k, { e with acc := a })] from rfl,
        ih kp]
      rfl

/-- `for i in range(1, n - 1)`: with `pre` the members before position `i` (the last of them has key `kp`)
and `suf` the keyed members from position `i` on (the last one already at inf), the loop leaves
`pre ++ interior mx kp suf`. -/
theorem loop3_eq (d : Nat) (mx : Rat) (suf : List (Rat × CEnt)) (pre : List CEnt) (p : CEnt) (kp : Rat)
    (hp : p.costs[d]? = some kp) (hk : ∀ q ∈ suf, q.2.costs[d]? = some q.1)
    (hlast : ∀ q, suf.getLast? = some q → q.2.acc = none) (hne : suf ≠ []) :
    L3 d mx (List.range' (pre.length + 1) (suf.length - 1)) ((pre ++ [p]) ++ suf.map (·.2)) =
      some ((pre ++ [p]) ++ interior mx kp suf) := by
  induction suf generalizing pre p kp with
  | nil => exact absurd rfl hne
  | cons q suf ih =>
    obtain ⟨k, e⟩ := q
    cases suf with
    | nil =>
      have : e.acc = none := hlast (k, e) rfl
      have he : ({ e with acc := none } : CEnt) = e := by cases e; simp_all
      simp [crowding_distance_loop3, interior, he]
    | cons q2 tl =>
      obtain ⟨k2, e2⟩ := q2
      have hke : e.costs[d]? = some k := hk (k, e) (by simp)
      have hk2 : e2.costs[d]? = some k2 := hk (k2, e2) (by simp)
      have hlen : (pre ++ [p]).length = pre.length + 1 := by simp
      have hnext : ((pre ++ [p]) ++ e :: e2 :: tl.map (·.2))[pre.length + 1 + 1]? = some e2 := by
        rw [List.getElem?_append_right (by simp)]; simp
      have hcur : ((pre ++ [p]) ++ e :: e2 :: tl.map (·.2))[pre.length + 1]? = some e := by
        rw [List.getElem?_append_right (by simp)]; simp
      have hprev : pyGet ((pre ++ [p]) ++ e :: e2 :: tl.map (·.2))
          (((pre.length + 1 : Nat) : Int) - ((1 : Nat) : Int)) = some p := by
        rw [List.append_assoc]
        exact pyGet_pred pre p _ (pre.length + 1) rfl
      have hset : ∀ v : CEnt, ((pre ++ [p]) ++ e :: e2 :: tl.map (·.2)).set (pre.length + 1) v
          = ((pre ++ [p]) ++ [v]) ++ e2 :: tl.map (·.2) := by
        intro v
        rw [List.set_append_right _ _ (by simp)]
        simp
      have ih' := fun (v : CEnt) (hv : v.costs[d]? = some k) =>
        ih (pre ++ [p]) v k hv (fun q hq => hk q (by simp [hq]))
          (fun q hq => hlast q (by simpa [List.getLast?_cons_cons] using hq)) (by simp)
      simp only [List.length_cons, Nat.add_sub_cancel, List.range'_succ, List.map_cons,
        crowding_distance_loop3.eq_2, hnext, hk2, hprev, hp, hcur]
      simp only [List.length_append, List.length_cons, List.length_nil, List.map_cons, Nat.add_sub_cancel,
        Nat.zero_add] at ih'
      by_cases hmx : 0 < mx
      · have hne0 : mx ≠ 0 := fun h => by rw [h] at hmx; exact absurd hmx (by decide)
        simp only [hmx, if_true, hne0, ne_eq, not_false_eq_true, hset, interior]
        rw [ih' { e with acc := addOpt e.acc ((k2 - kp) / mx) } hke]
        simp
      · simp only [hmx, if_false, interior]
        have := ih' e hke
        simp only [List.append_assoc, List.cons_append, List.nil_append] at this ⊢
        rw [this]

/-! ## One objective: sort, both ends inf, interior loop = `sweep` of the sorted keyed members -/

theorem pyKeys_spec {α κ : Type} (key : α → Option κ) (G : List α) (P : List (κ × α))
    (h : pyKeys key G = some P) : P.map (·.2) = G ∧ ∀ q ∈ P, key q.2 = some q.1 := by
  induction G generalizing P with
  | nil => simp [pyKeys] at h; subst h; simp
  | cons x G ih =>
    rw [pyKeys] at h
    cases hx : key x with
    | none => simp [hx] at h
    | some k =>
      cases hG : pyKeys key G with
      | none => simp [hx, hG] at h
      | some t =>
        simp [hx, hG] at h
        subst h
        obtain ⟨h1, h2⟩ := ih t hG
        refine ⟨by simp [h1], ?_⟩
        intro q hq
        rcases List.mem_cons.mp hq with h | h
        · subst h; exact hx
        · exact h2 q h

set_option quotPrecheck false in
local notation "le" => (fun (a b : Rat × CEnt) => decide (a.fst ≤ b.fst))

theorem sweep_length (S : List (Rat × CEnt)) (h : S ≠ []) : (sweep S).length = S.length := by
  have hint : ∀ (mx prev : Rat) (l : List (Rat × CEnt)), (interior mx prev l).length = l.length := by
    intro mx prev l
    induction l generalizing prev with
    | nil => simp [interior]
    | cons p l ih =>
      obtain ⟨k, e⟩ := p
      cases l with
      | nil => simp [interior]
      | cons q r => obtain ⟨k2, e2⟩ := q; simp only [interior, List.length_cons, ih k]
  cases S with
  | nil => exact absurd rfl h
  | cons p tl =>
    obtain ⟨k0, e0⟩ := p
    cases hl : ((k0, e0) :: tl).getLast? with
    | none => simp at hl
    | some q => obtain ⟨kl, el⟩ := q; simp [sweep, hl, hint]

theorem sweep_concat (k0 : Rat) (e0 : CEnt) (init : List (Rat × CEnt)) (kl : Rat) (el : CEnt) :
    sweep ((k0, e0) :: (init ++ [(kl, el)])) =
      { e0 with acc := none } :: interior (kl - k0) k0 (init ++ [(kl, el)]) := by
  have h : ((k0, e0) :: (init ++ [(kl, el)])).getLast? = some (kl, el) := by
    rw [show (k0, e0) :: (init ++ [(kl, el)]) = ((k0, e0) :: init) ++ [(kl, el)] from rfl, List.getLast?_append]
    simp
  simp only [sweep, h]

/-- After the sort: the body of the `for dim` loop leaves `sweep S`. -/
theorem loop2_step (d : Nat) (tl2 : List Nat) (G : List CEnt) (n : Nat) (P : List (Rat × CEnt))
    (hP : pyKeys (fun x => x.costs[d]?) G = some P) (hn : G.length = n) (h2 : 2 ≤ n) :
    L2 (d :: tl2) G n = L2 tl2 (sweep (P.mergeSort le)) n := by
  obtain ⟨hPG, hPk⟩ := pyKeys_spec _ G P hP
  have hk : ∀ q ∈ P.mergeSort le, q.2.costs[d]? = some q.1 := fun q hq => hPk q (List.mem_mergeSort.mp hq)
  have hlen : (P.mergeSort le).length = n := by
    rw [List.length_mergeSort, ← hn, ← hPG, List.length_map]
  rw [crowding_distance_loop2.eq_2, hP]
  simp only [pySort]
  generalize P.mergeSort le = S at hk hlen ⊢
  -- S = (k0, e0) :: (init ++ [(kl, el)])
  cases S with
  | nil => simp at hlen; omega
  | cons p0 tl =>
    obtain ⟨k0, e0⟩ := p0
    rcases List.eq_nil_or_concat tl with h | ⟨init, pl, h⟩
    · subst h; simp at hlen; omega
    · obtain ⟨kl, el⟩ := pl
      rw [List.concat_eq_append] at h
      subst h
      have hk0 : e0.costs[d]? = some k0 := hk (k0, e0) (by simp)
      have hkl : el.costs[d]? = some kl := hk (kl, el) (by simp)
      have hn' : n = init.length + 2 := by simp at hlen; omega
      have hrange : (Int.toNat ((n : Int) - ((1 : Nat) : Int))) - (1 : Nat) = init.length := by omega
      have hF1 : ({ e0 with acc := (none : Option Rat) } :: (init.map (·.2) ++ [el]))
          = ({ e0 with acc := (none : Option Rat) } :: init.map (·.2)) ++ [el] := rfl
      have h3 := loop3_eq d (kl - k0) (init ++ [(kl, { el with acc := none })]) [] { e0 with acc := none } k0 hk0
        (by intro q hq
            rcases List.mem_append.mp hq with h | h
            · exact hk q (by simp [h])
            · simp at h; subst h; exact hkl)
        (by intro q hq; simp [List.getLast?_append] at hq; subst hq; rfl)
        (by simp)
      simp only [List.nil_append, List.length_nil, Nat.zero_add, List.length_append, List.length_cons,
        Nat.add_sub_cancel, List.map_append, List.map_cons, List.map_nil] at h3
      simp only [List.map_cons, List.map_append, List.map_nil, List.getElem?_cons_zero, List.set_cons_zero]
      rw [hF1]
      simp only [pyGet_m1, pySet_m1]
      simp only [List.cons_append, List.getElem?_cons_zero, hkl, hk0, hrange]
      rw [show ({ e0 with acc := (none : Option Rat) } :: (init.map (·.2) ++ [{ el with acc := (none : Option Rat) }]))
            = [{ e0 with acc := (none : Option Rat) }] ++ (init.map (·.2) ++ [{ el with acc := (none : Option Rat) }]) from rfl,
        h3]
      simp only [interior_last, sweep_concat, List.singleton_append]

/-! ## The model side: the ghost field `rest` -/

/-- The model's key extraction (head of `rest`) is the code's `costs_signed[dim]`. -/
theorem crowdPeel_eq (d : Nat) (G : List CEnt) :
    crowdPeel (G.map (setRest d)) =
      (pyKeys (fun x => x.costs[d]?) G).map (List.map (fun q => (q.1, setRest (d + 1) q.2))) := by
  induction G with
  | nil => simp [crowdPeel, pyKeys]
  | cons e G ih =>
    simp only [List.map_cons, crowdPeel, pyKeys, ih]
    have hrest : (setRest d e).rest = e.costs.drop d := rfl
    rw [hrest]
    by_cases hd : d < e.costs.length
    · rw [List.drop_eq_getElem_cons hd, List.getElem?_eq_getElem hd]
      cases pyKeys (fun x => x.costs[d]?) G with
      | none => rfl
      | some t => rfl
    · have h1 : e.costs.drop d = [] := by simp; omega
      have h2 : e.costs[d]? = none := by simp; omega
      rw [h1, h2]
      simp

theorem interior_map (c : Nat) (mx prev : Rat) (l : List (Rat × CEnt)) :
    interior mx prev (l.map (fun q => (q.1, setRest c q.2))) = (interior mx prev l).map (setRest c) := by
  induction l generalizing prev with
  | nil => simp [interior]
  | cons p l ih =>
    obtain ⟨k, e⟩ := p
    cases l with
    | nil => simp [interior, setRest]
    | cons q r =>
      obtain ⟨k2, e2⟩ := q
      simp only [List.map_cons, interior] at ih ⊢
      rw [ih k]
      simp [setRest]

theorem sweep_map (c : Nat) (S : List (Rat × CEnt)) :
    sweep (S.map (fun q => (q.1, setRest c q.2))) = (sweep S).map (setRest c) := by
  cases S with
  | nil => simp [sweep]
  | cons p tl =>
    obtain ⟨k0, e0⟩ := p
    rcases List.eq_nil_or_concat tl with h | ⟨init, pl, h⟩
    · subst h; simp [sweep, interior, setRest]
    · obtain ⟨kl, el⟩ := pl
      rw [List.concat_eq_append] at h
      subst h
      have := sweep_concat k0 (setRest c e0) (init.map (fun q => (q.1, setRest c q.2))) kl (setRest c el)
      simp only [List.map_cons, List.map_append, List.map_nil] at this ⊢
      rw [this, sweep_concat]
      have hi := interior_map c (kl - k0) k0 (init ++ [(kl, el)])
      simp only [List.map_append, List.map_cons, List.map_nil] at hi
      rw [hi]
      simp [setRest]

theorem sort_map (c : Nat) (P : List (Rat × CEnt)) :
    (P.map (fun q => (q.1, setRest c q.2))).mergeSort keyLe
      = (P.mergeSort le).map (fun q => (q.1, setRest c q.2)) := by
  rw [List.map_mergeSort (s := keyLe)]
  intro a _ b _
  rfl

/-- The `for dim` loop is the model's `crowdLoop` (on the same members with the ghost field set). -/
theorem loop2_eq (n : Nat) (h2 : 2 ≤ n) (m d : Nat) (G : List CEnt) (hn : G.length = n) :
    (L2 (List.range' d m) G n).map (List.map (setRest (d + m))) = crowdLoop m (G.map (setRest d)) := by
  induction m generalizing d G with
  | zero => simp [crowding_distance_loop2, crowdLoop]
  | succ m ih =>
    rw [List.range'_succ, crowdLoop, crowdPeel_eq]
    cases hP : pyKeys (fun x => x.costs[d]?) G with
    | none => rw [crowding_distance_loop2.eq_2, hP]; rfl
    | some P =>
      rw [loop2_step d _ G n P hP hn h2]
      obtain ⟨hPG, _⟩ := pyKeys_spec _ G P hP
      have hlen : (P.mergeSort le).length = n := by
        rw [List.length_mergeSort, ← hn, ← hPG, List.length_map]
      have hne : P.mergeSort le ≠ [] := by
        intro h; rw [h] at hlen; simp at hlen; omega
      have := ih (d + 1) (sweep (P.mergeSort le)) (by rw [sweep_length _ hne, hlen])
      rw [show d + 1 + m = d + (m + 1) by omega] at this
      simp only [Option.map_some, sort_map, sweep_map]
      exact this

/-! ## The reset loop and the whole function -/

theorem loop1_eq (n : Nat) (suf pre : List CEnt) :
    L1 (List.range' pre.length suf.length) (pre ++ suf) n =
      L1 [] (pre ++ suf.map (fun e => { e with acc := some (0 : Rat) })) n := by
  induction suf generalizing pre with
  | nil => simp
  | cons e suf ih =>
    have hget : (pre ++ e :: suf)[pre.length]? = some e := by simp
    have hset : ∀ v : CEnt, (pre ++ e :: suf).set pre.length v = (pre ++ [v]) ++ suf := by
      intro v; simp
    rw [List.length_cons, List.range'_succ, crowding_distance_loop1.eq_2]
    simp only [hget, hset]
    have := ih (pre ++ [{ e with acc := some (0 : Rat) }])
    simp only [List.length_append, List.length_cons, List.length_nil, Nat.zero_add] at this
    rw [this]
    simp

theorem view_setRest (c : Nat) (l : List CEnt) : (l.map (setRest c)).map view = l.map view := by
  simp [List.map_map, Function.comp_def, view, setRest]

/-- **Translation tie for `crowding_distance`.**  `costs` are the cost vectors (`costs_signed[:-1]`) of the
members of the front in the order handed to the function; `G0` is any list of record values that carries
these vectors and the original positions (stale `crowding_distance` features and the ghost field are
arbitrary).  The function generated from the source and the hand-written model `Artap.crowding` leave the
same members in the same order with the same distances (`view`: position, costs, distance) – or both raise. -/
theorem tie_crowding_distance (costs : List (List Rat)) (G0 : List CEnt)
    (hG : G0.map (fun e => (e.idx, e.costs)) = costs.zipIdx.map (fun p => (p.2, p.1))) :
    (crowding_distance G0).map (List.map view) = (crowding costs).map (List.map view) := by
  have hlen : G0.length = costs.length := by
    have := congrArg List.length hG
    simpa using this
  -- views of `G0` with a constant distance
  have hview : ∀ a : Option Rat, (G0.map (fun e => { e with acc := a })).map view = (initEnts costs a).map view := by
    intro a
    have h1 : (G0.map (fun e => { e with acc := a })).map view
        = (G0.map (fun e => (e.idx, e.costs))).map (fun p => (p.1, p.2, a)) := by
      simp [List.map_map, Function.comp_def, view]
    rw [h1, hG]
    simp [initEnts, List.map_map, Function.comp_def, view]
  have hinit : (G0.map (fun e => { e with acc := some (0 : Rat) })).map (setRest 0) = initEnts costs (some 0) := by
    have h1 : (G0.map (fun e => { e with acc := some (0 : Rat) })).map (setRest 0)
        = (G0.map (fun e => (e.idx, e.costs))).map
            (fun p => ({ idx := p.1, costs := p.2, rest := p.2, acc := some 0 } : CEnt)) := by
      simp [List.map_map, Function.comp_def, setRest]
    rw [h1, hG]
    simp [initEnts, List.map_map, Function.comp_def]
  unfold crowding_distance crowding
  simp only []
  by_cases h0 : G0.length = 0
  · have : G0 = [] := List.length_eq_zero_iff.mp h0
    subst this
    have : costs = [] := List.length_eq_zero_iff.mp (by omega)
    subst this
    simp [initEnts]
  by_cases h1 : G0.length = 1
  · have hc : costs.length ≤ 2 := by omega
    simp only [h0, h1, if_false, if_true, hc]
    have := hview none
    match G0, h1, this with
    | [e], _, this => simpa using this
  by_cases h2 : G0.length = 2
  · have hc : costs.length ≤ 2 := by omega
    simp only [h0, h1, h2, if_false, if_true, hc]
    have := hview none
    match G0, h2, this with
    | [e, e'], _, this => simpa using this
  have hc : ¬ costs.length ≤ 2 := by omega
  simp only [h0, h1, h2, if_false, hc]
  have hl1 := loop1_eq G0.length G0 []
  simp only [List.nil_append, List.length_nil] at hl1
  rw [List.range_eq_range', hl1, crowding_distance_loop1.eq_1]
  match costs, G0, hG, hlen, hinit with
  | f0 :: cs, g0 :: gs, hG, hlen, hinit =>
    have hf0 : g0.costs = f0 := by
      have := congrArg (fun l => l.head?.map (·.2)) hG
      simpa using this
    subst hf0
    simp only [List.map_cons, List.getElem?_cons_zero]
    have := loop2_eq (g0 :: gs).length (by rw [hlen]; omega) g0.costs.length 0
      ((g0 :: gs).map (fun e => { e with acc := some (0 : Rat) })) (by simp)
    rw [hinit, Nat.zero_add, ← List.range_eq_range'] at this
    simp only [List.map_cons] at this
    rw [← this]
    generalize L2 (List.range g0.costs.length)
      ({ g0 with acc := some (0 : Rat) } :: gs.map (fun e => { e with acc := some (0 : Rat) })) (g0 :: gs).length = R
    cases R with
    | none => rfl
    | some r =>
      simp only [Option.map_some]
      rw [view_setRest]

end Artap.Tie.Crowding
