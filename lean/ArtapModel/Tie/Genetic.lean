import ArtapModel.Gen.Genetic
/-!
# Translation tie for `GeneticAlgorithm.generate` (artap/algorithm_genetic.py)

`ArtapModel/Gen/Genetic.lean` is regenerated from the source by `tools/py2lean.py` on every run.
Selection, crossover and mutation are not translated (the seven statements are listed as `ignored`
in the generated header): their results, the two children of each pass of the `while` loop, are the
members of the oracle list `pairs`, one pair per pass, and the list running dry is `none` – exactly
the reading of the hand-written `Artap.Runs.generate` / `genStep` (property C09).  What is translated
is the bookkeeping the C09 theorems are about: the loop test `len(offsprings) < max_population_size`,
the forced first append, and the two duplicate tests `any(child == o for o in offsprings)`.

`tie_GeneticAlgorithm_generate` holds for every `__eq__` (`eq`), size `N` and oracle list, without
hypotheses; `loop1_eq` is the statement for an arbitrary current offspring list.
-/
set_option linter.unusedSimpArgs false
namespace Artap.Tie.Genetic
open Artap.Runs Artap.Gen.Genetic

variable {D : Type}

theorem loop1_eq (eq : D → D → Bool) (N : Nat) (pairs : List (D × D)) (offs : List D) :
    GeneticAlgorithm_generate_loop1 eq N pairs offs = generate eq N pairs offs := by
  induction pairs generalizing offs with
  | nil =>
    rw [GeneticAlgorithm_generate_loop1.eq_1, generate]
  | cons p ps ih =>
    obtain ⟨c1, c2⟩ := p
    rw [GeneticAlgorithm_generate_loop1.eq_2, generate]
    by_cases hN : offs.length < N
    · simp only [hN, if_true, genStep, decide_eq_true_eq, Bool.and_eq_true, beq_iff_eq, Bool.decide_eq_true,
        ih, apply_ite (generate eq N ps)]
    · simp only [hN, if_false]

theorem tie_GeneticAlgorithm_generate (eq : D → D → Bool) (N : Nat) (pairs : List (D × D)) :
    GeneticAlgorithm_generate eq N pairs = generate eq N pairs [] :=
  loop1_eq eq N pairs []

end Artap.Tie.Genetic
