import ArtapModel.Gen.Variation
/-!
# Translation tie for `Operator.clip` (artap/operators.py)

`ArtapModel/Gen/Variation.lean` is regenerated from the source by `tools/py2lean.py` on every run.
The generated function is the hand-written `Artap.Variation.clip` (property C08: every coordinate
the variation operators overwrite goes through `clip`).
-/
set_option linter.unusedSimpArgs false
namespace Artap.Tie.Variation
open Artap.Variation Artap.Gen.Variation

theorem tie_Operator_clip (v lo hi : Rat) : Operator_clip v lo hi = clip v lo hi := by
  first
    | rfl
    | (simp only [Operator_clip, clip, pmax, pmin]; done)
    | (simp only [Operator_clip, clip, pmax, pmin]; repeat' split; all_goals simp_all)

end Artap.Tie.Variation
