import ArtapModel.Gen.BenchRobust
import ArtapModel.Proofs.NumReal
/-!
# Translation tie for the synthetic robust-design benchmarks (artap/benchmark_robust.py, C15)

`ArtapModel/Gen/BenchRobust.lean` is regenerated from the source on every run: `Synthetic2D.evaluate`,
`Synthetic1D.evaluate`, the module-level helper `atom_nd` and `Synthetic5D.evaluate` / `Synthetic10D.evaluate`
(ten calls of `atom_nd` each), over any carrier `α` with the operations of `Artap.Num`.  The hand-written model is
`Model/Bench.lean` (`synthetic2D`, `synthetic1D`, `atomNd`, `atomSum` over the two tables).

* `tie_Synthetic2D_evaluate`: all inputs, no hypothesis.
* `tie_atom_nd`: the index loop `for i in range(0, len(x)): res += (x[i] - z[i]) ** 2.` is the fold over `zip(x, z)`;
  a centre shorter than the point is the `IndexError` (`none`).  All inputs.
* `tie_Synthetic1D_evaluate`, `tie_Synthetic5D_evaluate`, `tie_Synthetic10D_evaluate`: the model writes the integral
  constants of these three functions (`6.`, `1.0`, the centres `[10., 1.0, …]`) as **rational** constants
  `Num.ofRat 6`, the translator reads an integral float literal as the natural number (`Num.ofNat 6`).  The two
  agree in every lawful carrier; the class `Num` has no laws, so the ties carry the hypothesis
  `CastOK α : ∀ n : ℕ, Num.ofRat n = Num.ofNat n` (true in `Num ℝ` by `Rat.cast_natCast`; for `Num Float` it says
  that `Float.ofInt n / Float.ofNat 1 = Float.ofNat n`, which holds for every IEEE double but is not provable about
  Lean's opaque `Float`).  Nothing else is assumed.
-/
set_option linter.unusedSimpArgs false
set_option linter.unusedVariables false
namespace Artap.Tie.BenchRobust
open Artap Artap.Bench Artap.Gen.BenchRobust

variable {α : Type} [Num α]

/-- the carrier reads the rational constant `n` and the natural number `n` as the same value -/
def CastOK (α : Type) [Num α] : Prop := ∀ n : Nat, (Num.ofRat (n : Rat) : α) = Num.ofNat n

/-- the hypothesis holds in the carrier the theorems of `Props/C15.lean` are about -/
theorem castOK_real : CastOK ℝ := fun n => by
  show ((n : ℚ) : ℝ) = (n : ℝ)
  exact Rat.cast_natCast n

theorem half : ((5 : Rat) / 10) = 1 / 2 := by decide +kernel

/-! ## Synthetic2D -/

theorem tie_Synthetic2D_evaluate (xs : List α) :
    Synthetic2D_evaluate xs = match xs with | x :: y :: _ => some [synthetic2D x y] | _ => none := by
  match xs with
  | [] => rfl
  | [x] => rfl
  | x :: y :: r => rfl

/-! ## Synthetic1D -/

theorem tie_Synthetic1D_evaluate (hc : CastOK α) (xs : List α) :
    Synthetic1D_evaluate xs = match xs with | x :: _ => some [synthetic1D x] | _ => none := by
  match xs with
  | [] => rfl
  | x :: r =>
    have h1 : (Num.ofRat (1 : Rat) : α) = Num.ofNat 1 := hc 1
    have h3 : (Num.ofRat (3 : Rat) : α) = Num.ofNat 3 := hc 3
    have h6 : (Num.ofRat (6 : Rat) : α) = Num.ofNat 6 := hc 6
    have h7 : (Num.ofRat (7 : Rat) : α) = Num.ofNat 7 := hc 7
    have h8 : (Num.ofRat (8 : Rat) : α) = Num.ofNat 8 := hc 8
    have h11 : (Num.ofRat (11 : Rat) : α) = Num.ofNat 11 := hc 11
    have h12 : (Num.ofRat (12 : Rat) : α) = Num.ofNat 12 := hc 12
    simp only [synthetic1D, peak, peak1, rat, h1, h3, h6, h7, h8, h11, h12, ← half]
    rfl

/-! ## atom_nd -/

/-- the accumulated squared distance over the coordinates both lists have -/
def dist2 (acc : α) (l : List (α × α)) : α := l.foldl (fun acc p => Num.add acc (sq (Num.sub p.1 p.2))) acc

theorem atom_nd_loop (w m : α) (x z : List α) : ∀ (n s : Nat) (acc : α), s + n ≤ x.length →
    atom_nd_loop1 w m x z (List.range' s n) acc =
      if n = 0 ∨ s + n ≤ z.length then
        some (Num.mul (Num.exp (Num.div (dist2 acc (((x.drop s).zip (z.drop s)).take n)) (Num.neg w))) m)
      else none := by
  intro n
  induction n with
  | zero => intro s acc h; simp [atom_nd_loop1, dist2]
  | succ n ih =>
    intro s acc h
    have hs : s < x.length := by omega
    rw [List.range'_succ]
    simp only [atom_nd_loop1, List.getElem?_eq_getElem hs]
    by_cases hz : s < z.length
    · simp only [List.getElem?_eq_getElem hz]
      rw [ih (s + 1) _ (by omega)]
      have hzip : (x.drop s).zip (z.drop s) = (x[s], z[s]) :: (x.drop (s + 1)).zip (z.drop (s + 1)) := by
        rw [List.drop_eq_getElem_cons hs, List.drop_eq_getElem_cons hz]
        rfl
      rw [hzip, List.take_succ_cons]
      have hc : (n = 0 ∨ s + 1 + n ≤ z.length) ↔ (n + 1 = 0 ∨ s + (n + 1) ≤ z.length) := by omega
      simp only [hc, dist2, List.foldl_cons]
      rfl
    · have hn : z[s]? = none := by simp; omega
      have hc : ¬ (n + 1 = 0 ∨ s + (n + 1) ≤ z.length) := by omega
      simp only [hn, hc, if_false]

/-- all inputs: a centre shorter than the point is the IndexError -/
theorem tie_atom_nd (w m : α) (x z : List α) :
    atom_nd w m x z =
      if x.length ≤ z.length then
        some (Num.mul (Num.exp (Num.div (dist2 (nat 0) (x.zip z)) (Num.neg w))) m)
      else none := by
  simp only [atom_nd, Nat.sub_zero]
  rw [atom_nd_loop w m x z x.length 0 _ (by omega)]
  by_cases h : x.length ≤ z.length
  · have ht : ((List.drop 0 x).zip (List.drop 0 z)).take x.length = x.zip z := by
      rw [List.take_of_length_le (by simp <;> omega)]
      simp
    simp only [h, Nat.zero_add, or_true, if_true, ht]
    rfl
  · have h0 : x.length ≠ 0 := by omega
    simp only [h, h0, Nat.zero_add, or_false, if_false]

/-- the model's `atomNd` (rational width, multiplier and centre) -/
theorem atom_nd_model (w m : Rat) (x : List α) (zs : List Rat) :
    atom_nd (rat w) (rat m) x (zs.map rat) = if x.length ≤ zs.length then some (atomNd w m x zs) else none := by
  rw [tie_atom_nd]
  simp only [List.length_map, atomNd, dist2, List.zip_map_right, List.foldl_map]
  rfl

/-! ## Synthetic5D / Synthetic10D: ten calls of `atom_nd` -/

theorem tie_Synthetic5D_evaluate (hc : CastOK α) (xs : List α) :
    Synthetic5D_evaluate xs = if xs.length ≤ 5 then (atomSum synthetic5DTable xs).map (fun v => [v]) else none := by
  have h1 : (Num.ofNat 1 : α) = rat 1 := (hc 1).symm
  have h2 : (Num.ofNat 2 : α) = rat 2 := (hc 2).symm
  have h3 : (Num.ofNat 3 : α) = rat 3 := (hc 3).symm
  have h4 : (Num.ofNat 4 : α) = rat 4 := (hc 4).symm
  have h5 : (Num.ofNat 5 : α) = rat 5 := (hc 5).symm
  have h6 : (Num.ofNat 6 : α) = rat 6 := (hc 6).symm
  have h7 : (Num.ofNat 7 : α) = rat 7 := (hc 7).symm
  have h8 : (Num.ofNat 8 : α) = rat 8 := (hc 8).symm
  have h9 : (Num.ofNat 9 : α) = rat 9 := (hc 9).symm
  have h10 : (Num.ofNat 10 : α) = rat 10 := (hc 10).symm
  have hl : ∀ a b c d e : Rat, ([rat a, rat b, rat c, rat d, rat e] : List α) = [a, b, c, d, e].map rat := by
    intros; rfl
  have hr : ∀ r : Rat, (Num.ofRat r : α) = rat r := fun _ => rfl
  simp only [Synthetic5D_evaluate, h1, h2, h3, h4, h5, h6, h7, h8, h9, h10, hr, hl, atom_nd_model,
    List.length_cons, List.length_nil]
  by_cases h : xs.length ≤ 5
  · simp only [h, if_true, atomSum, synthetic5DTable, List.foldl_cons, List.foldl_nil, Option.map_some]
  · simp only [h, if_false]

theorem tie_Synthetic10D_evaluate (hc : CastOK α) (xs : List α) :
    Synthetic10D_evaluate xs = if xs.length ≤ 10 then (atomSum synthetic10DTable xs).map (fun v => [v]) else none := by
  have h1 : (Num.ofNat 1 : α) = rat 1 := (hc 1).symm
  have h2 : (Num.ofNat 2 : α) = rat 2 := (hc 2).symm
  have h3 : (Num.ofNat 3 : α) = rat 3 := (hc 3).symm
  have h4 : (Num.ofNat 4 : α) = rat 4 := (hc 4).symm
  have h5 : (Num.ofNat 5 : α) = rat 5 := (hc 5).symm
  have h6 : (Num.ofNat 6 : α) = rat 6 := (hc 6).symm
  have h7 : (Num.ofNat 7 : α) = rat 7 := (hc 7).symm
  have h8 : (Num.ofNat 8 : α) = rat 8 := (hc 8).symm
  have h9 : (Num.ofNat 9 : α) = rat 9 := (hc 9).symm
  have h10 : (Num.ofNat 10 : α) = rat 10 := (hc 10).symm
  have hl : ∀ a b c d e a' b' c' d' e' : Rat, ([rat a, rat b, rat c, rat d, rat e, rat a', rat b', rat c', rat d', rat e'] : List α) =
      [a, b, c, d, e, a', b', c', d', e'].map rat := by
    intros; rfl
  have hr : ∀ r : Rat, (Num.ofRat r : α) = rat r := fun _ => rfl
  simp only [Synthetic10D_evaluate, h1, h2, h3, h4, h5, h6, h7, h8, h9, h10, hr, hl, atom_nd_model,
    List.length_cons, List.length_nil]
  by_cases h : xs.length ≤ 10
  · simp only [h, if_true, atomSum, synthetic10DTable, List.foldl_cons, List.foldl_nil, Option.map_some]
  · simp only [h, if_false]


end Artap.Tie.BenchRobust
