import ArtapModel.Gen.Archive
/-!
# Translation tie for `Archive.add` (artap/archive.py)

`ArtapModel/Gen/Archive.lean` is regenerated from the source by `tools/py2lean.py` on every run.
The generated function (snapshot loop with `enumerate`, index-correcting `del`, `break`, the
acceptance test after the loop) is the hand-written `Artap.Archive.add` of `Model/Archive.lean`
(property C04), for every element type, comparator and costs equality, and for all inputs.
-/
set_option linter.unusedSimpArgs false
namespace Artap.Tie.Archive
open Artap.Archive Artap.Gen.Archive

variable {α : Type}

/-- `del contents[index - deleted]` with `deleted ≤ index` (the invariant of the loop). -/
theorem pyDel_sub (cont : List α) (i d : Nat) (h : d ≤ i) :
    pyDel cont ((i : Int) - (d : Int)) =
      if d ≤ i ∧ i - d < cont.length then some (cont.eraseIdx (i - d)) else none := by
  have h0 : (0 : Int) ≤ (i : Int) - (d : Int) := by omega
  have h1 : ((i : Int) - (d : Int)).toNat = i - d := by omega
  simp only [pyDel, h0, h1, if_true, h, true_and]

theorem add_loop (cmp : α → α → Option Nat) (same : α → α → Bool) (x : α)
    (rest : List α) (i d : Nat) (cont : List α) (h : d ≤ i) :
    Archive_add_loop1 cmp same x (List.zipIdx rest i) cont d false false =
      match addLoop cmp same x rest i cont d with
      | none => none
      | some (c, dm, ct) => if !dm && !ct then some (c ++ [x], true) else some (c, false) := by
  induction rest generalizing i d cont with
  | nil => simp [Archive_add_loop1, addLoop]
  | cons c rest ih =>
    simp only [List.zipIdx_cons, Archive_add_loop1, addLoop]
    cases hc : cmp x c with
    | none => simp
    | some flag =>
      simp only [pyDel_sub cont i d h, beq_iff_eq]
      by_cases h1 : flag = 1
      · simp only [h1, if_true]
        by_cases h2 : d ≤ i ∧ i - d < cont.length
        · simp only [h2, and_self, if_true]
          exact ih (i + 1) (d + 1) (cont.eraseIdx (i - d)) (by omega)
        · simp only [h2, if_false]
      · by_cases h2 : flag = 2
        · simp [h1, h2]
        · by_cases h3 : flag = 0
          · by_cases h4 : same x c = true
            · simp [h3, h4]
            · simp only [h3, h4, if_true, if_false]
              first
                | exact ih (i + 1) d cont (by omega)
                | (simp; exact ih (i + 1) d cont (by omega))
          · simp only [h1, h2, h3, if_false]
            exact ih (i + 1) d cont (by omega)

theorem tie_Archive_add (cmp : α → α → Option Nat) (same : α → α → Bool) (contents : List α) (x : α) :
    Archive_add cmp same contents x = add cmp same contents x := by
  unfold Archive_add add
  by_cases h : contents.length = 0
  · have : contents = [] := List.length_eq_zero_iff.mp h
    subst this; simp
  · have h' : contents.isEmpty = false := by
      cases contents with
      | nil => simp at h
      | cons a l => rfl
    simp only [h, h', if_false, Bool.false_eq_true]
    rw [show contents.zipIdx = contents.zipIdx 0 from rfl, add_loop cmp same x contents 0 0 contents (Nat.le_refl 0)]
    cases addLoop cmp same x contents 0 contents 0 with
    | none => rfl
    | some r => obtain ⟨c, dm, ct⟩ := r; rfl

end Artap.Tie.Archive
