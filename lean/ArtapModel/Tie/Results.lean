import ArtapModel.Gen.Results
import ArtapModel.Tie.Queries
/-!
# Translation tie for `Results.population` and `Results.find_optimum` (artap/results.py)

`ArtapModel/Gen/Results.lean` is regenerated from the source by `tools/py2lean.py` on every run.

* `tie_Results_population`: the generated function (sentinel `-1`, otherwise the given tag; its two callees
  are the functions generated from artap/problem.py, tied in `Tie/Queries.lean`) is the model's
  `populationQuery`, all inputs.
* `tie_Results_find_optimum`: reading fixed by the spec entry - `self.problem.costs` is the list `goals` with
  one entry per goal function (the value of its `'criteria'` key if it has one), `name` is "a non-empty name
  was given", `self.goal_index(name)` is the oracle `gidx` (`none` = its `ValueError`), `min` / `max` with a key
  are the scans `pyMinBy` / `pyMaxBy` of the generated prelude.  For all inputs the generated function is
  the model's `findOptimum inds minimize index` with `index = gidx` when a name was given and `0` otherwise
  (a missing goal entry is the `IndexError`) and `minimize = (criteria == 'minimize' or criteria is None)`.
  The second `min(min_l, ...)` over the one-element list is shown to return that element.
-/
set_option linter.unusedSimpArgs false
set_option linter.unusedVariables false
namespace Artap.Tie.Results
open Artap.Results Artap.Gen.Results

theorem tie_Results_population (inds : List Ind) (pid : Int) :
    Results_population inds pid = populationQuery inds pid := by
  unfold Results_population populationQuery
  simp only [Artap.Tie.Queries.tie_Problem_last_population, Artap.Tie.Queries.tie_Problem_population]
  by_cases h : pid = -1
  · simp [h]
  · have : (pid == -1) = false := by simp [h]
    simp [h, this]

/-! ## `find_optimum` -/

theorem pyGet_nat {α : Type} (xs : List α) (n : Nat) : pyGet xs (n : Int) = xs[n]? := by
  unfold pyGet
  have h : (0 : Int) ≤ (n : Int) := by omega
  rw [if_pos h]
  simp

theorem foldl_none (better : Int → Int → Bool) (n : Nat) (l : List Ind) :
    l.foldl (bestStep better n) none = none := by
  induction l with
  | nil => rfl
  | cons x l ih => simp [List.foldl_cons, bestStep, ih]

theorem loop_eq (better : Int → Int → Bool) (n : Nat) (xs : List Ind) (b : Ind) (kb : Int) :
    pyBestLoop better (fun x => x.costs[n]?) xs b kb = (xs.foldl (bestStep better n) (some (b, kb))).map (·.1) := by
  induction xs generalizing b kb with
  | nil => rfl
  | cons x xs ih =>
    simp only [pyBestLoop, List.foldl_cons, bestStep]
    cases hx : x.costs[n]? with
    | none => simp [foldl_none]
    | some k =>
      by_cases hb : better k kb = true
      · simp only [hb, if_true]; exact ih x k
      · simp only [hb, if_false]; exact ih b kb

theorem minBy_eq (n : Nat) (l : List Ind) : pyMinBy (fun x => x.costs[n]?) l = minByCost n l := by
  cases l with
  | nil => rfl
  | cons i l =>
    simp only [pyMinBy, minByCost, bestByCost]
    cases i.costs[n]? with
    | none => rfl
    | some c => exact loop_eq _ n l i c

theorem maxBy_eq (n : Nat) (l : List Ind) : pyMaxBy (fun x => x.costs[n]?) l = maxByCost n l := by
  cases l with
  | nil => rfl
  | cons i l =>
    simp only [pyMaxBy, maxByCost, bestByCost]
    cases i.costs[n]? with
    | none => rfl
    | some c => exact loop_eq _ n l i c

/-- the winner of a scan has a cost at the index -/
theorem fold_key (better : Int → Int → Bool) (n : Nat) (l : List Ind) (b : Ind) (kb : Int) (o : Ind) (ko : Int)
    (hb : b.costs[n]? = some kb) (h : l.foldl (bestStep better n) (some (b, kb)) = some (o, ko)) :
    o.costs[n]? = some ko := by
  induction l generalizing b kb with
  | nil => simp at h; obtain ⟨rfl, rfl⟩ := h; exact hb
  | cons x l ih =>
    simp only [List.foldl_cons, bestStep] at h
    cases hx : x.costs[n]? with
    | none => simp [hx, foldl_none] at h
    | some k =>
      simp only [hx] at h
      by_cases hbt : better k kb = true
      · simp only [hbt, if_true] at h; exact ih x k hx h
      · simp only [hbt, if_false] at h; exact ih b kb hb h

theorem best_key (better : Int → Int → Bool) (n : Nat) (l : List Ind) (o : Ind)
    (h : bestByCost better n l = some o) : ∃ k, o.costs[n]? = some k := by
  cases l with
  | nil => simp [bestByCost] at h
  | cons i l =>
    simp only [bestByCost] at h
    cases hi : i.costs[n]? with
    | none => simp [hi] at h
    | some c =>
      simp only [hi] at h
      cases hf : l.foldl (bestStep better n) (some (i, c)) with
      | none => simp [hf] at h
      | some r =>
        obtain ⟨o', ko⟩ := r
        simp [hf] at h
        subst h
        exact ⟨ko, fold_key better n l i c o' ko hi hf⟩

/-- `min([o], key=...)` for an `o` that has a cost at the index -/
theorem min_single (n : Nat) (o : Ind) (k : Int) (h : o.costs[n]? = some k) : minByCost n [o] = some o := by
  simp [minByCost, bestByCost, h]

theorem min_nil (n : Nat) : minByCost n [] = none := rfl

/-- the part after `index` has been fixed -/
theorem inner (inds : List Ind) (n : Nat) (crit : Option String) :
    (if crit = some "minimize" ∨ crit = none then
        if 0 < inds.length then
          (match minByCost n inds with
            | some t7 => (match minByCost n [t7] with | some t9 => some t9 | none => none)
            | none => none)
        else (match minByCost n [] with | some t9 => some t9 | none => none)
      else if 0 < inds.length then
        (match maxByCost n inds with
          | some t11 => (match minByCost n [t11] with | some t9 => some t9 | none => none)
          | none => none)
      else (match minByCost n [] with | some t9 => some t9 | none => none))
    = findOptimum inds (decide (crit = some "minimize" ∨ crit = none)) n := by
  unfold findOptimum
  by_cases hc : crit = some "minimize" ∨ crit = none
  · simp only [hc, if_true, decide_true]
    cases inds with
    | nil => simp [min_nil]
    | cons i l =>
      simp only [List.length_cons, Nat.zero_lt_succ, if_true]
      cases hm : minByCost n (i :: l) with
      | none => rfl
      | some o =>
        obtain ⟨k, hk⟩ := best_key _ n _ o hm
        simp [min_single n o k hk]
  · simp only [hc, if_false, decide_false, Bool.false_eq_true]
    cases inds with
    | nil => simp [min_nil, maxByCost, bestByCost]
    | cons i l =>
      simp only [List.length_cons, Nat.zero_lt_succ, if_true]
      cases hm : maxByCost n (i :: l) with
      | none => rfl
      | some o =>
        obtain ⟨k, hk⟩ := best_key _ n _ o hm
        simp [min_single n o k hk]

theorem tie_Results_find_optimum (inds : List Ind) (goals : List (Option String)) (name : Bool)
    (gidx : Option Nat) :
    Results_find_optimum inds goals name gidx =
      match (if name then gidx else some 0) with
      | none => none
      | some index =>
        match goals[index]? with
        | none => none
        | some criteria => findOptimum inds (decide (criteria = some "minimize" ∨ criteria = none)) index := by
  unfold Results_find_optimum
  cases name with
  | false =>
    simp only [Bool.false_eq_true, if_false]
    rw [show (0 : Int) = ((0 : Nat) : Int) from rfl]
    simp only [pyGet_nat, minBy_eq, maxBy_eq]
    cases hg : goals[0]? with
    | none => rfl
    | some crit =>
      cases crit with
      | none => exact inner inds 0 none
      | some s => exact inner inds 0 (some s)
  | true =>
    simp only [if_true]
    cases gidx with
    | none => rfl
    | some n =>
      simp only [pyGet_nat, minBy_eq, maxBy_eq]
      cases hg : goals[n]? with
      | none => rfl
      | some crit =>
        cases crit with
        | none => exact inner inds n none
        | some s => exact inner inds n (some s)

end Artap.Tie.Results
