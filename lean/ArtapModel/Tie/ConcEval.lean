import ArtapModel.Props.C07
import ArtapModel.Tie.Eval
/-!
# C07 against the function generated from artap/job.py

`Props/C07.lean` proves that every complete schedule of `Evaluator.evaluate_parallel` gives, design by design,
what the action list `Conc.jobProg P` computes alone, and (`jobProg_refines_jobEvaluate`,
`parallel_eq_jobEvaluate`) that this is what the sequential model `Eval.jobEvaluate` computes on the success
path.  `Tie/Eval.lean` proves that the function `Artap.Gen.Eval.Job_evaluate`, regenerated from artap/job.py
on every run, *is* `Eval.jobEvaluate`.  This file composes the two, so that the parallel-equals-serial
statement of C07 talks about the definition generated from the current source and not only about a
hand-written action list.

It lives under `Tie/` (and not in `Props/C07.lean`) because it imports a regenerated file: the root library
`ArtapModel` must build whatever the source looks like; this module is rebuilt together with
`ArtapModel.Tie.Eval` whenever artap/job.py is re-translated.
-/
namespace Artap.Tie.ConcEval
open Artap Artap.Conc Artap.ConcEval Artap.C07

/-- One design: five steps of `jobProg P` against the generated `Job.evaluate` (see
`Artap.C07.jobProg_refines_jobEvaluate` for the reading of the clauses). -/
theorem tie_jobProg_refines_generated (P : Prob) (env : Eval.Env) (c : Design) (e : Eval.Design) (w : Eval.World)
    (hc : Abs c e) (hA : e.state ≠ .evaluated → Agree P env e) :
    let g := Artap.Gen.Eval.Job_evaluate env e w.log w.failed
    let n := tcalls (jobProg P) 5 (c, none, 0)
    g.1 = none ∧
    iter (tstep (jobProg P)) 5 (c, none, 0) =
      ({ absDesign g.2.1 with skip := decide (e.state = .evaluated) },
       (if e.state = .evaluated then none else some (absRow g.2.1)), 5) ∧
    n = (if e.state = .evaluated then 0 else 1) ∧
    g.2.2.log = w.log ++ List.replicate n (e.key, e.vec) ∧
    g.2.2.failed = w.failed ∧
    g.2.1.ncalls = e.ncalls + n ∧
    (e.state ≠ .evaluated → g.2.1.marker = some (b2i (absDesign g.2.1).marker)) := by
  intro g n
  have hg : g = Eval.jobEvaluate env e w := Artap.Tie.Eval.tie_Job_evaluate env e w
  rw [hg]
  exact jobProg_refines_jobEvaluate P env c e w hc hA

/-- **Parallel = generated serial.**  `ds` is a batch of the schedule model that stands, design by design
(`Abs`), for the designs `es` handed to the function generated from artap/job.py; the parameters of the two
models agree on every not yet evaluated design (`Agree`: constraint values, signs, rounding, and the first
objective call succeeds with `P.obj`: the success path).  Then for every schedule `σ` that is complete for the
batch and every design `t`: the generated `Job.evaluate`, run on `es[t]` from any world `w`, raises nothing,
and after `run (jobProg P) σ (init ds)`

* the record of design `t` is the image of the design the generated function returns
  (`skip` = "returned at once" exactly for an evaluated design),
* the store row of design `t` is the image of that design (no row for an evaluated design),
* the number of objective calls attributed to `t` is 0 for an evaluated design and 1 otherwise, and it is
  the number of entries `(key, vector)` by which the generated function extends the call log and the ghost
  call counter; `Problem.failed` is unchanged. -/
theorem parallel_eq_generated_serial (P : Prob) (env : Eval.Env) (ds : List Design) (es : List Eval.Design)
    (habs : ∀ (t : Nat) (c : Design) (e : Eval.Design), ds[t]? = some c → es[t]? = some e → Abs c e)
    (hagree : ∀ e, e ∈ es → e.state ≠ .evaluated → Agree P env e)
    (σ : List Nat) (hσ : ∀ t, t < ds.length → σ.count t = 5)
    (t : Nat) (e : Eval.Design) (ht : t < ds.length) (het : es[t]? = some e) (w : Eval.World) :
    let r := run (jobProg P) σ (init ds)
    let g := Artap.Gen.Eval.Job_evaluate env e w.log w.failed
    g.1 = none ∧
    r.locals[t]? = some { absDesign g.2.1 with skip := decide (e.state = .evaluated) } ∧
    r.store[t]? = some (if e.state = .evaluated then none else some (absRow g.2.1)) ∧
    r.calls.count t = (if e.state = .evaluated then 0 else 1) ∧
    g.2.2.log = w.log ++ List.replicate (r.calls.count t) (e.key, e.vec) ∧
    g.2.2.failed = w.failed ∧
    g.2.1.ncalls = e.ncalls + r.calls.count t := by
  intro r g
  have hg : g = Eval.jobEvaluate env e w := Artap.Tie.Eval.tie_Job_evaluate env e w
  rw [hg]
  exact parallel_eq_jobEvaluate P env ds es habs hagree σ hσ t e ht het w

/-- The same theorem under the name the tie audit looks for (`tie_*`). -/
theorem tie_parallel_eq_generated_serial (P : Prob) (env : Eval.Env) (ds : List Design) (es : List Eval.Design)
    (habs : ∀ (t : Nat) (c : Design) (e : Eval.Design), ds[t]? = some c → es[t]? = some e → Abs c e)
    (hagree : ∀ e, e ∈ es → e.state ≠ .evaluated → Agree P env e)
    (σ : List Nat) (hσ : ∀ t, t < ds.length → σ.count t = 5)
    (t : Nat) (e : Eval.Design) (ht : t < ds.length) (het : es[t]? = some e) (w : Eval.World) :
    let r := run (jobProg P) σ (init ds)
    let g := Artap.Gen.Eval.Job_evaluate env e w.log w.failed
    g.1 = none ∧
    r.locals[t]? = some { absDesign g.2.1 with skip := decide (e.state = .evaluated) } ∧
    r.store[t]? = some (if e.state = .evaluated then none else some (absRow g.2.1)) ∧
    r.calls.count t = (if e.state = .evaluated then 0 else 1) ∧
    g.2.2.log = w.log ++ List.replicate (r.calls.count t) (e.key, e.vec) ∧
    g.2.2.failed = w.failed ∧
    g.2.1.ncalls = e.ncalls + r.calls.count t :=
  parallel_eq_generated_serial P env ds es habs hagree σ hσ t e ht het w

end Artap.Tie.ConcEval
