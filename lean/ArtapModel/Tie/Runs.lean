import ArtapModel.Gen.Runs
/-!
# Translation tie for `Selector.pop_acceptance` (artap/operators.py)

`ArtapModel/Gen/Runs.lean` is regenerated from the source by `tools/py2lean.py` on every run.
The two `random.choice` draws are the oracle parameters `pick1`, `pick2` (position modulo the
length of the list drawn from), exactly as in the hand-written `Artap.Runs.popAccept`
(property C09); the model's `flags` are the comparator verdicts `cmp x pop[i]`.

The tie is **conditional**: the model is total, the code is not.  For an empty population
`random.choice([])` raises `IndexError` (model: `pop ++ [x]`), and `list.remove` raises
`ValueError` when no member equals the drawn one (model: `pop ++ [x]`), which cannot happen when
`__eq__` is reflexive.  Both hypotheses hold wherever the C09 theorems use `popAccept`
(population size `N ≥ 1`, `Individual.__eq__` on finite vectors).
-/
set_option linter.unusedSimpArgs false
namespace Artap.Tie.Runs
open Artap.Runs Artap.Gen.Runs

variable {D : Type}

theorem pyDel_nat (xs : List D) (i : Nat) (h : i < xs.length) :
    pyDel xs (i : Int) = some (xs.eraseIdx i) := by
  have h0 : (0 : Int) ≤ (i : Int) := by omega
  simp [pyDel, h0, h]

/-- Running the index loop over `k, …, k+n-1` is the code after the loop applied to the
accumulated list of dominated positions and the accumulated flag. -/
theorem loop_eq (cmp : D → D → Nat) (eq : D → D → Bool) (x : D) (p1 p2 : Nat) (pop : List D)
    (n k : Nat) (h : k + n ≤ pop.length) (doms : List Nat) (dm : Bool) :
    Selector_pop_acceptance_loop1 cmp eq x p1 p2 (List.range' k n) pop doms dm =
      Selector_pop_acceptance_loop1 cmp eq x p1 p2 [] pop
        (doms ++ (List.range' k n).filter (fun i => (pop.map (cmp x)).getD i 0 == 1))
        (dm || (List.range' k n).any (fun i => (pop.map (cmp x)).getD i 0 == 2)) := by
  induction n generalizing k doms dm with
  | zero => simp
  | succ n ih =>
    have hk : k < pop.length := by omega
    have hf : (pop.map (cmp x)).getD k 0 = cmp x pop[k] := by simp [List.getD, hk]
    simp only [List.range'_succ, Selector_pop_acceptance_loop1.eq_2, List.getElem?_eq_getElem hk,
      List.filter_cons, List.any_cons, hf, beq_iff_eq]
    by_cases h1 : cmp x pop[k] = 1
    · have hb2 : (cmp x pop[k] == 2) = false := by simp [h1]
      simp only [h1, if_true, hb2, Bool.false_or, BEq.rfl]
      rw [ih (k + 1) (by omega)]
      simp [List.append_assoc]
    · have hb1 : (cmp x pop[k] == 1) = false := by simp [h1]
      simp only [h1, if_false, hb1]
      by_cases h2 : cmp x pop[k] = 2
      · have hb2 : (cmp x pop[k] == 2) = true := by simp [h2]
        simp only [h2, if_true, hb2, Bool.true_or, Bool.or_true]
        rw [ih (k + 1) (by omega)]
        simp
      · have hb2 : (cmp x pop[k] == 2) = false := by simp [h2]
        simp only [h2, if_false, hb2, Bool.false_or]
        rw [ih (k + 1) (by omega)]

theorem tie_Selector_pop_acceptance (cmp : D → D → Nat) (eq : D → D → Bool) (pop : List D) (x : D)
    (p1 p2 : Nat) (hrefl : ∀ a, eq a a = true) (hne : pop ≠ []) :
    Selector_pop_acceptance cmp eq pop x p1 p2
      = some (popAccept eq pop (pop.map (cmp x)) x p1 p2) := by
  have hl : pop.length ≠ 0 := by
    have := List.length_pos_iff.mpr hne; omega
  unfold Selector_pop_acceptance popAccept
  simp only [List.range_eq_range']
  rw [loop_eq cmp eq x p1 p2 pop pop.length 0 (by omega) [] false]
  simp only [List.nil_append, Bool.false_or]
  have hd : ∀ i ∈ (List.range' 0 pop.length).filter (fun i => (pop.map (cmp x)).getD i 0 == 1),
      i < pop.length := by
    intro i hi
    have := (List.mem_filter.mp hi).1
    simp [List.mem_range'] at this
    omega
  generalize (List.range' 0 pop.length).filter (fun i => (pop.map (cmp x)).getD i 0 == 1) = doms at hd
  generalize (List.range' 0 pop.length).any (fun i => (pop.map (cmp x)).getD i 0 == 2) = dm
  rw [Selector_pop_acceptance_loop1.eq_1]
  by_cases hA : 0 < doms.length
  · have hm : p1 % doms.length < doms.length := Nat.mod_lt _ hA
    have hidx : doms[p1 % doms.length] < pop.length := hd _ (List.getElem_mem hm)
    have hlen : doms.length ≠ 0 := by omega
    have hg : doms.getD (p1 % doms.length) 0 = doms[p1 % doms.length] := by simp [List.getD, hm]
    simp only [hA, if_true, hlen, ne_eq, not_false_eq_true, List.getElem?_eq_getElem hm,
      pyDel_nat pop _ hidx, hg, gt_iff_lt]
  · simp only [hA, if_false, gt_iff_lt]
    cases dm with
    | true => simp
    | false =>
      have hm : p2 % pop.length < pop.length := Nat.mod_lt _ (by omega)
      simp only [Bool.false_eq_true, not_false_eq_true, if_true, hl, ne_eq,
        List.getElem?_eq_getElem hm, Bool.not_false]
      cases hf : List.findIdx? (fun m => eq m pop[p2 % pop.length]) pop with
      | some j => rfl
      | none =>
        have := (List.findIdx?_eq_none_iff.mp hf) _ (List.getElem_mem hm)
        simp [hrefl] at this

end Artap.Tie.Runs
