import ArtapModel.Gen.Eval
/-!
# Translation tie for `Job.evaluate` (artap/job.py)

`ArtapModel/Gen/Eval.lean` is regenerated from the source by `tools/py2lean.py` on every run: the early
return for an `EVALUATED` design, the `for i in range(5)` loop, the constraint test, the
`try … except (TimeoutError, RuntimeError) as e … except:` statement and the final `raise`.
Reading fixed by the spec entry: `individual` is the record value `d : Design`, `Problem.failed` the
list `failed`, the objective call is the oracle `env.obj d.key d.ncalls d.vec` whose outcome class
selects the continuation (`ok` = rest of the `try` body, `transient` = the first handler, `fatal` = the bare
`except:` which re-raises), exceptions are values of the result (`Err`), `calc_signed_costs` and
`gen_vector` are the model's `signedCosts`/`markerOf` and `env.reroll`; the ghost call counter and call
log of the model advance at the oracle call.  Timing features, console output and the store write are
ignored (listed in the generated header).

`tie_Job_evaluate`: for every environment, design and world the generated function is the hand-written
`Artap.Eval.jobEvaluate` (properties C05 and C06); `loop1_eq` is the statement for the retry loop and
`attempts` with an arbitrary number of remaining attempts.  No hypotheses.
-/
set_option linter.unusedSimpArgs false
namespace Artap.Tie.Eval
open Artap.Eval Artap.Gen.Eval

theorem loop1_eq (env : Env) (l : List Nat) (d : Design) (w : World) :
    Job_evaluate_loop1 env l d w.log w.failed = attempts env l.length d w := by
  induction l generalizing d w with
  | nil => simp [Job_evaluate_loop1, attempts]
  | cons i l ih =>
    rw [Job_evaluate_loop1.eq_2]
    simp only [List.length_cons, attempts]
    have hfe : ∀ g : List Rat, (0 < g.length) = (g.isEmpty = false) := by
      intro g; cases g <;> simp
    by_cases hc : 0 < (env.cons d.vec).length
    · have he : (env.cons d.vec).isEmpty = false := by rwa [← hfe]
      simp only [hc, if_true]
      cases hobj : env.obj d.key d.ncalls d.vec with
      | ok c =>
        simp [hobj, succeed, logCall, feasAfter, he]
      | transient t =>
        simp only [hobj]
        rw [← ih (failDesign env d) (failWorld d w)]
        simp [failDesign, failWorld]
      | fatal t =>
        simp [hobj, abortDesign, logCall, feasAfter, he]
    · have he : (env.cons d.vec).isEmpty = true := by
        cases h : env.cons d.vec with
        | nil => rfl
        | cons a b => simp [h] at hc
      simp only [hc, if_false]
      cases hobj : env.obj d.key d.ncalls d.vec with
      | ok c =>
        simp [hobj, succeed, logCall, feasAfter, he]
      | transient t =>
        simp only [hobj]
        rw [← ih (failDesign env d) (failWorld d w)]
        simp [failDesign, failWorld]
      | fatal t =>
        simp [hobj, abortDesign, logCall, feasAfter, he]

theorem tie_Job_evaluate (env : Env) (d : Design) (w : World) :
    Job_evaluate env d w.log w.failed = jobEvaluate env d w := by
  unfold Job_evaluate jobEvaluate
  by_cases h : d.state = State.evaluated
  · simp [h]
  · simp only [h, if_false]
    exact loop1_eq env (List.range 5) d w

end Artap.Tie.Eval
