import ArtapModel.Gen.StoreSync
import ArtapModel.Tie.Store
/-!
# Translation tie for the statement sequence of `SqliteDataStore.sync_individual` / `sync_all`
# (artap/datastore.py, C10 / C11)

`ArtapModel/Gen/StoreSync.lean` is regenerated from the source on every run.  Reading fixed by the spec entries
(`_SYNC`, `_execute_upsert`, `_commit` in tools/py2lean_specs.py): the table `individuals` is the state value
`s : Store`; `c.execute(self.sql_individuals_upsert, [X.id, json.dumps(X.to_dict())])` is the generated
`Individual_to_dict` (Gen/Store.lean), then the model's `jsonRoundTrip` (json.dumps / json.loads: trusted), then
`upsert` on the working table `s` of the connection; `conn.commit()` makes the working table the committed table
`durable` and is counted in `commits`; the result is (committed table, number of commits); `none` = the call raises
before the commit (the committed table stays as it was); `self.mode == "write" or self.mode == "rewrite"` is the parameter `writing`; connection handling
is ignored and the handler for `sqlite3.OperationalError` is dropped (SQLite is in the trusted base) - both printed in
the header of the generated file.

* `tie_sync_individual`, `tie_sync_all`: in write mode (working table = committed table at entry) the committed table
  after the call is the model's `syncIndividual` / `syncAll` and exactly one commit has happened; the hypotheses are those of `tie_Individual_to_dict` for every individual written (recursion budget,
  distinct feature keys).  `sync_individual_read`, `sync_all_read`: in read mode nothing is written (all inputs).
-/
set_option linter.unusedSimpArgs false
set_option linter.unusedVariables false
namespace Artap.Tie.StoreSync
open Artap Artap.Store Artap.Gen.Store Artap.Gen.StoreSync Artap.Tie.Store

/-- what `tie_Individual_to_dict` needs of one individual -/
def Fits (depth : Nat) (i : Ind) : Prop :=
  (∀ x ∈ i.parents, jDepth x < depth) ∧ (∀ x ∈ i.children, jDepth x < depth) ∧
  (∀ kv ∈ i.features, jDepth kv.2 < depth) ∧ (i.features.map (·.1)).Nodup

theorem sync_step (depth : Nat) (s : Store) (i : Ind) (h : Fits depth i) :
    (match Individual_to_dict depth i with
     | some t1 => (match jsonRoundTrip t1 with
        | some t2 => some (upsert s i.id t2)
        | none => none)
     | none => none) = syncIndividual s i := by
  rw [tie_Individual_to_dict depth i h.1 h.2.1 h.2.2.1 h.2.2.2]
  simp only [syncIndividual, encode]
  cases toDict i with
  | none => rfl
  | some d => cases jsonRoundTrip d <;> rfl

/-- write mode: the committed table after the call is the model's, and exactly one commit happened -/
theorem tie_sync_individual (depth : Nat) (s : Store) (n : Nat) (i : Ind) (h : Fits depth i) :
    SqliteDataStore_sync_individual depth true s s n i = (syncIndividual s i).map (fun t => (t, n + 1)) := by
  simp only [SqliteDataStore_sync_individual, if_true]
  rw [← sync_step depth s i h]
  cases Individual_to_dict depth i with
  | none => rfl
  | some t1 => cases hr : jsonRoundTrip t1 <;> simp only [hr] <;> rfl

theorem sync_individual_read (depth : Nat) (s d : Store) (n : Nat) (i : Ind) :
    SqliteDataStore_sync_individual depth false s d n i = some (d, n) := rfl

theorem sync_all_loop (depth : Nat) (inds : List Ind) (h : ∀ i ∈ inds, Fits depth i) (s : Store) (n : Nat) :
    SqliteDataStore_sync_all_loop1 depth inds s n = (syncAll s inds).map (fun t => (t, n + 1)) := by
  induction inds generalizing s with
  | nil => rfl
  | cons i inds ih =>
    have hi := h i (by simp)
    rw [syncAll, ← sync_step depth s i hi]
    simp only [SqliteDataStore_sync_all_loop1]
    cases Individual_to_dict depth i with
    | none => rfl
    | some t1 =>
      cases hr : jsonRoundTrip t1 with
      | none => simp only [hr]; rfl
      | some t2 =>
        simp only [hr]
        exact ih (fun j hj => h j (by simp [hj])) _

/-- write mode: all upserts, then exactly one commit (an exception on the way is `none`: nothing becomes durable) -/
theorem tie_sync_all (depth : Nat) (s : Store) (n : Nat) (inds : List Ind) (h : ∀ i ∈ inds, Fits depth i) :
    SqliteDataStore_sync_all depth true s s n inds = (syncAll s inds).map (fun t => (t, n + 1)) := by
  simp only [SqliteDataStore_sync_all, if_true]
  exact sync_all_loop depth inds h s n

theorem sync_all_read (depth : Nat) (s d : Store) (n : Nat) (inds : List Ind) :
    SqliteDataStore_sync_all depth false s d n inds = some (d, n) := rfl

end Artap.Tie.StoreSync
