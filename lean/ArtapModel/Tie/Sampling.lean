import ArtapModel.Gen.Sampling
/-!
# Translation tie for `_van_der_corput` (artap/doe.py)

`ArtapModel/Gen/Sampling.lean` is regenerated from the source by `tools/py2lean.py` on every run: the
`for i in range(n_sample)` loop with the nested `while i > 0` loop (`divmod`, `denom *= base`,
`n_th_number += remainder / denom`), the `while` loop on fuel `n_sample` (out of fuel = `none`).

* `loop2_eq`: for `base ≥ 2`, a positive `denom` and **any fuel `≥ i`** the `while` loop returns the
  hand-written `Artap.Sampling.vdcLoop` (termination is this theorem, not an assumption: `i < n_sample`);
* `tie_van_der_corput`: the generated function is `i ↦ vdcLoop base i 1 0` on `range(n_sample)`;
* `tie_van_der_corput_elem`: its `i`-th element is the model's `vanDerCorput base i` (property C12).

Hypothesis `2 ≤ base` (stated explicitly; the Halton bases are primes): for `base < 2` the model's
`vanDerCorput` is `none` for every `i`, while the code only fails from `i = 1` on (`base = 0`:
`ZeroDivisionError` in `divmod`, `base = 1`: no termination = out of fuel) and returns `0.0` for `i = 0`.
-/
set_option linter.unusedSimpArgs false
namespace Artap.Tie.Sampling
open Artap.Sampling Artap.Gen.Sampling

theorem vdcLoop_zero (b : Nat) (d x : Rat) : vdcLoop b 0 d x = x := by
  rw [vdcLoop]; simp

theorem vdcLoop_pos (b i : Nat) (d x : Rat) (hi : 0 < i) (hb : 2 ≤ b) :
    vdcLoop b i d x = vdcLoop b (i / b) (d * (b : Rat)) (x + ((i % b : Nat) : Rat) / (d * (b : Rat))) := by
  rw [vdcLoop]; simp [hi, hb]

/-- The `while i > 0` loop: any fuel `≥ i` suffices, the result is the model's loop. -/
theorem loop2_eq (b : Nat) (hb : 2 ≤ b) (fuel i : Nat) (hf : i ≤ fuel) (d x : Rat) (hd : 0 < d) :
    ∃ d', van_der_corput_loop2 b fuel i d x = some (0, d', vdcLoop b i d x) := by
  induction fuel generalizing i d x with
  | zero =>
    have : i = 0 := by omega
    subst this
    exact ⟨d, by simp [van_der_corput_loop2, vdcLoop_zero]⟩
  | succ fuel ih =>
    by_cases hi : 0 < i
    · have hb0 : b ≠ 0 := by omega
      have hbq : (0 : Rat) < (b : Rat) := by exact_mod_cast (by omega : 0 < b)
      have hd' : 0 < d * (b : Rat) := Rat.mul_pos hd hbq
      have hne : d * (b : Rat) ≠ 0 := fun h => by rw [h] at hd'; exact absurd hd' (by decide)
      have hlt : i / b ≤ fuel := by
        have := Nat.div_lt_self hi hb; omega
      obtain ⟨d', h⟩ := ih (i / b) hlt (d * (b : Rat)) (x + ((i % b : Nat) : Rat) / (d * (b : Rat))) hd'
      refine ⟨d', ?_⟩
      rw [van_der_corput_loop2.eq_2, vdcLoop_pos b i d x hi hb]
      simp only [hi, if_true, hb0, ne_eq, not_false_eq_true, hne]
      exact h
    · have : i = 0 := by omega
      subst this
      exact ⟨d, by simp [van_der_corput_loop2, vdcLoop_zero]⟩

theorem loop1_eq (n b : Nat) (hb : 2 ≤ b) (l : List Nat) (hl : ∀ i ∈ l, i ≤ n) (acc : List Rat) :
    van_der_corput_loop1 n b l acc = some (acc ++ l.map (fun i => vdcLoop b i 1 0)) := by
  induction l generalizing acc with
  | nil => simp [van_der_corput_loop1]
  | cons i l ih =>
    obtain ⟨d', h⟩ := loop2_eq b hb n i (hl i (by simp)) 1 0 (by decide)
    rw [van_der_corput_loop1.eq_2]
    simp only [h]
    rw [ih (fun x hx => hl x (by simp [hx]))]
    simp

theorem tie_van_der_corput (n b : Nat) (hb : 2 ≤ b) :
    van_der_corput n b = some ((List.range n).map (fun i => vdcLoop b i 1 0)) := by
  unfold van_der_corput
  rw [loop1_eq n b hb (List.range n) (by intro i hi; simp at hi; omega)]
  simp

theorem tie_van_der_corput_elem (n b i : Nat) (hb : 2 ≤ b) (hi : i < n) :
    (van_der_corput n b).bind (·[i]?) = vanDerCorput b i := by
  have : ¬ b < 2 := by omega
  simp [tie_van_der_corput n b hb, vanDerCorput, this, hi]

end Artap.Tie.Sampling
