import ArtapModel.Gen.Numbers
/-!
# Translation tie for `VectorAndNumbers.gen_number` (artap/utils.py)

`ArtapModel/Gen/Numbers.lean` is regenerated from the source by `tools/py2lean.py` on every run, specialised
(generated header) to the calls the hand-written model covers: bounds given, `distribution == "uniform"`,
real parameter.  `random()` is the oracle parameter `u`, `round` is `Artap.Sampling.pyRound`
(round-half-even), arithmetic is that of the rationals (regime R2).

`tie_gen_number`: for all bounds, precisions and draws the generated function returns the model's
`genNumber` with the precision the code actually uses (`0` is replaced by `1e-12`, the decimal written in
the source); in particular it never raises (`precision ≠ 0` after the replacement).  No hypotheses.
-/
namespace Artap.Tie.Numbers
open Artap.Sampling Artap.Gen.Numbers

theorem tie_gen_number (lb ub prec u : Rat) :
    gen_number lb ub prec u
      = some (genNumber lb ub (if prec = 0 then (1 : Rat) / 1000000000000 else prec) u) := by
  unfold gen_number genNumber
  by_cases h : prec = 0
  · subst h
    have h2 : (1 : Rat) / 1000000000000 * 1000000000000 = 1 := Rat.div_mul_cancel (by decide)
    have : ((1 : Rat) / 1000000000000) ≠ 0 := by
      intro h0; rw [h0, Rat.zero_mul] at h2; exact absurd h2 (by decide)
    simp only [if_true, this, ne_eq, not_false_eq_true]
  · simp only [h, if_false, ne_eq, not_false_eq_true, if_true]

end Artap.Tie.Numbers
