import ArtapModel.Gen.Dominance
/-!
# Translation tie for `ParetoDominance.compare` and `EpsilonDominance.compare`

`ArtapModel/Gen/Dominance.lean` is regenerated from `artap/operators.py` by `tools/py2lean.py`
on every run; the theorems below state that the generated functions *are* the hand-written
model functions of `Model/Dominance.lean`, for all inputs.  Every property theorem about
`paretoCompare` / `epsCompare` (C01, and through them C02, C03, C04, C09) is therefore a theorem
about the function generated from the current source.
-/
set_option linter.unusedSimpArgs false
namespace Artap.Tie.Dominance
open Artap Artap.Gen.Dominance

section pareto
variable {α : Type} [LT α] [DecidableLT α]

/-- The generated loop function is the hand-written `scan` on the zipped lists. -/
theorem pareto_loop (p q : List α) (dp dq : Bool) :
    ParetoDominance_compare_loop1 (List.zip p q) dp dq = scan p q dp dq := by
  induction p generalizing q dp dq with
  | nil => cases dp <;> cases dq <;> simp [ParetoDominance_compare_loop1, scan]
  | cons a p ih =>
    cases q with
    | nil => cases dp <;> cases dq <;> simp [ParetoDominance_compare_loop1, scan]
    | cons b q =>
      simp only [List.zip_cons_cons, ParetoDominance_compare_loop1, scan, ih]

theorem tie_ParetoDominance_compare (p q : List α) (mp mq : Int) :
    ParetoDominance_compare p q mp mq = paretoCompare p q mp mq := by
  simp only [ParetoDominance_compare, paretoCompare, markerVerdict, pareto_loop, beq_iff_eq]
  repeat' split
  all_goals simp_all
end pareto

/-! ## ε comparator -/

/-- `some ε` of the second loop is zero among the indices `i, …, i+n-1`. -/
def zeroIn (eps : List Rat) : Nat → Nat → Bool
  | _, 0 => false
  | i, n + 1 => (eps.getD (i % eps.length) 0 == 0) || zeroIn eps (i + 1) n

theorem zeroIn_eq (eps : List Rat) (i n : Nat) :
    zeroIn eps i n = (List.range n).any (fun j => eps.getD ((i + j) % eps.length) 0 == 0) := by
  induction n generalizing i with
  | zero => simp [zeroIn]
  | succ n ih =>
    rw [zeroIn, ih, List.range_succ_eq_map, List.any_cons, List.any_map]
    simp only [Nat.add_zero, Function.comp_def, Nat.succ_eq_add_one]
    congr 2
    funext j
    rw [Nat.add_assoc, Nat.add_comm 1 j]

theorem getElem?_mod (eps : List Rat) (h : eps ≠ []) (i : Nat) :
    eps[i % eps.length]? = some (eps.getD (i % eps.length) 0) := by
  have hl : 0 < eps.length := List.length_pos_iff.mpr h
  have hi : i % eps.length < eps.length := Nat.mod_lt _ hl
  simp [List.getD, List.getElem?_eq_getElem hi]

theorem eps_loop2 (eps : List Rat) (h : eps ≠ []) (p q : List Rat) (i : Nat) (a b : Rat) :
    EpsilonDominance_compare_loop2 eps (List.zipIdx (List.zip p q) i) a b =
      if zeroIn eps i (min p.length q.length) then none
      else if a + cornerDist eps i (p.take (min p.length q.length))
            < b + cornerDist eps i (q.take (min p.length q.length)) then some 1 else some 2 := by
  have hl : eps.length ≠ 0 := by
    have := List.length_pos_iff.mpr h; omega
  induction p generalizing q i a b with
  | nil => simp [EpsilonDominance_compare_loop2, zeroIn, cornerDist, Rat.add_zero]
  | cons c p ih =>
    cases q with
    | nil => simp [EpsilonDominance_compare_loop2, zeroIn, cornerDist, Rat.add_zero]
    | cons d q =>
      simp only [List.zip_cons_cons, List.zipIdx_cons, EpsilonDominance_compare_loop2, getElem?_mod eps h,
        List.length_cons, Nat.succ_min_succ, List.take_succ_cons, cornerDist, zeroIn, ih, pySq]
      generalize eps.getD (i % eps.length) 0 = e
      by_cases hz : e = 0
      · simp [hz, hl]
      · simp [hl, hz, Rat.add_assoc]

theorem epsAt_eq (eps : List Rat) (i : Nat) :
    (if eps.getD (i % eps.length) 0 = (0 : Rat) then (1 : Rat) / 1000 else eps.getD (i % eps.length) 0)
      = epsAt eps i := by
  simp [epsAt]

theorem epsAt_ne (eps : List Rat) (i : Nat) : epsAt eps i ≠ 0 := by
  rw [← epsAt_eq]
  split
  · intro h
    have h2 : (1 : Rat) / 1000 * 1000 = 1 := Rat.div_mul_cancel (by decide)
    rw [h, Rat.zero_mul] at h2
    exact absurd h2 (by decide)
  · assumption

theorem eps_loop1 (eps : List Rat) (h : eps ≠ []) (P Q p q : List Rat) (i : Nat) (dp dq : Bool)
    (hinv : ¬ (dp = true ∧ dq = true)) :
    EpsilonDominance_compare_loop1 eps P Q (List.zipIdx (List.zip p q) i) dp dq =
      if dp || dq || (List.zip (scaleBy eps i p) (scaleBy eps i q)).any (fun (a, b) => a < b || b < a)
      then some (scan (scaleBy eps i p) (scaleBy eps i q) dp dq)
      else EpsilonDominance_compare_loop2 eps (List.zipIdx (List.zip P Q)) 0 0 := by
  have hl : eps.length ≠ 0 := by
    have := List.length_pos_iff.mpr h; omega
  induction p generalizing q i dp dq with
  | nil => cases dp <;> cases dq <;> simp_all [EpsilonDominance_compare_loop1, scaleBy, scan]
  | cons c p ih =>
    cases q with
    | nil => cases dp <;> cases dq <;> simp_all [EpsilonDominance_compare_loop1, scaleBy, scan]
    | cons d q =>
      simp only [List.zip_cons_cons, List.zipIdx_cons, EpsilonDominance_compare_loop1, getElem?_mod eps h,
        scaleBy, scan, List.any_cons, epsAt_eq, ne_eq, hl, epsAt_ne, not_false_eq_true, if_true]
      generalize epsAt eps i = e
      by_cases h1 : d / e < c / e
      · cases dp
        · rw [ih q (i + 1) false true (by simp)]
          simp [h1]
        · simp [h1]
      · by_cases h2 : c / e < d / e
        · cases dq
          · rw [ih q (i + 1) true false (by simp)]
            simp [h1, h2]
          · simp [h1, h2]
        · simp only [h1, h2, if_false, decide_false, Bool.false_or]
          exact ih q (i + 1) dp dq hinv

/-- For every non-empty ε list the generated function is `epsCompare` – including the `ε = 0`
replacement of the first loop only and the `ZeroDivisionError` (`none`) of the second.
(For `eps = []` the hand-written model answers `none` at once, while the code only raises when a
loop body is reached; `eps ≠ []` is part of `PosEps`, which every C01 theorem about `epsCompare` carries.) -/
theorem tie_EpsilonDominance_compare (eps p q : List Rat) (mp mq : Int) (h : eps ≠ []) :
    EpsilonDominance_compare eps p q mp mq = epsCompare eps p q mp mq := by
  have he : eps.isEmpty = false := by simpa using h
  simp only [EpsilonDominance_compare, epsCompare, markerVerdict, he, beq_iff_eq,
    eps_loop1 eps h p q p q 0 false false (by simp), eps_loop2 eps h, zeroIn_eq, Bool.false_or,
    Nat.zero_add, Rat.zero_add]
  repeat' split
  all_goals simp_all

end Artap.Tie.Dominance
