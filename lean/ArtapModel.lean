-- Root of the `ArtapModel` library: models (core Lean only), helper proofs, property theorems.
import ArtapModel.Props.C01
