-- Root of the `ArtapModel` library: models (core Lean only), helper proofs, property theorems.
import ArtapModel.Props.C01
import ArtapModel.Props.C02
import ArtapModel.Props.C07
import ArtapModel.Props.C09
import ArtapModel.Props.C11
import ArtapModel.Props.C03
import ArtapModel.Props.C13
import ArtapModel.Props.C16
import ArtapModel.Props.C08
import ArtapModel.Props.C05
import ArtapModel.Props.C06
import ArtapModel.Props.C12
import ArtapModel.Props.C14
import ArtapModel.Props.C15
import ArtapModel.Props.C17
import ArtapModel.Props.C19
import ArtapModel.Props.C20
