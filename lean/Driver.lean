import ArtapModel.Model.Dominance
/-!
Line protocol driver: `lake env lean --run Driver.lean < requests`.
One request per line `<op> <argument>`; one answer per line, prefixed `=> `.
Unknown or malformed requests answer `=> bad-op` (the model never defaults).
-/
open Artap

def dispatch (op arg : String) : Option String :=
  if op.startsWith "c01." then Dominance.handle op arg
  else none

def answer (line : String) : String :=
  let l := Proto.tok line
  let (op, arg) := match l.splitOn " " with
    | [] => ("", "")
    | o :: rest => (o, String.intercalate " " rest)
  match dispatch op arg with
  | some r => "=> " ++ r
  | none => "=> bad-op"

partial def loop (h : IO.FS.Stream) (out : IO.FS.Stream) : IO Unit := do
  let line ← h.getLine
  if line.isEmpty then return ()
  out.putStrLn (answer line)
  loop h out

def main : IO Unit := do
  let out ← IO.getStdout
  loop (← IO.getStdin) out
  out.flush
