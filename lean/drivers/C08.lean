import ArtapModel.Model.Variation
/-! Line-protocol driver for C08: `lake env lean --run drivers/C08.lean < requests`. -/
def main : IO Unit := Artap.Proto.serve Artap.Variation.handle
