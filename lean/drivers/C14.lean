import ArtapModel.Model.Robust
/-! Line-protocol driver for C14: `lake env lean --run drivers/C14.lean < requests`. -/
def main : IO Unit := Artap.Proto.serve Artap.Robust.handle
