import ArtapModel.Model.Runs
/-! Line-protocol driver for C09. -/
def main : IO Unit := Artap.Proto.serve Artap.Runs.handle
