import ArtapModel.Model.RunsAll
/-! Line-protocol driver for C09. -/
def main : IO Unit := Artap.Proto.serve Artap.RunsAll.handle
