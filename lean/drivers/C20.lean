import ArtapModel.Model.Equality
/-! Line-protocol driver for C20: `lake env lean --run drivers/C20.lean < requests`. -/
def main : IO Unit := Artap.Proto.serve Artap.Equality.handle
