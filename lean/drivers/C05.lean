import ArtapModel.Model.Eval
/-! Line-protocol driver for C05: `lake env lean --run drivers/C05.lean < requests`. -/
def main : IO Unit := Artap.Proto.serve Artap.Eval.handle
