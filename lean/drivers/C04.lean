import ArtapModel.Model.Archive
/-! Line-protocol driver for C04: `lake env lean --run drivers/C04.lean < requests`. -/
def main : IO Unit := Artap.Proto.serve Artap.Archive.handle
