import ArtapModel.Model.Sorting
/-! Line-protocol driver for C02: `lake env lean --run drivers/C02.lean < requests`. -/
def main : IO Unit := Artap.Proto.serve Artap.Sorting.handle
