import ArtapModel.Model.Crash
/-! Line-protocol driver for C11. -/
def main : IO Unit := Artap.Proto.serve Artap.Crash.handle
