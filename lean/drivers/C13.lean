import ArtapModel.Model.Doe
/-! Line-protocol driver for C13: `lake env lean --run drivers/C13.lean < requests`. -/
def main : IO Unit := Artap.Proto.serve Artap.Doe.handle
