import ArtapModel.Model.Results
/-! Line-protocol driver for C17: `lake env lean --run drivers/C17.lean < requests`. -/
def main : IO Unit := Artap.Proto.serve Artap.Results.handle
