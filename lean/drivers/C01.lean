import ArtapModel.Model.Dominance
/-! Line-protocol driver for C01: `lake env lean --run drivers/C01.lean < requests`. -/
def main : IO Unit := Artap.Proto.serve Artap.Dominance.handle
