import ArtapModel.Model.Store
/-! Line-protocol driver for C10: `lake env lean --run drivers/C10.lean < requests`. -/
def main : IO Unit := Artap.Proto.serve Artap.Store.handle
