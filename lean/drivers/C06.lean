import ArtapModel.Model.Eval
/-! Line-protocol driver for C06: `lake env lean --run drivers/C06.lean < requests`. -/
def main : IO Unit := Artap.Proto.serve Artap.Eval.handle
