import ArtapModel.Model.Concurrency
/-! Line-protocol driver for C07. -/
def main : IO Unit := Artap.Proto.serve Artap.Conc.handle
