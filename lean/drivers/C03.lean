import ArtapModel.Model.Selection
/-! Line-protocol driver for C03: `lake env lean --run drivers/C03.lean < requests`. -/
def main : IO Unit := Artap.Proto.serve Artap.Selection.handle
