import ArtapModel.Model.Surrogate
/-! Line-protocol driver for C19: `lake env lean --run drivers/C19.lean < requests`. -/
def main : IO Unit := Artap.Proto.serve Artap.Surrogate.handle
