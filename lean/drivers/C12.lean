import ArtapModel.Model.Sampling
/-! Line-protocol driver for C12: `lake env lean --run drivers/C12.lean < requests`. -/
def main : IO Unit := Artap.Proto.serve Artap.Sampling.handle
