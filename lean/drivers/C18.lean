import ArtapModel.Model.SwarmAll
/-! Line-protocol driver for C18: `lake env lean --run drivers/C18.lean < requests`. -/
def main : IO Unit := Artap.Proto.serve Artap.SwarmAll.handle
