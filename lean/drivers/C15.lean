import ArtapModel.Model.Bench
/-! Line-protocol driver for C15: `lake env lean --run drivers/C15.lean < requests`. -/
def main : IO Unit := Artap.Proto.serve Artap.Bench.handle
