import ArtapModel.Model.BenchMO
/-! Line-protocol driver for C16: `lake env lean --run drivers/C16.lean < requests`. -/
def main : IO Unit := Artap.Proto.serve Artap.BenchMO.handle
