"""C03 — environmental selection: crowding distance, truncation, binary tournament.

Correspondence (real code in artap/operators.py against lean/ArtapModel/Model/Selection.lean):

* crowding_distance: per-individual distances, inf exactly, finite values within common.close of the model's exact
  rational (regime R2).  Fronts without tied objective values: any disagreement is a violation (crowd_formula).
  Fronts with ties: the model mirrors the stable in-place sorts; if the code disagrees the tie clauses of the property
  (range, an infinite holder of every objective's minimum and maximum) are evaluated by the driver on the code's output
  and only their failure is a violation.
* nondominated_truncate: envelope.  The survivors (by object identity) followed by the worst-keyed copy of every
  discarded design form a candidate value of list(set(pop)); the model run on that oracle must return exactly the
  survivors.  Keys are (front number, phi(crowding distance)) - comparisons only, regime R1.
* TournamentSelector.select: random.sample / random.choice are wrapped (deterministic draws from ctx.rng, candidates
  recorded); the returned individual must be one the model admits for the recorded candidates (either coin).
"""
import fractions
import math

from .common import phi, rat, close, shrink_list

INF = math.inf
F = fractions.Fraction


def phi_inf(x):
    """phi extended monotonically to +-inf (crowding distances)."""
    if x == INF:
        return phi(1.7976931348623157e308) + 1
    if x == -INF:
        return -phi(1.7976931348623157e308) - 1
    return phi(x)


# ----------------------------------------------------------------------------- implementation adaptors

_ID_SALT = [0]


def new_ind(vector, costs=(), marker=True, front=None, crowd=None):
    from artap.individual import Individual
    ind = Individual([float(v) for v in vector])
    # ids are not ascending along a population list (populations are merged, shuffled and truncated between two calls):
    # every other object gets an id from a descending range
    _ID_SALT[0] += 1
    if _ID_SALT[0] % 2 == 0:
        ind.id = 10 ** 9 - _ID_SALT[0]
    ind.costs = list(costs)
    ind.costs_signed = list(costs) + [marker]
    ind.features['front_number'] = front
    ind.features['crowding_distance'] = crowd
    return ind


def impl_crowding(rows, marker=True):
    """Run crowding_distance on a fresh front; distances in input order."""
    from artap.operators import crowding_distance
    inds = [new_ind([i], r, marker) for i, r in enumerate(rows)]
    lst = list(inds)
    crowding_distance(lst)
    if sorted(map(id, lst)) != sorted(map(id, inds)):
        raise AssertionError("crowding_distance changed the membership of the front list")
    return [ind.features['crowding_distance'] for ind in inds]


def impl_truncate(vectors, fronts, crowds, same_as, k):
    """pop[i] has design vectors[i]; same_as[i] = j < i means pop[i] is the *same object* as pop[j].
    Returns the survivors as indices into pop (first position of the object), or -1 for a non-member."""
    from artap.operators import nondominated_truncate
    pop = []
    for i, v in enumerate(vectors):
        if same_as[i] is not None:
            pop.append(pop[same_as[i]])
        else:
            pop.append(new_ind(v, [0.0], True, fronts[i], crowds[i]))
    pos = {}
    for i, o in enumerate(pop):
        pos.setdefault(id(o), i)
    res = nondominated_truncate(list(pop), k)
    return [pos.get(id(o), -1) for o in res]


class Draws:
    """Wrap random.sample / random.choice: deterministic draws from the run's PRNG, recorded."""

    def __init__(self, rng):
        self.rng, self.sampled, self.chosen = rng, [], []

    def __enter__(self):
        import random
        self.random = random
        self.saved = (random.sample, random.choice)

        def sample(population, k, **kw):
            r = self.rng.sample(list(population), k)
            self.sampled.append(list(r))
            return r

        def choice(seq):
            r = self.rng.choice(list(seq))
            self.chosen.append((list(seq), r))
            return r
        random.sample, random.choice = sample, choice
        return self

    def __exit__(self, *a):
        self.random.sample, self.random.choice = self.saved


def impl_select(rng, fronts, costs, markers):
    """Returns (winner position or -1, candidate positions or None)."""
    from artap.operators import TournamentSelector
    # crowding distances must not influence the tournament: give the members varied (deterministic) values,
    # so that a dominated candidate often owns the larger crowding distance
    crowd_pool = [0.0, float("inf"), 0.7, 2.5]
    pop = [new_ind([i], c, m, f, crowd_pool[(i * 7 + int(sum(abs(x) for x in c) * 10)) % 4])
           for i, (f, c, m) in enumerate(zip(fronts, costs, markers))]
    pos = {id(o): i for i, o in enumerate(pop)}
    sel = TournamentSelector([])

    class Watched(list):
        """the population as handed to select(): remembers which positions were read by index"""
        read = []

        def __getitem__(self, k):
            if isinstance(k, int):
                Watched.read.append(k % len(self) if len(self) else k)
            return list.__getitem__(self, k)
    Watched.read = []
    import random as _random
    _random.seed(rng.getrandbits(48))        # draws made through other functions of `random` stay reproducible
    with Draws(rng) as d:
        w = sel.select(Watched(pop))
    cands = None
    if d.sampled and len(d.sampled[-1]) == 2:
        cands = [pos.get(id(o), -1) for o in d.sampled[-1]]
    elif d.sampled:
        cands = None          # random.sample was used for something else (e.g. a shuffled pool): candidates not observed
    else:
        # the candidates were not drawn with random.sample: they are the two positions that were read by index
        seen = []
        for k in Watched.read:
            if k not in seen:
                seen.append(k)
        if len(seen) == 2:
            cands = seen
    return pos.get(id(w), -1), cands


# ----------------------------------------------------------------------------- python mirrors (shrinking / replay only)

def has_ties(rows):
    if not rows:
        return False
    m = len(rows[0])
    return any(len(set(r[d] for r in rows)) < len(rows) for d in range(m))


def spec_crowding_noties(rows):
    """Order-theoretic formula of the property (fronts without tied values), exact."""
    n = len(rows)
    if n <= 2:
        return [INF] * n
    m = len(rows[0])
    out = []
    for r in rows:
        tot = F(0)
        for d in range(m):
            col = [F(x[d]) for x in rows]
            v = F(r[d])
            lo, hi = min(col), max(col)
            if v == lo or v == hi:
                tot = INF
                break
            pred = max(c for c in col if c < v)
            succ = min(c for c in col if c > v)
            tot += (succ - pred) / (hi - lo)
        out.append(tot)
    return out


def tie_clauses(rows, dist):
    """The property's claims for fronts with ties, on observed distances. Returns None or a sentence."""
    n = len(rows)
    if n <= 2:
        return None if all(x == INF for x in dist) else "front of %d member(s) must have infinite distances, got %r" % (n, dist)
    m = len(rows[0])
    for i, x in enumerate(dist):
        if x != INF and not (0 <= x <= m):
            return "distance %r of member %d is outside [0, %d]" % (x, i, m)
    for d in range(m):
        col = [r[d] for r in rows]
        if not any(dist[i] == INF and col[i] == min(col) for i in range(n)):
            return "no holder of the minimum of objective %d has infinite distance (distances %r)" % (d, dist)
        if not any(dist[i] == INF and col[i] == max(col) for i in range(n)):
            return "no holder of the maximum of objective %d has infinite distance (distances %r)" % (d, dist)
    return None


def crowd_bad(rows):
    """Sentence describing how crowding_distance(rows) breaks the property, or None (python-side oracle)."""
    try:
        got = impl_crowding(rows)
    except Exception as e:  # noqa
        return "crowding_distance raised %s: %s" % (type(e).__name__, e)
    if any(not isinstance(x, (int, float)) or x != x for x in got):
        return "crowding distance is not a number: %r" % (got,)
    if has_ties(rows):
        return tie_clauses(rows, got)
    want = spec_crowding_noties(rows)
    for i, (g, w) in enumerate(zip(got, want)):
        if (w == INF) != (g == INF) or (w != INF and not close(float(w), g)):
            return "member %d: crowding distance %r, the property's formula gives %s" % (i, g, w if w == INF else float(w))
    return None


def trunc_clauses(vectors, fronts, crowds, k, surv):
    """The four clauses of the property on an observed truncation. Returns (key, sentence) or None."""
    n = len(vectors)
    cls = [tuple(v) for v in vectors]
    if any(s < 0 or s >= n for s in surv):
        return "trunc-member", "a returned individual is not a member of the population"
    want = min(k, len(set(cls)))
    if len(surv) != want:
        return "trunc-size", "returned %d individuals, expected min(k=%d, distinct designs=%d)" % (len(surv), k, len(set(cls)))
    if len(set(cls[s] for s in surv)) != len(surv):
        return "trunc-dup", "a design is returned twice (survivors %r)" % (surv,)
    kept = set(cls[s] for s in surv)
    for j in range(n):
        if cls[j] in kept:
            continue
        for s in surv:
            if fronts[s] > fronts[j]:
                return "trunc-rank", "survivor %d has front number %d, discarded design at %d has %d" % (s, fronts[s], j, fronts[j])
    if len(set(cls)) == n:
        for j in range(n):
            if j in surv:
                continue
            for s in surv:
                if fronts[s] == fronts[j] and crowds[j] > crowds[s]:
                    return "trunc-crowding", ("in the cut front %d the discarded member %d has crowding distance %r, "
                                              "the kept member %d only %r" % (fronts[j], j, crowds[j], s, crowds[s]))
    # envelope (duplicated designs): whichever copy list(set(pop)) kept, a discarded design cannot sort strictly before a
    # survivor - i.e. not even its worst copy may have a strictly better (front, -crowding) key than a survivor
    for c in set(cls) - kept:
        worst = max((fronts[j], -crowds[j]) for j in range(n) if cls[j] == c)
        for s in surv:
            if worst < (fronts[s], -crowds[s]):
                return "trunc-envelope", ("every copy of the discarded design %r has a strictly better (front, crowding) key "
                                          "than survivor %d (front %d, crowding %r): no order of list(set(pop)) gives this "
                                          "result" % (list(c), s, fronts[s], crowds[s]))
    return None


def trunc_bad(vectors, fronts, crowds, same_as, k):
    try:
        surv = impl_truncate(vectors, fronts, crowds, same_as, k)
    except Exception as e:  # noqa
        return "trunc-raise", "nondominated_truncate raised %s: %s" % (type(e).__name__, e)
    return trunc_clauses(vectors, fronts, crowds, k, surv)


def spec_dom(p, q, mp, mq):
    """1 = first candidate must win, 2 = second, 0 = either (C01 verdict)."""
    if abs(mp) < abs(mq):
        return 1
    if abs(mq) < abs(mp):
        return 2
    lt = any(a < b for a, b in zip(p, q))
    gt = any(a > b for a, b in zip(p, q))
    return 1 if lt and not gt else 2 if gt and not lt else 0


def select_clauses(fronts, costs, markers, w, cands):
    n = len(fronts)
    if w < 0 or w >= n:
        return "select-member", "the returned object is not a member of the population"
    if n == 1:
        return None
    if cands is None:
        if n != 2:
            return None
        cands = [0, 1]
    a, b = cands
    if w not in (a, b):
        return "select-candidate", "returned position %d is neither of the drawn candidates %r" % (w, cands)
    o = b if w == a else a
    if a == b:
        return "select-sample", "the two candidates are the same position %d" % a
    if fronts[w] > fronts[o]:
        return "select-rank", "returned the candidate with front number %d, the other has %d" % (fronts[w], fronts[o])
    if fronts[w] == fronts[o] and spec_dom(costs[o], costs[w], markers[o], markers[w]) == 1:
        return "select-dominated", "at equal front number %d returned %r (marker %r), dominated by %r (marker %r)" % (
            fronts[w], costs[w], markers[w], costs[o], markers[o])
    return None


# ----------------------------------------------------------------------------- generators

def gen_front(rng, quick):
    nmax = 12 if quick else 60
    r = rng.random()
    n = rng.randint(0, 4) if r < 0.2 else rng.randint(3, nmax) if r < 0.9 else rng.randint(3, 6)
    m = rng.choice([1, 2, 2, 2, 3, 3, 4]) if rng.random() < 0.97 else 0
    mode = rng.choice(["distinct", "distinct", "distinct", "perm", "ties", "ties", "zero", "dupl"])
    scale = rng.choice([1.0, 1.0, 1e-3, 1e4, 7.5])
    if mode == "distinct":
        rows = [[rng.uniform(-1, 1) * scale for _ in range(m)] for _ in range(n)]
    elif mode == "perm":     # integer ranks: exactly representable quotients are rare, ranks are permutations
        cols = []
        for _ in range(m):
            c = [float(i * rng.choice([1, 2, 3])) for i in range(n)]
            c = sorted(set(c))
            while len(c) < n:
                c.append(c[-1] + 1.0)
            rng.shuffle(c)
            cols.append(c)
        rows = [[cols[d][i] for d in range(m)] for i in range(n)]
    elif mode == "ties":
        pool = [rng.uniform(-2, 2) * scale for _ in range(rng.randint(2, 4))] + [0.0, 1.0]
        rows = [[rng.choice(pool) for _ in range(m)] for _ in range(n)]
    elif mode == "zero":     # one objective with zero range
        z = rng.randrange(m) if m else 0
        c = rng.choice([0.0, 1.0, -3.25, rng.uniform(-1, 1)])
        rows = [[(c if d == z else rng.uniform(-1, 1) * scale) for d in range(m)] for _ in range(n)]
    else:                    # duplicated members
        base = [[rng.uniform(-1, 1) * scale for _ in range(m)] for _ in range(max(1, n // 2))]
        rows = [list(rng.choice(base)) for _ in range(n)]
    return rows


def gen_trunc(rng, quick):
    nd = rng.randint(1, 10 if quick else 30)
    dim = rng.randint(1, 3)
    pool = [0.0, 1.0, -1.0, 0.5] + [rng.uniform(-5, 5) for _ in range(4)]
    designs = []
    seen = set()
    if dim >= 2 and rng.random() < 0.25:
        # different designs with equal hashes (hash(-1.0) == hash(-2.0)): set() must fall back on __eq__, which has to
        # look at every coordinate
        tail = [rng.choice(pool) for _ in range(dim - 1)]
        for head in (-1.0, -2.0):
            if len(designs) < nd:
                designs.append([head] + tail)
                seen.add(tuple(designs[-1]))
    while len(designs) < nd:
        v = [rng.choice(pool) if rng.random() < 0.5 else rng.uniform(-5, 5) for _ in range(dim)]
        if tuple(v) not in seen:            # bit-identical or clearly different (pool values differ by > 1e-10)
            ok = all(max(abs(a - b) for a, b in zip(v, w)) > 1e-6 for w in designs)
            if ok:
                seen.add(tuple(v))
                designs.append(v)
    nf = rng.randint(1, 4)
    dfront = [rng.randint(1, nf) for _ in designs]
    cpool = [INF, INF, 0.0, 0.5, 1.0, 1.5, 2.0] + [rng.uniform(0, 2) for _ in range(3)]
    vectors, fronts, crowds, same_as = [], [], [], []
    dup_mode = rng.choice(["none", "none", "some", "many"])
    for di, v in enumerate(designs):
        copies = 1
        if dup_mode == "some" and rng.random() < 0.3:
            copies = 2
        if dup_mode == "many":
            copies = rng.randint(1, 3)
        first = None
        for c in range(copies):
            idx = len(vectors)
            vectors.append(list(v))
            fronts.append(dfront[di])
            if first is not None and rng.random() < 0.3:
                same_as.append(first)
                crowds.append(crowds[first])
            else:
                same_as.append(None)
                crowds.append(rng.choice(cpool))
            if first is None:
                first = idx
    # input order: shuffle positions (same_as must keep pointing backwards)
    order = list(range(len(vectors)))
    rng.shuffle(order)
    newpos = {old: new for new, old in enumerate(order)}
    v2 = [vectors[o] for o in order]
    f2 = [fronts[o] for o in order]
    c2 = [crowds[o] for o in order]
    groups = {}
    for new, old in enumerate(order):
        root = same_as[old] if same_as[old] is not None else old
        groups.setdefault(root, []).append(new)
    s2 = [None] * len(order)
    for root, members in groups.items():
        members.sort()
        for x in members[1:]:
            s2[x] = members[0]
    n = len(v2)
    k = rng.choice([1, 1, 2, max(1, nd // 2), nd - 1 if nd > 1 else 1, nd, nd + 1, n, n + 2, rng.randint(1, n + 1)])
    return v2, f2, c2, s2, max(1, k)


def gen_select(rng, quick):
    r = rng.random()
    n = 1 if r < 0.05 else 2 if r < 0.4 else rng.randint(3, 8 if quick else 20)
    m = rng.randint(1, 3)
    pool = [float(rng.randint(0, 2)) for _ in range(3)] + [rng.uniform(-1, 1)]
    nf = rng.choice([1, 1, 2, 3])
    fronts = [rng.randint(1, nf) for _ in range(n)]
    costs = [[rng.choice(pool) for _ in range(m)] for _ in range(n)]
    if rng.random() < 0.85:
        markers = [True] * n
    else:
        markers = [rng.choice([True, False]) for _ in range(n)]
    return fronts, costs, markers


# ----------------------------------------------------------------------------- protocol lines

def crowd_line(rows):
    return "c03.crowd %d|" % len(rows) + ";".join(",".join(rat(x) for x in r) for r in rows)


def dist_tok(x):
    return "inf" if x == INF else rat(x)


def crowdspec_line(rows, dist):
    return "c03.crowdspec %d|%s|%s" % (len(rows), ";".join(",".join(rat(x) for x in r) for r in rows), ",".join(dist_tok(x) for x in dist))


def parse_dists(ans):
    if ans == "":
        return []
    out = []
    for t in ans.split(","):
        if t == "inf":
            out.append(INF)
        else:
            a, b = t.split("/")
            out.append(F(int(a), int(b)))
    return out


def classes(vectors):
    ids = {}
    return [ids.setdefault(tuple(v), len(ids)) for v in vectors]


def build_oracle(vectors, fronts, crowds, surv):
    """Survivors (stably sorted by key) followed by the worst-keyed copy of every other design."""
    cls = classes(vectors)

    def key(i):
        return (fronts[i], -phi_inf(crowds[i]))
    s = sorted(surv, key=key)
    kept = set(cls[i] for i in s)
    worst = {}
    for i in range(len(vectors)):
        c = cls[i]
        if c in kept:
            continue
        if c not in worst or key(i) > key(worst[c]):
            worst[c] = i
    return s + [worst[c] for c in sorted(worst)]


def trunc_line(vectors, fronts, crowds, k, oracle):
    return "c03.trunc %s|%s|%s|%d|%s" % (",".join(map(str, classes(vectors))), ",".join(map(str, fronts)),
                                        ",".join(str(phi_inf(c)) for c in crowds), k, ",".join(map(str, oracle)))


def select_line(fronts, costs, markers, i, j, coin):
    return "c03.select %s|%s|%s|%d,%d,%d" % (",".join(map(str, fronts)), ";".join(",".join(str(phi(x)) for x in c) for c in costs),
                                            ",".join(str(phi(m)) for m in markers), i, j, coin)


# ----------------------------------------------------------------------------- run

def run(ctx):
    ctx.rule = ("crowding: fronts of 0..12 (thorough 0..60) members x 0..4 objectives from streams distinct / integer "
                "permutations / small pools (ties) / one zero-range objective / duplicated members, each also reversed and "
                "shuffled; non-trivial = at least 3 members and 1 objective. truncation: populations of 1..10 (thorough "
                "1..30) designs with 0..2 extra copies (new objects with identical vectors, or the same object twice), front "
                "numbers a function of the design, crowding distances from a pool with inf and ties, k from {1, .., n+2}, "
                "shuffled input order; non-trivial = k smaller than the number of distinct designs. tournament: populations "
                "of 1..8 (thorough 1..20), 1..3 objectives from small pools, 1..3 fronts; non-trivial = at least 2 members; plus "
                "histories of select() calls of one selector object on one population list edited in place between the calls. "
                "distinct = distinct encoded request")
    ctx.assumptions += [
        "objective values and crowding distances are finite floats of moderate magnitude (differences do not overflow); NaN excluded",
        "designs are bit-identical or differ by more than 1e-6 in some coordinate (Individual.__eq__ tolerance 1e-10, hash of the exact tuple)",
        "truncation inputs satisfy 'equal designs have equal front numbers' (true of FNDS output when costs are a function of the design)",
        "front numbers are given integers (C02 establishes that they are the Pareto ranks)",
        "IEEE rounding of the crowding sums stays within 1e-9 relative + 1e-12 absolute of the exact rational value",
    ]
    run_crowding(ctx)
    if ctx.failures:
        return
    run_truncate(ctx)
    if ctx.failures:
        return
    run_select(ctx)
    if ctx.failures:
        return
    run_select_stateful(ctx)


def run_crowding(ctx):
    rng = ctx.rng
    n_fronts = 1200 if ctx.quick else 12000
    cases = []
    for _ in range(n_fronts):
        rows = gen_front(rng, ctx.quick)
        variants = [rows, rows[::-1]]
        sh = list(rows)
        rng.shuffle(sh)
        variants.append(sh)
        if not ctx.quick:
            sh2 = list(rows)
            rng.shuffle(sh2)
            variants.append(sh2)
        cases.extend(variants)
    impl = []
    for rows in cases:
        try:
            impl.append(impl_crowding(rows))
        except Exception as e:  # noqa
            impl.append(e)
    model = ctx.lean([crowd_line(r) for r in cases])
    suspects = []
    for rows, got, mo in zip(cases, impl, model):
        n, m = len(rows), (len(rows[0]) if rows else 0)
        ties = has_ties(rows)
        ctx.case(("crowd", tuple(tuple(r) for r in rows)), n >= 3 and m >= 1,
                 sample={"op": "crowd", "rows": rows, "distances": None if isinstance(got, Exception) else [repr(x) for x in got]})
        ctx.count("crowd_n_%s" % (n if n < 4 else "4-12" if n <= 12 else "13+"))
        ctx.count("crowd_m_%d" % m)
        ctx.count("crowd_ties" if ties else "crowd_noties")
        if rows and m and any(len(set(r[d] for r in rows)) == 1 for d in range(m)) and n >= 3:
            ctx.count("crowd_zero_range_objective")
        if isinstance(got, Exception):
            report_crowd(ctx, rows, "crowding_distance raised %s: %s" % (type(got).__name__, got))
            return
        if mo == "raise":
            raise RuntimeError("generator produced a ragged front")
        want = parse_dists(mo)
        ok = len(want) == len(got) and all(
            isinstance(g, (int, float)) and ((w == INF and g == INF) or (w != INF and g != INF and close(float(w), g)))
            for g, w in zip(got, want))
        if ok:
            ctx.count("crowd_inf_members", sum(1 for g in got if g == INF))
            continue
        if not ties:
            report_crowd(ctx, rows, "crowding_distance gives %r, the model (= the property's formula, crowd_formula) %r" % (
                got, [x if x == INF else float(x) for x in want]))
            return
        suspects.append((rows, got, want))
    if suspects:
        # ties: the order among tied members is not part of the property -> evaluate its tie clauses on the code's output
        bad_value = [s for s in suspects if any(not isinstance(g, (int, float)) or g != g for g in s[1])]
        if bad_value:
            report_crowd(ctx, bad_value[0][0], "crowding distance is not a number: %r" % (bad_value[0][1],))
            return
        verdicts = ctx.lean([crowdspec_line(r, g) for r, g, _ in suspects])
        for (rows, got, want), v in zip(suspects, verdicts):
            if v != "1":
                report_crowd(ctx, rows, "front with tied values: distances %r break the property's tie clauses (range [0,m] / "
                                        "an infinite holder of each objective's minimum and maximum); model %r" % (
                                            got, [x if x == INF else float(x) for x in want]))
                return
            ctx.count("crowd_tie_order_divergence_admitted")


def report_crowd(ctx, rows, what):
    def still(idx):
        return crowd_bad([rows[i] for i in idx]) is not None
    idx = list(range(len(rows)))
    small = rows
    try:
        if still(idx):
            idx = shrink_list(idx, still, min_len=1)
            small = [rows[i] for i in idx]
            what = crowd_bad(small) + " (front %r)" % (small,)
    except Exception:  # noqa
        pass
    key = "crowd-ties" if has_ties(small) else "crowd-formula"
    if "raised" in what:
        key = "crowd-raise"
    ctx.fail(key, what, {"op": "crowd", "rows": small, "original_rows": rows})


def run_truncate(ctx):
    rng = ctx.rng
    n_pop = 6000 if ctx.quick else 80000
    cases, survs, lines = [], [], []
    for _ in range(n_pop):
        c = gen_trunc(rng, ctx.quick)
        vectors, fronts, crowds, same_as, k = c
        try:
            surv = impl_truncate(vectors, fronts, crowds, same_as, k)
        except Exception as e:  # noqa
            report_trunc(ctx, c, ("trunc-raise", "nondominated_truncate raised %s: %s" % (type(e).__name__, e)))
            return
        nd = len(set(classes(vectors)))
        ctx.case(("trunc", tuple(classes(vectors)), tuple(fronts), tuple(map(phi_inf, crowds)), k), k < nd,
                 sample={"op": "trunc", "vectors": vectors, "fronts": fronts, "crowds": [repr(x) for x in crowds], "k": k,
                         "survivors": surv})
        ctx.count("trunc_dups" if nd < len(vectors) else "trunc_all_distinct")
        if len(set(hash(tuple(v)) for v in vectors)) < nd:
            ctx.count("trunc_hash_collision_between_different_designs")
        ctx.count("trunc_k_lt_distinct" if k < nd else "trunc_k_ge_distinct")
        if k < nd and len(surv) == k and all(0 <= s < len(fronts) for s in surv):
            cut = max(fronts[s] for s in surv)
            if sum(1 for i in range(len(fronts)) if fronts[i] == cut) > sum(1 for s in surv if fronts[s] == cut):
                ctx.count("trunc_front_is_cut")
        cl = trunc_clauses(vectors, fronts, crowds, k, surv)
        if cl is not None:
            report_trunc(ctx, c, cl)
            return
        cases.append(c)
        survs.append(surv)
        lines.append(trunc_line(vectors, fronts, crowds, k, build_oracle(vectors, fronts, crowds, surv)))
    answers = ctx.lean(lines)
    for c, surv, a in zip(cases, survs, answers):
        vectors, fronts, crowds, same_as, k = c
        if a.startswith("ok") and sorted(int(t) for t in a[2:].split(",") if t.strip()) == sorted(surv):
            continue
        cl = trunc_clauses(vectors, fronts, crowds, k, surv)
        if cl is None:
            cl = ("trunc-envelope", "survivors %r are not a result the model admits (model: %s)" % (surv, a))
        report_trunc(ctx, c, cl)
        return


def report_trunc(ctx, c, cl):
    vectors, fronts, crowds, same_as, k = c

    def sub(idx):
        pos = {old: new for new, old in enumerate(idx)}
        sa = []
        for old in idx:
            s = same_as[old]
            # keep object sharing only when the first copy survives the shrink
            sa.append(pos[s] if s is not None and s in pos else None)
        return [vectors[i] for i in idx], [fronts[i] for i in idx], [crowds[i] for i in idx], sa

    def still(idx):
        v, f, cr, sa = sub(idx)
        return len(idx) >= 1 and trunc_bad(v, f, cr, sa, k) is not None
    idx = list(range(len(vectors)))
    key, what = cl
    try:
        if still(idx):
            idx = shrink_list(idx, still, min_len=1)
            v, f, cr, sa = sub(idx)
            kk = k
            while kk > 1 and trunc_bad(v, f, cr, sa, kk - 1) is not None:
                kk -= 1
            key, what = trunc_bad(v, f, cr, sa, kk)
            vectors, fronts, crowds, same_as, k = v, f, cr, sa, kk
    except Exception:  # noqa
        pass
    ctx.fail(key, "nondominated_truncate(k=%d) on designs %r fronts %r crowding %r: %s" % (k, vectors, fronts, crowds, what),
             {"op": "trunc", "vectors": vectors, "fronts": fronts, "crowds": [repr(x) for x in crowds], "same_as": same_as, "k": k})


def run_select(ctx):
    rng = ctx.rng
    n_sel = 8000 if ctx.quick else 100000
    cases, obs, lines = [], [], []
    for _ in range(n_sel):
        c = gen_select(rng, ctx.quick)
        fronts, costs, markers = c
        n = len(fronts)
        w, cands = impl_select(rng, fronts, costs, markers)
        ctx.case(("select", tuple(fronts), tuple(map(tuple, costs)), tuple(markers), tuple(cands or ())), n >= 2,
                 sample={"op": "select", "fronts": fronts, "costs": costs, "markers": markers, "candidates": cands, "winner": w})
        ctx.count("select_n_%s" % (n if n < 3 else "3+"))
        if n >= 2 and cands is None:
            ctx.count("select_candidates_not_observed")
            if n > 2:
                # the way the two candidates are drawn is not fixed by the property and could not be observed here:
                # only "returns a member of the population" can be judged for this case
                if w < 0:
                    report_select(ctx, c, w, None, ("select-member", "the returned object is not a member of the population"))
                    return
                continue
            cands = [0, 1]
        if w < 0 or (n >= 2 and (len(cands) != 2 or w not in cands or cands[0] == cands[1] or min(cands) < 0)):
            cl = select_clauses(fronts, costs, markers, w, cands) or ("select-candidate", "winner %r, candidates %r" % (w, cands))
            report_select(ctx, c, w, cands, cl)
            return
        if n == 1:
            i, j = 0, 1
        else:
            i, j = cands
            fa, fb = fronts[i], fronts[j]
            ctx.count("select_front_decides" if fa != fb else "select_dominance_decides"
                      if spec_dom(costs[i], costs[j], markers[i], markers[j]) else "select_coin")
        cases.append(c)
        obs.append((w, cands))
        lines.append(select_line(fronts, costs, markers, i, j, 0))
        lines.append(select_line(fronts, costs, markers, i, j, 1))
    answers = ctx.lean(lines)
    for t, (c, (w, cands)) in enumerate(zip(cases, obs)):
        fronts, costs, markers = c
        a0, a1 = answers[2 * t], answers[2 * t + 1]
        if len(fronts) == 1:
            ok = a0 == "only" and w == 0
        else:
            name = "0" if w == cands[0] else "1"
            ok = name in a0 or name in a1
        if not ok:
            cl = select_clauses(fronts, costs, markers, w, cands) or (
                "select-envelope", "winner %d for candidates %r is not admitted by the model (%s / %s)" % (w, cands, a0, a1))
            report_select(ctx, c, w, cands, cl)
            return


def exec_select_history(case):
    """Execute one recorded history; returns None or (key, sentence)."""
    from artap.operators import TournamentSelector
    import random as _random
    sel = TournamentSelector([])
    mk = lambda d: new_ind([float(d[0])], [float(d[1]), float(d[2])], True, d[3], float(d[4]))
    L = [mk(d) for d in case["initial"]]
    _random.seed(case["seed"])
    done, calls = [], 0
    for op in case["script"]:
        done.append(op[0])
        if op[0] == "replace":
            L[op[1] % len(L)] = mk(op[2])
        elif op[0] == "remove":
            if len(L) > 1:
                del L[op[1] % len(L)]
        elif op[0] == "append":
            L.append(mk(op[2]))
        elif op[0] == "newlist":
            L = list(L)
        else:
            calls += 1
            w = sel.select(L)
            if id(w) not in [id(o) for o in L]:
                return ("select-member", "TournamentSelector.select (one selector object, history %r on one population list edited in "
                        "place): call %d returned the design %r, which is not a member of the population %r it was given" % (
                            done, calls, list(w.vector), [list(o.vector) for o in L]))
            if len(L) == 2:
                a, b = L
                o = b if w is a else a
                fw, fo = w.features["front_number"], o.features["front_number"]
                if fw > fo or (fw == fo and spec_dom(list(o.costs_signed[:-1]), list(w.costs_signed[:-1]), o.costs_signed[-1], w.costs_signed[-1]) == 1):
                    return ("select-worse", "TournamentSelector.select (history %r): of the two members (fronts %r/%r, signed costs %r/%r) "
                            "the worse one was returned" % (done, fw, fo, list(w.costs_signed), list(o.costs_signed)))
    return None


def run_select_stateful(ctx):
    """One long-lived selector, one population list that is edited IN PLACE between calls (members removed, replaced,
    appended - what Selector.pop_acceptance does to the eps-MOEA working population): every call must return a member
    of the population as it is at that call, and never the worse of a pair when the population has two members."""
    rng = ctx.rng
    n_hist = 150 if ctx.quick else 3000
    for h in range(n_hist):
        serial = [0]

        def fresh():
            serial[0] += 1
            return [serial[0], rng.randint(0, 4), rng.randint(0, 4), rng.randint(1, 3), rng.choice([0.0, 0.5, 1e308])]
        case = {"op": "select-history", "initial": [fresh() for _ in range(rng.randint(2, 7))], "seed": rng.getrandbits(48), "script": []}
        for step in range(rng.randint(4, 14)):
            op = rng.choice(["select", "select", "select", "replace", "remove", "append", "newlist"])
            case["script"].append([op, rng.randrange(64), fresh()] if op in ("replace", "append") else [op, rng.randrange(64)])
        n_sel = sum(1 for o in case["script"] if o[0] == "select")
        ctx.case(("select-hist", case["seed"]), nontrivial=n_sel > 1, sample=case if h < 2 else None)
        ctx.count("select_stateful_calls", n_sel)
        res = exec_select_history(case)
        if res is not None:
            # shorter history with the same verdict
            sc = case["script"]
            for cut in range(len(sc)):
                c2 = dict(case, script=sc[:cut + 1])
                if exec_select_history(c2) is not None:
                    case, res = c2, exec_select_history(c2)
                    break
            ctx.fail(res[0], res[1], case)
            return


def report_select(ctx, c, w, cands, cl):
    fronts, costs, markers = c
    key, what = cl
    case = {"op": "select", "fronts": fronts, "costs": costs, "markers": markers, "candidates": cands, "winner": w}
    if cands and len(cands) == 2 and 0 <= min(cands) and cands[0] != cands[1]:
        # the two candidates alone reproduce it (a population of two leaves no choice of candidates)
        a, b = cands
        f2, c2, m2 = [fronts[a], fronts[b]], [costs[a], costs[b]], [markers[a], markers[b]]
        for _ in range(40):
            try:
                w2, cd2 = impl_select(ctx.rng, f2, c2, m2)
            except Exception:  # noqa
                break
            cl2 = select_clauses(f2, c2, m2, w2, cd2)
            if cl2:
                key, what = cl2
                case = {"op": "select", "fronts": f2, "costs": c2, "markers": m2, "candidates": cd2, "winner": w2}
                fronts, costs, markers = f2, c2, m2
                break
    ctx.fail(key, "TournamentSelector.select on fronts %r costs %r markers %r: %s" % (fronts, costs, markers, what), case)


# ----------------------------------------------------------------------------- replay / search

def _num(x):
    return float(x) if not isinstance(x, (int, float)) else x


def replay(ctx, rp):
    import random
    c = rp["case"]
    op = c.get("op")
    if op == "select-history":
        res = exec_select_history(c)
        print("history %r on a population of %d: %s" % ([o[0] for o in c["script"]], len(c["initial"]), res[1] if res else "every call returned an admissible member"))
        return res is None
    if op == "crowd":
        rows = c["rows"]
        bad = crowd_bad(rows)
        try:
            got = impl_crowding(rows)
        except Exception as e:  # noqa
            got = "%s: %s" % (type(e).__name__, e)
        print("front (objective values per member): %r" % (rows,))
        print("crowding_distance gives: %r" % (got,))
        if has_ties(rows):
            print("property (ties): finite values in [0, m], an infinite holder of every objective's min and max")
        else:
            print("property (no ties): %r" % ([x if x == INF else float(x) for x in spec_crowding_noties(rows)],))
        print("verdict: %s" % (bad or "holds"))
        return bad is None
    if op == "trunc":
        crowds = [_num(x) for x in c["crowds"]]
        bad = trunc_bad(c["vectors"], c["fronts"], crowds, c["same_as"], c["k"])
        try:
            surv = impl_truncate(c["vectors"], c["fronts"], crowds, c["same_as"], c["k"])
        except Exception as e:  # noqa
            surv = "%s: %s" % (type(e).__name__, e)
        print("designs %r\nfront numbers %r\ncrowding %r\nk=%d -> survivors (positions) %r" % (
            c["vectors"], c["fronts"], crowds, c["k"], surv))
        print("verdict: %s" % (bad[1] if bad else "holds"))
        return bad is None
    if op == "select":
        rng = random.Random(0)
        bad = None
        for _ in range(200):
            try:
                w, cands = impl_select(rng, c["fronts"], c["costs"], c["markers"])
            except Exception as e:  # noqa
                bad = ("select-raise", "%s: %s" % (type(e).__name__, e))
                break
            bad = select_clauses(c["fronts"], c["costs"], c["markers"], w, cands)
            if bad:
                print("candidates %r winner %r" % (cands, w))
                break
        print("fronts %r costs %r markers %r (200 draws)" % (c["fronts"], c["costs"], c["markers"]))
        print("verdict: %s" % (bad[1] if bad else "holds"))
        return bad is None
    print("nothing to replay: ", rp.get("what"))
    return False


def search(ctx):
    """The harness could not drive the code: look for a failing input through the python-side property predicates
    (population of two for the tournament, small fronts, small populations)."""
    rng = ctx.rng
    for _ in range(300):
        rows = gen_front(rng, True)
        try:
            bad = crowd_bad(rows)
        except Exception:  # noqa
            bad = None
        if bad:
            report_crowd(ctx, rows, bad)
            return True
    for _ in range(300):
        c = gen_trunc(rng, True)
        try:
            bad = trunc_bad(*c)
        except Exception:  # noqa
            bad = None
        if bad:
            report_trunc(ctx, c, bad)
            return True
    for _ in range(2000):
        fronts, costs, markers = gen_select(rng, True)
        fronts, costs, markers = fronts[:2], costs[:2], markers[:2]
        try:
            w, cands = impl_select(rng, fronts, costs, markers)
            bad = select_clauses(fronts, costs, markers, w, cands)
        except Exception as e:  # noqa
            bad = ("select-raise", "TournamentSelector.select raised %s: %s" % (type(e).__name__, e))
        if bad:
            ctx.fail(bad[0], "TournamentSelector.select on fronts %r costs %r markers %r: %s" % (fronts, costs, markers, bad[1]),
                     {"op": "select", "fronts": fronts, "costs": costs, "markers": markers})
            return True
    return False


def run_corpus(ctx, case):
    c = case.get("case", case)
    op = c.get("op")
    if op == "crowd":
        bad = crowd_bad(c["rows"])
        if bad:
            ctx.fail("crowd-corpus", bad, c)
    elif op == "trunc":
        bad = trunc_bad(c["vectors"], c["fronts"], [_num(x) for x in c["crowds"]], c["same_as"], c["k"])
        if bad:
            ctx.fail(bad[0], bad[1], c)
