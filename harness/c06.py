"""C06 — transient evaluation failures are retried (at most five attempts), logged and never recorded as results.

Same machinery as C05 (`harness/c05.py`): the logging problem raises scripted exceptions; the model
(`Artap.Eval.attempts`, theorems in `Props/C06.lean`) consumes the same script and the re-rolled vectors read back from
the run.  Compared: exception class per call, the objective's call log, `Problem.failed`, final vector/state/costs of
every design.  Checked directly on the code: every re-rolled vector lies inside the bounds.
"""
import itertools

from . import c05
from .c05 import (drive, specs_of, model_line, parse_answer, compare, report, gen_problem, add_design, strip, TRANSIENT,
                  FATAL, replay, search)  # noqa: F401  (replay/search are the module's entry points too)

OP = "c06.run"
KINDS = "otrf"


def reroll_violation(case, obs):
    """Re-rolled vectors (the chain after each transient failure) must lie in the box."""
    specs = specs_of(case, obs)
    for k, sp in enumerate(specs):
        for v in sp["vecs"][1:sp["real"]]:
            if len(v) != len(case["bounds"]) or any(not (b[0] - 1e-9 <= x <= b[1] + 1e-9) for x, b in zip(v, case["bounds"])):
                return ("reroll-bounds", "design %d was replaced by %r after a failure, outside the bounds %r" % (k, v, case["bounds"]))
    # a re-rolled design is a fresh sample, not the vector that just failed
    for k, sp in enumerate(specs):
        for a, b in zip(sp["vecs"], sp["vecs"][1:sp["real"]]):
            if a == b and any(bb[0] != bb[1] for bb in case["bounds"]):
                return ("reroll-fresh", "design %d kept its failed vector %r instead of a freshly sampled one" % (k, a))
    return None


def script_of(rng, word, salt):
    return [c if c != "f" else "f%d" % ((salt + i) % len(FATAL)) for i, c in enumerate(word)]


def exhaustive_cases(rng, length):
    problems = [gen_problem(rng, ncons=nc) for nc in (0, 1, 2, 0)]
    cases = []
    for i, word in enumerate(itertools.product(KINDS, repeat=length)):
        case = c05.from_base(problems[i % len(problems)])
        add_design(rng, case, script=script_of(rng, word, i))
        case["program"] = [["n", [0]], ["b", [0]], ["b2", [0]]]
        cases.append(case)
    return cases


def random_script(rng):
    r = rng.random()
    if r < 0.15:
        return []
    if r < 0.3:
        n = rng.choice([3, 4, 4, 5, 5, 6])           # the boundary: exactly four / five consecutive failures
        return [rng.choice("tr") for _ in range(n)] + ["o"]
    w = [rng.choice("ttrroof") for _ in range(rng.randint(1, 8))]
    return script_of(rng, w, rng.randrange(len(FATAL)))


def par_script(rng):
    return [rng.choice("tr") for _ in range(rng.choice([0, 0, 1, 2, 3, 4, 4]))] + ["o"]


def gen_case(rng, pool):
    case = c05.from_base(rng.choice(pool))
    r = rng.random()
    if r < 0.7:
        nd = rng.randint(1, 6)
        par = rng.random() < 0.12
        for _ in range(nd):
            sc = par_script(rng) if par else random_script(rng)
            if case["designs"] and rng.random() < 0.25:
                # another design object with the vector of an earlier one (the harness lets odd-numbered twins share the very
                # same vector object): a failure of one must not touch the other
                add_design(rng, case, script=sc, v=list(rng.choice(case["designs"])["vec"]))
            else:
                add_design(rng, case, script=sc)
        keys = list(range(nd))
        case["program"].append(["n", keys])
        first = "par" if par else "b"
        b = rng.sample(keys, rng.randint(1, nd)) if rng.random() < 0.4 else list(keys)
        case["program"].append([first, b, rng.randint(2, 4)])
        for _ in range(rng.randint(0, 3)):
            b = rng.sample(keys, rng.randint(1, nd)) if rng.random() < 0.5 else list(keys)
            case["program"].append([first + "2", b, rng.randint(2, 4)])
    elif r < 0.85:      # sweep whose objective fails
        vs = [c05.gen_vec(rng, case) for _ in range(rng.randint(1, 5))]
        for v in vs:
            case["designs"].append({"prec": 7, "script": random_script(rng), "vec": None})
        case["program"].append(["sweep", vs])
    else:               # evaluate_scalar whose objective fails
        for _ in range(rng.randint(1, 4)):
            case["designs"].append({"prec": 7, "script": random_script(rng), "vec": None})
            case["program"].append(["scalar", c05.gen_vec(rng, case)])
    return case


def nontrivial(case, obs):
    return any(kind != "o" for _, _, kind in obs["log"])


def run_stream(ctx, cases, label):
    observed = []
    for c in cases:
        obs = drive(c)
        observed.append((c, obs, specs_of(c, obs)))
    answers = ctx.lean([model_line(OP, c, obs, sp) for c, obs, sp in observed])
    for (c, obs, sp), ans in zip(observed, answers):
        exp = parse_answer(ans)
        kinds = "".join(k[0] for _, _, k in obs["log"])
        for st in c["program"]:
            ctx.count("step_" + st[0])
        boring = not nontrivial(c, obs) or (label == "exhaustive" and (len(ctx.samples) >= 2 or len(obs["failed"]) < 3))
        ctx.case((label, model_line(OP, c, obs, sp)), nontrivial(c, obs),
                 sample=None if boring else {"stream": label, "program": c["program"], "scripts": ["".join(d["script"]) for d in c["designs"][:6]],
                         "calls": kinds[:40], "failed": len(obs["failed"]),
                         "results": [r if isinstance(r, str) else "ok" for _, r in obs["results"]][:6]})
        ctx.count("%s_cases" % label)
        ctx.count("objective_calls", len(obs["log"]))
        ctx.count("transient_failures", len(obs["failed"]))
        for _, r in obs["results"]:
            ctx.count("result_" + (r if isinstance(r, str) else "ok").replace(":", "_"))
        for k in range(len(obs["objs"])):
            run_ = 0
            for kk, _, kind in obs["log"]:
                if kk == k:
                    run_ = run_ + 1 if kind in TRANSIENT else 0
                    if run_ in (4, 5):
                        ctx.count("designs_with_%d_consecutive_failures" % run_)
        d = compare(c, obs, exp) or reroll_violation(c, obs)
        if d is not None:
            report(ctx, OP, d[0], "[%s] %s" % (label, d[1]), c, obs)
            return False
    return True


def run(ctx):
    rng = ctx.rng
    ctx.rule = ("exhaustive: every fault script over {ok, TimeoutError, RuntimeError, other exception} of length 6 "
                "(padded with ok) on one design, evaluated and handed back once more; random: batches of 1-6 designs with "
                "random scripts (also exactly four / five consecutive failures), serial and parallel, repeated calls, "
                "sweeps and evaluate_scalar calls with failing objectives; non-trivial = at least one failing call; "
                "distinct = distinct model request (script, vectors, re-rolls)")
    ctx.assumptions += [
        "re-rolled vectors come from random.random() inside VectorAndNumbers.gen_vector; they are read back from the run "
        "and given to the model as inputs (DESIGN 3.2); the check on them is membership in the box (tolerance 1e-9)",
        "designs left IN_PROGRESS by a non-transient exception are not handed back to evaluate (outside the statement)",
        "parallel runs use scripts without a fatal exception and with fewer than five consecutive failures (what the other "
        "workers do after an exception in one worker is joblib's business); log compared per design, failed as a multiset",
        "exceptions raised by the constraint function are outside the statement (it is called outside the try block)",
    ]
    length = 6 if ctx.quick else 7
    ctx.extra["exhaustive_small_scope"] = "all %d fault scripts of length %d over {o,t,r,f}, one design, two evaluate calls" % (4 ** length, length)
    if not run_stream(ctx, exhaustive_cases(rng, length), "exhaustive"):
        return
    n = 1500 if ctx.quick else 25000
    pool = c05.problem_pool(rng, 60 if ctx.quick else 500)
    run_stream(ctx, [gen_case(rng, pool) for _ in range(n)], "random")


def run_corpus(ctx, case):
    c = case.get("case", case)
    if "case" in c:
        cc = dict(c["case"])
        obs = drive(cc)
        exp = parse_answer(ctx.lean([model_line(OP, cc, obs, specs_of(cc, obs))])[0])
        d = compare(cc, obs, exp) or reroll_violation(cc, obs)
        ctx.count("corpus_cases")
        if d is not None:
            ctx.fail(d[0], "[corpus] " + d[1], {"op": OP, "case": strip(cc)})
