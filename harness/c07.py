"""C07 — parallel evaluation == serial evaluation under every schedule.

The theorems (Props/C07.lean) say: if every action of `Job.evaluate` touches only its own design's
record / store row, every schedule gives the serial result.  This harness tests that footprint on the
real threads: schedules are *forced* at objective-call and store-sync granularity (gates with an
acknowledge handshake), the schedule actually taken is replayed through the Lean model, and the final
records, the SQLite rows and the call multiset are compared.
"""
import contextlib
import os
import shutil
import sqlite3
import tempfile
import threading
import time

import numpy as np

from .common import rat, vec, mat, InfraError

_real_connect = sqlite3.connect


class Gate:
    """Threads arrive at named points and block; the controller releases exactly one at a time and
    waits until it has left the gate (acknowledge), so the order of releases is the schedule."""

    def __init__(self):
        self.cv = threading.Condition()
        self.waiting = set()
        self.released = set()
        self.trace = []
        self.timeouts = 0
        self.enabled = True
        self.passed = {}
        self.owner = {}
        self.active = 0        # worker threads currently inside Job.evaluate

    def arrive(self, key):
        if not self.enabled:
            return
        with self.cv:
            self.waiting.add(key)
            self.owner[key] = threading.get_ident()
            self.cv.notify_all()
            ok = self.cv.wait_for(lambda: key in self.released, timeout=20)
            if not ok:
                self.timeouts += 1
            self.released.discard(key)
            self.waiting.discard(key)
            self.passed[key] = self.passed.get(key, 0) + 1
            self.trace.append(key)
            self.cv.notify_all()


def controller(gate, rng, done, settle, pct=None):
    """Releases one waiting thread at a time.  pct=None: uniformly random choice among the waiting gates.
    pct=d: priority scheduling with d priority-change points (PCT): the highest-priority thread runs until it
    finishes or blocks; at d random steps the running thread drops to the lowest priority - this reaches
    'thread A is stopped exactly here while thread B runs through its whole synchronisation'."""
    prio = {}
    step = 0
    change = set(rng.sample(range(1, 260), pct)) if pct else set()
    last_owner = None
    while not done.is_set():
        with gate.cv:
            gate.cv.wait_for(lambda: len(gate.waiting) > 0 or done.is_set(), timeout=0.5)
            if not gate.waiting:
                continue
            if settle and pct is None:
                # quiescence instead of a fixed sleep: wait until every worker that is inside Job.evaluate has
                # reached a gate (bounded, because a worker may be blocked on a real lock), so that the choice
                # among the waiting threads is a real one whatever the speed of the machine
                gate.cv.wait_for(lambda: len(gate.waiting) >= max(1, gate.active) or done.is_set(), timeout=0.05)
            if pct is not None and last_owner is not None:
                # give the thread that just ran a moment to reach its next gate
                gate.cv.wait_for(lambda: any(gate.owner.get(k) == last_owner for k in gate.waiting) or done.is_set(),
                                 timeout=0.003)
        with gate.cv:
            keys = sorted(gate.waiting)
            if not keys:
                continue
            if pct is None:
                k = rng.choice(keys)
            else:
                for key in keys:
                    prio.setdefault(gate.owner.get(key), rng.random())
                step += 1
                k = max(keys, key=lambda key: prio[gate.owner.get(key)])
                if step in change:
                    prio[gate.owner.get(k)] = min(prio.values()) - 1.0
                    k = max(keys, key=lambda key: prio[gate.owner.get(key)])
            last_owner = gate.owner.get(k)
            before = gate.passed.get(k, 0)
            gate.released.add(k)
            gate.cv.notify_all()
            # acknowledge: the released thread has left the gate (it may already be back at its next one)
            gate.cv.wait_for(lambda: gate.passed.get(k, 0) > before, timeout=20)


def objective_table(x):
    """Deterministic 2-objective function; the model receives its values as a table."""
    s = sum((i + 1) * v for i, v in enumerate(x))
    return [s * s + 0.125, 3.0 - s / 7.0]


def constraint_table(x, ncons):
    return [x[0] - 0.3 * (j + 1) for j in range(ncons)]


def make_problem(ncons, gate, idx_of):
    from artap.problem import Problem

    class P(Problem):
        def set(self, **kw):
            self.name = "c07"
            self.parameters = [{"name": "x%d" % i, "bounds": [-2.0, 2.0]} for i in range(2)]
            self.costs = [{"name": "f1", "criteria": "minimize"}, {"name": "f2", "criteria": "maximize"}]
            self.calls = []
            self.lock = threading.Lock()

        def evaluate(self, ind):
            t = idx_of.get(ind.id, -1)
            gate.arrive(("c", t))
            with self.lock:
                self.calls.append(t)
            return objective_table(ind.vector)

        def evaluate_inequality_constraints(self, x):
            return constraint_table(x, ncons)

    return P()


def run_case(ctx, rng, n, workers, ncons, n_pre, with_store, gated, settle, hold_lock, tmpdir, case_no, line_level=False, pct=None):
    """One batch evaluated in parallel on the real code; returns (observed, request line, trace)."""
    from artap.algorithm import DummyAlgorithm
    from artap.datastore import SqliteDataStore
    from artap.individual import Individual
    from artap.problem import ProblemViewDataStore

    gate = Gate()
    gate.enabled = gated
    idx_of = {}
    p = make_problem(ncons, gate, idx_of)
    if case_no % 3 == 0:
        # a user-set (short) calculation time-out is a declared problem option; evaluation results must not depend on it
        p.options["time_out"] = 0.01
    vecs = [[round(rng.uniform(-2, 2), 3), round(rng.uniform(-2, 2), 3)] for _ in range(n)]
    if n >= 3 and rng.random() < 0.3:
        vecs[-1] = list(vecs[0])          # two designs with the same vector (different ids)
    inds = [Individual(list(v)) for v in vecs]
    for t, ind in enumerate(inds):
        idx_of[ind.id] = t
    db = None

    def attach_store():
        p.data_store = SqliteDataStore(p, database_name=db)
        orig_sync = p.data_store.sync_individual

        def gated_sync(ind, *a, **k):
            gate.arrive(("s", idx_of.get(ind.id, -1)))
            return orig_sync(ind, *a, **k)
        p.data_store.sync_individual = gated_sync
    # every fourth case with a store: the algorithm (and with it the evaluator and its Job) exists before the store is
    # attached to the problem - "with an SQLite store attached" is about the store the problem has when the batch runs
    late_store = with_store and case_no % 4 == 1
    if with_store:
        db = os.path.join(tmpdir, "c%d.sqlite" % case_no)
        if not late_store:
            attach_store()
    algo = DummyAlgorithm(p)
    if late_store:
        attach_store()
    job = algo.evaluator.job
    real_evaluate = job.evaluate

    def counted_evaluate(ind, *a, **k):
        with gate.cv:
            gate.active += 1
            gate.cv.notify_all()
        try:
            return real_evaluate(ind, *a, **k)
        finally:
            with gate.cv:
                gate.active -= 1
                gate.cv.notify_all()
    job.evaluate = counted_evaluate
    # some designs are already evaluated (serially, ungated) before the parallel batch
    pre = set(rng.sample(range(n), n_pre)) if n_pre else set()
    gate.enabled = False
    algo.options["max_processes"] = 1
    if pre:
        algo.evaluate([inds[t] for t in sorted(pre)])
    pre_snapshot = {t: (list(inds[t].costs), list(inds[t].costs_signed), inds[t].state.name) for t in pre}
    p.calls.clear()
    gate.enabled = gated
    gate.trace.clear()
    algo.options["max_processes"] = workers
    done = threading.Event()
    ctl = None
    if gated:
        ctl = threading.Thread(target=controller, args=(gate, rng, done, settle, pct), daemon=True)
        ctl.start()
    hold = {"n": 0}
    if hold_lock and with_store:
        # "holder keeps the write lock while others retry": pause between execute and commit
        def maybe_hold(sql):
            if sql.lstrip().upper().startswith("INSERT INTO INDIVIDUALS") and hold["n"] < 3:
                hold["n"] += 1
                time.sleep(0.2)

        class Cur:
            def __init__(s, c):
                s.c = c

            def execute(s, sql, *a):
                s.c.execute(sql, *a)
                maybe_hold(sql)
                return s

            def executemany(s, sql, *a):
                s.c.executemany(sql, *a)
                maybe_hold(sql)
                return s

            def __iter__(s):
                return iter(s.c)

            def __getattr__(s, name):
                return getattr(s.c, name)

        class Conn:
            def __init__(s, *a, **k):
                k["timeout"] = 0.03
                s.c = _real_connect(*a, **k)

            def cursor(s, *a, **k):
                return Cur(s.c.cursor(*a, **k))

            def execute(s, sql, *a):
                return s.cursor().execute(sql, *a)

            def executemany(s, sql, *a):
                return s.cursor().executemany(sql, *a)

            def __enter__(s):
                return s

            def __exit__(s, et, ev, tb):
                if et is None:
                    s.c.commit()
                else:
                    s.c.rollback()
                return False

            def __getattr__(s, name):
                return getattr(s.c, name)
        sqlite3.connect = lambda *a, **k: Conn(*a, **k)
    if line_level and gated:
        # finer schedules: every source line executed inside artap/job.py and artap/datastore.py by a worker
        # thread is a gate as well, so the controller also interleaves *inside* Job.evaluate / sync_individual
        def local_trace(frame, event, arg):
            if event == "line":
                gate.arrive(("l", threading.get_ident() % 100000))
            return local_trace

        def tracer(frame, event, arg):
            fn = frame.f_code.co_filename
            if fn.endswith(os.path.join("artap", "datastore.py")) or fn.endswith(os.path.join("artap", "job.py")):
                return local_trace
            return None
        threading.settrace(tracer)
    raised = None
    try:
        with open(os.devnull, "w") as devnull, contextlib.redirect_stdout(devnull), contextlib.redirect_stderr(devnull):
            try:
                algo.evaluate(inds)
            except Exception as e:   # noqa: the objective never fails here, so serial evaluation cannot raise
                raised = "%s: %s" % (type(e).__name__, e)
    finally:
        threading.settrace(None)
        sqlite3.connect = _real_connect
        done.set()
        with gate.cv:
            gate.cv.notify_all()
        if ctl:
            ctl.join(timeout=5)
    if gate.timeouts:
        return None, None, None
    obs = {"designs": [], "calls": [p.calls.count(t) for t in range(n)], "stray_calls": p.calls.count(-1),
           "rows": None, "pre": sorted(pre), "raised": raised, "failed_list": len(p.failed)}
    for t, ind in enumerate(inds):
        obs["designs"].append({"state": ind.state.name, "costs": [float(c) for c in ind.costs],
                               "signed": [float(c) for c in ind.costs_signed[:-1]] if ind.costs_signed else [],
                               "marker": bool(ind.costs_signed[-1]) if ind.costs_signed else None,
                               "vector": list(ind.vector)})
    for t in pre:
        if pre_snapshot[t] != (list(inds[t].costs), list(inds[t].costs_signed), inds[t].state.name):
            obs["pre_changed"] = t
    if with_store:
        view = ProblemViewDataStore(database_name=db)
        rows = {}
        dup = False
        for r in view.individuals:
            if r.id in rows:
                dup = True
            rows[r.id] = r
        obs["rows"] = []
        obs["dup_rows"] = dup
        for t, ind in enumerate(inds):
            r = rows.get(ind.id)
            obs["rows"].append(None if r is None else {
                "vector": list(r.vector), "costs": [float(c) for c in r.costs],
                "signed": [float(c) for c in r.costs_signed[:-1]], "marker": bool(r.costs_signed[-1]),
                "state": r.state.name if hasattr(r.state, "name") else str(r.state)})
    # the schedule actually taken, expanded to model actions
    sched = []
    for kind, t in gate.trace:
        if kind == "l" or t < 0 or t in pre:
            continue
        sched += [t, t, t] if kind == "c" else [t, t]
    # steps without a gate (ungated runs, no sync gate without a store, already evaluated designs whose
    # Job.evaluate returns at once): completed in index order
    cnt = {t: sched.count(t) for t in range(n)}
    for t in range(n):
        sched += [t] * (5 - cnt.get(t, 0))
    O = [objective_table(v) for v in vecs]
    RO = [[float(np.round(c, decimals=7)) for c in o] for o in O]
    C = [constraint_table(v, ncons) for v in vecs]
    line = "c07.run %s|%s|%s|%s|%s|%s|%s" % (
        mat(vecs, rat), vec([2 if t in pre else 0 for t in range(n)]), mat(O, rat),
        mat(C, rat) if ncons else "-", vec(p.signs, rat), mat(RO, rat), vec(sched))
    if line_level:
        # collapse runs of line events of one thread: "L<thread>x<count>"
        out = []
        for kind, t in gate.trace:
            if kind == "l" and out and out[-1][0] == "L" and out[-1][1] == t:
                out[-1][2] += 1
            elif kind == "l":
                out.append(["L", t, 1])
            else:
                out.append([kind, t, 0])
        return obs, line, [("%s%d" % (k, t)) if k != "L" else "L%dx%d" % (t % 1000, c) for k, t, c in out]
    return obs, line, [("%s%d" % k) for k in gate.trace]


def parse_model(ans):
    from .common import unrat
    d, s, c, pc = ans.split("#")
    designs = []
    for part in d.split("|"):
        if part == "skip":
            designs.append("skip")
            continue
        head, costs, signed = part.split(";")
        st, mk = head.split(",")
        designs.append({"state": {"0": "EMPTY", "1": "IN_PROGRESS", "2": "EVALUATED", "3": "FAILED"}[st],
                        "marker": mk == "1", "costs": [float(unrat(x)) for x in costs.split(",") if x],
                        "signed": [float(unrat(x)) for x in signed.split(",") if x]})
    rows = []
    for part in s.split("|"):
        if part == "-":
            rows.append(None)
            continue
        v, costs, signed, mk, st = part.split(";")
        rows.append({"vector": [float(unrat(x)) for x in v.split(",")], "costs": [float(unrat(x)) for x in costs.split(",") if x],
                     "signed": [float(unrat(x)) for x in signed.split(",") if x], "marker": mk == "1"})
    return designs, rows, [int(x) for x in c.split(",")], [int(x) for x in pc.split(",")]


def compare(obs, ans):
    """Return None if the observation is what the model (= serial result, by parallel_fields) gives."""
    designs, rows, calls, pc = parse_model(ans)
    if obs.get("raised"):
        return "parallel evaluation raised %s (the objective never fails; serial evaluation of the batch succeeds)" % obs["raised"]
    if obs.get("failed_list"):
        return "parallel evaluation put %d designs on the problem's failed list although the objective never fails" % obs["failed_list"]
    if any(k != 5 for k in pc):
        return "harness: schedule incomplete in the model %r" % pc
    if obs.get("stray_calls"):
        return "objective called for an object that is not a design of the batch"
    if "pre_changed" in obs:
        return "already evaluated design %d was modified by the parallel batch" % obs["pre_changed"]
    for t, (o, m) in enumerate(zip(obs["designs"], designs)):
        if m == "skip":
            if obs["calls"][t] != 0:
                return "objective called %d times for already evaluated design %d" % (obs["calls"][t], t)
            continue
        if obs["calls"][t] != calls[t]:
            return "objective called %d times for design %d (serial: %d)" % (obs["calls"][t], t, calls[t])
        for f in ("state", "costs", "signed", "marker"):
            if o[f] != m[f]:
                return "design %d: %s = %r after parallel evaluation, serial evaluation gives %r" % (t, f, o[f], m[f])
        if obs["rows"] is not None:
            r = obs["rows"][t]
            mr = rows[t]
            if r is None:
                return "design %d evaluated but no row in the SQLite store" % t
            for f in ("vector", "costs", "signed", "marker"):
                if r[f] != mr[f]:
                    return "design %d: stored %s = %r, final data %r" % (t, f, r[f], mr[f])
            if str(r["state"]).lower() not in ("evaluated", "state.evaluated", "2"):
                return "design %d stored with state %r" % (t, r["state"])
    if obs.get("dup_rows"):
        return "two rows with the same individual id in the store"
    return None


def run(ctx):
    rng = ctx.rng
    ctx.rule = ("batches of 2-8 designs x 2-4 joblib threads; schedules forced at objective-call ('c') and store-sync ('s') "
                "gates by a controller choosing among the waiting threads; non-trivial = at least two threads waiting at "
                "a choice; distinct = distinct (batch shape, trace of gate releases)")
    ctx.assumptions += ["interleavings inside one modelled action (bytecode level under the GIL, SQLite's own locking) are exercised, not proved",
                        "np.round(cost, 7) is supplied to the model as a table (glue)"]
    tmpdir = tempfile.mkdtemp(prefix="artap-verif-c07-")
    budget = 150 if ctx.quick else 900      # safety net only: the plan below is sized by counts, not by time
    t0 = time.time()
    lines, observed, traces, shapes = [], [], [], []
    skipped = 0
    case_no = 0
    try:
        plan = []
        # small configuration: aim at all interleavings of 3 designs x 2 workers
        for _ in range(60 if ctx.quick else 400):
            plan.append(dict(n=3, workers=2, ncons=0, n_pre=0, with_store=True, gated=True, settle=0.003, hold_lock=False))
        for _ in range(500 if ctx.quick else 8000):
            # line-level interleavings inside Job.evaluate / sync_individual (2-3 designs, 2-3 workers)
            plan.append(dict(n=rng.randint(2, 4), workers=rng.randint(2, 3), ncons=rng.choice([0, 1]), n_pre=0, with_store=True,
                             gated=True, settle=rng.choice([0.0, 0.0005]), hold_lock=False, line_level=True,
                             pct=rng.choice([None, 1, 1, 2, 3])))
        rng.shuffle(plan)
        for _ in range(220 if ctx.quick else 12000):
            n = rng.randint(2, 8)
            plan.append(dict(n=n, workers=rng.randint(2, 4), ncons=rng.choice([0, 0, 1, 2]),
                             n_pre=rng.choice([0, 0, 1, min(2, n - 1), n]), with_store=rng.random() < 0.7,
                             gated=rng.random() < 0.85, settle=rng.choice([0.0, 0.001, 0.003]),
                             hold_lock=rng.random() < 0.06))
        for cfg in plan:
            if time.time() - t0 > budget:
                break
            case_no += 1
            obs, line, trace = run_case(ctx, rng, tmpdir=tmpdir, case_no=case_no, **cfg)
            if obs is None:
                skipped += 1
                ctx.count("skipped_gate_timeout")
                continue
            lines.append(line)
            observed.append(obs)
            traces.append(trace)
            shapes.append(cfg)
            ctx.count("gated" if cfg["gated"] else "ungated")
            if cfg.get("line_level"):
                ctx.count("line_level_schedules")
            ctx.count("with_store" if cfg["with_store"] else "no_store")
            ctx.count("workers_%d" % cfg["workers"])
            if cfg["hold_lock"]:
                ctx.count("lock_held_while_others_retry")
            if cfg["with_store"] and os.path.exists(os.path.join(tmpdir, "c%d.sqlite" % case_no)):
                os.remove(os.path.join(tmpdir, "c%d.sqlite" % case_no))
    finally:
        shutil.rmtree(tmpdir, ignore_errors=True)
    if len(lines) < 20:
        raise InfraError("too few schedules completed (%d, %d skipped)" % (len(lines), skipped))
    answers = ctx.lean(lines)
    small = set()
    for obs, ans, trace, cfg, line in zip(observed, answers, traces, shapes, lines):
        key = (cfg["n"], cfg["workers"], cfg["ncons"], tuple(obs["pre"]), cfg["with_store"], tuple(trace))
        interleaved = any(trace[i][1:] != trace[i + 1][1:] and trace[i][0] == "c" and trace[i + 1][0] == "c" for i in range(len(trace) - 1)) \
            or any(trace[i][0] == "s" and trace[i + 1][0] == "c" for i in range(len(trace) - 1))
        ctx.case(key, nontrivial=cfg["gated"] and interleaved,
                 sample={"designs": cfg["n"], "workers": cfg["workers"], "schedule": " ".join(trace)})
        if cfg["n"] == 3 and cfg["workers"] == 2 and cfg["gated"]:
            small.add(tuple(trace))
        err = compare(obs, ans)
        if err:
            ctx.fail("parallel-vs-serial", err + " (batch of %d, %d workers, schedule %s)" % (cfg["n"], cfg["workers"], " ".join(trace)),
                     {"cfg": cfg, "trace": trace, "observed": obs, "model_answer": ans, "request": line})
            break
    ctx.extra["distinct_schedules_3x2"] = len(small)
    ctx.extra["skipped_schedules"] = skipped
    ctx.traces_validated = len(lines)


def replay(ctx, rp):
    import random
    c = rp["case"]
    cfg = c["cfg"]
    tmpdir = tempfile.mkdtemp(prefix="artap-verif-c07-")
    try:
        bad = 0
        for seed in range(30):
            rng = random.Random(seed)
            obs, line, trace = run_case(ctx, rng, tmpdir=tmpdir, case_no=seed, **cfg)
            if obs is None:
                continue
            ans = ctx.lean([line])[0]
            err = compare(obs, ans)
            if err:
                print("schedule %s: %s" % (" ".join(trace), err))
                bad += 1
        print("%d of 30 forced schedules differ from serial evaluation" % bad)
        return bad == 0
    finally:
        shutil.rmtree(tmpdir, ignore_errors=True)
