"""C09 — generation bookkeeping, evaluation budget, generational elitism, eps-MOEA acceptance.

Correspondence:
 * real NSGA-II / eps-MOEA / OMOPSO / SMPSO runs with a logging problem (optionally with injected transient
   failures) against the counters of the Lean model (nsga2Log / steadyLog, Props/C09.lean);
 * GeneticAlgorithm.generate with scripted children against Runs.generate;
 * Selector.pop_acceptance with recorded random picks against Runs.popAccept;
 * elitism / best-cost monotonicity evaluated on the recorded generations.
"""
import contextlib
import os
import random

from .common import phi, vec, mat
from .c01 import spec_pareto


def make_problem(nparams, nobj, fail_p, rng, single_unconstrained=False):
    from artap.problem import Problem

    class P(Problem):
        def set(self, **kw):
            self.name = "c09"
            self.parameters = [{"name": "x%d" % i, "bounds": [-1.5, 2.5]} for i in range(nparams)]
            crit = ["minimize", "maximize", "minimize"]
            self.costs = [{"name": "f%d" % j, "criteria": crit[j % 3] if not single_unconstrained else "minimize"} for j in range(nobj)]
            self.ok_calls = 0
            self.all_calls = 0

        def evaluate(self, ind):
            self.all_calls += 1
            if fail_p and rng.random() < fail_p:
                raise (TimeoutError if rng.random() < 0.5 else RuntimeError)("injected")
            self.ok_calls += 1
            x = ind.vector
            s = sum(x)
            return [sum((v - 0.3 * j) ** 2 for v in x) + j * s for j in range(nobj)]

    return P()


def quiet():
    return contextlib.ExitStack()


def run_algorithm(kind, N, G, nparams, nobj, fail_p, rng, seed):
    random.seed(seed)
    import numpy as np
    np.random.seed(seed % (2 ** 32))
    p = make_problem(nparams, nobj, fail_p, rng, single_unconstrained=(nobj == 1))
    if kind == "nsga2":
        from artap.algorithm_NSGAII import NSGAII
        a = NSGAII(p)
    elif kind == "epsmoea":
        from artap.algorithm_genetic import EpsMOEA
        a = EpsMOEA(p)
    elif kind == "omopso":
        from artap.algorithm_swarm import OMOPSO
        a = OMOPSO(p)
    elif kind == "smpso":
        from artap.algorithm_swarm import SMPSO
        a = SMPSO(p)
    a.options["max_population_size"] = N
    a.options["max_population_number"] = G
    a.options["max_processes"] = 1
    with open(os.devnull, "w") as dn, contextlib.redirect_stdout(dn), contextlib.redirect_stderr(dn):
        a.run()
    return p


def check_run(ctx, kind, N, G, p, model_answer):
    evals, counts = model_answer.split("|")
    counts = [int(x) for x in counts.split(",")]
    if p.ok_calls != int(evals):
        return "%s N=%d G=%d: %d successful objective evaluations, the budget is %s" % (kind, N, G, p.ok_calls, evals)
    tags = {}
    for ind in p.individuals:
        tags.setdefault(ind.population_id, []).append(ind)
    for t, c in enumerate(counts):
        if len(tags.get(t, [])) != c:
            return "%s N=%d G=%d: generation %d records %d designs, expected %d" % (kind, N, G, t, len(tags.get(t, [])), c)
    extra = [t for t in tags if not (isinstance(t, int) and 0 <= t < len(counts))]
    if extra:
        return "%s N=%d G=%d: designs recorded under unexpected generation tags %r" % (kind, N, G, extra)
    if kind == "nsga2":
        for g in range(2, G + 1):
            vs = [tuple(i.vector) for i in tags[g]]
            if len(set(vs)) != len(vs):
                return "nsga2 N=%d G=%d: generation %d contains a repeated design" % (N, G, g)
        for g in range(1, G):
            prev, cur = tags[g], tags[g + 1]
            curv = {tuple(i.vector) for i in cur}
            dropped = [i for i in prev if tuple(i.vector) not in curv]
            for s in cur:
                for d in dropped:
                    if spec_pareto(d.costs_signed[:-1], s.costs_signed[:-1], d.costs_signed[-1], s.costs_signed[-1]) == 1:
                        return ("nsga2 N=%d G=%d: survivor %r (costs %r) of generation %d is dominated by dropped design %r (costs %r) "
                                "of generation %d" % (N, G, s.vector, s.costs_signed, g + 1, d.vector, d.costs_signed, g))
        if len(p.costs) == 1:
            best = [min(i.costs[0] for i in tags[g]) for g in range(1, G + 1)]
            for a, b in zip(best, best[1:]):
                if b > a:
                    return "nsga2 N=%d G=%d single objective: best recorded cost got worse: %r" % (N, G, best)
    return None


def scripted_generate(ctx, rng, N, pairs):
    """Run the real GeneticAlgorithm.generate with scripted variation; returns offspring vectors."""
    from artap.algorithm_NSGAII import NSGAII
    from artap.individual import Individual
    p = make_problem(len(pairs[0][0]), 1, 0, rng)
    a = NSGAII(p)
    a.options["max_population_size"] = N
    it = iter(pairs)

    class Sel:
        def select(self, parents):
            return parents[0]

    class Cross:
        def cross(self, v1, v2):
            c1, c2 = next(it)
            return list(c1), list(c2)

    class Mut:
        def mutate(self, v, other=None):
            return v
    a.selector, a.crossover, a.mutator = Sel(), Cross(), Mut()
    parents = [Individual([0.0] * len(pairs[0][0])) for _ in range(2)]
    try:
        offs = a.generate(parents)
    except StopIteration:
        return "dry"
    return [list(o.vector) for o in offs]


def accept_case(ctx, rng, n, m):
    """pop_acceptance on a random population; returns (request line, observed result vectors)."""
    from artap.individual import Individual
    from artap.operators import TournamentSelector
    sel = TournamentSelector([{"name": "a", "bounds": [0, 1]}])
    pool = [float(rng.randint(0, 3)) for _ in range(3)]
    pop = []
    for i in range(n):
        ind = Individual([float(rng.randint(0, 4)), float(rng.randint(0, 1))])
        if pop and rng.random() < 0.25:
            ind = Individual(list(rng.choice(pop).vector))      # a second individual with an equal design
        ind.costs_signed = [rng.choice(pool) for _ in range(m)] + [rng.choice([0, 0, 0, 1])]
        pop.append(ind)
    x = Individual([9.0, 9.0])
    x.costs_signed = [rng.choice(pool) for _ in range(m)] + [rng.choice([0, 0, 0, 1])]
    flags = [sel.dominance.compare(x.costs_signed, i.costs_signed) for i in pop]
    before = list(pop)
    picks = {"p1": 0, "p2": 0}
    real_choice = random.choice

    def choice(seq):
        c = seq[rng.randrange(len(seq))]
        if seq and isinstance(seq[0], int):
            picks["p1"] = list(seq).index(c)
        else:
            picks["p2"] = [id(o) for o in seq].index(id(c))
        return c
    random.choice = choice
    try:
        sel.pop_acceptance(pop, x)
    finally:
        random.choice = real_choice
    enc = lambda ind: [int(v) for v in ind.vector]
    line = "c09.accept %s|%s|%s|%d,%d" % (mat([enc(i) for i in before]), vec(flags), vec(enc(x)), picks["p1"], picks["p2"])
    return line, [enc(i) for i in pop], flags


def accept_steps_in_run(ctx, rng, N, G, seed):
    """A real EpsMOEA run on a plateau problem (many exactly tied costs); every acceptance step is recorded:
    (population before, textbook dominance flags of the offspring, random picks, population after)."""
    import artap.operators as ops
    from artap.problem import Problem
    from artap.algorithm_genetic import EpsMOEA
    steps = []
    orig = ops.Selector.pop_acceptance
    real_choice = random.choice

    def enc(ind):
        return [phi(v) for v in ind.vector]

    def recording(self, individuals, individual):
        before = list(individuals)
        flags = [spec_pareto(individual.costs_signed[:-1], i.costs_signed[:-1], individual.costs_signed[-1], i.costs_signed[-1])
                 for i in before]
        picks = {"p1": 0, "p2": 0}

        def choice(seq):
            c = real_choice(seq)
            if seq and isinstance(seq[0], int):
                picks["p1"] = list(seq).index(c)
            else:
                picks["p2"] = [id(o) for o in seq].index(id(c))
            return c
        random.choice = choice
        try:
            orig(self, individuals, individual)
        finally:
            random.choice = real_choice
        steps.append(("c09.accept %s|%s|%s|%d,%d" % (mat([enc(i) for i in before]), vec(flags), vec(enc(individual)),
                                                      picks["p1"], picks["p2"]),
                      [enc(i) for i in individuals], flags,
                      {"population_costs": [list(map(float, i.costs_signed[:-1])) for i in before],
                       "offspring_costs": list(map(float, individual.costs_signed[:-1]))}))

    class Plateau(Problem):
        def set(self, **kw):
            self.name = "plateau"
            self.parameters = [{"name": "a", "bounds": [0.0, 4.0]}, {"name": "b", "bounds": [0.0, 4.0]}]
            self.costs = [{"name": "f1", "criteria": "minimize"}, {"name": "f2", "criteria": "minimize"}]

        def evaluate(self, ind):
            return [float(int(ind.vector[0])), float(int(4.0 - ind.vector[0]) if ind.vector[1] > 1.0 else 4.0)]

    random.seed(seed)
    p = Plateau()
    a = EpsMOEA(p)
    a.options["max_population_size"] = N
    a.options["max_population_number"] = G
    ops.Selector.pop_acceptance = recording
    try:
        with open(os.devnull, "w") as dn, contextlib.redirect_stdout(dn), contextlib.redirect_stderr(dn):
            a.run()
    finally:
        ops.Selector.pop_acceptance = orig
    return steps


def run(ctx):
    rng = ctx.rng
    ctx.rule = ("real runs over a grid of (algorithm, N, G, dimension, objectives, fault probability); scripted generate "
                "calls with many repeated children; pop_acceptance on random populations with ties/duplicates; "
                "non-trivial = G >= 2 or injected faults (runs), a rejected duplicate (generate), a dominated/dominating "
                "offspring (accept); distinct = distinct configuration + seed / request line")
    ctx.assumptions += ["PSOGA is not covered (its swarm grows by two per generation; not claimed by the statement)"]
    # --- runs
    n_runs = 70 if ctx.quick else 600
    runs, lines = [], []
    for k in range(n_runs):
        kind = ["nsga2", "nsga2", "epsmoea", "omopso", "smpso"][k % 5]
        N = rng.choice([2, 3, 5, 8] if ctx.quick else [2, 3, 4, 5, 8, 13])
        G = rng.choice([1, 2, 3] if ctx.quick else [1, 2, 3, 6])
        nparams = rng.randint(1, 4)
        nobj = rng.choice([1, 2, 2, 3])
        fail_p = rng.choice([0, 0, 0.1, 0.3])
        seed = rng.randrange(10 ** 6)
        try:
            p = run_algorithm(kind, N, G, nparams, nobj, fail_p, rng, seed)
        except RuntimeError as e:
            if fail_p and "failures" in str(e):
                ctx.count("run_aborted_by_5_failures")   # allowed by C06: five consecutive failures propagate
                continue
            raise
        runs.append((kind, N, G, p, dict(kind=kind, N=N, G=G, nparams=nparams, nobj=nobj, fail_p=fail_p, seed=seed)))
        lines.append(("c09.nsga2 %d|%d" if kind == "nsga2" else "c09.steady %d|%d") % (N, G))
        ctx.count("run_" + kind)
        if fail_p:
            ctx.count("runs_with_faults")
            ctx.count("failed_calls", p.all_calls - p.ok_calls)
    answers = ctx.lean(lines)
    for (kind, N, G, p, cfg), ans in zip(runs, answers):
        ctx.case(("run", tuple(sorted(cfg.items()))), nontrivial=(G >= 2 or cfg["fail_p"] > 0),
                 sample={"run": cfg, "evaluations": p.ok_calls, "recorded": len(p.individuals)})
        err = check_run(ctx, kind, N, G, p, ans)
        if err:
            ctx.fail("run-bookkeeping", err + " (config %r)" % cfg, {"op": "run", "cfg": cfg, "error": err})
            break
    # --- generate
    n_gen = 400 if ctx.quick else 5000
    glines, gobs, gcases = [], [], []
    for _ in range(n_gen):
        N = rng.randint(2, 7)
        dim = rng.randint(1, 2)
        vals = [[float(rng.randint(0, 2)) for _ in range(dim)] for _ in range(rng.randint(2, 6))]
        pairs = [(rng.choice(vals), rng.choice(vals)) for _ in range(rng.randint(1, 6))]
        # make sure the oracle cannot run dry in most cases: append fresh distinct children
        if rng.random() < 0.85:
            pairs += [([10.0 + 2 * i] * dim, [11.0 + 2 * i] * dim) for i in range(N)]
        obs = scripted_generate(ctx, rng, N, pairs)
        flat = []
        for a, b in pairs:
            flat += [[int(v) for v in a], [int(v) for v in b]]
        glines.append("c09.generate %d|%s" % (N, mat(flat)))
        gobs.append(obs)
        gcases.append((N, pairs))
    ganswers = ctx.lean(glines)
    for (N, pairs), obs, ans, line in zip(gcases, gobs, ganswers, glines):
        o = "dry" if obs == "dry" else mat([[int(v) for v in r] for r in obs])
        dup = len({(tuple(a), tuple(b)) for a, b in pairs}) < len(pairs) or any(a == b for a, b in pairs)
        ctx.case(("gen", line), nontrivial=dup, sample={"generate": {"N": N, "children": pairs[:4], "offspring": obs if obs == "dry" else obs[:4]}})
        ctx.count("generate_dry" if obs == "dry" else "generate_ok")
        if o != ans:
            what = "GeneticAlgorithm.generate(N=%d) with scripted children %r returned %r, the model (exactly N pairwise unequal offspring, generate_size) gives %s" % (N, pairs, obs, ans)
            if obs != "dry" and (len(obs) != N or len({tuple(r) for r in obs}) != len(obs)):
                what += " -- the result does not have exactly N distinct designs"
            ctx.fail("generate", what, {"op": "generate", "N": N, "pairs": pairs, "observed": obs, "model": ans})
            break
    # --- pop_acceptance
    n_acc = 1500 if ctx.quick else 20000
    alines, aobs, aflags = [], [], []
    for _ in range(n_acc):
        line, obs, flags = accept_case(ctx, rng, rng.randint(1, 7), rng.randint(1, 3))
        alines.append(line)
        aobs.append(obs)
        aflags.append(flags)
    stream_accept_in_runs(ctx)
    if ctx.failures:
        return
    aans = ctx.lean(alines)
    for line, obs, flags, ans in zip(alines, aobs, aflags, aans):
        ctx.case(("acc", line), nontrivial=(1 in flags or 2 in flags), sample={"accept": line})
        ctx.count("accept_dominates" if 1 in flags else ("accept_rejected" if 2 in flags else "accept_neutral"))
        if mat(obs) != ans:
            ctx.fail("pop-acceptance", "pop_acceptance left population %s, the model (popAccept_cases) gives %s for request %s" % (mat(obs), ans, line),
                     {"op": "accept", "request": line, "observed": obs, "model": ans})
            break


def stream_accept_in_runs(ctx):
    rng = ctx.rng
    steps = []
    for _ in range(6 if ctx.quick else 60):
        steps += accept_steps_in_run(ctx, rng, rng.choice([3, 4, 6]), rng.choice([2, 3]), rng.randrange(10 ** 6))
    ans = ctx.lean([s[0] for s in steps])
    for (line, after, flags, info), a in zip(steps, ans):
        tie = any(f == 0 and pc == info["offspring_costs"] for f, pc in zip(flags, info["population_costs"]))
        ctx.case(("acc-run", line), nontrivial=(1 in flags or 2 in flags or tie), sample={"accept_in_epsmoea_run": line})
        ctx.count("epsmoea_accept_" + ("dominates" if 1 in flags else "dominated" if 2 in flags else "tied" if tie else "neutral"))
        if mat(after) != a:
            kind = ("dominates members" if 1 in flags else "is dominated without dominating" if 2 in flags else
                    "neither dominates nor is dominated (costs %r, members %r)" % (info["offspring_costs"], info["population_costs"]))
            ctx.fail("pop-acceptance", "acceptance step inside an EpsMOEA run: the offspring %s; the population afterwards is %s, "
                     "the model (popAccept_cases) gives %s" % (kind, mat(after), a),
                     {"op": "accept", "request": line, "observed": after, "model": a, "costs": info})
            return


def replay(ctx, rp):
    c = rp["case"]
    rng = random.Random(1)
    if c.get("op") == "run":
        cfg = c["cfg"]
        p = run_algorithm(cfg["kind"], cfg["N"], cfg["G"], cfg["nparams"], cfg["nobj"], cfg["fail_p"], rng, cfg["seed"])
        ans = ctx.lean([("c09.nsga2 %d|%d" if cfg["kind"] == "nsga2" else "c09.steady %d|%d") % (cfg["N"], cfg["G"])])[0]
        err = check_run(ctx, cfg["kind"], cfg["N"], cfg["G"], p, ans)
        print(err or "run consistent with the model")
        return err is None
    if c.get("op") == "generate":
        obs = scripted_generate(ctx, rng, c["N"], [tuple(p) for p in c["pairs"]])
        print("offspring:", obs, " expected exactly", c["N"], "pairwise different designs:", c["model"])
        return obs != "dry" and len(obs) == c["N"] and len({tuple(r) for r in obs}) == len(obs) and mat([[int(v) for v in r] for r in obs]) == c["model"]
    print(rp.get("what"))
    return False
