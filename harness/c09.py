"""C09 — generation bookkeeping, evaluation budget, generational elitism, eps-MOEA acceptance.

Correspondence:
 * real NSGA-II / eps-MOEA / OMOPSO / SMPSO runs with a logging problem (optionally with injected transient
   failures) against the counters of the Lean model (nsga2Log / steadyLog, Props/C09.lean);
 * GeneticAlgorithm.generate with scripted children against Runs.generate;
 * Selector.pop_acceptance with recorded random picks against Runs.popAccept;
 * elitism / best-cost monotonicity evaluated on the recorded generations;
 * step by step (stream_steps): real NSGA-II and EpsMOEA runs are recorded (children delivered by the variation
   operators, offspring returned by generate, every objective call with its outcome, re-rolled vectors, recorded
   generations with front numbers and crowding distances, acceptance picks) and replayed through the composed run
   model of Model/Nsga2.lean: every iteration through nsga2Step from the recorded parents, every run through
   nsga2Run / epsMoeaRun from the initial vectors.  Vectors and costs travel as exact rationals.
"""
import contextlib
import collections
import fractions
import math
import os
import random

from .common import phi, vec, mat, rat, close
from .c01 import spec_pareto


def make_problem(nparams, nobj, fail_p, rng, single_unconstrained=False):
    from artap.problem import Problem

    class P(Problem):
        def set(self, **kw):
            self.name = "c09"
            self.parameters = [{"name": "x%d" % i, "bounds": [-1.5, 2.5]} for i in range(nparams)]
            crit = ["minimize", "maximize", "minimize"]
            self.costs = [{"name": "f%d" % j, "criteria": crit[j % 3] if not single_unconstrained else "minimize"} for j in range(nobj)]
            self.ok_calls = 0
            self.all_calls = 0
            self.trail = []          # (design object, call succeeded) in call order

        def evaluate(self, ind):
            self.all_calls += 1
            if fail_p and rng.random() < fail_p:
                self.trail.append((id(ind), False))
                raise (TimeoutError if rng.random() < 0.5 else RuntimeError)("injected")
            self.trail.append((id(ind), True))
            self.ok_calls += 1
            x = ind.vector
            s = sum(x)
            return [sum((v - 0.3 * j) ** 2 for v in x) + j * s for j in range(nobj)]

    return P()


def quiet():
    return contextlib.ExitStack()


def run_algorithm(kind, N, G, nparams, nobj, fail_p, rng, seed):
    random.seed(seed)
    import numpy as np
    np.random.seed(seed % (2 ** 32))
    p = make_problem(nparams, nobj, fail_p, rng, single_unconstrained=(nobj == 1))
    if kind == "nsga2":
        from artap.algorithm_NSGAII import NSGAII
        a = NSGAII(p)
    elif kind == "epsmoea":
        from artap.algorithm_genetic import EpsMOEA
        a = EpsMOEA(p)
    elif kind == "omopso":
        from artap.algorithm_swarm import OMOPSO
        a = OMOPSO(p)
    elif kind == "smpso":
        from artap.algorithm_swarm import SMPSO
        a = SMPSO(p)
    a.options["max_population_size"] = N
    a.options["max_population_number"] = G
    a.options["max_processes"] = 1
    try:
        with open(os.devnull, "w") as dn, contextlib.redirect_stdout(dn), contextlib.redirect_stderr(dn):
            a.run()
    except RuntimeError as e:
        e.problem = p
        raise
    return p


def abort_is_legitimate(p):
    """'To many failures' may end a run only after one design failed five times in a row (C06)."""
    last = p.trail[-5:]
    return len(last) == 5 and all(not ok for _, ok in last) and len({k for k, _ in last}) == 1


def check_run(ctx, kind, N, G, p, model_answer):
    evals, counts = model_answer.split("|")
    counts = [int(x) for x in counts.split(",")]
    if p.ok_calls != int(evals):
        return "%s N=%d G=%d: %d successful objective evaluations, the budget is %s" % (kind, N, G, p.ok_calls, evals)
    tags = {}
    for ind in p.individuals:
        tags.setdefault(ind.population_id, []).append(ind)
    for t, c in enumerate(counts):
        if len(tags.get(t, [])) != c:
            return "%s N=%d G=%d: generation %d records %d designs, expected %d" % (kind, N, G, t, len(tags.get(t, [])), c)
    extra = [t for t in tags if not (isinstance(t, int) and 0 <= t < len(counts))]
    if extra:
        return "%s N=%d G=%d: designs recorded under unexpected generation tags %r" % (kind, N, G, extra)
    if kind == "nsga2":
        for g in range(2, G + 1):
            vs = [tuple(i.vector) for i in tags[g]]
            if len(set(vs)) != len(vs):
                return "nsga2 N=%d G=%d: generation %d contains a repeated design" % (N, G, g)
        for g in range(1, G):
            prev, cur = tags[g], tags[g + 1]
            curv = {tuple(i.vector) for i in cur}
            dropped = [i for i in prev if tuple(i.vector) not in curv]
            for s in cur:
                for d in dropped:
                    if spec_pareto(d.costs_signed[:-1], s.costs_signed[:-1], d.costs_signed[-1], s.costs_signed[-1]) == 1:
                        return ("nsga2 N=%d G=%d: survivor %r (costs %r) of generation %d is dominated by dropped design %r (costs %r) "
                                "of generation %d" % (N, G, s.vector, s.costs_signed, g + 1, d.vector, d.costs_signed, g))
        if len(p.costs) == 1:
            best = [min(i.costs[0] for i in tags[g]) for g in range(1, G + 1)]
            for a, b in zip(best, best[1:]):
                if b > a:
                    return "nsga2 N=%d G=%d single objective: best recorded cost got worse: %r" % (N, G, best)
    return None


class ScriptDry(Exception):
    """the scripted variation operators have no more children to hand out"""


def scripted_generate(ctx, rng, N, pairs):
    """Run the real GeneticAlgorithm.generate with scripted variation; returns offspring vectors."""
    from artap.algorithm_NSGAII import NSGAII
    from artap.individual import Individual
    p = make_problem(len(pairs[0][0]), 1, 0, rng)
    a = NSGAII(p)
    a.options["max_population_size"] = N
    it = iter(pairs)

    class Sel:
        def select(self, parents):
            return parents[0]

    class Cross:
        def cross(self, v1, v2):
            try:
                c1, c2 = next(it)
            except StopIteration:
                raise ScriptDry()          # (a StopIteration would turn into RuntimeError inside a generator-based generate)
            return list(c1), list(c2)

    class Mut:
        def mutate(self, v, other=None):
            return v
    a.selector, a.crossover, a.mutator = Sel(), Cross(), Mut()
    parents = [Individual([0.0] * len(pairs[0][0])) for _ in range(2)]
    try:
        offs = a.generate(parents)
    except ScriptDry:
        return "dry"
    return [list(o.vector) for o in offs]


def removed_design(before, after, x, key):
    """The design that left the population in this acceptance step, judged by designs and not by positions or object
    identity (None: nobody left / the sizes do not fit - the model's answer then differs anyway)."""
    kb = collections.Counter(key(i) for i in before)
    ka = collections.Counter(key(i) for i in after)
    if ka[key(x)] > 0:
        ka[key(x)] -= 1
    diff = list((kb - ka).elements())
    return diff[0] if len(diff) == 1 and len(before) == len(after) else None


def picks_for(order, flags, gone, key):
    """Oracle picks (pick1 into the list of dominated members, pick2 into the population) under which the model's
    popAccept lets the design `gone` leave `order`; how the implementation draws its random member is not observed.
    If no pick can explain the step (a member left that the rule does not allow to leave) the picks stay (0, 0) and the
    model's answer differs from what was observed."""
    if gone is None:
        return 0, 0
    cands = [i for i, o in enumerate(order) if key(o) == gone]
    dom = [i for i, f in enumerate(flags) if f == 1]
    if dom:
        hit = [c for c in cands if c in dom]
        return (dom.index(hit[0]) if hit else 0), 0
    return 0, (cands[0] if cands else 0)


def model_accept(order, flags, x, p1, p2, key):
    """python mirror of Runs.popAccept (only used to carry the model's list order from step to step)"""
    dom = [i for i, f in enumerate(flags) if f == 1]
    if dom:
        return order[:dom[p1 % len(dom)]] + order[dom[p1 % len(dom)] + 1:] + [x]
    if 2 in flags or not order:
        return list(order)
    v = key(order[p2 % len(order)])
    j = next(i for i, o in enumerate(order) if key(o) == v)
    return order[:j] + order[j + 1:] + [x]


def accept_case(ctx, rng, n, m):
    """pop_acceptance on a random population; returns (request line, observed result vectors)."""
    from artap.individual import Individual
    from artap.operators import TournamentSelector
    sel = TournamentSelector([{"name": "a", "bounds": [0, 1]}])
    pool = [float(rng.randint(0, 3)) for _ in range(3)]
    pop = []
    for i in range(n):
        ind = Individual([float(rng.randint(0, 4)), float(rng.randint(0, 1))])
        if pop and rng.random() < 0.25:
            ind = Individual(list(rng.choice(pop).vector))      # a second individual with an equal design
        ind.costs_signed = [rng.choice(pool) for _ in range(m)] + [rng.choice([0, 0, 0, 1])]
        pop.append(ind)
    x = Individual([9.0, 9.0])
    x.costs_signed = [rng.choice(pool) for _ in range(m)] + [rng.choice([0, 0, 0, 1])]
    flags = [sel.dominance.compare(x.costs_signed, i.costs_signed) for i in pop]
    before = list(pop)
    real_choice = random.choice

    def choice(seq):
        return seq[rng.randrange(len(seq))]
    random.choice = choice
    try:
        sel.pop_acceptance(pop, x)
    finally:
        random.choice = real_choice
    enc = lambda ind: [int(v) for v in ind.vector]
    key = lambda ind: tuple(enc(ind))
    p1, p2 = picks_for(before, flags, removed_design(before, pop, x, key), key)
    line = "c09.accept %s|%s|%s|%d,%d" % (mat([enc(i) for i in before]), vec(flags), vec(enc(x)), p1, p2)
    return line, [enc(i) for i in pop], flags


def accept_steps_in_run(ctx, rng, N, G, seed):
    """A real EpsMOEA run on a plateau problem (many exactly tied costs); every acceptance step is recorded:
    (population before, textbook dominance flags of the offspring, random picks, population after)."""
    import artap.operators as ops
    from artap.problem import Problem
    from artap.algorithm_genetic import EpsMOEA
    steps = []
    orig = ops.Selector.pop_acceptance
    real_choice = random.choice

    def enc(ind):
        return [phi(v) for v in ind.vector]

    def recording(self, individuals, individual):
        before = list(individuals)
        flags = [spec_pareto(individual.costs_signed[:-1], i.costs_signed[:-1], individual.costs_signed[-1], i.costs_signed[-1])
                 for i in before]
        orig(self, individuals, individual)
        key = lambda ind: tuple(enc(ind))
        p1, p2 = picks_for(before, flags, removed_design(before, list(individuals), individual, key), key)
        steps.append(("c09.accept %s|%s|%s|%d,%d" % (mat([enc(i) for i in before]), vec(flags), vec(enc(individual)), p1, p2),
                      [enc(i) for i in individuals], flags,
                      {"population_costs": [list(map(float, i.costs_signed[:-1])) for i in before],
                       "offspring_costs": list(map(float, individual.costs_signed[:-1]))}))

    class Plateau(Problem):
        def set(self, **kw):
            self.name = "plateau"
            self.parameters = [{"name": "a", "bounds": [0.0, 4.0]}, {"name": "b", "bounds": [0.0, 4.0]}]
            self.costs = [{"name": "f1", "criteria": "minimize"}, {"name": "f2", "criteria": "minimize"}]

        def evaluate(self, ind):
            return [float(int(ind.vector[0])), float(int(4.0 - ind.vector[0]) if ind.vector[1] > 1.0 else 4.0)]

    random.seed(seed)
    p = Plateau()
    a = EpsMOEA(p)
    a.options["max_population_size"] = N
    a.options["max_population_number"] = G
    ops.Selector.pop_acceptance = recording
    try:
        with open(os.devnull, "w") as dn, contextlib.redirect_stdout(dn), contextlib.redirect_stderr(dn):
            a.run()
    finally:
        ops.Selector.pop_acceptance = orig
    return steps


# ----------------------------------------------------------------------------- step-by-step replay (Model/Nsga2.lean)

Fr = fractions.Fraction


def step_problem(kind, nparams, nobj, fail_p, seed):
    """Logging problem: every objective call is recorded as (individual object, vector, outcome kind, costs)."""
    from artap.problem import Problem
    frng = random.Random(seed * 7919 + 13)

    class SP(Problem):
        def set(self, **kw):
            self.name = "c09s"
            lo, hi = (0.0, 4.0) if kind == "plateau" else (-1.5, 2.5)
            self.parameters = [{"name": "x%d" % i, "bounds": [lo, hi]} for i in range(nparams)]
            crit = ["minimize", "maximize", "minimize"]
            self.costs = [{"name": "f%d" % j, "criteria": "minimize" if nobj == 1 else crit[j % 3]} for j in range(nobj)]
            self.calls = []

        def evaluate_inequality_constraints(self, x):
            if kind == "constrained":
                return [x[0] - 0.8, -2.5 - sum(x)]
            return []

        def evaluate(self, ind):
            v = tuple(float(t) for t in ind.vector)
            if fail_p and frng.random() < fail_p:
                k = "t" if frng.random() < 0.5 else "r"
                self.calls.append((ind, v, k, None))
                raise (TimeoutError if k == "t" else RuntimeError)("injected")
            x = ind.vector
            if kind == "plateau":
                c = [float(int(x[0])), float(int(4.0 - x[0])) if x[-1] > 1.0 else 4.0, float(int(x[-1]))][:nobj]
            else:
                s = sum(x)
                c = [sum((t - 0.3 * j) ** 2 for t in x) + j * s for j in range(nobj)]
                if kind == "offset":
                    # large cost values on a 1e-4 grid: designs that differ by 1e-4 .. 1e-2 at magnitude 1e7 (relative 1e-11 .. 1e-9)
                    # are different costs - dominance, ranking and elitism must treat them as such
                    c = [1e7 + round(0.02 * t, 4) for t in c]
            self.calls.append((ind, v, "o", list(c)))
            return c

    return SP()


def record_run(cfg):
    """Run the real algorithm; record what the variation operators delivered, what generate returned, every
    acceptance pick; the objective log and the recorded generations stay on the problem."""
    import numpy as np
    import artap.algorithm_genetic as ga
    import artap.operators as ops
    algo, N, G, seed = cfg["algo"], cfg["N"], cfg["G"], cfg["seed"]
    random.seed(seed)
    np.random.seed(seed % (2 ** 32))
    p = step_problem(cfg["kind"], cfg["nparams"], cfg["nobj"], cfg["fail_p"], seed)
    if algo == "nsga2":
        from artap.algorithm_NSGAII import NSGAII
        a = NSGAII(p)
    else:
        a = ga.EpsMOEA(p)
    a.options["max_population_size"] = N
    a.options["max_population_number"] = G
    a.options["max_processes"] = 1
    if cfg.get("lowvar"):
        a.options["prob_cross"] = 0.3
        a.options["prob_mutation"] = 0.15
    gens, accepts, popref = [], [], {}
    orig_generate = ga.GeneticAlgorithm.generate
    orig_accept = ops.Selector.pop_acceptance
    real_choice = random.choice

    def generate(self, parents, *args, **kw):
        rec = {"parents": list(parents), "children": [], "log_pos": len(p.calls)}
        mut = getattr(self, "mutator", None)
        if mut is not None:
            orig_mut = mut.mutate

            def spy(*a_, **k_):
                v = orig_mut(*a_, **k_)
                rec["children"].append([float(t) for t in v])
                return v
            mut.mutate = spy
        try:
            offs = orig_generate(self, parents, *args, **kw)
        finally:
            if mut is not None:
                del mut.mutate
        rec["offspring"] = list(offs)
        gens.append(rec)
        return offs

    def accept(self, individuals, individual):
        before = list(individuals)
        orig_accept(self, individuals, individual)
        accepts.append((individual, before, list(individuals)))
        popref["pop"] = individuals

    ga.GeneticAlgorithm.generate = generate
    ops.Selector.pop_acceptance = accept
    try:
        with open(os.devnull, "w") as dn, contextlib.redirect_stdout(dn), contextlib.redirect_stderr(dn):
            a.run()
    finally:
        ga.GeneticAlgorithm.generate = orig_generate
        ops.Selector.pop_acceptance = orig_accept
    return {"cfg": cfg, "p": p, "a": a, "gens": gens, "accepts": accepts, "pop": popref.get("pop")}


def rvec(v):
    return ",".join(rat(float(t)) for t in v)


def table_of(p):
    """Pure part of the objective: vector -> costs (and constraint values) for every vector that was ever called."""
    tab = {}
    for _, v, k, c in p.calls:
        if k == "o":
            tab[v] = c
        else:
            tab.setdefault(v, None)
    ents = []
    for v, c in tab.items():
        g = [float(t) for t in p.evaluate_inequality_constraints(list(v))]
        ents.append("%s:%s:%s" % (rvec(v), rvec(c) if c is not None else "", rvec(g)))
    return "#".join(ents)


def calls_by_object(p):
    by = {}
    for ind, v, k, c in p.calls:
        by.setdefault(id(ind), []).append((v, k))
    return by


def spec_of(by, obj):
    cs = by.get(id(obj), [])
    vecs = [v for v, _ in cs] or [tuple(float(t) for t in obj.vector)]
    return "7:%s:%s" % (",".join(k for _, k in cs), ";".join(rvec(v) for v in vecs))


def children_of(rec):
    ch = rec["children"]
    if not ch or len(ch) % 2:
        # the variation operators could not be observed: any children that make generate return these offspring
        ch = [[float(t) for t in o_vec] for o_vec in rec["first_vecs"]]
        if len(ch) % 2:
            ch = ch + [ch[-1]]
    return ";".join(rvec(v) for v in ch)


def signs_of(p):
    return ",".join(str(int(s)) for s in p.signs)


def parse_crowd(t):
    return math.inf if t == "inf" else float(Fr(t))


def prepare(rr):
    """Derived data of a recorded run shared by the step and run requests."""
    p, gens = rr["p"], rr["gens"]
    by = calls_by_object(p)
    rr["by"] = by
    rr["table"] = table_of(p)
    for rec in gens:
        # vector of every offspring when generate returned it = vector of its first objective call (or its present one)
        rec["first_vecs"] = [(by[id(o)][0][0] if id(o) in by else tuple(float(t) for t in o.vector)) for o in rec["offspring"]]
    first = gens[0]["log_pos"] if gens else len(p.calls)
    init, seen = [], set()
    for ind, v, k, c in p.calls[:first]:
        if id(ind) not in seen:
            seen.add(id(ind))
            init.append(ind)
    rr["init"] = init
    rr["init_vecs"] = [by[id(o)][0][0] for o in init]


def nsga2_step_request(rr, it, order=None):
    """Request line of iteration `it` and the merged positions of the recorded survivors."""
    cfg, p, rec = rr["cfg"], rr["p"], rr["gens"][it]
    offs, parents = rec["offspring"], rec["parents"]
    surv = [i for i in p.individuals if i.population_id == it + 2]
    pos, used = [], set()
    for sv in surv:
        j = next((k for k, o in enumerate(offs) if o is sv), None)
        if j is None:
            tv = tuple(sv.vector)
            j = next((len(offs) + k for k, pr in enumerate(parents)
                      if tuple(pr.vector) == tv and (len(offs) + k) not in used), None)
        if j is None:
            return None, None, surv, ("step-member", "NSGA-II %s, iteration it=%d: the recorded design %r of generation %d is neither an "
                                      "offspring of this iteration nor a copy of one of its parents" % (cfg, it, list(sv.vector), it + 2))
        used.add(j)
        pos.append(j)
    merged = [tuple(o.vector) for o in offs] + [tuple(pr.vector) for pr in parents]
    if order is None:
        kept = {merged[j] for j in pos}
        last = {}
        for j, v in enumerate(merged):
            if v not in kept:
                last[v] = j
        order = pos + sorted(last.values())
    specs = "#".join(spec_of(rr["by"], o) for o in offs)
    pars = "#".join("%s:%s:%d" % (rvec(pr.vector), rvec(pr.costs), int(pr.costs_signed[-1])) for pr in parents)
    line = "c09.nsga2step %d|%d|%s|%s|%s|%s|%s|%s" % (cfg["N"], it, signs_of(p), rr["table"], specs, pars,
                                                     children_of(rec), vec(order))
    return line, pos, surv, None


def worst_key_order(rr, it, pos, fronts, crowds):
    """set() oracle: survivors first, then of every other design the copy with the worst (front, crowding) key."""
    rec = rr["gens"][it]
    merged = [tuple(o.vector) for o in rec["offspring"]] + [tuple(pr.vector) for pr in rec["parents"]]
    kept = {merged[j] for j in pos}
    worst = {}
    for j, v in enumerate(merged):
        if v in kept:
            continue
        kj = (fronts[j], -crowds[j])
        if v not in worst or kj > worst[v][0]:
            worst[v] = (kj, j)
    return pos + sorted(j for _, j in worst.values())


def crowd_close(a, b, cfg):
    """Comparison band for crowding distances.  The stored signed costs are the doubles nearest to the 7-decimal roundings
    (the model rounds exactly); at the magnitude 1e7 of the 'offset' problems one ulp is 2e-9, and a gap or range of
    1e-4 .. 1e-1 between such values turns it into up to 1e-4 relative error of gap / range."""
    return close(a, b, rel=1e-3 if cfg.get("kind") == "offset" else 1e-9)


def step_has_ties(rec):
    """Two members of the merged population share a value in some objective: crowding distances (and therefore the
    choice among equally ranked candidates) then depend on the order in which the population is held - which the
    property leaves open (C03 claims the interior formula only for fronts without tied objective values)."""
    members = list(rec["offspring"]) + list(rec["parents"])
    cols = {}
    for m in members:
        for j, c in enumerate(m.costs_signed[:-1]):
            cols.setdefault(j, []).append(float(c))
    return any(len(set(v)) < len(v) for v in cols.values())


def check_step_answer(rr, it, ans, pos, surv, final):
    """Compare one replayed iteration with the recorded one.  Returns None, a failure (key, what), or
    ("retry", order) when the set() oracle has to be rebuilt from the model's keys."""
    cfg, p, gens = rr["cfg"], rr["p"], rr["gens"]
    rec = gens[it]
    head = "NSGA-II %s, iteration it=%d: " % (cfg, it)
    if not ans.startswith("ok"):
        return ("step-" + ans.split()[0], head + "the real iteration completed, the composed model (nsga2Step) answers %r "
                "(raise = an exception / a de-duplication that the recorded survivors do not form; uncovered = the model "
                "evaluates a design the run never evaluated; dry = generate does not return with the recorded children)" % ans)
    f = ans[2:].split("|")
    r = [int(t) for t in f[0].split(",") if t.strip()]
    fronts = [int(t) for t in f[1].split(",")]
    crowds = [parse_crowd(t) for t in f[2].split(",")]
    okc, calls = int(f[3]), int(f[4])
    offv = f[5].split(";") if f[5] else []
    real_off = [rvec(o.vector) for o in rec["offspring"]]
    if sorted(offv) != sorted(real_off):      # the order of the offspring list is not part of the property
        return ("step-offspring", head + "generate + evaluation left the offspring vectors %r, the model (Runs.generate on the "
                "recorded children, then the evaluator model) gives %r" % ([list(o.vector) for o in rec["offspring"]], offv))
    end = gens[it + 1]["log_pos"] if it + 1 < len(gens) else len(p.calls)
    seg = p.calls[rec["log_pos"]:end]
    real_ok = sum(1 for c in seg if c[2] == "o")
    if real_ok != okc or len(seg) != calls:
        return ("step-evals", head + "%d successful / %d objective calls were made in this iteration, the model makes %d / %d "
                "(budget: exactly N = %d successful evaluations per iteration)" % (real_ok, len(seg), okc, calls, cfg["N"]))
    if r != pos:
        nmerged = len(fronts)
        if not final:
            return ("retry", worst_key_order(rr, it, pos, fronts, crowds))
        rk = sorted((s.features["front_number"], -s.features["crowding_distance"]) for s in surv)
        mk = sorted((fronts[j], -crowds[j]) for j in r if j < nmerged)
        if len(rk) == len(mk) and all(a[0] == b[0] and crowd_close(a[1], b[1], rr["cfg"]) for a, b in zip(rk, mk)):
            return ("near-tie", None)
        if step_has_ties(rec) and len(rk) == len(mk) and [a[0] for a in rk] == [b[0] for b in mk]:
            # tied objective values: which of the equally ranked candidates survive is not fixed by the property;
            # rank-first (same multiset of front numbers as the model's survivors) is what can be demanded
            return ("tie-break", None)
        mv = [list(rec["offspring"][j].vector) if j < len(rec["offspring"]) else list(rec["parents"][j - len(rec["offspring"])].vector)
              for j in r if j < nmerged]
        return ("step-survivors", head + "generation %d was recorded as %r (merged positions %r, keys (front, -crowding) %r); "
                "sorting + crowding + truncation of offspring and parent copies in the model keeps positions %r = %r (keys %r)"
                % (it + 2, [list(s.vector) for s in surv], pos, rk, r, mv, mk))
    for sv, j in zip(surv, pos):
        if sv.features["front_number"] != fronts[j]:
            return ("step-front", head + "survivor %r carries front number %r, the model's sorting of the merged population "
                    "gives %d" % (list(sv.vector), sv.features["front_number"], fronts[j]))
        if not crowd_close(float(sv.features["crowding_distance"]), crowds[j], rr["cfg"]) and not step_has_ties(rec):
            return ("step-crowding", head + "survivor %r carries crowding distance %r, the model gives %r" % (
                list(sv.vector), sv.features["crowding_distance"], crowds[j]))
    return None


def nsga2_run_request(rr, orders):
    cfg, p, gens = rr["cfg"], rr["p"], rr["gens"]
    N, G = cfg["N"], cfg["G"]
    specs = ["7::"] * (N + 2 * N * max(G - 1, 0))
    for i, o in enumerate(rr["init"][:N]):
        specs[i] = spec_of(rr["by"], o)
    for it, rec in enumerate(gens):
        for j, o in enumerate(rec["offspring"][:N]):
            k = N + 2 * N * it + j
            if k < len(specs):
                specs[k] = spec_of(rr["by"], o)
    steps = "@".join("%s!%s" % (children_of(rec), vec(orders[it])) for it, rec in enumerate(gens))
    return "c09.nsga2run %d|%d|%s|%s|%s|%s|%s" % (N, G, signs_of(p), rr["table"], "#".join(specs),
                                                  ";".join(rvec(v) for v in rr["init_vecs"]), steps)


def check_nsga2_run_answer(rr, ans):
    cfg, p = rr["cfg"], rr["p"]
    head = "NSGA-II %s: " % (cfg,)
    if not ans.startswith("ok"):
        return ("run-" + ans.split()[0], head + "the real run completed, the composed model (nsga2Run) answers %r" % ans)
    f = ans[2:].split("|")
    evals, calls = int(f[0]), int(f[1])
    real_ok = sum(1 for c in p.calls if c[2] == "o")
    if evals != real_ok or calls != len(p.calls):
        return ("run-evals", head + "%d successful / %d objective calls, the model run makes %d / %d (budget N*G = %d)" % (
            real_ok, len(p.calls), evals, calls, cfg["N"] * cfg["G"]))
    recs = [t.split(":") for t in f[2].split(";")] if f[2] else []
    if len(recs) != len(p.individuals):
        return ("run-recorded", head + "%d designs were recorded, the model run records %d" % (len(p.individuals), len(recs)))
    # generational loop: the parents handed to generate() in iteration it are exactly the designs recorded as
    # generation it+1 (a population that is not carried over breaks elitism between consecutive generations)
    for it, rec in enumerate(rr["gens"]):
        prev = sorted(rvec(i.vector) for i in p.individuals if i.population_id == it + 1)
        par = sorted(rvec(q.vector) for q in rec["parents"])
        if prev != par:
            return ("run-population", head + "iteration %d bred from %d parents that are not the %d designs recorded as generation %d" % (
                it, len(par), len(prev), it + 1))
    tied_run = any(step_has_ties(rec) for rec in rr["gens"])
    for k, (ind, m) in enumerate(zip(p.individuals, recs)):
        if str(ind.population_id) != m[0]:
            return ("run-tag", head + "recorded design #%d carries generation tag %r, the model run tags it %s" % (k, ind.population_id, m[0]))
        if tied_run and (rvec(ind.vector) != m[1] or ind.features["front_number"] != int(m[2])
                         or not crowd_close(float(ind.features["crowding_distance"]), parse_crowd(m[3]), rr["cfg"])):
            # tied objective values somewhere in the run: another (equally valid) tie-break makes the whole-run replay
            # follow different survivors from there on; the per-iteration replays from the recorded parents decide
            return ("diverged", None)
        if rvec(ind.vector) != m[1]:
            return ("run-design", head + "recorded design #%d (generation %r) is %r, the model run records %r there" % (
                k, ind.population_id, list(ind.vector), [float(Fr(t)) for t in m[1].split(",")]))
        if ind.features["front_number"] != int(m[2]) or not crowd_close(float(ind.features["crowding_distance"]), parse_crowd(m[3]), rr["cfg"]):
            return ("run-features", head + "recorded design #%d (generation %r) has front number %r / crowding distance %r, the model "
                    "run %s / %s" % (k, ind.population_id, ind.features["front_number"], ind.features["crowding_distance"], m[2], m[3]))
    return None


def eps_run_request(rr):
    cfg, p, gens = rr["cfg"], rr["p"], rr["gens"]
    N, G = cfg["N"], cfg["G"]
    specs = ["7::"] * (N + N * G)
    for i, o in enumerate(rr["init"][:N]):
        specs[i] = spec_of(rr["by"], o)
    # the model keeps its own list order (delete + append); the implementation may keep another one (e.g. overwrite
    # the seat): the member that left each step is identified by its design and translated into the model's order
    key = lambda ind: tuple(float(t) for t in ind.vector)
    flag = lambda x, m: spec_pareto(x.costs_signed[:-1], m.costs_signed[:-1], x.costs_signed[-1], m.costs_signed[-1])
    order = list(rr["init"][:N])
    picks_of = {}
    for x, before, after in rr["accepts"]:
        flags = [flag(x, m) for m in order]
        p1, p2 = picks_for(order, flags, removed_design(before, after, x, key), key)
        picks_of[id(x)] = (p1, p2)
        order = model_accept(order, flags, x, p1, p2, key)
    steps = []
    for it, rec in enumerate(gens):
        for j, o in enumerate(rec["offspring"][:N]):
            k = N + N * it + j
            if k < len(specs):
                specs[k] = spec_of(rr["by"], o)
        steps.append("%s!%s" % (children_of(rec), ";".join("%d,%d" % tuple(picks_of.get(id(o), (0, 0))) for o in rec["offspring"])))
    eps = rr["a"].options["epsilons"]
    eps = list(eps) if hasattr(eps, "__getitem__") else [eps]
    return "c09.epsrun %d|%d|%s|%s|%s|%s|%s|%s" % (N, G, signs_of(p), rvec(eps), rr["table"], "#".join(specs),
                                                    ";".join(rvec(v) for v in rr["init_vecs"]), "@".join(steps))


def check_eps_run_answer(rr, ans):
    cfg, p = rr["cfg"], rr["p"]
    head = "EpsMOEA %s: " % (cfg,)
    if not ans.startswith("ok"):
        return ("eps-" + ans.split()[0], head + "the real run completed, the composed model (epsMoeaRun) answers %r" % ans)
    f = ans[2:].split("|")
    evals, calls = int(f[0]), int(f[1])
    real_ok = sum(1 for c in p.calls if c[2] == "o")
    if evals != real_ok or calls != len(p.calls):
        return ("eps-evals", head + "%d successful / %d objective calls, the model run makes %d / %d (budget N*(G+1) = %d)" % (
            real_ok, len(p.calls), evals, calls, cfg["N"] * (cfg["G"] + 1)))
    recs = [t.split(":") for t in f[2].split(";")] if f[2] else []
    if len(recs) != len(p.individuals):
        return ("eps-recorded", head + "%d designs were recorded, the model run records %d" % (len(p.individuals), len(recs)))
    if sorted((str(i.population_id), rvec(i.vector)) for i in p.individuals) == sorted((m[0], m[1]) for m in recs):
        recs = []        # same designs under the same tags; the order inside a generation is not part of the property
    for k, (ind, m) in enumerate(zip(p.individuals, recs)):
        if str(ind.population_id) != m[0] or rvec(ind.vector) != m[1]:
            return ("eps-record", head + "recorded design #%d is %r with generation tag %r, the model run records %r with tag %s" % (
                k, list(ind.vector), ind.population_id, [float(Fr(t)) for t in m[1].split(",")], m[0]))
    pop = rr["pop"] if rr["pop"] is not None else []
    mpop = f[3].split(";") if f[3] else []
    if len(pop) != cfg["N"] and cfg["G"] > 0:
        return ("eps-population-size", head + "the working population ends with %d members, N = %d" % (len(pop), cfg["N"]))
    if sorted(rvec(i.vector) for i in pop) != sorted(mpop) and cfg["G"] > 0:
        return ("eps-population", head + "the working population ends as %r (size %d), the model's acceptance steps leave %d members: %r" % (
            [list(i.vector) for i in pop], len(pop), len(mpop), [[float(Fr(t)) for t in r.split(",")] for r in mpop]))
    arch = sorted(tuple(float(t) for t in i.costs_signed[:-1]) for i in rr["a"].archive._contents)
    march = sorted(tuple(float(Fr(t)) for t in r.split(",")) for r in f[4].split(";")) if f[4] else []
    if len(arch) != len(march) or any(len(a) != len(b) or not all(close(x, y) for x, y in zip(a, b)) for a, b in zip(arch, march)):
        return ("eps-archive", head + "the archive ends with signed costs %r, the model's archive with %r" % (arch, march))
    return None


def step_cfgs(ctx):
    rng = ctx.rng
    n2 = 22 if ctx.quick else 2500
    ne = 8 if ctx.quick else 800
    out = []
    for k in range(n2 + ne):
        algo = "nsga2" if k < n2 else "epsmoea"
        out.append({"algo": algo, "N": rng.choice([2, 3, 4, 5, 8] if ctx.quick else [2, 3, 4, 5, 8, 13]),
                    "G": rng.choice([1, 2, 3, 4] if algo == "nsga2" else [1, 2, 3]),
                    "nparams": rng.randint(1, 3), "nobj": rng.choice([1, 2, 2, 3]),
                    "kind": rng.choice(["smooth", "smooth", "plateau", "constrained", "offset"]),
                    "fail_p": rng.choice([0, 0, 0.15, 0.3]), "lowvar": rng.random() < 0.3, "seed": rng.randrange(10 ** 6)})
    return out


def record_or_skip(ctx, cfg):
    try:
        rr = record_run(cfg)
    except RuntimeError as e:
        if cfg["fail_p"] and "failures" in str(e):
            ctx.count("steps_run_aborted_by_5_failures")
            return None
        raise
    prepare(rr)
    return rr


def step_clauses(rr, it):
    """The clauses of the property evaluated directly on one observed iteration (for the report)."""
    cfg, p, rec = rr["cfg"], rr["p"], rr["gens"][it]
    surv = [i for i in p.individuals if i.population_id == it + 2]
    out = []
    if len(surv) != cfg["N"]:
        out.append("generation %d has %d designs instead of N = %d" % (it + 2, len(surv), cfg["N"]))
    vs = [tuple(i.vector) for i in surv]
    if len(set(vs)) != len(vs):
        out.append("generation %d contains a repeated design" % (it + 2))
    end = rr["gens"][it + 1]["log_pos"] if it + 1 < len(rr["gens"]) else len(p.calls)
    ok = sum(1 for c in p.calls[rec["log_pos"]:end] if c[2] == "o")
    if ok != cfg["N"]:
        out.append("%d successful evaluations in this iteration instead of N = %d" % (ok, cfg["N"]))
    dropped = [q for q in rec["parents"] if tuple(q.vector) not in set(vs)]
    for sv in surv:
        for d in dropped:
            if sv.costs_signed and d.costs_signed and spec_pareto(d.costs_signed[:-1], sv.costs_signed[:-1], d.costs_signed[-1], sv.costs_signed[-1]) == 1:
                out.append("survivor %r (signed costs %r) is dominated by the dropped design %r (signed costs %r) of generation %d"
                           % (list(sv.vector), sv.costs_signed, list(d.vector), d.costs_signed, it + 1))
                return out
    return out


def with_clauses(rr, res):
    """Append the violated clauses of the property to a step / run failure."""
    if rr["cfg"]["algo"] != "nsga2":
        return res
    cl = []
    for it in range(len(rr["gens"])):
        cl += ["iteration %d: %s" % (it, c) for c in step_clauses(rr, it)]
    if cl:
        return (res[0], res[1] + " -- clauses of the property violated by the observed run: " + "; ".join(cl[:4]))
    return res


def check_recorded(ctx, recs):
    """Replay recorded runs through the Lean model.  Returns the first failure (key, what, cfg) or None."""
    res = check_recorded_(ctx, recs)
    if res is None:
        return None
    rr = next(r for r in recs if r["cfg"] is res[2])
    return with_clauses(rr, res[:2]) + (res[2],)


def check_recorded_(ctx, recs):
    # pass 1: every NSGA-II iteration with the provisional set() oracle
    reqs = []
    for rr in recs:
        rr["orders"], rr["bad"] = {}, None
        if rr["cfg"]["algo"] != "nsga2":
            continue
        for it in range(len(rr["gens"])):
            line, pos, surv, err = nsga2_step_request(rr, it)
            if err:
                return err + (rr["cfg"],)
            reqs.append((rr, it, line, pos, surv))
    answers = ctx.lean([q[2] for q in reqs])
    retry = []
    for (rr, it, line, pos, surv), ans in zip(reqs, answers):
        res = check_step_answer(rr, it, ans, pos, surv, final=False)
        if res is not None and res[0] == "retry":
            line2, _, _, _ = nsga2_step_request(rr, it, order=res[1])
            retry.append((rr, it, line2, pos, surv))
            rr["orders"][it] = res[1]
            ctx.count("steps_oracle_rebuilt_from_model_keys")
            continue
        if res is not None:
            return res + (rr["cfg"],)
        rr["orders"][it] = [int(t) for t in line.rsplit("|", 1)[1].split(",")]
        register_step(ctx, rr, it, pos, ans)
    # pass 2: rebuilt oracles, then whole runs
    runs = []
    for rr in recs:
        if rr["cfg"]["algo"] == "nsga2":
            runs.append((rr, nsga2_run_request(rr, rr["orders"])))
        else:
            runs.append((rr, eps_run_request(rr)))
    answers = ctx.lean([q[2] for q in retry] + [q[1] for q in runs])
    for (rr, it, line, pos, surv), ans in zip(retry, answers):
        res = check_step_answer(rr, it, ans, pos, surv, final=True)
        if res is not None and res[0] == "near-tie":
            ctx.count("steps_floating_point_near_tie_at_the_cut")
            rr["bad"] = "near-tie"
            continue
        if res is not None and res[0] == "tie-break":
            ctx.count("steps_tied_values_other_tie_break")
            rr["bad"] = "tie-break"
            continue
        if res is not None:
            return res + (rr["cfg"],)
        register_step(ctx, rr, it, pos, ans)
    for (rr, line), ans in zip(runs, answers[len(retry):]):
        cfg = rr["cfg"]
        if rr["bad"]:
            continue
        res = check_nsga2_run_answer(rr, ans) if cfg["algo"] == "nsga2" else check_eps_run_answer(rr, ans)
        if res is not None and res[0] == "diverged":
            ctx.count("steps_run_replay_diverged_on_ties")
            continue
        if res is not None:
            return res + (cfg,)
        faults = sum(1 for c in rr["p"].calls if c[2] != "o")
        ctx.case(("steps-run", tuple(sorted(cfg.items()))), nontrivial=(cfg["G"] >= 2 or faults > 0),
                 sample={"replayed_run": cfg, "objective_calls": len(rr["p"].calls), "failed_calls": faults,
                         "recorded": len(rr["p"].individuals)})
        ctx.count("steps_run_" + cfg["algo"])
        ctx.count("steps_run_kind_" + cfg["kind"])
        ctx.count("steps_failed_calls", faults)
        if cfg["algo"] != "nsga2":
            ctx.count("steps_epsmoea_acceptance_steps", len(rr["accepts"]))
    return None


def register_step(ctx, rr, it, pos, ans):
    rec = rr["gens"][it]
    n_off = len(rec["offspring"])
    merged = [tuple(o.vector) for o in rec["offspring"]] + [tuple(pr.vector) for pr in rec["parents"]]
    dup = len(set(merged)) < len(merged)
    fronts = ans[2:].split("|")[1].split(",")
    ctx.case(("steps-it", tuple(sorted(rr["cfg"].items())), it), nontrivial=True)
    ctx.count("steps_iterations")
    ctx.count("steps_survivors_offspring", sum(1 for j in pos if j < n_off))
    ctx.count("steps_survivors_parent_copies", sum(1 for j in pos if j >= n_off))
    if dup:
        ctx.count("steps_iterations_with_equal_designs_in_merged_population")
    if len(set(fronts)) > 1:
        ctx.count("steps_iterations_with_several_fronts")
    if len(rec["children"]) >= 2 and len(rec["children"]) % 2 == 0:
        ctx.count("steps_children_observed_at_mutator")
        if len(rec["children"]) > 2 * ((n_off + 1) // 2):
            ctx.count("steps_iterations_where_generate_rejected_children")


def stream_steps(ctx):
    recs = []
    for cfg in step_cfgs(ctx):
        rr = record_or_skip(ctx, cfg)
        if rr is not None:
            recs.append(rr)
    err = check_recorded(ctx, recs)
    if err is not None:
        key, what, cfg = err
        ctx.fail(key, what, {"op": "steps", "cfg": cfg, "error": what})


def run(ctx):
    rng = ctx.rng
    ctx.rule = ("real runs over a grid of (algorithm, N, G, dimension, objectives, fault probability); scripted generate "
                "calls with many repeated children; pop_acceptance on random populations with ties/duplicates; "
                "non-trivial = G >= 2 or injected faults (runs), a rejected duplicate (generate), a dominated/dominating "
                "offspring (accept); distinct = distinct configuration + seed / request line")
    ctx.assumptions += ["PSOGA is not covered (its swarm grows by two per generation; not claimed by the statement)"]
    only = os.environ.get("C09_STREAMS", "")      # debugging aid: "steps" runs the step-by-step replay stream alone
    if only == "steps":
        stream_steps(ctx)
        return
    # --- runs
    n_runs = 70 if ctx.quick else 600
    runs, lines = [], []
    for k in range(n_runs):
        kind = ["nsga2", "nsga2", "epsmoea", "omopso", "smpso"][k % 5]
        N = rng.choice([2, 3, 5, 8] if ctx.quick else [2, 3, 4, 5, 8, 13])
        G = rng.choice([1, 2, 3] if ctx.quick else [1, 2, 3, 6])
        nparams = rng.randint(1, 4)
        nobj = rng.choice([1, 2, 2, 3])
        fail_p = rng.choice([0, 0, 0.1, 0.3])
        if k % 5 in (2, 3, 4) and k % 4 == 0:
            # a long run of a steady-state / swarm algorithm with isolated transient failures: every design has its own five
            # attempts, whatever happened to its ancestors
            N, G, fail_p = rng.choice([2, 3]), rng.choice([20, 30]), 0.2
        seed = rng.randrange(10 ** 6)
        try:
            p = run_algorithm(kind, N, G, nparams, nobj, fail_p, rng, seed)
        except RuntimeError as e:
            if fail_p and "failures" in str(e):
                pp = getattr(e, "problem", None)
                if pp is not None and not abort_is_legitimate(pp):
                    cfg = dict(kind=kind, N=N, G=G, nparams=nparams, nobj=nobj, fail_p=fail_p, seed=seed)
                    ctx.fail("run-aborted", "%s N=%d G=%d: the run was aborted with %r after %d objective calls although no design had failed "
                             "five times in a row (last calls: %s)" % (kind, N, G, str(e), pp.all_calls,
                                                                      "".join("o" if ok else "x" for _, ok in pp.trail[-12:])),
                             {"op": "run", "cfg": cfg, "error": "aborted"})
                    break
                ctx.count("run_aborted_by_5_failures")   # allowed by C06: five consecutive failures propagate
                continue
            raise
        except (ArithmeticError, IndexError, KeyError, ValueError, TypeError, AttributeError) as e:
            cfg = dict(kind=kind, N=N, G=G, nparams=nparams, nobj=nobj, fail_p=fail_p, seed=seed)
            ctx.fail("run-raised", "%s N=%d G=%d: run() raised %s: %s - the generations 0..G (1..G) were not delivered" % (
                kind, N, G, type(e).__name__, e), {"op": "run", "cfg": cfg, "error": "raised"})
            break
        runs.append((kind, N, G, p, dict(kind=kind, N=N, G=G, nparams=nparams, nobj=nobj, fail_p=fail_p, seed=seed)))
        lines.append(("c09.nsga2 %d|%d" if kind == "nsga2" else "c09.steady %d|%d") % (N, G))
        ctx.count("run_" + kind)
        if fail_p:
            ctx.count("runs_with_faults")
            ctx.count("failed_calls", p.all_calls - p.ok_calls)
    answers = ctx.lean(lines)
    for (kind, N, G, p, cfg), ans in zip(runs, answers):
        ctx.case(("run", tuple(sorted(cfg.items()))), nontrivial=(G >= 2 or cfg["fail_p"] > 0),
                 sample={"run": cfg, "evaluations": p.ok_calls, "recorded": len(p.individuals)})
        err = check_run(ctx, kind, N, G, p, ans)
        if err:
            ctx.fail("run-bookkeeping", err + " (config %r)" % cfg, {"op": "run", "cfg": cfg, "error": err})
            break
    # --- step-by-step replay through the composed run model
    if not ctx.failures:
        stream_steps(ctx)
    # --- generate
    n_gen = 400 if ctx.quick else 5000
    glines, gobs, gcases = [], [], []
    for _ in range(n_gen):
        N = rng.randint(2, 7)
        dim = rng.randint(1, 2)
        vals = [[float(rng.randint(0, 2)) for _ in range(dim)] for _ in range(rng.randint(2, 6))]
        pairs = [(rng.choice(vals), rng.choice(vals)) for _ in range(rng.randint(1, 6))]
        # make sure the oracle cannot run dry in most cases: append fresh distinct children
        if rng.random() < 0.85:
            pairs += [([10.0 + 2 * i] * dim, [11.0 + 2 * i] * dim) for i in range(N)]
        obs = scripted_generate(ctx, rng, N, pairs)
        flat = []
        for a, b in pairs:
            flat += [[int(v) for v in a], [int(v) for v in b]]
        glines.append("c09.generate %d|%s" % (N, mat(flat)))
        gobs.append(obs)
        gcases.append((N, pairs))
    ganswers = ctx.lean(glines)
    for (N, pairs), obs, ans, line in zip(gcases, gobs, ganswers, glines):
        o = "dry" if obs == "dry" else mat([[int(v) for v in r] for r in obs])
        dup = len({(tuple(a), tuple(b)) for a, b in pairs}) < len(pairs) or any(a == b for a, b in pairs)
        ctx.case(("gen", line), nontrivial=dup, sample={"generate": {"N": N, "children": pairs[:4], "offspring": obs if obs == "dry" else obs[:4]}})
        ctx.count("generate_dry" if obs == "dry" else "generate_ok")
        if o != ans:
            what = "GeneticAlgorithm.generate(N=%d) with scripted children %r returned %r, the model (exactly N pairwise unequal offspring, generate_size) gives %s" % (N, pairs, obs, ans)
            if obs != "dry" and (len(obs) != N or len({tuple(r) for r in obs}) != len(obs)):
                what += " -- the result does not have exactly N distinct designs"
            ctx.fail("generate", what, {"op": "generate", "N": N, "pairs": pairs, "observed": obs, "model": ans})
            break
    # --- pop_acceptance
    n_acc = 1500 if ctx.quick else 20000
    alines, aobs, aflags = [], [], []
    for _ in range(n_acc):
        line, obs, flags = accept_case(ctx, rng, rng.randint(1, 7), rng.randint(1, 3))
        alines.append(line)
        aobs.append(obs)
        aflags.append(flags)
    stream_accept_in_runs(ctx)
    if ctx.failures:
        return
    aans = ctx.lean(alines)
    for line, obs, flags, ans in zip(alines, aobs, aflags, aans):
        ctx.case(("acc", line), nontrivial=(1 in flags or 2 in flags), sample={"accept": line})
        ctx.count("accept_dominates" if 1 in flags else ("accept_rejected" if 2 in flags else "accept_neutral"))
        if sorted(mat(obs).split(";")) != sorted(ans.split(";")):      # the population as a multiset of designs
            ctx.fail("pop-acceptance", "pop_acceptance left population %s, the model (popAccept_cases) gives %s for request %s" % (mat(obs), ans, line),
                     {"op": "accept", "request": line, "observed": obs, "model": ans})
            break


def stream_accept_in_runs(ctx):
    rng = ctx.rng
    steps = []
    for _ in range(6 if ctx.quick else 60):
        steps += accept_steps_in_run(ctx, rng, rng.choice([3, 4, 6]), rng.choice([2, 3]), rng.randrange(10 ** 6))
    ans = ctx.lean([s[0] for s in steps])
    for (line, after, flags, info), a in zip(steps, ans):
        tie = any(f == 0 and pc == info["offspring_costs"] for f, pc in zip(flags, info["population_costs"]))
        ctx.case(("acc-run", line), nontrivial=(1 in flags or 2 in flags or tie), sample={"accept_in_epsmoea_run": line})
        ctx.count("epsmoea_accept_" + ("dominates" if 1 in flags else "dominated" if 2 in flags else "tied" if tie else "neutral"))
        if sorted(mat(after).split(";")) != sorted(a.split(";")):
            kind = ("dominates members" if 1 in flags else "is dominated without dominating" if 2 in flags else
                    "neither dominates nor is dominated (costs %r, members %r)" % (info["offspring_costs"], info["population_costs"]))
            ctx.fail("pop-acceptance", "acceptance step inside an EpsMOEA run: the offspring %s; the population afterwards is %s, "
                     "the model (popAccept_cases) gives %s" % (kind, mat(after), a),
                     {"op": "accept", "request": line, "observed": after, "model": a, "costs": info})
            return


def replay(ctx, rp):
    c = rp["case"]
    rng = random.Random(1)
    if c.get("op") == "run":
        cfg = c["cfg"]
        try:
            p = run_algorithm(cfg["kind"], cfg["N"], cfg["G"], cfg["nparams"], cfg["nobj"], cfg["fail_p"], rng, cfg["seed"])
        except RuntimeError as e:      # (the fault pattern is drawn from the run's generator: it differs from the recorded run)
            pp = getattr(e, "problem", None)
            legit = pp is not None and abort_is_legitimate(pp)
            print("the run was aborted with %r; one design failed five times in a row: %s" % (str(e), legit))
            return legit
        except Exception as e:         # noqa
            print("run() raised %s: %s" % (type(e).__name__, e))
            return False
        ans = ctx.lean([("c09.nsga2 %d|%d" if cfg["kind"] == "nsga2" else "c09.steady %d|%d") % (cfg["N"], cfg["G"])])[0]
        err = check_run(ctx, cfg["kind"], cfg["N"], cfg["G"], p, ans)
        print(err or "run consistent with the model")
        return err is None
    if c.get("op") == "generate":
        obs = scripted_generate(ctx, rng, c["N"], [tuple(p) for p in c["pairs"]])
        print("offspring:", obs, " expected exactly", c["N"], "pairwise different designs:", c["model"])
        return obs != "dry" and len(obs) == c["N"] and len({tuple(r) for r in obs}) == len(obs) and mat([[int(v) for v in r] for r in obs]) == c["model"]
    if c.get("op") == "steps":
        rr = record_or_skip(ctx, c["cfg"])
        if rr is None:
            print("the run was aborted by five consecutive failures (allowed by C06)")
            return True
        err = check_recorded(ctx, [rr])
        print(err[1] if err else "the recorded run is reproduced step by step by the composed model")
        return err is None
    print(rp.get("what"))
    return False
