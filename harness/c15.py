"""C15 — single-objective benchmarks: total on their box, optimum where and as documented.

Correspondence (regime R3): every `evaluate` of the 23 single-objective families of artap/benchmark_functions.py
and artap/benchmark_robust.py (the 21 of DESIGN.md plus Synthetic5D/Synthetic10D) against the Float interpretation of the one polymorphic definition in
lean/ArtapModel/Model/Bench.lean (the theorems of Props/C15.lean are about its real interpretation);
the declared box, `global_optimum`, `global_optimum_coords` and the optimisation direction are compared
with the model's constants for every dimension tested.  Relation R: one finite real returned, for Python
floats and for numpy scalars, |impl - model| <= 1e-9 (1 + |model|).

Property predicate P, evaluated on the implementation's own outputs: value at the documented coordinates
within 1e-3 of the documented optimum; no explored point better than the optimum by more than 1e-3.
For nine families (DENSE_SEARCH: the three with a numeric clause that is not proved, TESTED_ONLY, and six proved late) P is additionally driven by a
dense search on the implementation -- that part is a test, and is labelled as such in the evidence.
"""
import math
import numbers

from .common import bits, unbits

TOL = 1e-3            # precision of the documented constants (statement)
VAR_DIMS = [1, 2, 3, 5, 10, 30]

# name -> (module, dimensions to construct with, fixed number of parameters or None)
FAMILIES = {
    "Rosenbrock": ("bf", VAR_DIMS, None), "Ackley": ("bf", VAR_DIMS, None), "Sphere": ("bf", VAR_DIMS, None),
    "Schwefel": ("bf", VAR_DIMS, None), "ModifiedEasom": ("bf", VAR_DIMS, None),
    "EqualityConstr": ("bf", VAR_DIMS, None), "Griewank": ("bf", VAR_DIMS, None),
    "Michaelwicz": ("bf", [2, 5, 10], None), "Perm": ("bf", VAR_DIMS, None), "Rastrigin": ("bf", VAR_DIMS, None),
    "SixHump": ("bf", [2], 2), "Schubert": ("bf", [2], 2), "Zakharov": ("bf", VAR_DIMS, None),
    "XinSheYang": ("bf", VAR_DIMS, None), "XinSheYang2": ("bf", VAR_DIMS, None),
    "XinSheYang3": ("bf", VAR_DIMS, None), "Booth": ("bf", [2], 2), "GramacyLee": ("bf", [1], 1),
    "AlpineFunction": ("bf", VAR_DIMS, None), "Synthetic1D": ("br", [1], 1), "Synthetic2D": ("br", [2], 2),
    "Synthetic5D": ("br", [5], 5), "Synthetic10D": ("br", [10], 10),     # not in DESIGN's 21; in scope of the statement
}
# numeric optimum not proved in Lean: dense search on the implementation instead (a test)
# at least one numeric clause not proved in Lean (Schwefel, Michalewicz: the bound clause; Schubert: both): a TEST
TESTED_ONLY = ["Schwefel", "Michaelwicz", "Schubert"]
# families driven by the dense search on the implementation (the three above and the six whose numeric clauses were
# proved late with rounded constants / interval arithmetic: Proofs/SixHump.lean, Proofs/BenchNumeric.lean)
DENSE_SEARCH = ["Schwefel", "Michaelwicz", "Schubert", "GramacyLee", "SixHump", "Synthetic1D", "Synthetic2D",
                "Synthetic5D", "Synthetic10D"]
SEPARABLE = ["Schwefel", "Michaelwicz"]     # sum of one-dimensional terms: coordinate-wise line search is global
MICHALEWICZ_REJECTED = [1, 3, 4, 6, 30]     # the constructor must raise ValueError here (model: optimum = none)

_cache = {}


def close(a, b):
    """Relation R of DESIGN.md C15: |impl - model| <= 1e-9 (1 + |model|)."""
    if a == b:
        return True
    if not (math.isfinite(a) and math.isfinite(b)):
        return False
    return abs(a - b) <= 1e-9 * (1.0 + abs(b))


def modules():
    from artap import benchmark_functions as bf, benchmark_robust as br
    return {"bf": bf, "br": br}


def problem(name, n):
    """The real problem object, constructed the way the algorithms' tests do."""
    key = (name, n)
    if key not in _cache:
        cls = getattr(modules()[FAMILIES[name][0]], name)
        _cache[key] = cls(**{"dimension": n})
    return _cache[key]


class Draws:
    """Records the `uniform(0, 1)` draws of XinSheYang3.evaluate (instrumentation from the harness
    process, DESIGN.md 2.6): the draws are an *input* of the model (DESIGN.md 3.2)."""

    def __init__(self):
        self.seen = []

    def __enter__(self):
        import random
        bf = modules()["bf"]
        self.bf, self.random = bf, random
        self.old_bf = getattr(bf, "uniform", None)
        self.old_rand = random.uniform
        inner = self.old_rand

        def rec(a, b):
            v = inner(a, b)
            self.seen.append((a, b, v))
            return v
        if self.old_bf is not None:
            bf.uniform = rec
        random.uniform = rec
        return self

    def __exit__(self, *a):
        if self.old_bf is not None:
            self.bf.uniform = self.old_bf
        self.random.uniform = self.old_rand


def call(p, xs, kind):
    """-> ('ok', float value, type name) | ('raise', message) | ('shape', message)."""
    import numpy as np
    from artap.individual import Individual
    vec = [float(x) for x in xs] if kind == "float" else [np.float64(x) for x in xs]
    try:
        with np.errstate(all="ignore"):
            out = p.evaluate(Individual(vec))
    except Exception as e:  # the property says "returns"; an exception is a failing input
        return ("raise", "%s: %s" % (type(e).__name__, e))
    if not isinstance(out, (list, tuple)) or len(out) != 1:
        return ("shape", "evaluate returned %r, not one cost" % (out,))
    v = out[0]
    if isinstance(v, bool) or not isinstance(v, numbers.Real) or getattr(v, "ndim", 0) != 0:
        return ("shape", "cost %r of type %s is not a real scalar" % (v, type(v).__name__))
    return ("ok", float(v), type(v).__name__)


# --------------------------------------------------------------------------- meta data

def parse_meta(ans):
    b, o, c, d = ans.split("|")
    box = [tuple(unbits(t) for t in pr.split(",")) for pr in b.split(";")] if b else []
    opt = None if o == "raise" else unbits(o)
    coords = None if c == "N" else ([] if c == "E" else [unbits(t) for t in c.split(",")])
    return {"box": box, "opt": opt, "coords": coords, "minimised": d == "min"}


def impl_meta(name, n):
    """-> dict like parse_meta, or {'raise': msg} when the constructor raises."""
    try:
        p = problem(name, n)
    except Exception as e:
        return {"raise": "%s: %s" % (type(e).__name__, e)}
    box = [(float(q["bounds"][0]), float(q["bounds"][1])) for q in p.parameters]
    coords = getattr(p, "global_optimum_coords", None)
    crit = [c.get("criteria") for c in p.costs]
    return {"box": box, "opt": float(p.global_optimum), "coords": None if coords is None else [float(c) for c in coords],
            "minimised": crit == ["minimize"], "criteria": crit}


def meta_mismatch(im, mo):
    """First difference between the implementation's declared data and the model's constants."""
    if "raise" in im:
        return None if mo["opt"] is None else "constructor raised %s but the dimension is supported" % im["raise"]
    if mo["opt"] is None:
        return "constructor accepted a dimension for which no optimum is documented (ValueError expected)"
    if len(im["box"]) != len(mo["box"]):
        return "number of parameters %d, documented %d" % (len(im["box"]), len(mo["box"]))
    for i, (a, b) in enumerate(zip(im["box"], mo["box"])):
        if not (close(a[0], b[0]) and close(a[1], b[1])):
            return "bounds of parameter %d are %r, documented box %r" % (i, a, b)
    if im["criteria"] not in (["minimize"], ["maximize"]):
        return "costs criteria %r is not one minimised/maximised objective" % (im["criteria"],)
    if im["minimised"] != mo["minimised"]:
        return "optimisation direction %r differs from the documented one" % (im["criteria"],)
    if not close(im["opt"], mo["opt"]):
        return "global_optimum %r, documented %r" % (im["opt"], mo["opt"])
    if (im["coords"] is None) != (mo["coords"] is None):
        return "global_optimum_coords %r, documented %r" % (im["coords"], mo["coords"])
    if im["coords"] is not None:
        if len(im["coords"]) != len(mo["coords"]) or not all(close(a, b) for a, b in zip(im["coords"], mo["coords"])):
            return "global_optimum_coords %r, documented %r" % (im["coords"], mo["coords"])
        for i, (c, (lo, hi)) in enumerate(zip(im["coords"], im["box"])):
            if not (lo <= c <= hi):
                return "documented optimum coordinate %d = %r lies outside the box %r" % (i, c, (lo, hi))
    return None


# --------------------------------------------------------------------------- generators

def clip(x, lo, hi):
    return lo if x < lo else hi if x > hi else x


def gen_points(rng, name, meta, scale):
    """Points of the box: uniform, on the bounds, around the documented optimum, structured."""
    box, coords = meta["box"], meta["coords"]
    n = len(box)
    pts = []

    def uni():
        return [rng.uniform(lo, hi) for lo, hi in box]
    for _ in range(6 * scale):
        pts.append(("uniform", uni()))
    for _ in range(3 * scale):                     # faces / corners of the box
        mode = rng.random()
        x = []
        for lo, hi in box:
            r = rng.random()
            x.append(lo if r < 0.4 else hi if r < 0.8 else (rng.uniform(lo, hi) if mode < 0.6 else rng.choice([lo, hi])))
        pts.append(("bounds", x))
    pts.append(("bounds", [lo for lo, hi in box]))
    pts.append(("bounds", [hi for lo, hi in box]))
    if coords is not None:
        pts.append(("optimum", list(coords)))
        for _ in range(4 * scale):                 # neighbourhood of the documented optimum
            s = rng.choice([1e-9, 1e-6, 1e-3, 1e-2, 0.05, 0.2]) * rng.random()
            x = [clip(c + s * (hi - lo) * rng.gauss(0, 1), lo, hi) for c, (lo, hi) in zip(coords, box)]
            if rng.random() < 0.3:                 # only a few coordinates moved
                x = [xi if rng.random() < 0.3 else c for xi, c in zip(x, coords)]
            pts.append(("near-optimum", x))
    for _ in range(2 * scale):                     # tiny non-zero coordinates (powers and products underflow silently)
        x = uni()
        hit = False
        for i, (lo, hi) in enumerate(box):
            if rng.random() < 0.6:
                t = rng.choice([1.0, -1.0]) * 10.0 ** -rng.choice([20, 31, 80, 154, 170, 200, 300, 308, 320])
                if lo <= t <= hi:
                    x[i] = t
                    hit = True
        if hit:
            pts.append(("tiny", x))
    for _ in range(scale):                         # lattice points (cos(2 pi k) = 1, integer ridges)
        pts.append(("lattice", [clip(float(rng.randint(math.ceil(lo), math.floor(hi))), lo, hi) if math.ceil(lo) <= math.floor(hi)
                                else rng.uniform(lo, hi) for lo, hi in box]))
    if name == "EqualityConstr":                   # the constrained branch: sum x^2 = 1 (and just off it)
        for _ in range(5 * scale):
            u = [rng.random() ** rng.choice([1, 1, 3]) + 1e-3 for _ in range(n)]
            if rng.random() < 0.4:                 # close to the optimum direction (1,...,1)/sqrt(n)
                u = [1.0 + rng.choice([1e-6, 1e-3, 0.05, 0.3]) * rng.gauss(0, 1) for _ in range(n)]
                u = [abs(t) + 1e-6 for t in u]
            if n > 1 and rng.random() < 0.15:
                u[rng.randrange(n)] = 0.0
            nrm = math.sqrt(sum(t * t for t in u))
            d = rng.choice([0.0, 0.0, 0.0, 1e-12, -1e-12, 1e-11, -1e-11, 1e-6, -1e-6, 1e-4])
            x = [clip(t / nrm * (1.0 + d), 0.0, 1.0) for t in u]
            pts.append(("sphere" if abs(d) < 1e-10 else "off-sphere", x))
    return pts


# --------------------------------------------------------------------------- reporting

def better(v, opt, minimised):
    """v beats the documented optimum by more than the documented precision."""
    return v < opt - TOL if minimised else v > opt + TOL


def fail_key(name, clause, n=None, kind=None):
    if name == "EqualityConstr" and clause in ("raise", "bound"):
        return "equalityconstr"
    if name == "ModifiedEasom" and clause == "at-optimum" and n is not None and n % 2 == 1:
        return "modifiedeasom-odd-dimension"
    return "%s-%s" % (name.lower(), clause)


def point_case(name, n, x, kind, meta, model=None, eps=None, clause=None, declared=False):
    """`declared` = the optimum / direction below are the ones the implementation declared (replay re-reads them)."""
    return {"op": "point", "family": name, "dimension": n, "x": [float(t) for t in x], "kind": kind, "declared": declared,
            "model_bits": None if model is None else bits(model), "model": model, "eps": eps,
            "optimum": meta["opt"], "coords": meta["coords"], "minimised": meta["minimised"], "clause": clause}


def judge_point(name, n, x, kind, meta, res, model, at_coords):
    """-> (clause, sentence) of the first clause that fails at this point, or None."""
    if res[0] == "raise":
        return ("raise", "%s(dimension=%d).evaluate raised %s for the %s vector %r of its box" % (name, n, res[1], kind, x))
    if res[0] == "shape":
        return ("shape", "%s(dimension=%d).evaluate(%r as %s): %s" % (name, n, x, kind, res[1]))
    v = res[1]
    if not math.isfinite(v):
        return ("finite", "%s(dimension=%d).evaluate(%r as %s) = %r is not a finite real" % (name, n, x, kind, v))
    if at_coords and abs(v - meta["opt"]) > TOL:
        return ("at-optimum", "%s(dimension=%d) has the value %r at its documented optimum coordinates %r, documented optimum %r" % (
            name, n, v, x, meta["opt"]))
    if better(v, meta["opt"], meta["minimised"]):
        return ("bound", "%s(dimension=%d).evaluate(%r as %s) = %r is better than the documented %s %r" % (
            name, n, x, kind, v, "minimum" if meta["minimised"] else "maximum", meta["opt"]))
    if model is not None and not close(v, model):
        return ("formula", "%s(dimension=%d).evaluate(%r as %s) = %r, the modelled formula gives %r" % (name, n, x, kind, v, model))
    return None


# --------------------------------------------------------------------------- searches on the implementation

def objective(p, kind, sign):
    def f(x):
        r = call(p, x, kind)
        if r[0] != "ok" or not math.isfinite(r[1]):
            raise Found(x, r)
        return sign * r[1]
    return f


class Found(Exception):
    def __init__(self, x, res):
        self.x, self.res = list(x), res


def golden(f1, a, b, iters=60):
    g = (math.sqrt(5) - 1) / 2
    c, d = b - g * (b - a), a + g * (b - a)
    fc, fd = f1(c), f1(d)
    for _ in range(iters):
        if fc < fd:
            b, d, fd = d, c, fc
            c = b - g * (b - a)
            fc = f1(c)
        else:
            a, c, fc = c, d, fd
            d = a + g * (b - a)
            fd = f1(d)
        if b - a < 1e-12 * (1 + abs(a)):
            break
    return (c, fc) if fc < fd else (d, fd)


def line_search(f, x, k, lo, hi, grid, rng, top=3):
    """Dense global search along coordinate k (others fixed): jittered grid, then golden section in the best cells."""
    h = (hi - lo) / grid
    off = rng.random() * h
    ts = [lo, hi] + [clip(lo + off + i * h, lo, hi) for i in range(grid)]

    def f1(t):
        y = list(x)
        y[k] = t
        return f(y)
    vals = sorted((f1(t), t) for t in ts)
    best = vals[0]
    for fv, t in vals[:top]:
        cand = golden(f1, clip(t - h, lo, hi), clip(t + h, lo, hi))
        if cand[1] < best[0]:
            best = (cand[1], cand[0])
    return best[1], best[0]


def compass(f, x, fx, box, step_frac=0.05, min_frac=1e-9, budget=4000):
    """Pattern search from x (minimisation of f) inside the box."""
    x = list(x)
    n = len(x)
    frac = step_frac
    used = 0
    while frac > min_frac and used < budget:
        improved = False
        for k in range(n):
            w = box[k][1] - box[k][0]
            for d in (frac * w, -frac * w):
                y = list(x)
                y[k] = clip(x[k] + d, box[k][0], box[k][1])
                if y[k] == x[k]:
                    continue
                fy = f(y)
                used += 1
                if fy < fx:
                    x, fx, improved = y, fy, True
        if not improved:
            frac /= 2
    return x, fx


def dense_search(ctx, name, n, meta, kind="float"):
    """Best value of the implementation found on its box (minimisation convention applied by `sign`).
    -> (x_best, value_best, evaluations).  A test of the bound clause, not a proof."""
    rng = ctx.rng
    p = problem(name, n)
    sign = 1.0 if meta["minimised"] else -1.0
    box = meta["box"]
    evals = [0]
    raw = objective(p, kind, sign)

    def f(x):
        evals[0] += 1
        return raw(x)
    starts = []
    q = ctx.quick
    if n == 1:
        grid = 20000 if q else 400000
        t, ft = line_search(f, [box[0][0]], 0, box[0][0], box[0][1], grid, rng, top=6)
        starts.append(([t], ft))
    elif n == 2 and name not in SEPARABLE:
        g = 250 if q else 1500
        hx, hy = (box[0][1] - box[0][0]) / g, (box[1][1] - box[1][0]) / g
        ox, oy = rng.random() * hx, rng.random() * hy
        cells = []
        for i in range(g):
            xi = clip(box[0][0] + ox + i * hx, *box[0])
            for j in range(g):
                y = [xi, clip(box[1][0] + oy + j * hy, *box[1])]
                cells.append((f(y), y))
        cells.sort(key=lambda c: c[0])
        for fv, y in cells[:8 if q else 40]:
            starts.append((y, fv))
    elif name in SEPARABLE:                     # separable sums: cyclic global line searches are global
        grid = (600 if n <= 10 else 250) if q else 20000
        x = [rng.uniform(lo, hi) for lo, hi in box]
        for _cycle in range(1 if (q and n > 10) else 2):
            for k in range(n):
                x[k], fx = line_search(f, x, k, box[k][0], box[k][1], grid, rng, top=4)
        starts.append((x, f(x)))
    else:                                       # sums of Gaussians in 5/10 dimensions: multi-start line searches (heuristic)
        grid = 120 if q else 2000
        seeds = [[rng.uniform(lo, hi) for lo, hi in box] for _ in range(3 if q else 40)]
        rob = getattr(p, "robust_optimum_coords", None)
        if rob is not None and len(rob) == n:
            seeds.append([clip(float(t), lo, hi) for t, (lo, hi) in zip(rob, box)])
        for x in seeds:
            for k in range(n):
                x[k], fx = line_search(f, x, k, box[k][0], box[k][1], grid, rng, top=2)
            starts.append((x, f(x)))
    if meta["coords"] is not None:
        starts.append((list(meta["coords"]), f(list(meta["coords"]))))
    best = None
    for x, fx in starts:
        x, fx = compass(f, x, fx, box, step_frac=0.01, budget=1500 if q else 20000)
        if best is None or fx < best[1]:
            best = (x, fx)
    return best[0], sign * best[1], evals[0]


def quick_descent(ctx, name, n, meta, kind, starts, budget):
    """Cheap failing-input search for any family: pattern search from a few starts."""
    p = problem(name, n)
    sign = 1.0 if meta["minimised"] else -1.0
    f = objective(p, kind, sign)
    best = None
    for x in starts:
        fx = f(x)
        x, fx = compass(f, x, fx, meta["box"], step_frac=0.1, min_frac=1e-7, budget=budget)
        if best is None or fx < best[1]:
            best = (x, fx)
    return best[0], sign * best[1]


def own_data_search(ctx, name, n, im):
    """Declared data differ from the documented constants: evaluate the property with the data the code now
    declares (its own box, optimum, coordinates, direction).  -> (x, clause, sentence) or None."""
    if "raise" in im or not im["box"] or any(not (lo < hi) for lo, hi in im["box"]):
        return None
    if im["criteria"] not in (["minimize"], ["maximize"]):
        return None
    try:
        p = problem(name, n)
        if im["coords"] is not None and len(im["coords"]) == len(im["box"]):
            for kind in ("float", "numpy"):
                v = judge_point(name, n, im["coords"], kind, im, call(p, im["coords"], kind), None, True)
                if v is not None:
                    return (im["coords"], v[0], v[1])
        try:
            if len(im["box"]) <= 2 or name in SEPARABLE:
                bx, bv, _ = dense_search(ctx, name, n, im)
            else:
                starts = [[ctx.rng.uniform(lo, hi) for lo, hi in im["box"]] for _ in range(3)]
                bx, bv = quick_descent(ctx, name, n, im, "float", starts, 1500)
        except Found as fnd:
            v = judge_point(name, n, fnd.x, "float", im, fnd.res, None, False)
            return (fnd.x, v[0], v[1])
        if better(bv, im["opt"], im["minimised"]):
            return (bx, "bound", "%s(dimension=%d).evaluate(%r) = %r is better than the declared %s %r" % (
                name, n, bx, bv, "minimum" if im["minimised"] else "maximum", im["opt"]))
    except Exception:
        return None
    return None


# --------------------------------------------------------------------------- main

def run(ctx):
    import random as pyrandom
    rng = ctx.rng
    pyrandom.seed(rng.getrandbits(64))      # XinSheYang3 draws: reproducible, and every draw is checked anyway
    ctx.rule = ("points of each family's declared box for every dimension in {1,2,3,5,10,30} (Michalewicz 2,5,10; fixed-arity "
                "families their own): uniform, faces/corners, the documented optimum and Gaussian neighbourhoods of it (1e-9..0.2 "
                "of the box width), integer lattice points, and for EqualityConstr points on / just off the unit sphere; each point "
                "is evaluated as Python floats and as numpy scalars; distinct = distinct (family, dimension, coordinate bits, kind); "
                "non-trivial = every point except the all-lower/all-upper corners")
    ctx.assumptions += [
        "libm/numpy sin, cos, exp, sqrt, pow approximate the real functions (regime R3); agreement with Lean's Float within 1e-9 (1+|v|) is tested, not proved",
        "finite-float clause is sampled (the real model has no overflow)",
        "TESTED by dense search on the implementation, not proved: the bound clause of Schwefel and Michaelwicz (their value clause "
        "is proved: Schwefel n <= 1000, Michalewicz n = 2) and both numeric clauses of Schubert",
        "XinSheYang3: the uniform(0,1) draws are recorded from the implementation and fed to the model; theorem holds for every draw in [0,1]",
        "concurrent stream: 4 threads evaluate different points on one problem object (switch interval 1e-6 s) and every value must equal "
        "the value of the point evaluated alone; a one-sided test - which interleavings occur is up to the interpreter",
    ]
    ctx.extra["tested_only"] = list(TESTED_ONLY)
    ctx.extra["tolerance_documented_constants"] = TOL
    scale = 20 if ctx.quick else 60

    # ---- 1. declared data against the model's constants
    combos = []
    for name, (_, dims, fixed) in FAMILIES.items():
        for n in dims:
            combos.append((name, n))
    extra_ctor = [("Michaelwicz", n) for n in MICHALEWICZ_REJECTED]
    fixed_alias = [(name, n) for name, (_, _, fixed) in FAMILIES.items() if fixed for n in (1, 3, 7)]
    all_meta = combos + extra_ctor + fixed_alias
    answers = ctx.lean(["c15.meta %s %d" % c for c in all_meta])
    metas = {}
    broken = set()
    for (name, n), ans in zip(all_meta, answers):
        mo = parse_meta(ans)
        im = impl_meta(name, n)
        ctx.case(("meta", name, n), True, sample=None)
        ctx.count("meta_checked")
        if "raise" in im:
            ctx.count("constructor_raises")
        why = meta_mismatch(im, mo)
        if why is not None:
            if name in broken:
                continue
            broken.add(name)
            found = own_data_search(ctx, name, n, im)      # does the property fail with the data the code now declares?
            if found is not None:
                x, clause, what = found
                ctx.fail(fail_key(name, clause, n), "%s(dimension=%d): %s; with the declared data: %s" % (name, n, why, what),
                         point_case(name, n, x, "float", im, None, None, clause, declared=True))
            else:
                ctx.fail(fail_key(name, "declared-data"), "%s(dimension=%d): %s; the theorems are about the documented constants "
                         "and no longer transfer" % (name, n, why),
                         {"op": "meta", "family": name, "dimension": n, "documented": mo, "why": why}, no_input=True)
            continue
        if (name, n) in combos:
            metas[(name, n)] = mo

    # Problems of one family in several dimensions live side by side (a study over the dimension): after the pass above
    # (ascending dimensions) a second set of objects is built in DESCENDING order and used from here on - an object must not
    # depend on which other instances of its class were constructed before or after it.
    for (name, n) in sorted(metas, key=lambda t: (t[0], -t[1])):
        try:
            cls = getattr(modules()[FAMILIES[name][0]], name)
            _cache[(name, n)] = cls(**{"dimension": n})
        except Exception:      # noqa  (constructor failures were judged above)
            pass

    # ---- 2. points: implementation (both kinds) vs Float model, property clauses on the implementation's values
    work = []       # (name, n, tag, x)
    for (name, n), mo in metas.items():
        sc = scale if n <= 10 else max(2, scale // 2)
        for tag, x in gen_points(rng, name, mo, sc):
            work.append((name, n, tag, x))
    lines, slots = [], []
    impl = []
    for (name, n, tag, x) in work:
        p = problem(name, n)
        if name == "XinSheYang3":
            per_kind, eps_used = [], []
            for kind in ("float", "numpy"):
                with Draws() as d:
                    per_kind.append(call(p, x, kind))
                eps_used.append([v for (a, b, v) in d.seen] if len(d.seen) == len(x) and all(a == 0 and b == 1 for a, b, _ in d.seen) else None)
            impl.append((per_kind, eps_used))
            for e in eps_used:
                if e is not None:
                    slots.append(len(lines))
                    lines.append("c15.xsy3 %s|%s" % (",".join(bits(t) for t in e), ",".join(bits(t) for t in x)))
                else:
                    slots.append(None)
            slots.append(len(lines))            # upper envelope: every draw equal to 1
            lines.append("c15.xsy3 %s|%s" % (",".join(bits(1.0) for _ in x), ",".join(bits(t) for t in x)))
        else:
            impl.append(([call(p, x, "float"), call(p, x, "numpy")], None))
            slots.append(len(lines))
            lines.append("c15.eval %s %s" % (name, ",".join(bits(t) for t in x)))
    answers = ctx.lean(lines)
    si = 0
    failed_families = set()
    disagree = {}
    for (name, n, tag, x), (per_kind, eps_used) in zip(work, impl):
        mo = metas[(name, n)]
        if name == "XinSheYang3":
            models = [None if slots[si + j] is None else unbits(answers[slots[si + j]]) for j in range(2)]
            upper = unbits(answers[slots[si + 2]])
            si += 3
        else:
            a = answers[slots[si]]
            si += 1
            models = [None if a == "raise" else unbits(a)] * 2
            upper = None
            if a == "raise":
                raise RuntimeError("model raises on a point of the box: %s %r" % (name, x))
        at_coords = tag == "optimum"
        for kind, res, model, j in zip(("float", "numpy"), per_kind, models, (0, 1)):
            corner = tag == "bounds" and (all(t == lo for t, (lo, hi) in zip(x, mo["box"])) or all(t == hi for t, (lo, hi) in zip(x, mo["box"])))
            ctx.case((name, n, tuple(bits(t) for t in x), kind), not corner,
                     sample={"family": name, "dimension": n, "kind": kind, "stream": tag, "x": x[:4], "impl": res[1] if res[0] == "ok" else res[1],
                             "model": model} if (len(ctx.samples) < 6 and rng.random() < 0.002) else None)
            ctx.count("stream_" + tag)
            ctx.count("dim_%d" % n)
            ctx.count("kind_" + kind)
            if res[0] == "ok":
                ctx.count("result_type_" + res[2])
            if name in failed_families:
                continue
            verdict = judge_point(name, n, x, kind, mo, res, model, at_coords)
            if verdict is None and name == "XinSheYang3":
                v = res[1]
                if model is None:
                    ctx.count("xsy3_draws_unobserved")
                if not (-1e-12 <= v <= upper * (1 + 1e-9) + 1e-12):
                    verdict = ("formula", "XinSheYang3(dimension=%d).evaluate(%r) = %r outside the envelope [0, %r] admitted for draws in [0,1]" % (n, x, v, upper))
            if verdict is None:
                continue
            clause, what = verdict
            e = eps_used[j] if eps_used else None
            if clause == "formula":
                disagree.setdefault(name, (n, x, kind, model, e, what))
                continue
            failed_families.add(name)
            ctx.fail(fail_key(name, clause, n, kind), what, point_case(name, n, x, kind, mo, model, e, clause))
        # python floats and numpy scalars must tell the same story
        if name != "XinSheYang3" and name not in failed_families and per_kind[0][0] == "ok" and per_kind[1][0] == "ok":
            if not close(per_kind[0][1], per_kind[1][1]):
                failed_families.add(name)
                ctx.fail(fail_key(name, "float-vs-numpy"), "%s(dimension=%d).evaluate(%r): %r for Python floats, %r for numpy scalars" % (
                    name, n, x, per_kind[0][1], per_kind[1][1]), point_case(name, n, x, "float", mo, models[0], None, "float-vs-numpy"))

    # ---- 3. a broken tie: look for an input on which the property itself fails (DESIGN.md 2.5)
    for name, (n, x, kind, model, e, what) in disagree.items():
        if name in failed_families:
            continue
        failed_families.add(name)
        found = None
        for (nm, nn), mo in metas.items():
            if nm != name or found:
                continue
            try:
                starts = [[rng.uniform(lo, hi) for lo, hi in mo["box"]] for _ in range(3)]
                if mo["coords"] is not None:
                    starts.append(list(mo["coords"]))
                bx, bv = quick_descent(ctx, name, nn, mo, "float", starts, 1500 if nn <= 10 else 400)
                if name in DENSE_SEARCH and nn <= 10 and not better(bv, mo["opt"], mo["minimised"]):
                    bx, bv, _ = dense_search(ctx, name, nn, mo)
                    if not better(bv, mo["opt"], mo["minimised"]) and abs(bv - mo["opt"]) > TOL:
                        found = (nn, bx, "optimum-not-attained", "%s(dimension=%d): the documented optimum %r is not attained on the box; best "
                                 "value found by dense search %r at %r" % (name, nn, mo["opt"], bv, bx), mo)
                if better(bv, mo["opt"], mo["minimised"]):
                    found = (nn, bx, "bound", "%s(dimension=%d).evaluate(%r) = %r is better than the documented optimum %r" % (name, nn, bx, bv, mo["opt"]), mo)
            except Found as fnd:
                v = judge_point(name, nn, fnd.x, "float", mo, fnd.res, None, False)
                found = (nn, fnd.x, v[0], v[1], mo)
        if found:
            nn, bx, clause, w2, mo = found
            ctx.fail(fail_key(name, clause, nn), w2 + " (found after the formula disagreement: " + what + ")",
                     point_case(name, nn, bx, "float", mo, None, None, clause))
        else:
            ctx.fail(fail_key(name, "formula"), what + "; the theorems about the modelled formula no longer transfer to this code",
                     point_case(name, n, x, kind, metas[(name, n)], model, e, "formula"), no_input=True)

    # ---- 4. dense search on the implementation for the families whose optimum is not proved (a TEST)
    searched = {}
    for name in DENSE_SEARCH:
        if name in failed_families or name in broken:
            continue
        dims = [n for (nm, n) in metas if nm == name]
        if ctx.quick and name == "Schwefel":
            dims = [n for n in dims if n in (1, 2, 5, 30)]
        for n in dims:
            mo = metas[(name, n)]
            try:
                bx, bv, ev = dense_search(ctx, name, n, mo)
            except Found as fnd:
                v = judge_point(name, n, fnd.x, "float", mo, fnd.res, None, False)
                ctx.fail(fail_key(name, v[0], n), v[1], point_case(name, n, fnd.x, "float", mo, None, None, v[0]))
                break
            ctx.evaluations += ev
            ctx.count("dense_search_evaluations", ev)
            searched["%s/%d" % (name, n)] = {"best_value": bv, "documented": mo["opt"], "evaluations": ev}
            if better(bv, mo["opt"], mo["minimised"]):
                ctx.fail(fail_key(name, "bound", n), "%s(dimension=%d).evaluate(%r) = %r is better than the documented optimum %r (dense search)" % (
                    name, n, bx, bv, mo["opt"]), point_case(name, n, bx, "float", mo, None, None, "bound"))
                break
            if abs(bv - mo["opt"]) > TOL:
                ctx.fail(fail_key(name, "optimum-not-attained", n),
                         "%s(dimension=%d): the documented optimum %r is not attained on the box; best value found by dense search %r at %r" % (
                             name, n, mo["opt"], bv, bx), point_case(name, n, bx, "float", mo, None, None, "optimum-not-attained"))
                break
    ctx.extra["dense_search_TEST_not_proof"] = searched

    # ---- 5. cheap descent on the implementation for the proved families as well (bound clause, both kinds)
    for (name, n), mo in metas.items():
        if name in DENSE_SEARCH or name in failed_families or n > 10 or (ctx.quick and n not in (1, 2, 5)):
            continue
        kind = "numpy" if rng.random() < 0.5 else "float"
        starts = [[rng.uniform(lo, hi) for lo, hi in mo["box"]] for _ in range(1 if ctx.quick else 4)]
        try:
            bx, bv = quick_descent(ctx, name, n, mo, kind, starts, 300 if ctx.quick else 3000)
        except Found as fnd:
            v = judge_point(name, n, fnd.x, kind, mo, fnd.res, None, False)
            ctx.fail(fail_key(name, v[0], n), v[1], point_case(name, n, fnd.x, kind, mo, None, None, v[0]))
            failed_families.add(name)
            continue
        ctx.count("descent_runs")
        if better(bv, mo["opt"], mo["minimised"]):
            failed_families.add(name)
            ctx.fail(fail_key(name, "bound", n), "%s(dimension=%d).evaluate(%r) = %r is better than the documented optimum %r (descent)" % (
                name, n, bx, bv, mo["opt"]), point_case(name, n, bx, kind, mo, None, None, "bound"))


    # ---- 6. the same values while several threads evaluate different points on ONE problem object (what the
    # framework's own parallel evaluator does); deterministic families only.  One-sided test.
    if not ctx.failures:
        run_concurrent(ctx, metas)


def run_concurrent(ctx, metas):
    import sys
    import threading
    import numpy as np
    from artap.individual import Individual
    rng = ctx.rng
    nthreads, npts, rounds = 4, 64, (12 if ctx.quick else 120)
    old = sys.getswitchinterval()
    sys.setswitchinterval(1e-6)
    try:
        for (name, n), mo in metas.items():
            if name == "XinSheYang3" or n > 10 or (ctx.quick and n not in (1, 2, 5)):
                continue
            p = problem(name, n)
            pts = [[rng.uniform(lo, hi) for lo, hi in mo["box"]] for _ in range(npts)]
            if mo["coords"] is not None:
                pts[0] = list(mo["coords"])
            inds = [Individual([float(t) for t in x]) for x in pts]
            with np.errstate(all="ignore"):
                serial = [call(p, x, "float") for x in pts]
                if any(r[0] != "ok" for r in serial):
                    continue                       # reported by the other streams
                want = [r[1] for r in serial]
                bad = []
                start = threading.Barrier(nthreads)

                def work(t):
                    start.wait()
                    ev = p.evaluate
                    for r in range(rounds):
                        for k in range(t, npts, nthreads):
                            try:
                                v = float(ev(inds[k])[0])
                            except Exception as e:   # noqa
                                v = repr(e)
                            if v != want[k] and not (isinstance(v, float) and close(v, want[k])):
                                bad.append((k, v))
                                return
                ths = [threading.Thread(target=work, args=(t,)) for t in range(nthreads)]
                for th in ths:
                    th.start()
                for th in ths:
                    th.join()
            ctx.count("concurrent_evaluations", npts * rounds)
            ctx.case(("conc", name, n), True)
            if bad:
                k, v = bad[0]
                ctx.fail(fail_key(name, "concurrent", n), "%s(dimension=%d).evaluate(%r) returned %r while %d threads evaluate other points on "
                         "the same problem object; evaluated alone it returns %r" % (name, n, pts[k], v, nthreads, want[k]),
                         {"name": name, "n": n, "x": pts[k], "kind": "float", "clause": "concurrent"})
                return
    finally:
        sys.setswitchinterval(old)


# --------------------------------------------------------------------------- replay / corpus / search

def replay(ctx, rp):
    c = rp["case"]
    if c.get("clause") == "concurrent":
        # the failing value depends on the interleaving of the threads: run the concurrent stream of that family again
        im = impl_meta(c["name"], c["n"])
        for _ in range(5):
            before = len(ctx.failures)
            run_concurrent(ctx, {(c["name"], c["n"]): im})
            if len(ctx.failures) > before:
                print(ctx.failures[-1]["what"])
                return False
        print("5 concurrent rounds: every value equals the value of the point evaluated alone")
        return True
    if c.get("op") == "meta":
        im = impl_meta(c["family"], c["dimension"])
        doc = dict(c["documented"])
        doc["box"] = [tuple(b) for b in doc["box"]]
        why = meta_mismatch(im, doc)
        print("documented (model constants):", doc)
        print("implementation declares:     ", im)
        print("->", why or "they agree")
        return why is None
    if c.get("op") == "point":
        name, n, x, kind = c["family"], c["dimension"], c["x"], c["kind"]
        meta = {"opt": c["optimum"], "coords": c["coords"], "minimised": c["minimised"]}
        try:
            p = problem(name, n)
        except Exception as e:
            print("constructor raises:", repr(e))
            return False
        if c.get("declared"):       # the failing clause was evaluated with the data the implementation declares
            im = impl_meta(name, n)
            meta = {"opt": im["opt"], "coords": im["coords"], "minimised": im["minimised"]}
            c = dict(c, optimum=im["opt"], coords=im["coords"], minimised=im["minimised"])
            print("implementation declares: global_optimum %r, criteria %r, global_optimum_coords %r" % (im["opt"], im["criteria"], im["coords"]))
        ok = True
        for k in ([kind] + [q for q in ("float", "numpy") if q != kind]):
            if name == "XinSheYang3":
                with Draws() as d:
                    res = call(p, x, k)
                print("draws observed:", [v for _, _, v in d.seen])
                model = None
            else:
                res = call(p, x, k)
                model = c.get("model")
            at = c["coords"] is not None and list(x) == list(c["coords"])
            v = judge_point(name, n, x, k, meta, res, model, at)
            print("%s(dimension=%d).evaluate(%r as %s) -> %r ; documented optimum %r (%s), modelled formula %r" % (
                name, n, x, k, res[1:], c["optimum"], "min" if c["minimised"] else "max", model))
            if v is not None:
                print("   property clause '%s' fails: %s" % v)
                ok = False
            elif c.get("clause") == "optimum-not-attained":
                if res[0] == "ok" and abs(res[1] - c["optimum"]) > TOL:
                    print("   this is the best point a dense search of the box found: its value differs from the documented optimum by "
                          "%g > %g, so the documented optimum is not attained" % (abs(res[1] - c["optimum"]), TOL))
                    ok = False
            else:
                print("   all clauses hold at this point")
        return ok
    print("nothing to replay:", rp.get("what"))
    return False


def run_corpus(ctx, case):
    c = case.get("case", case)
    if c.get("op") != "point":
        return
    name, n = c["family"], c["dimension"]
    ans = ctx.lean(["c15.meta %s %d" % (name, n)])[0]
    mo = parse_meta(ans)
    if mo["opt"] is None:
        return
    p = problem(name, n)
    for kind in ("float", "numpy"):
        res = call(p, c["x"], kind)
        at = mo["coords"] is not None and list(c["x"]) == list(mo["coords"])
        v = judge_point(name, n, c["x"], kind, mo, res, None, at)
        ctx.case(("corpus", name, n, tuple(c["x"]), kind), True)
        if v is not None:
            ctx.fail(fail_key(name, v[0], n), v[1], point_case(name, n, c["x"], kind, mo, None, None, v[0]))
            return


def search(ctx):
    """The harness could not drive the code: try every family through the plain property clauses."""
    found = False
    for name, (_, dims, fixed) in FAMILIES.items():
        for n in dims[:3]:
            try:
                p = problem(name, n)
                box = [(float(q["bounds"][0]), float(q["bounds"][1])) for q in p.parameters]
                mo = {"box": box, "opt": float(p.global_optimum), "coords": getattr(p, "global_optimum_coords", None),
                      "minimised": [c.get("criteria") for c in p.costs] == ["minimize"]}
                pts = [[ctx.rng.uniform(lo, hi) for lo, hi in box] for _ in range(5)]
                if mo["coords"] is not None:
                    mo["coords"] = [float(t) for t in mo["coords"]]
                    pts.append(mo["coords"])
                for x in pts:
                    for kind in ("float", "numpy"):
                        v = judge_point(name, n, x, kind, mo, call(p, x, kind), None, x is mo["coords"])
                        if v is not None and not found:
                            ctx.fail(fail_key(name, v[0], n), v[1], point_case(name, n, x, kind, mo, None, None, v[0]))
                            found = True
            except Exception:
                continue
    return found
