"""C01 — constrained Pareto dominance / epsilon comparator.

Correspondence: ParetoDominance.compare and EpsilonDominance.compare (real code) against
Artap.paretoCompare / Artap.epsCompare (Lean model, proved equal to the textbook relation in
Props/C01.lean).  Regime R1: doubles are sent through the order embedding phi, so agreement is exact.
"""
import itertools

from .common import phi, rat, vec, shrink_list

SPECIAL = [0.0, -0.0, 5e-324, -5e-324, 1e-310, 1e300, -1e300, 1e-300, 1.0, -1.0, 2.5, 1.0 + 2 ** -52]
MARKERS = [0, 1, True, False, 0.5, -0.5, 2, -1, 0.0, -0.0, 3.25]


def spec_pareto(p, q, mp, mq):
    """Textbook verdict (python mirror of the Lean spec; used for shrinking and replay only)."""
    if abs(mp) < abs(mq):
        return 1
    if abs(mq) < abs(mp):
        return 2
    le = all(a <= b for a, b in zip(p, q))
    ge = all(a >= b for a, b in zip(p, q))
    lt = any(a < b for a, b in zip(p, q))
    gt = any(a > b for a, b in zip(p, q))
    if le and lt:
        return 1
    if ge and gt:
        return 2
    return 0


_SHARED = {}


def impl_pareto(p, q, mp, mq):
    # one long-lived comparator, used for vectors of every length (a verdict must not depend on history)
    from artap.operators import ParetoDominance
    if "pareto" not in _SHARED:
        _SHARED["pareto"] = ParetoDominance()
    lp, lq = list(p) + [mp], list(q) + [mq]
    if lp == lq and type(mp) is type(mq) and len(p) % 2 == 0:
        lq = lp          # the same list object on both sides
    return _SHARED["pareto"].compare(lp, lq)


def impl_eps(eps, p, q, mp, mq, shared=False):
    from artap.operators import EpsilonDominance
    lp, lq = list(p) + [mp], list(q) + [mq]
    if lp == lq and type(mp) is type(mq) and len(p) % 2 == 0:
        lq = lp          # identical vectors: also as one and the same list object (aliased costs, e.g. after sync())
    if shared:   # comparator instances live across calls with different numbers of objectives
        key = ("eps", tuple(eps))
        if key not in _SHARED:
            _SHARED[key] = EpsilonDominance(list(eps))
        return _SHARED[key].compare(lp, lq)
    return EpsilonDominance(eps).compare(lp, lq)


def gen_vec_pair(rng, m, pool):
    p = [rng.choice(pool) for _ in range(m)]
    mode = rng.random()
    if mode < 0.15:
        q = list(p)
    elif mode < 0.45:          # q = p changed in a few coordinates
        q = list(p)
        for _ in range(rng.randint(1, max(1, m // 2))):
            q[rng.randrange(m)] = rng.choice(pool)
    elif mode < 0.6:           # dominated chain element
        q = [x + abs(rng.choice(pool)) if rng.random() < 0.5 else x for x in p]
    else:
        q = [rng.choice(pool) for _ in range(m)]
    return p, q


def nontrivial(p, q, mp, mq):
    tied = any(a == b for a, b in zip(p, q))
    diff = any(a != b for a, b in zip(p, q))
    return (tied and diff) or mp != mq or (any(a < b for a, b in zip(p, q)) and any(a > b for a, b in zip(p, q)))


def pareto_line(p, q, mp, mq):
    return "c01.pareto %s|%s|%d,%d" % (vec(p, lambda x: str(phi(x))), vec(q, lambda x: str(phi(x))), phi(mp), phi(mq))


def eps_line(eps, p, q, mp, mq):
    return "c01.eps %s|%s|%s|%d,%d" % (vec(eps, rat), vec(p, rat), vec(q, rat), phi(mp), phi(mq))


def run(ctx):
    rng = ctx.rng
    ctx.rule = ("pairs (p,q,markers) and eps-triples generated from small value pools (forces ties) mixed with random and "
                "extreme doubles; non-trivial = a tied and a differing coordinate, or mixed better/worse coordinates, or "
                "different markers; distinct = distinct (phi p, phi q, markers[, eps])")
    ctx.assumptions += ["costs are finite floats (NaN/inf excluded as in the statement)",
                        "eps stream: coordinates bit-identical or further apart than 1e-13 relative (statement: 'differ by more than rounding error')"]
    n_pairs = 20000 if ctx.quick else 400000
    maxlen = 8 if ctx.quick else 40
    cases = []
    for _ in range(n_pairs):
        m = rng.randint(1, maxlen) if rng.random() < 0.8 else rng.randint(1, 3)
        pool = [rng.uniform(-5, 5) for _ in range(rng.randint(1, 4))] + rng.sample(SPECIAL, 3)
        if rng.random() < 0.3:
            pool = [float(rng.randint(0, 2)) for _ in range(3)]
        elif rng.random() < 0.2:
            # small signed integers: -1.0 and -2.0 are different costs with the same hash (CPython), 0.0 and -0.0 equal
            # costs - a verdict depends on the values only
            pool = [-1.0, -2.0, float(rng.randint(-3, 1))]
            m = rng.randint(1, 3)
        p, q = gen_vec_pair(rng, m, pool)
        mp, mq = rng.choice(MARKERS), rng.choice(MARKERS)
        if rng.random() < 0.5:
            mq = mp
        cases.append((p, q, mp, mq))
    if not ctx.quick:   # exhaustive small scope
        for m in (1, 2, 3):
            for p in itertools.product([0.0, 1.0, 2.0], repeat=m):
                for q in itertools.product([0.0, 1.0, 2.0], repeat=m):
                    for mp in (0, 1, True, -1, 0.5, 2):
                        for mq in (0, 1, True, -1, 0.5, 2):
                            cases.append((list(p), list(q), mp, mq))
        ctx.extra["exhaustive_small_scope"] = "all pairs over {0,1,2}^m, m<=3, x 6x6 markers"
    impl = [impl_pareto(*c) for c in cases]
    model = ctx.lean([pareto_line(*c) for c in cases])
    for c, i, mo in zip(cases, impl, model):
        p, q, mp, mq = c
        ctx.case((tuple(map(phi, p)), tuple(map(phi, q)), phi(mp), phi(mq)), nontrivial(*c),
                 sample={"op": "pareto", "p": p, "q": q, "markers": [repr(mp), repr(mq)], "verdict": i})
        ctx.count("pareto_verdict_%s" % i)
        ctx.count("len_%d" % min(len(p), 9))
        if str(i) != mo:
            report_pareto(ctx, c, i, mo)
            break
    # transitivity / antisymmetry directly on the implementation (chains)
    n_tr = 3000 if ctx.quick else 40000
    for _ in range(n_tr):
        m = rng.randint(1, 5)
        pool = [float(rng.randint(0, 3)) for _ in range(3)] + [rng.uniform(-1, 1)]
        a = [rng.choice(pool) for _ in range(m)]
        b = [x + (rng.choice([0, 0, 1, 0.5])) for x in a]
        c = [x + (rng.choice([0, 0, 1, 0.5])) for x in b]
        ma, mb, mc = sorted([rng.choice(MARKERS) for _ in range(3)], key=abs)
        rab, rbc, rac, rba = impl_pareto(a, b, ma, mb), impl_pareto(b, c, mb, mc), impl_pareto(a, c, ma, mc), impl_pareto(b, a, mb, ma)
        ctx.case(("tr", tuple(a), tuple(b), tuple(c), repr(ma), repr(mb), repr(mc)), rab == 1 and rbc == 1)
        ctx.count("chain_%d%d" % (rab, rbc))
        if rab == 1 and rbc == 1 and rac != 1:
            ctx.fail("pareto-transitivity", "compare(a,b)=1 and compare(b,c)=1 but compare(a,c)=%s" % rac,
                     {"op": "trans", "a": a, "b": b, "c": c, "markers": [repr(ma), repr(mb), repr(mc)]})
            break
        if {1: 2, 2: 1, 0: 0}.get(rab) != rba:
            ctx.fail("pareto-antisymmetry", "compare(a,b)=%s but compare(b,a)=%s" % (rab, rba),
                     {"op": "swap", "p": a, "q": b, "markers": [repr(ma), repr(mb)]})
            break
    # epsilon comparator
    n_eps = 6000 if ctx.quick else 100000
    ecases = []
    for _ in range(n_eps):
        m = rng.randint(1, 6)
        pool = [rng.uniform(-50, 50) for _ in range(rng.randint(1, 3))] + [0.0, 1.0, -2.5, 1e-3, 7e4]
        p, q = gen_vec_pair(rng, m, pool)
        if rng.random() < 0.25:     # nearly tied but different coordinates (far above rounding error)
            q = list(p)
            for _ in range(rng.randint(1, m)):
                k = rng.randrange(m)
                q[k] = p[k] * (1.0 + rng.choice([-1, 1]) * 10 ** rng.uniform(-12.5, -9)) if p[k] != 0 else rng.choice([-1, 1]) * 10 ** rng.uniform(-12, -9)
        ok = all(a == b or abs(a - b) > 1e-13 * max(abs(a), abs(b)) for a, b in zip(p, q))
        if not ok:
            continue
        ne = rng.randint(1, m + 1)
        eps = [10 ** rng.uniform(-6, 3) if rng.random() < 0.7 else rng.choice([1.0, 0.5, 0.1, 3]) for _ in range(ne)]
        if rng.random() < 0.4:
            eps = rng.choice([[0.1, 0.1], [0.5], [1.0, 2.0, 3.0], [0.01]])   # shared instances, see impl_eps
        mp = rng.choice(MARKERS)
        mq = mp if rng.random() < 0.6 else rng.choice(MARKERS)
        ecases.append((eps, p, q, mp, mq))
    eimpl = [impl_eps(*c, shared=(c[0] in ([0.1, 0.1], [0.5], [1.0, 2.0, 3.0], [0.01]))) for c in ecases]
    emodel = ctx.lean([eps_line(*c) for c in ecases])
    for c, i, mo in zip(ecases, eimpl, emodel):
        eps, p, q, mp, mq = c
        ctx.case(("eps", tuple(eps), tuple(p), tuple(q), phi(mp), phi(mq)), True,
                 sample={"op": "eps", "eps": eps, "p": p, "q": q, "markers": [repr(mp), repr(mq)], "verdict": i})
        ctx.count("eps_identical" if p == q else "eps_different")
        ctx.count("eps_verdict_%s" % i)
        if str(i) != mo:
            if p == q:
                what = "identical vectors: epsilon comparator returned %s, the model (duplicate rejected) %s" % (i, mo)
            else:
                what = "epsilon comparator returned %s on different vectors, Pareto verdict is %s" % (i, mo)
            ctx.fail("eps-verdict", what + " eps=%r p=%r q=%r markers=%r,%r" % (eps, p, q, mp, mq),
                     {"op": "eps", "eps": eps, "p": p, "q": q, "markers": [mp, mq], "impl": i, "model": mo})
            break


def report_pareto(ctx, c, i, mo):
    p, q, mp, mq = c

    def still(idx):
        pp, qq = [p[k] for k in idx], [q[k] for k in idx]
        return len(idx) >= 1 and impl_pareto(pp, qq, mp, mq) != spec_pareto(pp, qq, mp, mq)
    idx = list(range(len(p)))
    if still(idx):
        idx = shrink_list(idx, still, min_len=1)
    pp, qq = [p[k] for k in idx], [q[k] for k in idx]
    got = impl_pareto(pp, qq, mp, mq)
    want = ctx.lean([pareto_line(pp, qq, mp, mq)])[0]
    ctx.fail("pareto-verdict", "ParetoDominance.compare(%r+[%r], %r+[%r]) = %s, textbook verdict (model, pareto_spec) = %s" % (
        pp, mp, qq, mq, got, want), {"op": "pareto", "p": pp, "q": qq, "markers": [mp, mq], "impl": got, "model": want,
                                     "original": {"p": p, "q": q, "impl": i, "model": mo}})


def replay(ctx, rp):
    c = rp["case"]
    if c.get("op") in ("pareto", "swap"):
        mp, mq = c["markers"]
        mp, mq = (eval(mp) if isinstance(mp, str) else mp), (eval(mq) if isinstance(mq, str) else mq)
        got = impl_pareto(c["p"], c["q"], mp, mq)
        want = spec_pareto(c["p"], c["q"], mp, mq)
        print("compare(p,q) impl=%s textbook=%s ; compare(q,p) impl=%s" % (got, want, impl_pareto(c["q"], c["p"], mq, mp)))
        return got == want
    if c.get("op") == "eps":
        mp, mq = c["markers"]
        from artap.operators import EpsilonDominance
        got = impl_eps(c["eps"], c["p"], c["q"], mp, mq)
        inst = EpsilonDominance(list(c["eps"]))
        inst.compare([0.0, 0], [1.0, 0])       # the same instance was used with one objective before
        got2 = inst.compare(list(c["p"]) + [mp], list(c["q"]) + [mq])
        want = 2 if (c["p"] == c["q"] and abs(mp) == abs(mq)) else spec_pareto(c["p"], c["q"], mp, mq)
        print("eps compare: fresh comparator=%s, comparator used before with 1 objective=%s, expected=%s" % (got, got2, want))
        return got == want and got2 == want
    if c.get("op") == "trans":
        ma, mb, mc = [eval(x) for x in c["markers"]]
        r = impl_pareto(c["a"], c["b"], ma, mb), impl_pareto(c["b"], c["c"], mb, mc), impl_pareto(c["a"], c["c"], ma, mc)
        print("ab, bc, ac =", r)
        return not (r[0] == 1 and r[1] == 1 and r[2] != 1)
    print("nothing to replay: ", rp.get("what"))
    return False


def search(ctx):
    """Called when the harness itself could not run: try the remaining entry points."""
    return False
