"""C11 — a crash at any moment leaves the SQLite store readable and consistent.

Correspondence = crash-point enumeration on the real code.  A forked child installs a proxy around
`sqlite3.connect` that logs every successful / attempted SQL statement and commit (and the objective
calls) to an append-only side file and calls `os._exit` at event K (no clean-up handlers).  The parent
then (1) opens the file with a read-mode view (`ProblemViewDataStore`), (2) reads the raw rows, and
(3) asks the Lean model (`crashAt`, Props/C11.lean) what a reader may find for the logged prefix.  The
rows found must be exactly the model's durable rows (for an in-flight commit: before or after it), and
every row must be a complete individual whose costs match its vector.
"""
import hashlib
import json
import os
import random
import re
import shutil
import signal
import sqlite3
import tempfile
import threading
import time

from .common import vec, InfraError

_real_connect = sqlite3.connect

# any statement that writes rows of table `individuals` (the upsert, or UPDATE / INSERT / REPLACE spelled separately)
WRITE_RE = re.compile(r"^\s*(INSERT|REPLACE|UPDATE)\b[^;]*\bindividuals\b", re.I | re.S)


def id_and_text(row):
    """(id, stored text) of one parameter row of a write statement, whatever the order of the placeholders."""
    vals = list(row.values()) if isinstance(row, dict) else list(row)
    ints = [x for x in vals if isinstance(x, int) and not isinstance(x, bool)]
    strs = [x for x in vals if isinstance(x, (str, bytes))]
    if len(ints) == 1 and len(strs) == 1:
        return ints[0], strs[0] if isinstance(strs[0], str) else strs[0].decode()
    return None


def blob_hash(text):
    return int(hashlib.sha1(text.encode()).hexdigest()[:13], 16)


def objective(x):
    return [x[0] ** 2 + x[1], (x[0] - 1.0) ** 2 + 0.5 * x[1]]


class Recorder:
    """Event log + crash trigger, installed in the child."""

    def __init__(self, path, crash_at):
        self.fd = os.open(path, os.O_WRONLY | os.O_CREAT | os.O_APPEND, 0o600)
        self.n = 0
        self.crash_at = crash_at
        self.lock = threading.Lock()
        self.conn_no = 0

    def tick(self, text):
        with self.lock:
            self.n += 1
            os.write(self.fd, ("%d %s\n" % (self.n, text)).encode())
            if self.n == self.crash_at:
                os._exit(137)

    def new_conn(self):
        with self.lock:
            self.conn_no += 1
            return self.conn_no


def install_proxy(rec, contend=None):
    """Proxy around sqlite3.connect: logs every statement / commit; everything else is passed through, so
    that equivalent ways of using the sqlite3 API (conn.execute, `with conn:`, executemany) stay observable."""

    def maybe_contend(db_path):
        """Deterministic lock contention: before every `every`-th single-row upsert another connection takes the
        exclusive lock and keeps it for `hold` consecutive attempts (each attempt of the writer then fails with
        'database is locked' after the shortened busy timeout); the next attempt finds the lock released."""
        if contend is None or contend.get("in_sync_all"):
            return
        with rec.lock:
            if contend.get("holder") is None:
                contend["count"] = contend.get("count", 0) + 1
                if contend["count"] % contend["every"] == 0:
                    h = _real_connect(db_path, timeout=0.5, isolation_level=None)
                    try:
                        h.execute("BEGIN EXCLUSIVE")
                        contend["holder"], contend["left"] = h, contend["hold"]
                    except sqlite3.Error:
                        h.close()
            elif contend["left"] <= 0:
                try:
                    contend["holder"].execute("COMMIT")
                finally:
                    contend["holder"].close()
                    contend["holder"] = None
            else:
                contend["left"] -= 1

    def logged_execute(no, fn, sql, a, many=False, db_path=None):
        head = sql.lstrip().upper()
        real = getattr(getattr(fn, "__self__", None), "connection", None)      # the real sqlite3 connection
        in_txn = bool(getattr(real, "in_transaction", True))
        write = WRITE_RE.match(sql) is not None
        # transaction control spelled as SQL (a connection in autocommit mode with explicit BEGIN ... COMMIT)
        if head.startswith("COMMIT") or head.startswith("END"):
            rec.tick("pre-commit %d" % no)
            try:
                r = fn(sql, *a)
            except sqlite3.Error as e:
                rec.tick("fail-commit %d %s" % (no, type(e).__name__))
                raise
            rec.tick("post-commit %d" % no)
            return r
        if head.startswith("ROLLBACK"):
            rec.tick("rollback %d" % no)
            return fn(sql, *a)
        # a write outside any transaction on an autocommit connection is its own transaction: durable once it returns
        auto = write and not in_txn and (getattr(real, "isolation_level", "") is None or getattr(real, "autocommit", None) is True)
        if write:
            if not many and db_path:
                maybe_contend(db_path)
            rows = list(a[0]) if many else [a[0] if a else ()]
            keyed = [id_and_text(r) for r in rows]
            if all(k is not None for k in keyed):
                tags = ["upsert %d %d %d" % (no, k[0], blob_hash(k[1])) for k in keyed]
            else:
                tags = ["unmodelled %d %s" % (no, sql.split()[0])]
            a = (rows,) + tuple(a[1:]) if many else a
        elif head.startswith("PRAGMA"):
            tags = ["pragma %d" % no]
        else:
            tags = ["sql %d %s" % (no, sql.split()[0])]
        for t in tags:
            rec.tick("pre-" + t)
        if auto:
            for t in tags:
                if t.startswith("upsert"):
                    rec.tick("pre-auto" + t)
        try:
            r = fn(sql, *a)
        except sqlite3.Error as e:
            for t in tags:
                rec.tick("fail-" + t + " " + type(e).__name__)
            raise
        if head.startswith("PRAGMA JOURNAL_MODE"):
            try:
                mode = r.fetchall()
                rec.tick("journal-mode %d %s" % (no, mode[0][0] if mode else "?"))
            except sqlite3.Error:
                pass
        if write:
            # a statement that changed no row (UPDATE of an id that is not there yet) is no write; for a batch only the
            # total is known
            n = getattr(getattr(fn, "__self__", None), "rowcount", -1)
            if n == 0:
                tags = ["noeffect %d" % no for _ in tags]
            elif many and 0 < n < len(tags):
                tags = ["unmodelled %d %s" % (no, sql.split()[0])]
        for t in tags:
            rec.tick("post-" + t)
        if write and not in_txn and not bool(getattr(real, "in_transaction", True)):
            rec.tick("post-commit %d" % no)            # committed with the statement itself (autocommit)
        return r

    class Cur:
        def __init__(s, c, no, path=None):
            s.c, s.no, s.path = c, no, path

        def execute(s, sql, *a):
            logged_execute(s.no, s.c.execute, sql, a, db_path=s.path)
            return s

        def executemany(s, sql, *a):
            logged_execute(s.no, s.c.executemany, sql, a, many=True)
            return s

        def __iter__(s):
            return iter(s.c)

        def __getattr__(s, name):
            return getattr(s.c, name)

    class Conn:
        def __init__(s, *a, **k):
            s.no = rec.new_conn()
            s.path = a[0] if a else k.get("database")
            if contend is not None:
                k["timeout"] = 0.02
            s.c = _real_connect(*a, **k)

        def cursor(s, *a, **k):
            return Cur(s.c.cursor(*a, **k), s.no, s.path)

        def execute(s, sql, *a):
            return s.cursor().execute(sql, *a)

        def executemany(s, sql, *a):
            return s.cursor().executemany(sql, *a)

        def commit(s):
            rec.tick("pre-commit %d" % s.no)
            try:
                s.c.commit()
            except sqlite3.Error as e:
                rec.tick("fail-commit %d %s" % (s.no, type(e).__name__))
                raise
            rec.tick("post-commit %d" % s.no)

        def rollback(s):
            rec.tick("rollback %d" % s.no)
            return s.c.rollback()

        def __enter__(s):
            return s

        def __exit__(s, et, ev, tb):
            if et is None:
                s.commit()
            else:
                s.rollback()
            return False

        def __getattr__(s, name):
            return getattr(s.c, name)

    sqlite3.connect = lambda *a, **k: Conn(*a, **k)


def make_algo(scenario, p):
    kind, n, g = scenario[0], scenario[1], scenario[2]
    if kind == "nsga2":
        from artap.algorithm_NSGAII import NSGAII
        if "worstcase" in scenario:
            # robust evaluation: every design gets 2n neighbour designs (plain Individual objects, synchronised through
            # the same Job) and one more cost entry afterwards
            from artap.algorithm import EvaluatorType
            return NSGAII(p, evaluator_type=EvaluatorType.WORST_CASE)
        return NSGAII(p)
    if kind == "epsmoea":
        from artap.algorithm_genetic import EpsMOEA
        return EpsMOEA(p)
    if kind == "sweep":
        from artap.algorithm_sweep import SweepAlgorithm
        from artap.operators import LHSGenerator
        gen = LHSGenerator(p.parameters)
        gen.init(n * g)
        return SweepAlgorithm(p, generator=gen)
    os._exit(3)


def child_main(db, log, crash_at, scenario, seed, scratch):
    """Runs in the forked child; never returns."""
    try:
        tempfile.tempdir = scratch
        devnull = os.open(os.devnull, os.O_WRONLY)
        os.dup2(devnull, 1)
        os.dup2(devnull, 2)
        rec = Recorder(log, crash_at)
        contend = {"every": 4, "hold": 6} if "contend" in scenario else None
        install_proxy(rec, contend)
        random.seed(seed)
        import numpy as np
        np.random.seed(seed)
        from artap.problem import Problem
        from artap.datastore import SqliteDataStore

        class P(Problem):
            def set(self, **kw):
                self.name = "c11"
                self.parameters = [{"name": "a", "bounds": [0.0, 1.0], "tol": 0.01}, {"name": "b", "bounds": [-1.0, 1.0], "tol": 0.02}]
                self.costs = [{"name": "f1", "criteria": "minimize"}, {"name": "f2", "criteria": "minimize"}]
                self.ncalls = 0

            def evaluate(self, ind):
                rec.tick("objective")
                if "faulty" in scenario:
                    # every third call fails transiently: the design is re-sampled and retried (never two in a row)
                    with rec.lock:
                        self.ncalls += 1
                        k = self.ncalls
                    if k % 3 == 2:
                        rec.tick("objective-fails")
                        raise (RuntimeError if k % 2 else TimeoutError)("injected transient failure")
                return objective(ind.vector)

        p = P()
        late = "late-store" in scenario
        algo = None
        if late:
            # the algorithm object exists before the store is attached (problem.data_store is assigned afterwards)
            algo = make_algo(scenario, p)
        p.data_store = SqliteDataStore(p, database_name=db)
        rec.tick("STORE-CREATED")
        orig_sync, orig_all = p.data_store.sync_individual, p.data_store.sync_all

        def sync_individual(ind, *a, **k):
            r = orig_sync(ind, *a, **k)
            rec.tick("sync-return %d %d" % (ind.id, blob_hash(repr([float(x) for x in ind.vector]))))
            return r

        def sync_all():
            if "bulk" in scenario:
                # every recorded individual grows before the final flush: sync_all is then ONE transaction of several
                # megabytes (more than SQLite's page cache, so changed pages reach the database file before the commit and
                # only the rollback journal can take them back)
                for q in p.individuals:
                    q.custom["blob"] = "x" * 90000
            if contend is not None:
                contend["in_sync_all"] = True
                if contend.get("holder") is not None:     # the competing connection finishes before the final flush
                    try:
                        contend["holder"].execute("COMMIT")
                    finally:
                        contend["holder"].close()
                        contend["holder"] = None
            r = orig_all()
            if contend is not None:
                contend["in_sync_all"] = False
            rec.tick("sync-all-return %s" % "+".join(str(i.id) for i in p.individuals))
            return r
        p.data_store.sync_individual, p.data_store.sync_all = sync_individual, sync_all
        kind, n, g, workers = scenario[:4]
        a = algo if algo is not None else make_algo(scenario, p)
        # a batch evaluation that has returned includes the synchronisation of its designs (Job.evaluate writes each
        # design right after its costs are final): log which designs that covers
        real_batch = a.evaluator.evaluate

        def batch_evaluate(individuals, *aa, **kk):
            r = real_batch(individuals, *aa, **kk)
            done = [str(i.id) for i in individuals if i.state == i.State.EVALUATED]
            if done:
                rec.tick("batch-return %s" % "+".join(done))
            return r
        a.evaluator.evaluate = batch_evaluate
        if kind != "sweep":
            a.options["max_population_size"] = n
            a.options["max_population_number"] = g
        a.options["max_processes"] = workers
        a.run()
        rec.tick("DONE")
        os._exit(0)
    except SystemExit:
        os._exit(4)
    except BaseException as e:   # noqa
        try:
            os.write(2, repr(e).encode())
            with open(log + ".err", "w") as f:
                import traceback
                f.write(traceback.format_exc())
        finally:
            os._exit(5)


def spawn(db, log, crash_at, scenario, seed, scratch):
    pid = os.fork()
    if pid == 0:
        child_main(db, log, crash_at, scenario, seed, scratch)
    return pid


def wait(pid, timeout=120):
    t0 = time.time()
    while True:
        r, status = os.waitpid(pid, os.WNOHANG)
        if r:
            return os.waitstatus_to_exitcode(status)
        if time.time() - t0 > timeout:
            os.kill(pid, signal.SIGKILL)
            os.waitpid(pid, 0)
            return -99
        time.sleep(0.002)


def parse_log(path):
    evs = []
    if not os.path.exists(path):
        return evs
    for line in open(path):
        parts = line.split()
        if len(parts) >= 2 and parts[0].isdigit():
            evs.append(parts[1:])
    return evs


def model_events(evs):
    """Translate the log to model events; returns (events, connections with an in-flight commit).
    A rolled-back statement is one that was never executed as far as the file is concerned."""
    out = []
    inflight = []
    rolled = set()
    pend = {}
    auto = []          # single-statement transactions in flight: (connection, id, blob hash)
    for e in evs:
        if e[0] == "post-unmodelled":
            raise RuntimeError("the writer changed table `individuals` with a statement the crash model has no event for "
                               "(%s on connection %s): the trace cannot be related to Model/Crash.lean" % (e[2], e[1]))
    for i, e in enumerate(evs):
        if e[0] == "post-upsert":
            pend.setdefault(e[1], []).append(i)
        elif e[0] == "post-commit":
            pend.pop(e[1], None)
        elif e[0] == "rollback":
            rolled.update(pend.pop(e[1], []))
    for i, e in enumerate(evs):
        if e[0] == "pre-autoupsert":
            auto.append((e[1], e[2], e[3]))
            out.append("o")
        elif e[0] == "post-upsert" and (e[1], e[2], e[3]) in auto:
            auto.remove((e[1], e[2], e[3]))
            out.append("u:%s:%s:%s" % (e[1], e[2], e[3]))
        elif e[0] == "fail-upsert" and len(e) > 3 and (e[1], e[2], e[3]) in auto:
            auto.remove((e[1], e[2], e[3]))
            out.append("o")
        elif e[0] == "post-noeffect":
            auto[:] = [t for t in auto if t[0] != e[1]]
            out.append("o")
        elif e[0] == "post-upsert" and i in rolled:
            out.append("o")
        elif e[0] == "post-upsert":
            out.append("u:%s:%s:%s" % (e[1], e[2], e[3]))
        elif e[0] == "post-commit":
            out.append("c:%s" % e[1])
            if e[1] in inflight:
                inflight.remove(e[1])
        elif e[0] == "pre-commit":
            inflight.append(e[1])
            out.append("o")
        elif e[0] == "fail-commit":
            if e[1] in inflight:
                inflight.remove(e[1])
            out.append("o")
        else:
            out.append("o")
    model_events.auto = auto
    return out, inflight


def read_back(db):
    """What a reader finds.  The read-mode view (`ProblemViewDataStore`) is the FIRST thing that touches the file after
    the crash - exactly the property's situation (a hot rollback journal left by the killed writer is then still
    there); the raw rows are read afterwards."""
    from artap.problem import ProblemViewDataStore
    res = {"readable": True, "rows": None, "view": None, "error": None}
    try:
        v = ProblemViewDataStore(database_name=db)
        res["view"] = [{"id": i.id, "vector": list(i.vector), "costs": list(i.costs), "signed": list(i.costs_signed),
                        "state": str(i.state)} for i in v.individuals]
        res["problem"] = {"name": v.name, "parameters": len(v.parameters), "costs": len(v.costs)}
        import atexit
        atexit.unregister(v.cleanup)
        v.cleanup()
    except Exception as e:   # noqa
        res["readable"] = False
        res["error"] = "ProblemViewDataStore: %r" % (e,)
        return res
    try:
        c = _real_connect(db)
        raw = c.execute("SELECT id, individual FROM individuals").fetchall()
        c.close()
        res["rows"] = [(int(i), blob_hash(t)) for i, t in raw]
        res["texts"] = {int(i): t for i, t in raw}
    except Exception as e:   # noqa
        res["readable"] = False
        res["error"] = "raw read: %r" % (e,)
    return res


def check_point(ctx, evs, rb, lines, pending, scenario=()):
    """Queue the model request for one crash point; returns an immediate error or None."""
    ncosts = (2, 3) if "worstcase" in scenario else (2,)     # the worst-case evaluator appends one cost entry later
    if not rb["readable"]:
        return "store not readable after the crash: %s" % rb["error"]
    if rb["problem"]["name"] != "c11" or rb["problem"]["parameters"] != 2 or rb["problem"]["costs"] != 2:
        return "problem definition read back wrong: %r" % (rb["problem"],)
    for r in rb["view"]:
        if len(r["vector"]) != 2 or len(r["costs"]) not in ncosts or len(r["signed"]) != len(r["costs"]) + 1:
            return "partially written individual %r" % (r,)
        want = objective(r["vector"])
        if r["costs"][:2] != want:
            return "row %d: costs %r do not match its vector %r (objective gives %r)" % (r["id"], r["costs"], r["vector"], want)
        if [float(x) for x in r["signed"][:2]] != [float(round(c, 7)) for c in want]:
            return "row %d: signed costs %r do not match costs %r" % (r["id"], r["signed"], want)
    found = {r["id"] for r in rb["view"]}
    vec_of = {r["id"]: blob_hash(repr([float(x) for x in r["vector"]])) for r in rb["view"]}
    for e in evs:
        if e[0] == "sync-return" and int(e[1]) not in found:
            return "synchronisation of individual %s had returned before the crash but the store has no row for it" % e[1]
        if e[0] == "sync-return" and len(e) > 2 and vec_of.get(int(e[1])) != int(e[2]):
            return ("synchronisation of individual %s had returned before the crash, but the row with its id holds another design "
                    "(vector %r): the individual itself is not present" % (e[1], [r["vector"] for r in rb["view"] if r["id"] == int(e[1])][0]))
        if e[0] == "batch-return" and len(e) > 1:
            missing = [i for i in e[1].split("+") if i and int(i) not in found]
            if missing:
                return ("the evaluation of a batch had returned before the crash (each design is synchronised right after its "
                        "costs are final) but designs %s have no row in the store" % ",".join(missing))
        if e[0] == "sync-all-return" and len(e) > 1:
            missing = [i for i in e[1].split("+") if i and int(i) not in found]
            if missing:
                return "sync_all had returned before the crash but individuals %s have no row" % ",".join(missing)
    mev, inflight = model_events(evs)
    variants = [mev]
    for c in inflight:
        variants.append(mev + ["c:%s" % c])
    if len(inflight) > 1:
        variants.append(mev + ["c:%s" % c for c in inflight])
        variants.append(mev + ["c:%s" % c for c in reversed(inflight)])
    for c, i, h in getattr(model_events, "auto", []):       # a single-statement transaction in flight: row old or new
        for v in list(variants):
            variants.append(v + ["u:%s:%s:%s" % (c, i, h), "c:%s" % c])
    for v in variants:
        lines.append("c11.crash %d|%s" % (len(v), ",".join(v)))
    pending.append((len(variants), rb["rows"], evs))
    return None


SCEN_QUICK = [("nsga2", 3, 2, 1), ("nsga2", 3, 2, 2), ("epsmoea", 3, 2, 1), ("sweep", 3, 2, 2), ("nsga2", 3, 2, 1, "contend"), ("sweep", 3, 2, 1, "late-store"),
              ("sweep", 3, 2, 1, "faulty"), ("nsga2", 2, 2, 1, "worstcase"), ("sweep", 20, 2, 1, "bulk")]
SCEN_THOROUGH = [("nsga2", 4, 3, 1), ("nsga2", 4, 3, 3), ("epsmoea", 3, 2, 2), ("epsmoea", 4, 3, 1), ("sweep", 3, 2, 1), ("sweep", 5, 2, 3), ("nsga2", 3, 2, 2, "contend"), ("epsmoea", 3, 2, 1, "contend"), ("nsga2", 3, 2, 2, "late-store"),
                 ("nsga2", 3, 2, 2, "faulty"), ("epsmoea", 3, 2, 1, "faulty"), ("nsga2", 3, 2, 2, "worstcase")]


def run(ctx):
    from . import common
    common.quiet_artap()
    import artap.algorithm_NSGAII  # noqa: import before forking so that children start fast
    import artap.algorithm_genetic  # noqa
    import artap.algorithm_sweep  # noqa
    rng = ctx.rng
    ctx.rule = ("process death (os._exit, no handlers) at every logged event of small runs with an SqliteDataStore "
                "(thread-safe mode): objective calls, before/after each SQL statement and commit; serial and parallel; "
                "plus SIGKILL at random instants; non-trivial = crash after the store was created and at least one "
                "individual upsert was attempted; distinct = distinct (scenario, event prefix)")
    ctx.assumptions += ["SQLite's atomic commit and rollback-journal recovery; the OS page cache survives process death (no power loss; PRAGMA synchronous=0 is not durable against power loss and that is not claimed)",
                        "crashes before the store has been created are outside the property"]
    scratch = tempfile.mkdtemp(prefix="artap-verif-c11-")
    lines, pending = [], []
    journal_modes = set()
    nproc = 12
    try:
        scenarios = SCEN_QUICK if ctx.quick else SCEN_QUICK + SCEN_THOROUGH
        for si, scen in enumerate(scenarios):
            seed = rng.randrange(10 ** 6)
            # reference run: how many events are there?
            db0 = os.path.join(scratch, "ref%d.sqlite" % si)
            rc = wait(spawn(db0, db0 + ".log", -1, scen, seed, scratch), timeout=40)
            ref = parse_log(db0 + ".log")
            if rc == -99 and any(e[0] == "STORE-CREATED" for e in ref):
                # the writer hung and was killed: that is a crash point too - look at what it left behind
                err = check_point(ctx, ref, read_back(db0), [], [], scen)
                if err:
                    ctx.fail("crash-consistency", "%s; scenario %r, writer killed after %d events (it did not finish within 40 s)" % (
                        err, scen, len(ref)), {"scenario": list(scen), "seed": seed, "mode": "exit", "crash_at": len(ref),
                                               "events_tail": [" ".join(e) for e in ref[-12:]], "error": err})
                    return
            if rc != 0 or not ref or ref[-1][0] != "DONE":
                err = open(db0 + ".log.err").read() if os.path.exists(db0 + ".log.err") else ""
                raise RuntimeError("reference run of scenario %r failed (rc=%s): %s" % (scen, rc, err[-1500:]))
            total = len(ref)
            created = [i for i, e in enumerate(ref) if e[0] == "STORE-CREATED"][0] + 1
            for e in ref:
                if e[0] == "journal-mode":
                    journal_modes.add(e[2])
            points = list(range(created, total + 1))
            if "bulk" in scen:
                points = points[-110:]          # the final flush (one large transaction) and the end of the run
            elif ctx.quick and len(points) > 220:
                # every statement/commit boundary of the first part, a sample of the rest
                points = points[:120] + sorted(rng.sample(points[120:], 100))
            jobs = [("exit", k) for k in points]
            n_kill = 20 if ctx.quick else 300
            jobs += [("kill", rng.uniform(0.0, 1.0)) for _ in range(n_kill)]
            running = []

            def reap(block):
                nonlocal running
                while running and (block or len(running) >= nproc):
                    still = []
                    for (pid, db, mode, arg, t0, kill_at) in running:
                        if mode == "kill" and kill_at is not None and time.time() >= kill_at:
                            try:
                                os.kill(pid, signal.SIGKILL)
                            except ProcessLookupError:
                                pass
                            kill_at = None
                        r, status = os.waitpid(pid, os.WNOHANG)
                        if r:
                            finish(db, mode, arg)
                        elif time.time() - t0 > 120:
                            os.kill(pid, signal.SIGKILL)
                            os.waitpid(pid, 0)
                            ctx.count("child_timeout")
                        else:
                            still.append((pid, db, mode, arg, t0, kill_at))
                    running = still
                    if running and (block or len(running) >= nproc):
                        time.sleep(0.002)

            ref_duration = [0.3]

            def finish(db, mode, arg):
                evs = parse_log(db + ".log")
                names = [e[0] for e in evs]
                if "STORE-CREATED" not in names:
                    ctx.count("crash_before_store_created_excluded")
                    cleanup(db)
                    return
                rb = read_back(db)
                attempted = any(n.endswith("upsert") for n in names)
                ctx.case((scen, tuple(tuple(e) for e in evs)) if mode == "kill" else (scen, arg), nontrivial=attempted,
                         sample={"scenario": list(scen), "crash": mode, "after_event": " ".join(evs[-1]) if evs else "", "events": len(evs),
                                 "rows_found": len(rb["rows"] or [])})
                ctx.count("crash_after_" + (evs[-1][0] if evs else "nothing"))
                ctx.count("mode_" + mode)
                err = check_point(ctx, evs, rb, lines, pending, scen)
                if err and not ctx.failures:
                    ctx.fail("crash-consistency", "%s; scenario %r, crash (%s) after event %d '%s'" % (
                        err, scen, mode, len(evs), " ".join(evs[-1]) if evs else ""),
                        {"scenario": list(scen), "seed": seed, "mode": mode, "crash_at": arg if mode == "exit" else len(evs),
                         "events_tail": [" ".join(e) for e in evs[-12:]], "error": err})
                cleanup(db)

            def cleanup(db):
                for suf in ("", ".log", ".log.err", "-journal"):
                    try:
                        os.remove(db + suf)
                    except OSError:
                        pass

            t_ref = time.time()
            for ji, (mode, arg) in enumerate(jobs):
                if ctx.failures:
                    break
                reap(False)
                db = os.path.join(scratch, "s%d-%d.sqlite" % (si, ji))
                if mode == "exit":
                    pid = spawn(db, db + ".log", arg, scen, seed, scratch)
                    running.append((pid, db, mode, arg, time.time(), None))
                else:
                    pid = spawn(db, db + ".log", -1, scen, seed, scratch)
                    running.append((pid, db, mode, arg, time.time(), time.time() + 0.02 + arg * ref_duration[0]))
            reap(True)
            ctx.count("scenario_%s_%dx%d_w%d_events" % tuple(scen[:4]) + ("_" + scen[4] if len(scen) > 4 else ""), total)
    finally:
        shutil.rmtree(scratch, ignore_errors=True)
    if ctx.failures:
        return
    if journal_modes & {"off", "memory"}:
        ctx.fail("journal-mode", "thread-safe store runs with journal_mode=%r: the rollback journal that makes a commit atomic "
                 "across process death is switched off" % sorted(journal_modes), {"journal_modes": sorted(journal_modes)}, no_input=True)
        return
    ctx.extra["journal_modes_seen"] = sorted(journal_modes)
    answers = ctx.lean(lines)
    pos = 0
    for nvar, rows, evs in pending:
        admissible = []
        for a in answers[pos:pos + nvar]:
            admissible.append(sorted((int(x.split(":")[0]), int(x.split(":")[1])) for x in a.split(",") if x))
        pos += nvar
        if sorted(rows) not in admissible:
            ctx.fail("crash-durable-rows", "rows found after the crash are not what the committed prefix of the writer's trace "
                     "gives: found %d rows %r, model admits %r (last events: %s)" % (
                         len(rows), sorted(rows)[:6], [a[:6] for a in admissible], [" ".join(e) for e in evs[-6:]]),
                     {"found": sorted(rows), "admissible": admissible, "events": [" ".join(e) for e in evs]})
            break
    ctx.traces_validated = len(pending)


def replay(ctx, rp):
    c = rp["case"]
    if "scenario" not in c:
        print(rp.get("what"))
        return False
    from . import common
    common.quiet_artap()
    scratch = tempfile.mkdtemp(prefix="artap-verif-c11-")
    try:
        db = os.path.join(scratch, "r.sqlite")
        wait(spawn(db, db + ".log", c["crash_at"], tuple(c["scenario"]), c["seed"], scratch))
        evs = parse_log(db + ".log")
        rb = read_back(db)
        lines, pending = [], []
        err = check_point(ctx, evs, rb, lines, pending, tuple(c["scenario"]))
        print("crash after event %d (%s): %s" % (len(evs), " ".join(evs[-1]) if evs else "", err or "row-level checks pass"))
        if err:
            return False
        answers = ctx.lean(lines)
        adm = [sorted((int(x.split(":")[0]), int(x.split(":")[1])) for x in a.split(",") if x) for a in answers]
        ok = sorted(rb["rows"]) in adm
        print("rows found %r ; model admits %r" % (sorted(rb["rows"]), adm))
        return ok
    finally:
        shutil.rmtree(scratch, ignore_errors=True)
