"""C20 — design-point equality means equal coordinates and agrees with hashing.

Correspondence: `Individual.__eq__` / `__hash__` and their consumers (`in`, `!=`, `set()`, `list.remove`,
`Archive.remove`, the duplicate rejection of `GeneticAlgorithm.generate`) on the real code against
`Artap.Equality.*` (Lean model over exact rationals, proved in Props/C20.lean to be "all coordinates within
1e-10", symmetric, and to make the consumers drop / hit exactly the equal designs).

Regime R2, but exact here: the harness sends the exact rational value of every double, and a double is
`< 1e-10` (the literal) iff it is `< 1/10^10` (no double lies between the two).  Cases in which the
floating-point subtraction is not exact and the difference is within 1 % of the tolerance are skipped.
"""
from fractions import Fraction

from .common import rat, vec, mat, shrink_list, unrat

TOL = Fraction(1, 10 ** 10)
AMOUNTS = [0.0, 1e-13, 1e-12, 5e-11, 9e-11, 1.1e-10, 2e-10, 1e-9, 1e-6, 1e-3, 0.5, 1.0, 7.0, 1e3]
BASES = [0, 1, -1, 2, 3, 0.0, -0.0, 0.5, -2.5, 1.0, 10.0, 1e-10, -1e-10, 2e-10, 1e-5, 123.456, 1e3]



class ScriptDry(Exception):
    """the scripted variation operators have no more children to hand out"""


# --------------------------------------------------------------------------- python mirror of the spec (shrinking / replay only)

def fr(v):
    return tuple(Fraction(x) for x in v)


def spec_eq(v, w):
    """All coordinates within 1e-10 (equal lengths >= 1)."""
    return len(v) >= 1 and len(v) == len(w) and all(abs(a - b) < TOL for a, b in zip(fr(v), fr(w)))


def spec_dedup(vs):
    out = []
    for v in vs:
        if fr(v) not in out:
            out.append(fr(v))
    return sorted(out)


def spec_remove(x, vs):
    for i, e in enumerate(vs):
        if spec_eq(e, x):
            return [fr(v) for v in vs[:i] + vs[i + 1:]]
    return "ValueError"


def spec_generate(n, pairs):
    offs = []
    it = iter(pairs)
    while len(offs) < n:
        try:
            c1, c2 = next(it)
        except StopIteration:
            raise ScriptDry()
        if len(offs) == 0:
            offs.append(c1)
        if any(spec_eq(c1, o) for o in offs) and len(offs) < n:
            pass
        else:
            offs.append(c1)
        if any(spec_eq(c2, o) for o in offs) and len(offs) < n:
            pass
        elif len(offs) < n:
            offs.append(c2)
    return sorted(fr(o) for o in offs)


# --------------------------------------------------------------------------- implementation adaptors

def ind(v):
    """A design point holding v - as a list of Python floats, a list of numpy scalars or a float ndarray (the containers
    the framework's own algorithms create points with; CMA-ES / CEM use rows of sampled matrices)."""
    from artap.individual import Individual
    k = (len(v) * 7 + int(abs(float(v[0])) * 1e6)) % 4 if len(v) else 0
    # ... and held by the class the algorithm at hand uses (a stored result re-read as plain Individual meets the live
    # IndividualNSGAII / IndividualEpsMOEA / IndividualSwarm objects): equality is about the coordinates only
    c = (len(v) * 3 + int(abs(float(v[-1])) * 1e5)) % 5 if len(v) else 0
    cls = Individual
    if c == 1:
        from artap.algorithm_NSGAII import IndividualNSGAII as cls
    elif c == 2:
        from artap.algorithm_swarm import IndividualSwarm as cls
    elif c == 3:
        from artap.algorithm_genetic import IndividualEpsMOEA as cls
    if k == 2:
        import numpy as np
        return cls([np.float64(t) for t in v])
    if k == 3:
        import numpy as np
        return cls(np.array([float(t) for t in v]))
    return cls(list(v))


def impl_eq(v, w):
    a, b = ind(v), ind(w)
    # ids are not unique in practice (Individual.from_dict restores stored ids while the counter restarts in every
    # process): equality must be decided by the coordinates, whatever the ids are - here the two points share one
    b.id = a.id
    return bool(a == b)


def impl_mem(x, vs):
    return ind(x) in [ind(v) for v in vs]


def impl_dedup(vs):
    return sorted(fr(i.vector) for i in set(ind(v) for v in vs))


def impl_remove(x, vs, archive=False):
    l = [ind(v) for v in vs]
    if archive:
        from artap.archive import Archive
        a = Archive()
        a._contents = l
        ok = a.remove(ind(x))
        return [fr(i.vector) for i in a._contents] if ok else "ValueError"
    try:
        l.remove(ind(x))
    except ValueError:
        return "ValueError"
    return [fr(i.vector) for i in l]


_alg = {}


def impl_generate(n, pairs):
    """GeneticAlgorithm.generate with scripted variation operators: crossover hands out the prepared child pairs,
    mutation is the identity, selection returns the first parent."""
    from artap.algorithm_genetic import GeneticAlgorithm
    from artap.problem import Problem
    dim = len(pairs[0][0])
    if dim not in _alg:
        class P(Problem):
            def set(self):
                self.parameters = [{'name': 'x%d' % i, 'bounds': [-1e6, 1e6]} for i in range(dim)]
                self.costs = [{'name': 'F'}]

            def evaluate(self, individual):
                return [0.0]
        _alg[dim] = P()
    alg = GeneticAlgorithm(_alg[dim])
    alg.options['max_population_size'] = n
    it = iter(pairs)
    used = [0]

    class Cross:
        def cross(self, *a, **k):
            try:
                c1, c2 = next(it)
            except StopIteration:
                raise ScriptDry()      # a StopIteration would become RuntimeError inside a generator-based generate
            used[0] += 1
            return list(c1), list(c2)

    class Mut:
        def mutate(self, v, *a, **k):
            return v

    class Sel:
        def select(self, parents, *a, **k):
            return parents[0]
    alg.crossover, alg.mutator, alg.selector = Cross(), Mut(), Sel()
    offs = alg.generate([ind(pairs[0][0])])
    return sorted(fr(o.vector) for o in offs), used[0]


# --------------------------------------------------------------------------- generators

def exact_or_far(v, w):
    """The floating-point differences the code computes are exact, or far from the tolerance."""
    for a, b in zip(v, w):
        fd = abs(a - b)
        if fd < 0.98e-10 or fd > 1.02e-10:      # far from the tolerance whatever the rounding (relative error <= 2^-53)
            continue
        d = abs(Fraction(a) - Fraction(b))
        if Fraction(fd) != d and TOL * 99 / 100 < d < TOL * 101 / 100:
            return False
    return True


def gen_base(rng, n):
    mode = rng.random()
    if mode < 0.5:
        return [rng.choice(BASES) for _ in range(n)]
    if mode < 0.8:
        return [rng.uniform(-10, 10) for _ in range(n)]
    return [rng.choice(BASES) if rng.random() < 0.5 else rng.uniform(-1000, 1000) for _ in range(n)]


def perturb(rng, v, idx):
    w = list(v)
    for i in idx:
        d = rng.choice(AMOUNTS) if rng.random() < 0.85 else 10 ** rng.uniform(-13, 3)
        w[i] = float(v[i]) + (d if rng.random() < 0.5 else -d)
    return w


def gen_pair(rng, maxlen):
    n = rng.randint(1, maxlen) if rng.random() < 0.7 else rng.randint(1, 3)
    v = gen_base(rng, n)
    mode = rng.random()
    if mode < 0.1:
        idx = []
    elif mode < 0.45:
        idx = [rng.randrange(n)]
    elif mode < 0.6:       # every coordinate but one
        keep = rng.randrange(n)
        idx = [i for i in range(n) if i != keep]
    else:
        idx = [i for i in range(n) if rng.random() < 0.5]
    w = perturb(rng, v, idx)
    if rng.random() < 0.15:   # int vs float representation of the same number
        w = [int(x) if float(x).is_integer() and abs(x) < 1e6 and rng.random() < 0.7 else x for x in w]
    if rng.random() < 0.3:
        v, w = w, v
    return v, w


def gen_list(rng, maxn, maxdim):
    dim = rng.randint(1, maxdim)
    k = rng.randint(1, maxn)
    vs = []
    for _ in range(k):
        r = rng.random()
        if vs and r < 0.25:
            vs.append(list(rng.choice(vs)))                       # identical repeat
        elif vs and r < 0.4:
            b = rng.choice(vs)
            vs.append(perturb(rng, b, [rng.randrange(dim)]))       # differs in one coordinate
        elif vs and r < 0.5:
            b = rng.choice(vs)
            vs.append([float(x) + rng.choice([1e-12, -5e-11, 9e-11]) for x in b])   # near copy, every coordinate
        else:
            vs.append(gen_base(rng, dim))
    r = rng.random()
    if r < 0.35:
        x = list(rng.choice(vs))
    elif r < 0.7:
        x = perturb(rng, rng.choice(vs), [rng.randrange(dim)])
    elif r < 0.8:
        x = [float(c) + rng.choice([1e-12, -5e-11, 9e-11]) for c in rng.choice(vs)]
    else:
        x = gen_base(rng, dim)
    return x, vs


def gen_stream(rng, maxn, maxdim):
    dim = rng.randint(1, maxdim)
    n = rng.randint(1, maxn)
    seen = []
    pairs = []
    for _ in range(rng.randint(1, 2 * n + 2)):
        pr = []
        for _k in range(2):
            r = rng.random()
            pool = seen + pr
            if pool and r < 0.3:
                c = list(rng.choice(pool))
            elif pool and r < 0.5:
                c = perturb(rng, rng.choice(pool), [rng.randrange(dim)])
            elif pool and r < 0.6:
                c = [float(x) + rng.choice([1e-12, -5e-11]) for x in rng.choice(pool)]
            else:
                c = gen_base(rng, dim)
            pr.append(c)
        pairs.append((pr[0], pr[1]))
        seen += pr
    # padding: fresh, mutually distinct designs so that the loop always terminates
    for k in range(n + 1):
        pairs.append(([5000.0 + 2 * k] * dim, [5001.0 + 2 * k] * dim))
    return n, pairs


def all_ok(vs, x=None):
    pts = list(vs) + ([x] if x is not None else [])
    return all(exact_or_far(a, b) for a in pts for b in pts)


# --------------------------------------------------------------------------- protocol lines

def rv(v):
    return vec(v, rat)


def eq_line(v, w):
    return "c20.eq %s|%s" % (rv(v), rv(w))


def parse_mat(s):
    s = s.strip()
    if not s:
        return []
    return [tuple(unrat(t) for t in row.split(",")) for row in s.split(";")]


def parse_ok(ans, sort):
    if not ans.startswith("ok"):
        return ans
    m = parse_mat(ans[2:].split("|")[-1])
    return sorted(m) if sort else m


# --------------------------------------------------------------------------- run

def stream_hash_after_change(ctx):
    """'Points with identical vectors have identical hashes' - also for a point that was hashed BEFORE it got its
    present vector (re-assigned, edited in place or taken over with sync()): hashing and set membership must follow
    the vector the point holds now (theorem identical_same_hash: the hash key is a function of the vector)."""
    from artap.individual import Individual
    rng = ctx.rng
    for k in range(400 if ctx.quick else 5000):
        n = rng.randint(1, 5)
        v = [float(rng.randint(-3, 3)) for _ in range(n)]
        w = [float(rng.randint(-3, 3)) + rng.choice([0.0, 0.5]) for _ in range(n)]
        a = Individual(list(v))
        h0 = hash(a)
        seen = {a}                       # hashed once, e.g. by a set or by nondominated_truncate
        mode = rng.choice(["assign", "in-place", "sync"])
        if mode == "assign":
            a.vector = list(w)
        elif mode == "in-place":
            for i in range(n):
                a.vector[i] = w[i]
        else:
            a.sync(Individual(list(w)))
        b = Individual(list(w))
        ctx.case(("hash-after-change", tuple(v), tuple(w), mode), v != w, sample={"op": "hash-after-change", "first_vector": v, "vector_now": w, "how": mode})
        ctx.count("hash_after_" + mode)
        bad = None
        if hash(a) != hash(b):
            bad = "hash differs from the hash of a fresh point with the identical vector"
        elif len(set([a, b])) != 1:
            bad = "set() keeps both the point and a fresh point with the identical vector"
        elif b not in set([a]):
            bad = "a set holding the point does not contain a fresh point with the identical vector"
        if bad:
            ctx.fail("hash-identical-vectors", "a point created with vector %r, hashed, then given the vector %r (%s): %s" % (v, w, mode, bad),
                     {"op": "hash-after-change", "v": v, "w": w, "mode": mode})
            return False
    return True


def run(ctx):
    rng = ctx.rng
    if not stream_hash_after_change(ctx):
        return
    ctx.rule = ("pairs of equal-length vectors (1..10, thorough 1..30) from value pools (ints, floats, +-0.0, 1e-10 boundary "
                "values, 1e3) where w is v perturbed in a chosen subset of coordinates (none, one, all but one, random) by "
                "amounts 1e-13..1e3 around the tolerance; lists with planted identical / near / one-coordinate-different "
                "repeats for `in`, set(), list.remove, Archive.remove; scripted child streams for GeneticAlgorithm.generate. "
                "non-trivial = the vectors differ in a non-empty proper subset of coordinates or only within the tolerance "
                "(pairs); the list contains a repeat or near repeat (lists, streams); distinct = distinct exact rational inputs")
    ctx.assumptions += ["vectors of equal length n >= 1 with finite coordinates (statement's quantifier)",
                        "a double is < 1e-10 iff it is < 1/10^10; cases whose floating-point difference is inexact and within "
                        "1% of the tolerance are skipped (counted as skipped_rounding)",
                        "hash(tuple(vector)) is abstracted to 'a function of the numeric vector'; only 'identical vectors => identical "
                        "hashes' is checked, hash collisions of different vectors are allowed"]
    n_pairs = 6000 if ctx.quick else 100000
    maxlen = 10 if ctx.quick else 30
    cases = []
    while len(cases) < n_pairs:
        v, w = gen_pair(rng, maxlen)
        if not exact_or_far(v, w):
            ctx.count("skipped_rounding")
            continue
        cases.append((v, w))
    # fixed regression pairs (the original defect, first-coordinate-only, exact boundary)
    cases += [([1, 2, 3], [9, 2.5, 3]), ([1, 2, 3], [1, 2, 9]), ([9, 2, 3], [1, 2, 3]), ([1e-10], [0.0]), ([0.0], [1e-10]),
              ([2e-10, 1.0], [1e-10, 1.0]), ([0.0], [-0.0]), ([1], [1.0]), ([3.0, 4.0], [3.0, 4.0])]
    lines = []
    for v, w in cases:
        lines += [eq_line(v, w), eq_line(w, v), "c20.hash %s|%s" % (rv(v), rv(w))]
    ans = ctx.lean(lines)
    for k, (v, w) in enumerate(cases):
        m_vw, m_wv, m_h = ans[3 * k:3 * k + 3]
        a, b = ind(v), ind(w)
        if k % 3 == 0:
            b.id = a.id      # two different points may carry the same id (restored from a store)
        i_vw, i_wv, i_ne = bool(a == b), bool(b == a), bool(a != b)
        diff = [i for i in range(len(v)) if Fraction(v[i]) != Fraction(w[i])]
        far = [i for i in diff if abs(Fraction(v[i]) - Fraction(w[i])) >= TOL]
        nontriv = (0 < len(diff) and len(far) < len(v))
        ctx.case((fr(v), fr(w)), nontriv, sample={"op": "eq", "v": v, "w": w, "differs_in": diff, "beyond_tol_in": far, "equal": i_vw})
        ctx.count("eq_len_%d" % min(len(v), 11))
        ctx.count("eq_%s" % ("true" if i_vw else "false"))
        ctx.count("eq_far_coords_%s" % ("none" if not far else "last_only" if far == [len(v) - 1] else
                                        "first_only" if far == [0] else "not_last" if len(v) - 1 not in far else "incl_last"))
        if str(int(i_vw)) != m_vw or str(int(i_wv)) != m_wv:
            report_eq(ctx, v, w)
            break
        if i_ne != (not i_vw):
            ctx.fail("ne-not-inverse", "Individual(%r) != Individual(%r) is %s but == is %s" % (v, w, i_ne, i_vw),
                     {"op": "eq", "v": v, "w": w})
            break
        if m_h == "1":
            ctx.count("hash_identical_vectors")
            if hash(a) != hash(b):
                ctx.fail("hash-identical-vectors", "identical vectors %r and %r have different hashes" % (v, w),
                         {"op": "hash", "v": v, "w": w})
                break
    if ctx.failures:
        return
    # ---- consumers on lists
    n_lists = 2500 if ctx.quick else 25000
    lcases = []
    while len(lcases) < n_lists:
        x, vs = gen_list(rng, 10 if ctx.quick else 25, 5)
        if not all_ok(vs, x):
            ctx.count("skipped_rounding")
            continue
        lcases.append((x, vs))
    lines = []
    for x, vs in lcases:
        m = mat(vs, rat)
        lines += ["c20.mem %s|%s" % (rv(x), m), "c20.dedup %s" % m, "c20.remove %s|%s" % (rv(x), m)]
    ans = ctx.lean(lines)
    for k, (x, vs) in enumerate(lcases):
        m_mem, m_dd, m_rm = ans[3 * k:3 * k + 3]
        m_dd, m_rm = parse_ok(m_dd, True), parse_ok(m_rm, False)
        has_rep = len(set(fr(v) for v in vs)) < len(vs) or any(spec_eq(v, x) for v in vs)
        ctx.case(("list", fr(x), tuple(fr(v) for v in vs)), has_rep,
                 sample={"op": "list", "x": x, "vs": vs, "x_in_vs": m_mem, "distinct": len(m_dd)})
        ctx.count("list_len_%d" % len(vs))
        ctx.count("list_mem_%s" % m_mem)
        ctx.count("list_remove_%s" % ("hit" if m_rm != "ValueError" else "miss"))
        ctx.count("list_dups_%d" % min(len(vs) - len(m_dd), 5))
        i_mem = impl_mem(x, vs)
        if str(int(i_mem)) != m_mem:
            report_list(ctx, "mem", x, vs)
            break
        i_dd = impl_dedup(vs)
        if i_dd != m_dd:
            report_list(ctx, "dedup", x, vs)
            break
        arch = (k % 2 == 1)
        i_rm = impl_remove(x, vs, archive=arch)
        if i_rm != m_rm:
            report_list(ctx, "remove-archive" if arch else "remove", x, vs)
            break
    if ctx.failures:
        return
    # ---- duplicate rejection in GeneticAlgorithm.generate
    n_streams = 700 if ctx.quick else 8000
    scases = []
    while len(scases) < n_streams:
        n, pairs = gen_stream(rng, 8 if ctx.quick else 16, 4)
        if not all_ok([c for p in pairs for c in p]):
            ctx.count("skipped_rounding")
            continue
        scases.append((n, pairs))
    ans = ctx.lean(["c20.generate %d|%s" % (n, mat([c for p in pairs for c in p], rat)) for n, pairs in scases])
    for (n, pairs), a in zip(scases, ans):
        if not a.startswith("ok "):
            raise RuntimeError("model raised on an in-quantifier stream: %r" % a)
        used_m = int(a[3:].split("|")[0])
        m_off = parse_ok(a, True)
        i_off, used_i = impl_generate(n, pairs)
        flat = [fr(c) for p in pairs[:used_m] for c in p]
        ctx.case(("gen", n, tuple(flat)), len(set(flat)) < len(flat),
                 sample={"op": "generate", "max_population_size": n, "pairs": pairs[:used_m], "offspring": len(m_off)})
        ctx.count("gen_N_%d" % n)
        ctx.count("gen_rejected_%d" % min(2 * used_m - len(m_off), 6))
        if i_off != m_off:
            report_gen(ctx, n, pairs)
            break


# --------------------------------------------------------------------------- reports (shrink, then describe)

def report_eq(ctx, v, w):
    def bad(idx):
        vv, ww = [v[i] for i in idx], [w[i] for i in idx]
        return len(idx) >= 1 and (impl_eq(vv, ww) != spec_eq(vv, ww) or impl_eq(ww, vv) != spec_eq(vv, ww))
    idx = list(range(len(v)))
    if bad(idx):
        idx = shrink_list(idx, bad, min_len=1)
    vv, ww = [v[i] for i in idx], [w[i] for i in idx]
    got, got2, want = impl_eq(vv, ww), impl_eq(ww, vv), spec_eq(vv, ww)
    far = [i for i in range(len(vv)) if abs(Fraction(vv[i]) - Fraction(ww[i])) >= TOL]
    if got and not want and far and len(vv) - 1 not in far:
        key = "eq-last-coordinate-only"
    elif got != got2:
        key = "eq-asymmetric"
    else:
        key = "eq-verdict"
    ctx.fail(key, "Individual(%r) == Individual(%r) is %s (reversed: %s); all coordinates within 1e-10: %s (coordinates beyond "
             "the tolerance: %r)" % (vv, ww, got, got2, want, far),
             {"op": "eq", "v": vv, "w": ww, "impl": [got, got2], "spec": want, "original": {"v": v, "w": w}})


def list_bad(op, x, vs):
    if not vs:
        return False
    if op == "mem":
        return impl_mem(x, vs) != any(spec_eq(e, x) for e in vs)
    if op == "dedup":
        return impl_dedup(vs) != spec_dedup(vs)
    return impl_remove(x, vs, archive=op.endswith("archive")) != spec_remove(x, vs)


def report_list(ctx, op, x, vs):
    if list_bad(op, x, vs):
        vs = shrink_list(vs, lambda c: list_bad(op, x, c), min_len=1)
    if op == "mem":
        got, want = impl_mem(x, vs), any(spec_eq(e, x) for e in vs)
        what = "Individual(%r) in %r is %s, but an element with all coordinates within 1e-10 %s" % (
            x, vs, got, "exists" if want else "does not exist")
    elif op == "dedup":
        got, want = impl_dedup(vs), spec_dedup(vs)
        what = "set() over designs %r keeps %d designs %r; the distinct vectors are %d" % (
            vs, len(got), [list(map(float, g)) for g in got], len(want))
    else:
        got, want = impl_remove(x, vs, op.endswith("archive")), spec_remove(x, vs)
        show = lambda r: r if r == "ValueError" else [list(map(float, g)) for g in r]
        what = "%s(Individual(%r)) on %r leaves %r; removing the first equal design leaves %r" % (
            "Archive.remove" if op.endswith("archive") else "list.remove", x, vs, show(got), show(want))
    ctx.fail("consumer-" + op, what, {"op": op, "x": x, "vs": vs})


def report_gen(ctx, n, pairs):
    def bad(ps):
        try:
            return len(ps) >= 1 and impl_generate(n, ps + pad)[0] != spec_generate(n, ps + pad)
        except (StopIteration, ScriptDry):
            return False
    dim = len(pairs[0][0])
    pad = pairs[-(n + 1):]
    body = pairs[:-(n + 1)]
    if bad(body):
        body = shrink_list(body, bad, min_len=1)
    ps = body + pad
    got, want = impl_generate(n, ps)[0], spec_generate(n, ps)
    lost = [list(map(float, w)) for w in want if w not in got]
    extra = [list(map(float, g)) for g in got if g not in want or got.count(g) > want.count(g)]
    ctx.fail("generate-duplicates", "GeneticAlgorithm.generate(max_population_size=%d) fed the child pairs %r (then fresh designs): "
             "offspring missing although distinct from all accepted ones: %r; offspring present although a repeat / unexpected: %r" % (
                 n, body, lost, extra), {"op": "generate", "n": n, "pairs": [[list(a), list(b)] for a, b in ps], "dim": dim})


def replay(ctx, rp):
    c = rp["case"]
    op = c.get("op")
    if op == "hash-after-change":
        from artap.individual import Individual
        a = Individual(list(c["v"]))
        hash(a)
        if c["mode"] == "assign":
            a.vector = list(c["w"])
        elif c["mode"] == "in-place":
            for i, x in enumerate(c["w"]):
                a.vector[i] = x
        else:
            a.sync(Individual(list(c["w"])))
        b = Individual(list(c["w"]))
        print("hash(point) == hash(fresh point with the identical vector):", hash(a) == hash(b), "; set size:", len(set([a, b])))
        return hash(a) == hash(b) and len(set([a, b])) == 1
    if op in ("eq", "hash"):
        v, w = c["v"], c["w"]
        got, got2, want = impl_eq(v, w), impl_eq(w, v), spec_eq(v, w)
        same = fr(v) == fr(w)
        print("v == w: impl %s, reversed %s; all coordinates within 1e-10: %s; identical vectors: %s, hashes equal: %s" % (
            got, got2, want, same, hash(ind(v)) == hash(ind(w))))
        return got == want and got2 == want and (not same or hash(ind(v)) == hash(ind(w)))
    if op in ("mem", "dedup", "remove", "remove-archive"):
        x, vs = c["x"], c["vs"]
        bad = list_bad(op, x, vs)
        print("%s on x=%r vs=%r: implementation %s the specification" % (op, x, vs, "violates" if bad else "meets"))
        return not bad
    if op == "generate":
        ps = [(a, b) for a, b in c["pairs"]]
        got, want = impl_generate(c["n"], ps)[0], spec_generate(c["n"], ps)
        print("offspring (sorted) impl: %r\nexpected: %r" % ([list(map(float, g)) for g in got], [list(map(float, g)) for g in want]))
        return got == want
    print("nothing to replay: ", rp.get("what"))
    return False


def search(ctx):
    """The harness could not drive the code: probe equality directly through whatever still works."""
    for v, w in [([1, 2, 3], [9, 2.5, 3]), ([1.0], [1.0]), ([1.0, 2.0], [1.0, 2.0 + 1e-3]), ([5.0, 1.0], [1.0, 5.0])]:
        try:
            got = impl_eq(v, w)
        except Exception as e:   # noqa
            ctx.fail("eq-raises", "Individual(%r) == Individual(%r) raises %s: %s" % (v, w, type(e).__name__, e),
                     {"op": "eq", "v": v, "w": w})
            return True
        if got != spec_eq(v, w):
            report_eq(ctx, v, w)
            return True
    return False
