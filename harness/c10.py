"""C10 — SQLite store round trip; one row per id, last write wins.

Correspondence: the real `Individual.to_dict/from_dict/_replace_individual_id`, `SqliteDataStore`
(`sync_individual`, `sync_all`, `_create_structure`, `read_from_datastore`) and `ProblemViewDataStore`
against `Artap.Store` (Model/Store.lean; theorems in Props/C10.lean).

Three streams
  unit     to_dict -> json.dumps -> json.loads -> from_dict in-process (no file), thousands of value shapes
  history  random histories of sync_individual / sync_all / record / mutate / reopen on a real temp file
           (all open modes, thread_safe on/off), read back by ProblemViewDataStore in a *fresh process*
  algo     one full run of each synchronising algorithm with the store's sync calls recorded from the
           harness process; the file must equal the model's result for that history and every recorded
           individual must come back with its final data

Everything crosses the process / Lean boundary in one wire format (floats as IEEE bit patterns, ints and
floats distinct); the relation is equality of canonical trees, rows canonicalised as a set keyed by id.
"""
import json
import math
import os
import shutil
import struct
import subprocess
import sys
import tempfile

from . import common
from .common import shrink_list

SCRATCH = "/root/scratch/c10"
FIELDS = ["id", "vector", "costs", "state", "costs_signed", "population_id", "algorithm_id", "custom", "features"]
STATE_NAMES = {"EMPTY": "empty", "IN_PROGRESS": "in_progress", "EVALUATED": "evaluated", "FAILED": "failed"}

# ------------------------------------------------------------------------------------------ wire codec

_SAFE = set("ABCDEFGHIJKLMNOPQRSTUVWXYZabcdefghijklmnopqrstuvwxyz0123456789_.-")


def esc(s):
    return "".join(chr(b) if chr(b) in _SAFE else "%%%02X" % b for b in s.encode("utf-8"))


def unesc(t):
    out = bytearray()
    i = 0
    while i < len(t):
        if t[i] == "%":
            out.append(int(t[i + 1:i + 3], 16))
            i += 3
        else:
            out.append(ord(t[i]))
            i += 1
    return out.decode("utf-8")


def fbits(x):
    return "%016x" % struct.unpack("<Q", struct.pack("<d", float(x)))[0]


def W(v):
    """Python value -> wire text.  Types the store model knows; anything else is a harness error."""
    import numpy as np
    from artap.individual import Individual
    if v is None:
        return "n"
    if isinstance(v, bool):
        return "T" if v else "F"
    if isinstance(v, int):
        return "i%d;" % v
    if isinstance(v, float):            # includes numpy.float64
        if v != v:
            raise ValueError("NaN is outside the property's quantifier")
        return "d" + fbits(v)
    if isinstance(v, str):
        return "s" + esc(v) + ";"
    if isinstance(v, Individual):
        return "@%d;" % v.id
    if isinstance(v, (list, tuple, np.ndarray)):
        return "[" + "".join(W(x) for x in v) + "]"
    if isinstance(v, dict):
        for k in v:
            if not isinstance(k, str):
                raise ValueError("non-string dict key %r" % (k,))
        return "{" + "".join("s" + esc(k) + ";" + W(x) for k, x in v.items()) + "}"
    raise ValueError("value of type %s is outside the store model" % type(v).__name__)


def parse_wire(t):
    """wire text -> canonical tree: None, bool, ('i', n), ('f', bits), ('s', str), ('@', id), list, dict."""
    pos = 0

    def until_semi():
        nonlocal pos
        j = t.index(";", pos)
        s = t[pos:j]
        pos = j + 1
        return s

    def val():
        nonlocal pos
        c = t[pos]
        pos += 1
        if c == "n":
            return None
        if c == "T":
            return True
        if c == "F":
            return False
        if c == "i":
            return ("i", int(until_semi()))
        if c == "@":
            return ("@", int(until_semi()))
        if c == "d":
            s = t[pos:pos + 16]
            pos += 16
            return ("f", s)
        if c == "s":
            return ("s", unesc(until_semi()))
        if c == "[":
            xs = []
            while t[pos] != "]":
                xs.append(val())
            pos += 1
            return xs
        if c == "{":
            d = {}
            while t[pos] != "}":
                if t[pos] != "s":
                    raise ValueError("bad key")
                pos += 1
                k = unesc(until_semi())
                d[k] = val()
            pos += 1
            return d
        raise ValueError("bad wire char %r at %d" % (c, pos - 1))
    r = val()
    if pos != len(t):
        raise ValueError("trailing wire text")
    return r


def canon(v):
    return parse_wire(W(v))


def pretty(c):
    """canonical tree -> readable text for messages."""
    if isinstance(c, tuple):
        if c[0] == "f":
            return repr(struct.unpack("<d", struct.pack("<Q", int(c[1], 16)))[0]) + "f"
        if c[0] == "@":
            return "<Individual %d>" % c[1]
        return repr(c[1])
    if isinstance(c, list):
        return "[" + ", ".join(pretty(x) for x in c) + "]"
    if isinstance(c, dict):
        return "{" + ", ".join("%r: %s" % (k, pretty(x)) for k, x in c.items()) + "}"
    return repr(c)


def state_name(st):
    """`Individual.State` member -> its store name; anything else (e.g. the string left by from_dict) -> None."""
    from artap.individual import Individual
    if isinstance(st, Individual.State):
        return STATE_NAMES[st.name]
    return None


def W_ind(o):
    """Snapshot of a live Individual for the model (attributes read directly, not through to_dict)."""
    if not isinstance(o.id, int) or isinstance(o.id, bool):
        raise ValueError("non-int id")
    parts = [("id", W(o.id)), ("vector", W(list(o.vector))), ("costs", W(list(o.costs))),
             ("costs_signed", W(o.costs_signed)), ("state", W(state_name(o.state))),
             ("population_id", W(o.population_id)), ("algorithm_id", W(o.algorithm_id)),
             ("custom", W(o.custom)), ("features", W(dict(o.features))),
             ("parents", W(list(o.parents))), ("children", W(list(o.children)))]
    return "{" + "".join("s" + k + ";" + w for k, w in parts) + "}"


def W_view(o):
    """What a read-mode view exposes of one individual (the attributes set by from_dict)."""
    return "{" + "".join("s" + k + ";" + W(getattr(o, k)) for k in FIELDS) + "}"


# ------------------------------------------------------------------------------------------ python mirror
# (replay and messages only; the verdict of a run always comes from the Lean model)

def m_replace(c):
    if isinstance(c, tuple) and c[0] == "@":
        return ("i", c[1])
    if isinstance(c, list):
        return [m_replace(x) for x in c]
    if isinstance(c, tuple) and c[0] == "s":
        if c[1] == "":
            return []
        raise RecursionError
    if isinstance(c, dict):
        if all(k == "" for k in c):
            return [[] for _ in c]
        raise RecursionError
    return c


def m_jsonable(c):
    if isinstance(c, tuple):
        return c[0] != "@"
    if isinstance(c, list):
        return all(m_jsonable(x) for x in c)
    if isinstance(c, dict):
        return all(m_jsonable(x) for x in c.values())
    return True


def m_encode(ind):
    d = {k: ind[k] for k in ["id", "vector", "costs", "costs_signed", "state", "population_id", "algorithm_id", "custom",
                             "features"]}
    d["parents"] = [m_replace(x) for x in ind["parents"]]
    d["children"] = [m_replace(x) for x in ind["children"]]
    d["features"] = {k: m_replace(x) for k, x in ind["features"].items()}
    if not m_jsonable(d):
        raise TypeError
    return d


def m_session(problem, ops):
    """-> (problem, {id: view}, {id: blob})"""
    rows = {}
    for op in ops:
        inds = [op["ind"]] if op["op"][1] == "ind" else op["inds"]
        new = dict(rows)
        for ind in inds:
            new[ind["id"][1]] = m_encode(ind)
        rows = new
    views = {i: {k: b[k] for k in FIELDS} for i, b in rows.items()}
    return problem, views, rows


# ------------------------------------------------------------------------------------------ value specs
# JSON-able descriptions of Python values (so that a replay file rebuilds exactly the same objects)

def build(spec, objs):
    import numpy as np
    if spec is None or isinstance(spec, (bool, int)):
        return spec
    if isinstance(spec, list):
        return [build(x, objs) for x in spec]
    if "f" in spec:
        return common.unbits(spec["f"])
    if "np" in spec:
        return np.float64(common.unbits(spec["np"]))
    if "s" in spec:
        return spec["s"]
    if "t" in spec:
        return tuple(build(x, objs) for x in spec["t"])
    if "nd" in spec:
        return np.array([common.unbits(b) for b in spec["nd"]], dtype=np.float64)
    if "d" in spec:
        return {k: build(x, objs) for k, x in spec["d"]}
    if "ref" in spec:
        return objs[spec["ref"]]
    raise ValueError("bad spec %r" % (spec,))


SPECIAL = [0.0, -0.0, math.inf, -math.inf, 1e300, -1e300, 1e-300, 5e-324, -5e-324, 2.2250738585072014e-308, 1e-310,
           0.1, 1.0 / 3.0, 1.0 + 2 ** -52, 123456789.12345679, 1e22, 1e23, 9007199254740993.0, math.pi, 1.7976931348623157e308,
           -1.5, 2.5, 1.0, 7.0, 4.35, 0.30000000000000004, 1e16, 5e-5, 123456.7, 1e21, 1e-7]
STRINGS = ["", "a", "front", "x;y|z", "%41", "é中\U0001F600", "line\nbreak\t\"q\" \\", "{[s;]}", "NaN", "Infinity", "null",
           "id", "features", " sp ace "]
FEATURE_KEYS = ["front_number", "crowding_distance", "dominate", "domination_counter", "velocity", "best_cost", "best_vector",
                "gradient", "sensitivity", "feasible", "precision", "start_time", "finish_time", "kéy;|", "custom", "id"]


def g_bits(rng):
    r = rng.random()
    if r < 0.4:
        return common.bits(rng.choice(SPECIAL))
    if r < 0.7:
        while True:
            b = rng.getrandbits(64)
            if (b >> 52) & 0x7FF != 0x7FF:      # finite
                return "%016x" % b
    if r < 0.8:
        return common.bits(float(rng.randint(-1000, 1000)))
    return common.bits(rng.uniform(-10, 10) * 10 ** rng.randint(-8, 8))


def g_float(rng):
    return {("np" if rng.random() < 0.35 else "f"): g_bits(rng)}


def g_floats(rng, n):
    return [g_float(rng) for _ in range(n)]


def g_json(rng, depth):
    """nested JSON-able custom data"""
    r = rng.random()
    if depth <= 0 or r < 0.45:
        k = rng.randrange(7)
        if k == 0:
            return None
        if k == 1:
            return rng.random() < 0.5
        if k == 2:
            return rng.choice([0, 1, -1, 7, 2 ** 31, -2 ** 63, 2 ** 70 + 1, 10 ** 18, rng.randint(-10 ** 6, 10 ** 6)])
        if k == 3:
            return {"s": rng.choice(STRINGS)}
        return g_float(rng)
    if r < 0.7:
        xs = [g_json(rng, depth - 1) for _ in range(rng.randint(0, 4))]
        return {"t": xs} if rng.random() < 0.25 else xs
    keys = rng.sample(STRINGS, rng.randint(0, 3))
    return {"d": [[k, g_json(rng, depth - 1)] for k in keys]}


def g_feature(rng, nobj, depth=2):
    """feature values as the framework's algorithms write them (numbers, None, lists, ndarrays, ids,
    references to individuals, nested lists of those) -- no strings, no dicts"""
    r = rng.random()
    if r < 0.12:
        return None
    if r < 0.22:
        return rng.choice([0, 1, 7, -1, rng.randint(0, 50)])
    if r < 0.3:
        return rng.random() < 0.5
    if r < 0.5:
        return g_float(rng)
    if r < 0.62:
        return g_floats(rng, rng.randint(0, 4))
    if r < 0.7:
        return {"nd": [g_bits(rng) for _ in range(rng.randint(0, 4))]}
    if r < 0.78:
        return [rng.randint(0, 30) for _ in range(rng.randint(0, 4))]
    if r < 0.86 and nobj:
        return {"ref": rng.randrange(nobj)}
    if r < 0.93 and nobj:
        return [{"ref": rng.randrange(nobj)} for _ in range(rng.randint(1, 3))]
    if depth > 0:
        xs = [g_feature(rng, nobj, depth - 1) for _ in range(rng.randint(0, 3))]
        return {"t": xs} if rng.random() < 0.3 else xs
    return g_float(rng)


def g_ind(rng, nobj, idpool):
    n = rng.randint(0, 4)
    m = rng.randint(0, 3)
    vec = g_floats(rng, n)
    r = rng.random()
    vector = {"t": vec} if r < 0.1 else ({"nd": [list(v.values())[0] for v in vec]} if r < 0.25 else vec)
    costs = g_floats(rng, m)
    cs = g_floats(rng, m) + ([rng.random() < 0.5] if rng.random() < 0.8 else [])
    feats = [["start_time", g_float(rng)], ["finish_time", g_float(rng)],
             ["feasible", rng.choice([{"f": common.bits(0.0)}, True, False])], ["precision", 7]]
    for k in rng.sample(FEATURE_KEYS, rng.randint(0, 5)):
        feats = [kv for kv in feats if kv[0] != k] + [[k, g_feature(rng, nobj)]]
    custom = {"d": [[k, g_json(rng, 3)] for k in rng.sample(STRINGS, rng.randint(0, 3))]}
    refs = lambda: [{"ref": rng.randrange(nobj)} for _ in range(rng.randint(0, 3))] if nobj else []
    return {"id": rng.choice(idpool), "vector": vector, "costs": costs, "costs_signed": cs,
            "state": rng.choice(["EMPTY", "IN_PROGRESS", "EVALUATED", "EVALUATED", "FAILED"]),
            "population_id": rng.choice([-1, 0, 1, 2, 3, rng.randint(0, 100)]), "algorithm_id": rng.choice([0, 0, 1, 5]),
            "custom": custom, "features": {"d": feats}, "parents": refs(), "children": refs()}


def apply_ind(o, spec, objs):
    from artap.individual import Individual
    o.id = spec["id"]
    o.vector = build(spec["vector"], objs)
    o.costs = build(spec["costs"], objs)
    o.costs_signed = build(spec["costs_signed"], objs)
    o.state = Individual.State[spec["state"]]
    o.population_id = spec["population_id"]
    o.algorithm_id = spec["algorithm_id"]
    o.custom = build(spec["custom"], objs)
    o.features = build(spec["features"], objs)
    o.parents = build(spec["parents"], objs)
    o.children = build(spec["children"], objs)


def touch(o, kind, v):
    """In-place edit of a live individual (no attribute is re-assigned)."""
    if kind == 0 and isinstance(o.custom, dict):
        o.custom["touched"] = o.custom.get("touched", 0.0) + v if isinstance(o.custom.get("touched", 0.0), float) else v
    elif kind == 1 and isinstance(o.costs_signed, list):
        if o.costs_signed and isinstance(o.costs_signed[0], float):
            o.costs_signed[0] = o.costs_signed[0] + v
        else:
            o.costs_signed.append(v)
    elif kind == 2 and isinstance(o.vector, list) and o.vector and isinstance(o.vector[0], float):
        o.vector[0] = o.vector[0] + v
    elif isinstance(o.custom, dict):
        for val in o.custom.values():
            if isinstance(val, list):
                val.append(v)
                return
        o.custom["nested"] = [v]
    elif isinstance(o.costs, list):
        o.costs.append(v)


def g_problem(rng):
    names = rng.sample(["x_1", "x_2", "x", "y", "R;1", "α", "len gth", "p%", "q", "z_10"], rng.randint(0, 5))
    params = []
    for n in names:
        d = [["name", {"s": n}]]
        if rng.random() < 0.8:
            d.append(["initial_value", rng.choice([g_float(rng), 0, 3])])
        if rng.random() < 0.9:
            d.append(["bounds", [rng.choice([g_float(rng), -10]), rng.choice([g_float(rng), 10])]])
        if rng.random() < 0.3:
            d.append(["parameter_type", {"s": rng.choice(["real", "integer", "boolean"])}])
        if rng.random() < 0.2:
            d.append(["precision", g_float(rng)])
        rng.shuffle(d)
        params.append({"d": d})
    cnames = rng.sample(["F", "F_1", "F_2", "cost;", "Δ", "g"], rng.randint(0, 3))
    costs = []
    for n in cnames:
        d = [["name", {"s": n}]]
        if rng.random() < 0.8:
            d.append(["criteria", {"s": rng.choice(["minimize", "maximize"])}])
        if rng.random() < 0.2:
            d.append(["weight", g_float(rng)])
        costs.append({"d": d})
    return {"name": rng.choice(["NLopt_BOBYQA", "p", "", "Problém ;|1", "a b"]),
            "description": rng.choice(["", "desc", "two\nlines", "x;y"]), "parameters": params, "costs": costs}


def g_history(rng, quick):
    nobj = rng.randint(1, 7)
    idpool = rng.sample([0, 1, 2, 3, 4, 5, 6, 7, -1, 2 ** 40, 10 ** 15, -2 ** 62, 123456], rng.randint(1, nobj + 1))
    objs = [g_ind(rng, nobj, idpool) for _ in range(nobj)]
    nops = rng.randint(1, 14 if quick else 40)
    ops = []
    for _ in range(nops):
        r = rng.random()
        if r < 0.2:
            ops.append(["set", rng.randrange(nobj), g_ind(rng, nobj, idpool)])
        elif r < 0.3:
            # edit the live object IN PLACE (custom data, signed costs, vector) - as user code and the algorithms do
            # between two synchronisations; a store must write what the object holds now, not what it remembers
            ops.append(["touch", rng.randrange(nobj), rng.randrange(4), rng.choice([0.5, -2.25, 7.0, 1e-3])])
            if rng.random() < 0.6:
                ops.append(["sync_all"])
        elif r < 0.62:
            ops.append(["sync", rng.randrange(nobj)])
        elif r < 0.8:
            ops.append(["record", rng.randrange(nobj)])
        elif r < 0.94:
            ops.append(["sync_all"])
        else:
            ops.append(["reopen"])
    if rng.random() < 0.4:
        ops.append(["sync_all"])
    return {"stream": "history", "mode": rng.choice(["write", "write", "write-empty", "rewrite", "rewrite-existing"]),
            "thread_safe": rng.random() < 0.6, "problem": g_problem(rng), "objs": objs, "ops": ops}


# ------------------------------------------------------------------------------------------ implementation side

class Hang(BaseException):
    """raised by the watchdog inside the implementation (BaseException: not swallowed by `except Exception`)"""


class deadline:
    """`with deadline(seconds):` -- SIGALRM based; a store call that never returns (e.g. endless lock retries)
    becomes a Hang instead of blocking the check."""

    def __init__(self, seconds):
        self.seconds = seconds

    def _fire(self, *a):
        raise Hang()

    def __enter__(self):
        import signal
        self.old = signal.signal(signal.SIGALRM, self._fire)
        signal.alarm(self.seconds)

    def __exit__(self, *a):
        import signal
        signal.alarm(0)
        signal.signal(signal.SIGALRM, self.old)
        return False


HANG_S = 40

def problem_class():
    from artap.problem import Problem

    class HarnessProblem(Problem):
        def set(self, **kwargs):
            pass

        def evaluate(self, individual):
            return []
    return HarnessProblem


def new_problem(pdef=None):
    import atexit
    p = problem_class()()
    atexit.unregister(p.cleanup)          # the harness cleans up itself, right away
    if pdef is not None:
        p.name = pdef["name"]
        p.description = pdef["description"]
        p.parameters = [build(x, []) for x in pdef["parameters"]]
        p.costs = [build(x, []) for x in pdef["costs"]]
    return p


def drop_problem(p):
    try:
        p.cleanup()
    except Exception:
        pass


def W_problem(p):
    return "{sname;%ssdescription;%ssparameters;%sscosts;%s}" % (W(p.name), W(p.description), W(list(p.parameters)),
                                                                 W(list(p.costs)))


def write_history(case, path):
    """Execute the history on the real store.  Returns (wire problem, [wire op], error or None)."""
    from artap.datastore import SqliteDataStore
    from artap.individual import Individual
    mode = case["mode"]
    ts = case["thread_safe"]
    for suffix in ("", "-journal"):
        if os.path.exists(path + suffix):
            os.remove(path + suffix)
    problems = []
    wops = []
    p = new_problem(case["problem"])
    problems.append(p)
    wp = W_problem(p)
    try:
      with deadline(HANG_S):
        if mode == "write-empty":
            open(path, "w").close()
        if mode == "rewrite-existing":       # a file with other content that `rewrite` must discard
            q = new_problem({"name": "old", "description": "old", "parameters": [{"d": [["name", {"s": "old_p"}]]}], "costs": []})
            problems.append(q)
            st = SqliteDataStore(q, database_name=path, mode="write", thread_safe=ts)
            z = Individual([1.0])
            z.id = case["objs"][0]["id"]
            st.sync_individual(z)
            st.destroy()
        store = SqliteDataStore(p, database_name=path, mode="rewrite" if mode.startswith("rewrite") else "write", thread_safe=ts)
        p.data_store = store
        objs = [Individual() for _ in case["objs"]]
        peeked = []
        for o, spec in zip(objs, case["objs"]):
            apply_ind(o, spec, objs)
        for k, op in enumerate(case["ops"]):
            try:
                if op[0] == "set":
                    apply_ind(objs[op[1]], op[2], objs)
                elif op[0] == "touch":
                    touch(objs[op[1]], op[2], op[3])
                elif op[0] == "record":
                    p.individuals.append(objs[op[1]])
                elif op[0] == "sync":
                    wops.append("{sop;sind;sind;%s}" % W_ind(objs[op[1]]))
                    store.sync_individual(objs[op[1]])
                    if len(case["ops"]) % 3 == 0 and not peeked:
                        peeked.append(1)
                        try:                       # an early look through a read-mode view (its result is not used): a later
                            peek_view(path)        # view must show what has been synchronised by then, not this state again
                        except Exception:          # noqa
                            pass
                elif op[0] == "sync_all":
                    wops.append("{sop;sall;sinds;[%s]}" % "".join(W_ind(o) for o in p.individuals))
                    store.sync_all()
                elif op[0] == "reopen":       # continue on the existing file from another Problem object (write mode)
                    store.destroy()
                    p = new_problem({"name": "other", "description": "other", "parameters": [], "costs": []})
                    problems.append(p)
                    store = SqliteDataStore(p, database_name=path, mode="write", thread_safe=ts)
                    p.data_store = store
            except Exception as e:
                return wp, wops, "op %d %r raised %s: %s" % (k, op[0], type(e).__name__, e)
        if len(case["ops"]) % 3 == 0:
            # a read-mode view opened while the writer's store object is still open (nothing closed, no final sync_all)
            # returns what has been synchronised so far - the same as a view opened after the store was closed
            try:
                before = peek_view(path)
            except Exception as e:   # noqa
                return wp, wops, "view-before-close: a read-mode view of the file raised %s: %s while the store that wrote it was still open" % (type(e).__name__, e)
            store.destroy()
            after = peek_view(path)
            if before != after:
                return wp, wops, ("view-before-close: a read-mode view opened while the store object was still open returned %d individual(s) %r, "
                                  "after the store was closed it returns %d: %r" % (len(before), before[:3], len(after), after[:3]))
            raw = raw_rows(path)
            if raw is not None and raw != after:
                return wp, wops, ("view-before-close: a read-mode view opened after an earlier view of the same file in this process returns "
                                  "%r, the rows in the file are %r" % (after[:3], raw[:3]))
            return wp, wops, None
        store.destroy()
        return wp, wops, None
    except Hang:
        return wp, wops, "the history did not finish within %d s (a synchronisation call never returns)" % HANG_S
    finally:
        for q in problems:
            drop_problem(q)


def raw_rows(path):
    """the rows of the file decoded directly (no view, no Individual): (id, vector, costs, population id)"""
    import sqlite3
    try:
        c = sqlite3.connect(path)
        rows = c.execute("SELECT id, individual FROM individuals").fetchall()
        c.close()
        out = []
        for i, t in rows:
            d = json.loads(t)
            out.append((d["id"], repr([float(x) for x in d["vector"]]), repr([float(x) for x in d["costs"]]), d["population_id"]))
        return sorted(out)
    except Exception:   # noqa  (another document layout: nothing to compare with)
        return None


def peek_view(path):
    import atexit
    from artap.problem import ProblemViewDataStore
    v = ProblemViewDataStore(database_name=path)
    try:
        return sorted((i.id, repr([float(x) for x in i.vector]), repr([float(c) for c in i.costs]), i.population_id) for i in v.individuals)
    finally:
        try:
            atexit.unregister(v.cleanup)
            v.cleanup()
        except Exception:   # noqa
            pass


def read_files(paths, rundir):
    """Read every file through ProblemViewDataStore in ONE fresh process; -> list of dicts."""
    lst = os.path.join(rundir, "read-%d.json" % len(os.listdir(rundir)))
    with open(lst, "w") as fh:
        json.dump(paths, fh)
    env = dict(os.environ)
    env["REPO"] = common.REPO
    env["TMPDIR"] = rundir
    r = subprocess.run([sys.executable, "-m", "harness.c10", "--read", lst], cwd=common.VERIF, env=env, capture_output=True,
                       text=True, timeout=900)
    lines = [l for l in r.stdout.splitlines() if l.startswith("C10READ ")]
    if r.returncode != 0 or len(lines) != len(paths):
        # the reader itself died (import error, API gone): the read-mode view cannot be produced any more
        raise RuntimeError("reader process failed rc=%s: %s" % (r.returncode, (r.stderr or r.stdout)[-1500:]))
    return [json.loads(l[8:]) for l in lines]


def reader_main(lst):
    """(child process) open each file read-only and print what the view exposes, in wire format."""
    import sqlite3
    common.quiet_artap()
    tempfile.tempdir = os.environ.get("TMPDIR") or None
    from artap.problem import ProblemViewDataStore
    import atexit
    for path in json.load(open(lst)):
        out = {}
        try:
            v = ProblemViewDataStore(database_name=path)
            atexit.unregister(v.cleanup)
            out["problem"] = W_problem(v)
            out["views"] = [W_view(i) for i in v.individuals]
            drop_problem(v)
            c = sqlite3.connect(path)
            rows = c.execute("SELECT id, individual FROM individuals").fetchall()
            c.close()
            out["row_ids"] = [r[0] for r in rows]
            out["rows"] = [W(json.loads(r[1])) for r in rows]
        except Exception as e:
            out["error"] = "%s: %s" % (type(e).__name__, e)
        print("C10READ " + json.dumps(out))
    sys.stdout.flush()


# ------------------------------------------------------------------------------------------ comparison

def parse_model(ans):
    """model answer -> (problem, [view], [blob]) canonical, or ('raise', where)"""
    if ans.startswith("raise"):
        return ("raise", ans[6:])
    if not ans.startswith("ok "):
        raise common.InfraError("unexpected model answer %r" % ans[:200])
    p, vs, rows = ans[3:].split("|")
    return parse_wire(p), parse_wire(vs), parse_wire(rows)


def by_id(items):
    d = {}
    for it in items:
        d.setdefault(pretty(it.get("id")) if isinstance(it, dict) else "?", []).append(it)
    return d


def compare(got, model):
    """got: dict from the reader; model: parse_model.  -> None or (key, sentence)"""
    if "error" in got:
        return "read-raised", "the read-mode view could not be opened: " + got["error"]
    mp, mviews, mrows = model
    gp = parse_wire(got["problem"])
    for f in ("name", "description", "parameters", "costs"):
        if gp[f] != mp[f]:
            return "problem-" + f, "problem %s read back as %s, written %s" % (f, pretty(gp[f]), pretty(mp[f]))
    gviews = [parse_wire(x) for x in got["views"]]
    gi, mi = by_id(gviews), by_id(mviews)
    for k in sorted(set(gi) | set(mi)):
        a, b = gi.get(k, []), mi.get(k, [])
        if len(a) != len(b):
            return "row-count", "id %s: the view returns %d individual(s), %d row expected (one row per id, last wins)" % (
                k, len(a), len(b))
        for x, y in zip(a, b):
            for f in FIELDS:
                if x[f] != y[f]:
                    return "view-" + f, "individual id %s: %s read back as %s, last synchronised value %s" % (
                        k, f, pretty(x[f]), pretty(y[f]))
    # the stored JSON documents: every key the model writes must be there with the model's value
    grows = [parse_wire(x) for x in got["rows"]]
    if sorted(got["row_ids"]) != sorted(r["id"][1] for r in mrows):
        return "row-ids", "id column %r, expected %r" % (sorted(got["row_ids"]), sorted(r["id"][1] for r in mrows))
    gi, mi = by_id(grows), by_id(mrows)
    for k in sorted(mi):
        for x, y in zip(gi.get(k, []), mi[k]):
            for f, val in y.items():
                if not isinstance(x, dict) or x.get(f, "<missing>") != val:
                    return "row-json-" + f, "row %s: stored %s = %s, expected %s" % (
                        k, f, pretty(x.get(f)) if isinstance(x, dict) and f in x else "<missing>", pretty(val))
    return None


# ------------------------------------------------------------------------------------------ streams

def unit_case(rng):
    nobj = rng.randint(1, 4)
    idpool = [rng.randint(-5, 60) for _ in range(3)] + [2 ** 40]
    return {"stream": "unit", "objs": [g_ind(rng, nobj, idpool) for _ in range(nobj)]}


def unit_impl(case):
    """-> (wire ind, wire view or error string) of object 0"""
    from artap.individual import Individual
    objs = [Individual() for _ in case["objs"]]
    for o, spec in zip(objs, case["objs"]):
        apply_ind(o, spec, objs)
    w = W_ind(objs[0])
    try:
        back = Individual.from_dict(json.loads(json.dumps(objs[0].to_dict())))
        return w, W_view(back), None
    except Exception as e:
        return w, None, "%s: %s" % (type(e).__name__, e)


def unit_diff(view_wire, err, model_ans):
    if model_ans == "raise":
        raise common.InfraError("generator produced an individual outside the quantifier (model raises)")
    mv = parse_wire(model_ans[3:])
    if err is not None:
        return "unit-raised", "to_dict/json/from_dict raised %s" % err
    gv = parse_wire(view_wire)
    for f in FIELDS:
        if gv[f] != mv[f]:
            return "view-" + f, "to_dict -> json -> from_dict: %s came back as %s, expected %s" % (f, pretty(gv[f]), pretty(mv[f]))
    return None


def run_unit(ctx):
    n = 3000 if ctx.quick else 20000
    cases = [unit_case(ctx.rng) for _ in range(n)]
    impl = [unit_impl(c) for c in cases]
    model = ctx.lean(["c10.roundtrip " + w for w, _, _ in impl])
    for c, (w, v, err), mo in zip(cases, impl, model):
        spec = c["objs"][0]
        nontriv = bool(spec["parents"] or spec["children"] or len(spec["features"]["d"]) > 4 or spec["custom"]["d"])
        ctx.case(("unit", w), nontriv)
        ctx.count("unit_cases")
        if "@" in w:
            ctx.count("unit_with_individual_refs")
        d = unit_diff(v, err, mo)
        if d:
            ctx.fail(d[0], d[1] + " (in-process round trip, no file)", {"stream": "unit", "objs": c["objs"]})
            return False
    return True


def run_history_batch(ctx, cases, rundir, tag):
    """write all, read all in one fresh process, model all in one lean call; -> list of (case, diff)"""
    written = []
    for k, c in enumerate(cases):
        path = os.path.join(rundir, "%s-%d.sqlite" % (tag, k))
        wp, wops, err = write_history(c, path)
        written.append((path, wp, wops, err))
        if err is not None:          # first failure of the stream: do not execute the rest
            break
    cases = cases[:len(written)]
    okp = [w[0] for w in written if w[3] is None]
    gotd = dict(zip(okp, read_files(okp, rundir))) if okp else {}
    got = [gotd.get(w[0]) for w in written]
    model = ctx.lean(["c10.session %s|[%s]" % (wp, "".join(wops)) for _, wp, wops, _ in written])
    res = []
    for c, (path, wp, wops, err), g, mo in zip(cases, written, got, model):
        pm = parse_model(mo)
        if pm[0] == "raise":
            raise common.InfraError("generator produced a history outside the quantifier (model raises at %s)" % pm[1])
        if err is not None and err.startswith("view-before-close: "):
            d = ("view-before-close", err[len("view-before-close: "):])
        elif err is not None:
            d = ("sync-raised", "a synchronisation call raised on data inside the property's quantifier: " + err)
        else:
            d = compare(g, pm)
        res.append((c, d, len(wops), pm))
        for suffix in ("", "-journal"):
            if os.path.exists(path + suffix):
                os.remove(path + suffix)
    return res


def history_nontrivial(c):
    syncs = [op for op in c["ops"] if op[0] in ("sync", "sync_all")]
    return len(syncs) >= 2


def run_history(ctx, rundir):
    n = 300 if ctx.quick else 2500
    cases = [g_history(ctx.rng, ctx.quick) for _ in range(n)]
    for lo in range(0, n, 250):
        batch = cases[lo:lo + 250]
        for c, d, nops, pm in run_history_batch(ctx, batch, rundir, "h%d" % lo):
            ids = [r["id"][1] for r in pm[2]]
            ctx.case(("history", json.dumps(c, sort_keys=True)), history_nontrivial(c),
                     sample={"stream": "history", "mode": c["mode"], "thread_safe": c["thread_safe"],
                             "ops": [op[:2] if op[0] not in ("set", "touch") else op[:2] for op in c["ops"]], "rows_expected": sorted(ids)})
            ctx.count("history_mode_" + c["mode"])
            ctx.count("history_thread_safe_%s" % c["thread_safe"])
            ctx.count("history_sync_calls", nops)
            ctx.count("history_rows_%d" % min(len(ids), 6))
            for op in c["ops"]:
                ctx.count("history_op_" + op[0])
            if d:
                report_history(ctx, c, d, rundir)
                return False
    return True


def report_history(ctx, case, d, rundir):
    budget = [14]

    def still(ops):
        if budget[0] <= 0:
            return False
        budget[0] -= 1
        c2 = dict(case, ops=ops)
        r = run_history_batch(ctx, [c2], rundir, "shrink")[0][1]
        return r is not None and r[0] == d[0]
    ops = case["ops"]
    try:
        ops = shrink_list(ops, still, min_len=1)
        c2 = dict(case, ops=ops)
        d2 = run_history_batch(ctx, [c2], rundir, "shrink")[0][1]
        if d2 is not None and d2[0] == d[0]:
            case, d = c2, d2
    except Exception:
        pass
    ctx.fail(d[0], "history of %d call(s) on a %s-mode store (thread_safe=%s): %s" % (
        len(case["ops"]), case["mode"], case["thread_safe"], d[1]), case)


# --- algorithm runs

ALGOS = ["NSGAII", "NSGAII-parallel", "EpsMOEA", "OMOPSO", "SMPSO", "PSOGA", "Sweep", "ScipyOpt", "NLopt", "GradientDescent", "CMA_ES"]


def make_algo(name, p, N, G, rng):
    if name.startswith("NSGAII"):
        from artap.algorithm_NSGAII import NSGAII
        a = NSGAII(p)
        a.options['max_processes'] = 3 if name.endswith("parallel") else 1
    elif name == "EpsMOEA":
        from artap.algorithm_genetic import EpsMOEA
        a = EpsMOEA(p)
        a.options['epsilons'] = 0.1
    elif name in ("OMOPSO", "SMPSO", "PSOGA"):
        import artap.algorithm_swarm as m
        a = getattr(m, name)(p)
    elif name == "Sweep":
        from artap.algorithm_sweep import SweepAlgorithm
        from artap.operators import CustomGenerator
        g = CustomGenerator(p.parameters)
        g.init([[rng.uniform(-5, 5) for _ in p.parameters] for _ in range(N)])
        return SweepAlgorithm(p, generator=g)
    elif name == "ScipyOpt":
        from artap.algorithm_scipy import ScipyOpt
        a = ScipyOpt(p)
        a.options['algorithm'] = 'Nelder-Mead'
        a.options['tol'] = 1e-1
        a.options['n_iterations'] = N
        return a
    elif name == "NLopt":
        from artap.algorithm_nlopt import NLopt, LN_BOBYQA
        a = NLopt(p)
        a.options['algorithm'] = LN_BOBYQA
        a.options['n_iterations'] = N + 4
        return a
    elif name == "GradientDescent":
        from artap.algorithm_gradient_descent import GradientDescent
        a = GradientDescent(p)
        a.options['n_iterations'] = G
        return a
    elif name == "CMA_ES":
        from artap.algorithm_cmaes import CMA_ES
        a = CMA_ES(p)
    else:
        raise ValueError(name)
    a.options['max_population_number'] = G
    a.options['max_population_size'] = N
    return a


def algo_problem(name, nobj, shift):
    from artap.problem import Problem
    import atexit
    single = name in ("ScipyOpt", "NLopt", "GradientDescent", "CMA_ES")

    class RunProblem(Problem):
        def set(self, **kwargs):
            self.name = "run " + name
            self.description = "C10 run"
            # float bounds: the framework copies a bound into the vector; the property is about float values
            self.parameters = [{'name': 'x_1', 'initial_value': 2.5, 'bounds': [-10.0, 10.0]},
                               {'name': 'x_2', 'initial_value': 1.5, 'bounds': [-10.0, 10.0]}]
            self.costs = [{'name': 'F_1', 'criteria': 'minimize'}] if single else \
                [{'name': 'F_%d' % (k + 1), 'criteria': 'minimize' if k % 2 == 0 else 'maximize'} for k in range(nobj)]

        def evaluate(self, individual):
            x, y = float(individual.vector[0]), float(individual.vector[1])
            individual.custom["functions"] = [x * x, {"y": (y, None)}]
            f = [x * x + y * y + shift, (x - 1.0) ** 2 - y, x * y / 7.0]
            return f[:1] if single else f[:nobj]

        def evaluate_inequality_constraints(self, x):
            return [] if shift < 0.5 else [x[0] - 5.0]
    p = RunProblem()
    atexit.unregister(p.cleanup)
    return p


def run_algo_once(cfg, path):
    """-> (wire problem, wire ops, final snapshots, error)"""
    import random
    import io
    import contextlib
    import numpy as np
    from artap.datastore import SqliteDataStore
    name = cfg["algo"]
    random.seed(cfg["seed"])
    np.random.seed(cfg["seed"])
    for suffix in ("", "-journal"):
        if os.path.exists(path + suffix):
            os.remove(path + suffix)
    p = algo_problem(name, cfg["nobj"], cfg["shift"])
    try:
        wp = W_problem(p)
        store = SqliteDataStore(p, database_name=path, thread_safe=cfg["thread_safe"])
        p.data_store = store
        wops = []
        orig_one, orig_all = store.sync_individual, store.sync_all

        def rec_one(individual):
            wops.append("{sop;sind;sind;%s}" % W_ind(individual))
            return orig_one(individual)

        def rec_all():
            wops.append("{sop;sall;sinds;[%s]}" % "".join(W_ind(o) for o in p.individuals))
            return orig_all()
        store.sync_individual, store.sync_all = rec_one, rec_all
        with contextlib.redirect_stdout(io.StringIO()), contextlib.redirect_stderr(io.StringIO()):
            a = make_algo(name, p, cfg["N"], cfg["G"], random.Random(cfg["seed"]))
            try:
                with deadline(HANG_S + 20):
                    a.run()
            except Hang:
                return wp, wops, [], "%s.run() did not finish within %d s (a synchronisation call never returns)" % (name, HANG_S + 20)
            except Exception as e:
                return wp, wops, [], "%s.run() raised %s: %s" % (name, type(e).__name__, e)
        store.destroy()
        final = [(o.id, W_ind(o)) for o in p.individuals]
        return wp, wops, final, None
    finally:
        drop_problem(p)


def check_algos(ctx, cfgs, rundir, tag="algo"):
    """Run every configuration (one file each), read all files in one fresh process, ask the model in one
    call.  -> list of (cfg, key or None, sentence, info)"""
    runs = []
    for k, cfg in enumerate(cfgs):
        path = os.path.join(rundir, "%s-%d.sqlite" % (tag, k))
        runs.append((path,) + run_algo_once(cfg, path))
        if runs[-1][4] is not None:
            break
    cfgs = cfgs[:len(runs)]
    ok = [r for r in runs if r[4] is None]
    got = dict(zip([r[0] for r in ok], read_files([r[0] for r in ok], rundir))) if ok else {}
    lines, index = [], {}
    for path, wp, wops, final, err in ok:
        last = {}
        for i, w in final:
            last[i] = w
        index[path] = (len(lines), last)
        lines.append("c10.session %s|[%s]" % (wp, "".join(wops)))
        lines += ["c10.roundtrip " + last[i] for i in sorted(last)]
    ans = ctx.lean(lines)
    res = []
    for cfg, (path, wp, wops, final, err) in zip(cfgs, runs):
        for suffix in ("", "-journal"):
            if os.path.exists(path + suffix):
                os.remove(path + suffix)
        if err is not None:
            res.append((cfg, "run-raised", err, None))
            continue
        lo, last = index[path]
        res.append((cfg,) + judge_algo(cfg, wops, final, last, got[path], ans[lo], ans[lo + 1:lo + 1 + len(last)]))
    return res


def judge_algo(cfg, wops, final, last, got, session_ans, view_ans):
    pm = parse_model(session_ans)
    if pm[0] == "raise":
        return "run-unstorable", "the run synchronised an individual that cannot be stored (model raises at op %s)" % pm[1], None
    info = {"recorded": len(final), "distinct_ids": len(last), "sync_calls": len(wops), "rows": len(pm[2])}
    d = compare(got, pm)
    if d:
        return d[0], d[1], info
    # the property's third clause, directly: every recorded individual comes back with its final data
    gviews = by_id([parse_wire(x) for x in got["views"]])
    for i, a in zip(sorted(last), view_ans):
        if not a.startswith("ok "):
            return "run-unstorable", "recorded individual %d cannot be stored in its final state" % i, info
        want = parse_wire(a[3:])
        have = gviews.get(pretty(("i", i)), [])
        if len(have) != 1:
            return "final-row-count", "recorded individual %d has %d rows after the run" % (i, len(have)), info
        for f in FIELDS:
            if have[0][f] != want[f]:
                return "final-" + f, "recorded individual %d: %s in the store is %s, final value %s" % (
                    i, f, pretty(have[0][f]), pretty(want[f])), info
    return None, None, info


def check_algo(ctx, cfg, rundir):
    return check_algos(ctx, [cfg], rundir, "one")[0][1:]


def run_algos(ctx, rundir):
    rng = ctx.rng
    cfgs = []
    reps = 2 if ctx.quick else 8
    for r in range(reps):
        for name in ALGOS:
            cfgs.append({"stream": "algo", "algo": name, "N": rng.choice([3, 4, 5, 6]) if ctx.quick else rng.randint(2, 12),
                         "G": rng.choice([2, 3]) if ctx.quick else rng.randint(1, 6), "nobj": rng.choice([1, 2, 3]),
                         "shift": rng.choice([0.0, 0.25, 1.0]), "seed": rng.randrange(10 ** 6),
                         "thread_safe": name.endswith("parallel") or rng.random() < 0.7})
    for cfg, key, what, info in check_algos(ctx, cfgs, rundir):
        ctx.case(("algo", json.dumps(cfg, sort_keys=True)), True, sample=dict(cfg, **(info or {})))
        ctx.count("algo_" + cfg["algo"])
        if info:
            ctx.count("algo_sync_calls", info["sync_calls"])
            ctx.count("algo_recorded_individuals", info["recorded"])
            ctx.count("algo_rows", info["rows"])
        if key:
            ctx.fail(key, "%s run (N=%d, G=%d, %d objective(s), seed %d, thread_safe=%s): %s" % (
                cfg["algo"], cfg["N"], cfg["G"], cfg["nobj"], cfg["seed"], cfg["thread_safe"], what), cfg)
            return False
    return True


def probe_int_costs(ctx, rundir):
    """Outside the quantifier (the statement speaks of float values): an objective returning a Python int.
    Recorded in the evidence, never a verdict."""
    from artap.datastore import SqliteDataStore
    from artap.individual import Individual
    path = os.path.join(rundir, "probe.sqlite")
    p = new_problem({"name": "probe", "description": "", "parameters": [], "costs": []})
    try:
        st = SqliteDataStore(p, database_name=path, mode="rewrite")
        i = Individual([3])
        i.costs = [9]
        i.calc_signed_costs([1])
        try:
            st.sync_individual(i)
            res = "stored"
        except Exception as e:
            res = "raises %s: %s" % (type(e).__name__, e)
        st.destroy()
    except Exception as e:
        res = "probe failed: %r" % (e,)
    finally:
        drop_problem(p)
        if os.path.exists(path):
            os.remove(path)
    ctx.extra["outside_quantifier_probe_int_cost"] = res


# ------------------------------------------------------------------------------------------ entry points

class Scratch:
    def __enter__(self):
        os.makedirs(SCRATCH, exist_ok=True)
        self.dir = tempfile.mkdtemp(prefix="run-", dir=SCRATCH)
        self.old = tempfile.tempdir
        tempfile.tempdir = self.dir          # Problem.__init__ creates its working directory there
        return self.dir

    def __exit__(self, *a):
        tempfile.tempdir = self.old
        shutil.rmtree(self.dir, ignore_errors=True)
        try:
            os.rmdir(SCRATCH)                # only if nothing else (another run, a worktree) lives there
        except OSError:
            pass
        return False


def run(ctx):
    ctx.rule = ("unit: random individuals (finite/infinite floats incl. subnormals and random bit patterns, numpy float64, tuples, "
                "ndarrays, nested custom data, feature/parent/child references) through to_dict/json/from_dict; history: random "
                "sequences of set/sync/record/sync_all/reopen over 1-6 objects sharing 1-6 ids, 5 open modes, thread_safe on/off, "
                "read back in a fresh process; algo: one recorded run per synchronising algorithm. Non-trivial = unit case with "
                "references, extra features or custom data; history with at least two synchronisation calls; every algorithm run. "
                "Distinct = distinct wire text of the case.")
    ctx.assumptions += ["NaN excluded (the statement: finite floats bit-exact; +-inf are included and compared exactly)",
                        "dict keys are strings, feature values contain no strings/dicts (not written by the framework; a non-empty "
                        "string feature makes _replace_individual_id recurse for ever)",
                        "json.dumps/json.loads float repr round trip and SQLite's storage / PRIMARY KEY enforcement are exercised "
                        "by the test but not modelled",
                        "row order of SELECT without ORDER BY: parameters and costs are compared in insertion order, individuals as a set"]
    with Scratch() as rundir:
        ok = run_stashed_corpus(ctx, rundir)
        ok = ok and run_unit(ctx)
        ok = ok and run_history(ctx, rundir)
        ok = ok and run_algos(ctx, rundir)
        if ok:
            probe_int_costs(ctx, rundir)
    ctx.traces_validated = ctx.dist.get("history_sync_calls", 0) + ctx.dist.get("algo_sync_calls", 0)


_CORPUS = []


def run_corpus(ctx, case):
    """`check` hands over the corpus files one by one before `run`; they are executed as one batch at the
    beginning of `run` (one reader process, one model call)."""
    _CORPUS.append(case.get("case", case))


def run_stashed_corpus(ctx, rundir):
    hist = [c for c in _CORPUS if c.get("stream") == "history"]
    algo = [c for c in _CORPUS if c.get("stream") == "algo"]
    del _CORPUS[:]
    if hist:
        for cc, d, _, _ in run_history_batch(ctx, hist, rundir, "corpus"):
            ctx.case(("corpus", json.dumps(cc, sort_keys=True)), True)
            ctx.count("corpus_cases")
            if d:
                ctx.fail(d[0], "corpus history: " + d[1], cc)
                return False
    if algo:
        for cfg, key, what, _ in check_algos(ctx, algo, rundir, "corpus"):
            ctx.case(("corpus", json.dumps(cfg, sort_keys=True)), True)
            ctx.count("corpus_cases")
            if key:
                ctx.fail(key, "corpus run: " + what, cfg)
                return False
    return True


def replay(ctx, rp):
    """Re-execute a stored case against the implementation only (python mirror of the model says what is demanded)."""
    c = rp["case"]
    with Scratch() as rundir:
        if c.get("stream") == "unit":
            w, v, err = unit_impl(c)
            ind = parse_wire(w)
            want = {k: m_encode(ind)[k] for k in FIELDS}
            print("demanded view:", pretty(want))
            print("code:", err if err else pretty(parse_wire(v)))
            return err is None and parse_wire(v) == want
        if c.get("stream") == "history":
            path = os.path.join(rundir, "replay.sqlite")
            wp, wops, err = write_history(c, path)
            if err:
                print("the property demands that every synchronisation of in-quantifier data succeeds; code:", err)
                return False
            got = read_files([path], rundir)[0]
            mp, views, rows = m_session(parse_wire(wp), [parse_wire(o) for o in wops])
            d = compare(got, (mp, list(views.values()), list(rows.values())))
            print("demanded: one row per id %s with the last synchronised data" % sorted(views))
            print("code:", "agrees" if d is None else "%s: %s" % d)
            return d is None
        if c.get("stream") == "algo":
            path = os.path.join(rundir, "replay.sqlite")
            wp, wops, final, err = run_algo_once(c, path)
            if err:
                print("demanded: the run finishes and every recorded individual has a row with its final data; code:", err)
                return False
            got = read_files([path], rundir)[0]
            mp, views, rows = m_session(parse_wire(wp), [parse_wire(o) for o in wops])
            d = compare(got, (mp, list(views.values()), list(rows.values())))
            if d is None:
                last = {i: w for i, w in final}
                gv = by_id([parse_wire(x) for x in got["views"]])
                for i, w in last.items():
                    want = {k: m_encode(parse_wire(w))[k] for k in FIELDS}
                    have = gv.get(pretty(("i", i)), [])
                    if len(have) != 1 or have[0] != want:
                        d = ("final", "recorded individual %d: store has %s, final data %s" % (i, [pretty(h) for h in have], pretty(want)))
                        break
            print("demanded: after the run every recorded individual has exactly one row with its final data")
            print("code:", "agrees" if d is None else "%s: %s" % d)
            return d is None
        if c.get("stream") == "intcost":      # outside the quantifier (int costs); kept as a documented finding
            return replay_intcost(c, rundir)
    print("nothing to replay:", rp.get("what"))
    return False


def replay_intcost(c, rundir):
    from artap.problem import Problem
    from artap.datastore import SqliteDataStore
    from artap.algorithm_sweep import SweepAlgorithm
    from artap.operators import CustomGenerator
    import atexit

    class IntProblem(Problem):
        def set(self, **kwargs):
            self.name = "int costs"
            self.parameters = [{'name': 'x_1', 'initial_value': 2, 'bounds': [-10, 10]}]
            self.costs = [{'name': 'F', 'criteria': 'minimize'}]

        def evaluate(self, individual):
            return [individual.vector[0] ** 2]
    p = IntProblem()
    atexit.unregister(p.cleanup)
    path = os.path.join(rundir, "int.sqlite")
    try:
        p.data_store = SqliteDataStore(p, database_name=path)
        g = CustomGenerator(p.parameters)
        g.init([list(c["vector"])])
        print("demanded (if integer costs are read into the property): the sweep finishes and the design has a row")
        try:
            SweepAlgorithm(p, generator=g).run()
        except Exception as e:
            print("code: run raised %s: %s" % (type(e).__name__, e))
            return False
        p.data_store.destroy()
        got = read_files([path], rundir)[0]
        print("code: stored", got.get("views"))
        return "error" not in got and len(got["views"]) == 1
    finally:
        drop_problem(p)


def search(ctx):
    """The harness could not drive the code any more: try the entry points one by one."""
    found = False
    with Scratch() as rundir:
        for f in (lambda: run_unit(ctx), lambda: run_history(ctx, rundir), lambda: run_algos(ctx, rundir)):
            try:
                f()
            except common.InfraError:
                raise
            except Exception:
                pass
            if ctx.failures:
                found = True
                break
    return found


if __name__ == "__main__":
    if len(sys.argv) == 3 and sys.argv[1] == "--read":
        reader_main(sys.argv[2])
