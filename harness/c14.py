"""C14 — worst-case (robust) and gradient evaluators.

Correspondence: `WorstCaseEvaluator` / `GradientEvaluator` (artap/operators.py), driven through
`Algorithm.evaluate(batch)` for sequences of batches (hand-made sequences, and the batches that real
NSGA-II / eps-MOEA runs submit), against the heap model `Artap.Robust` (Model/Robust.lean; theorems in
Props/C14.lean).  Regime R2: the model computes over exact rationals.

* stream `exact`: designs, tolerances and polynomial coefficients are small dyadic rationals, so every
  double operation of the worst-case path is exact and model and code must agree bit for bit;
* stream `real`: arbitrary doubles, compared within an error band derived from the magnitude of the terms.

Besides the comparison with the model the property predicate itself is evaluated on what the code did
(`property_wc`, `property_grad`, no Lean involved); it is what `--replay` and shrinking use.
"""
import atexit
import fractions
import math

from .common import rat, vec, mat, close, unrat

DELTA = 1e-4


# --------------------------------------------------------------------------- objective / problem

def poly(coef, x):
    n = len(x)
    c, a, b = coef[0], coef[1:1 + n], coef[1 + n:1 + 2 * n]
    return c + sum(ai * xi for ai, xi in zip(a, x)) + sum(bi * xi * xi for bi, xi in zip(b, x))


def poly_mag(coef, x):
    n = len(x)
    c, a, b = coef[0], coef[1:1 + n], coef[1 + n:1 + 2 * n]
    return abs(c) + sum(abs(ai * xi) for ai, xi in zip(a, x)) + sum(abs(bi * xi * xi) for bi, xi in zip(b, x))


def make_problem(case, log):
    from artap.problem import Problem

    class TableProblem(Problem):
        def set(self, **kwargs):
            self.name = "c14"
            self.parameters = []
            for i, t in enumerate(case["tol"]):
                p = {"name": "x_%d" % i, "bounds": [-5.0, 5.0], "initial_value": 0.5}
                if t is not None:
                    p["tol"] = t
                self.parameters.append(p)
            self.costs = [{"name": "F_%d" % j, "criteria": "minimize" if s == 1 else "maximize"}
                          for j, s in enumerate(case["signs"])]

        def evaluate(self, individual):
            x = list(individual.vector)
            log.append(x)
            return [poly(c, x) for c in case["objs"]]

    if case["cons"]:
        def ineq(self, x):
            return [poly(c, list(x)) for c in case["cons"]]
        TableProblem.evaluate_inequality_constraints = ineq
    p = TableProblem()
    return p


def drop_problem(p):
    try:
        atexit.unregister(p.cleanup)
        p.cleanup()
    except Exception:
        pass


def make_algorithm(problem, kind):
    from artap.algorithm import Algorithm, EvaluatorType

    class Plain(Algorithm):
        def run(self):
            pass
    return Plain(problem, evaluator_type=EvaluatorType.WORST_CASE if kind == "wc" else EvaluatorType.GRADIENT)


def fl(v):
    return [float(t) for t in v]


def snap_design(d):
    g = d.features.get("gradient")
    s = d.features.get("sensitivity")
    return {"evaluated": d.state == d.State.EVALUATED, "costs": fl(d.costs), "signed": fl(d.costs_signed),
            "sens": None if s is None else float(s), "grad": None if g is None else fl(g),
            "childvecs": [fl(c.vector) for c in d.children], "childcosts": [fl(c.costs) for c in d.children]}


def run_impl(case):
    """Drive the real evaluator.  Returns (snapshots, log, error) – a snapshot per batch:
    {'calls': number of objective calls so far, 'designs': {index: snap}} over the designs submitted so far."""
    from artap.individual import Individual
    log = []
    problem = make_problem(case, log)
    try:
        alg = make_algorithm(problem, case["kind"])
        if case.get("ndarray"):
            # design vectors as float ndarrays (what CMA-ES / CEM hand to evaluate): a slice of one is a view, not a copy
            import numpy as np
            designs = [Individual(np.array([float(t) for t in v])) for v in case["designs"]]
        else:
            designs = [Individual(list(v)) for v in case["designs"]]
        seen = []
        snaps = []
        for b in case["batches"]:
            for i in b:
                if i not in seen:
                    seen.append(i)
            try:
                alg.evaluate([designs[i] for i in b])
            except (KeyError, IndexError, ZeroDivisionError) as e:
                return snaps, log, type(e).__name__
            snaps.append({"calls": len(log), "designs": {i: snap_design(designs[i]) for i in seen},
                          "log": [list(v) for v in log]})
        return snaps, log, None
    finally:
        drop_problem(problem)


# --------------------------------------------------------------------------- property predicates (python, on impl output)

def band(case, log):
    mags = [poly_mag(c, x) for x in log for c in case["objs"]] or [0.0]
    return 1.0 + max(mags)


def property_wc(case, snaps, err):
    """What C14 demands of the worst-case evaluator, evaluated on the code's own output."""
    bad = []
    if err is not None:
        return [("wc-raises", "evaluate raised %s" % err)]
    user = len(case["signs"])
    n = len(case["tol"])
    expected_calls = 0
    prev = {}
    for bi, (b, s) in enumerate(zip(case["batches"], snaps)):
        expected_calls += (2 * n + 1) * len(b)
        F = band(case, s["log"])
        if s["calls"] != expected_calls:
            bad.append(("wc-calls", "after batch %d the objective was called %d times, 2n+1 per new design gives %d" % (
                bi, s["calls"], expected_calls)))
        for i, d in s["designs"].items():
            x = case["designs"][i]
            if len(d["costs"]) != user + 1:
                bad.append(("worstcase-cost-length", "design %d (first evaluated in an earlier or this batch) has %d costs %r "
                            "after batch %d, expected %d user objective(s) + 1" % (i, len(d["costs"]), d["costs"], bi, user)))
                continue
            if len(d["signed"]) != user + 2:
                bad.append(("wc-signed-length", "design %d has signed costs %r after batch %d, expected %d entries" % (
                    i, d["signed"], bi, user + 2)))
                continue
            if len(d["childvecs"]) != 2 * n:
                bad.append(("wc-children", "design %d has %d neighbours, expected 2n = %d" % (i, len(d["childvecs"]), 2 * n)))
                continue
            want = []
            for k in range(n):
                for sg in (-1, 1):
                    v = list(x)
                    v[k] = v[k] + sg * case["tol"][k]
                    want.append(v)
            got = sorted(map(tuple, d["childvecs"]))
            if not all(len(a) == len(w) and all(close(p, q, 1e-12, 1e-15) for p, q in zip(a, w))
                       for a, w in zip(got, sorted(map(tuple, want)))):
                bad.append(("wc-children", "neighbours of design %d %r are %r, expected x +- tol along each axis %r" % (
                    i, x, d["childvecs"], want)))
                continue
            f0 = poly(case["objs"][0], x)
            sens = sum(abs(f0 - poly(case["objs"][0], v)) for v in d["childvecs"])
            if not close(d["costs"][-1], sens, 1e-9, 1e-10 * F) or not close(d["sens"], sens, 1e-9, 1e-10 * F):
                bad.append(("wc-sensitivity", "design %d %r: extra objective %r / feature %r, sum |f(x)-f(neighbour)| = %r" % (
                    i, x, d["costs"][-1], d["sens"], sens)))
            if not close(d["signed"][-2], d["costs"][-1], 0, 0):
                bad.append(("wc-signed-entry", "design %d: signed costs %r do not carry the sensitivity %r before the marker" % (
                    i, d["signed"], d["costs"][-1])))
            for j in range(user):
                if not close(d["costs"][j], poly(case["objs"][j], x), 1e-9, 1e-10 * F):
                    bad.append(("wc-user-cost", "design %d: cost %d is %r, objective value %r" % (
                        i, j, d["costs"][j], poly(case["objs"][j], x))))
            if i in prev and prev[i] != d:
                bad.append(("wc-reprocessed", "design %d was changed by batch %d which does not contain it: %r -> %r" % (
                    i, bi, prev[i]["costs"], d["costs"])))
        prev = dict(s["designs"])
    return bad


def property_grad(case, snaps, err):
    bad = []
    if err is not None:
        return [("grad-raises", "evaluate raised %s" % err)]
    n = len(case["tol"])
    expected_calls = 0
    for bi, (b, s) in enumerate(zip(case["batches"], snaps)):
        expected_calls += (n + 1) * len(b)
        F = band(case, s["log"])
        if s["calls"] != expected_calls:
            bad.append(("grad-calls", "after batch %d the objective was called %d times, n+1 per design gives %d" % (
                bi, s["calls"], expected_calls)))
        for i, d in s["designs"].items():
            x = case["designs"][i]
            if d["grad"] is None or len(d["grad"]) != n:
                bad.append(("grad-missing", "design %d has gradient %r, expected %d entries" % (i, d["grad"], n)))
                continue
            f0 = poly(case["objs"][0], x)
            for k in range(n):
                v = list(x)
                v[k] = v[k] + DELTA
                fd = (poly(case["objs"][0], v) - f0) / DELTA
                if not close(d["grad"][k], fd, 1e-9, 5e-10 * F):
                    bad.append(("grad-forward-difference", "design %d %r: gradient[%d] = %r, forward difference with step 1e-4 "
                                "of the first objective = %r" % (i, x, k, d["grad"][k], fd)))
                    break
    return bad


PROPERTY = {"wc": property_wc, "grad": property_grad}


# --------------------------------------------------------------------------- model side

def tol_tok(t):
    return "N" if t is None else rat(t)


def lean_line(case, reset=True):
    batches = ";".join(vec(b) if b else "-" for b in case["batches"])
    common = "%s|%s|%s|%s|%s|%s" % (vec(case["signs"]), vec(case["tol"], tol_tok), mat(case["objs"], rat),
                                   mat(case["cons"], rat), mat(case["designs"], rat), batches)
    if case["kind"] == "wc":
        return "c14.wc %d|%s" % (1 if reset else 0, common)
    return "c14.grad " + common


def pvec(s):
    s = s.strip()
    return [unrat(t) for t in s.split(",")] if s else []


def pmat(s):
    s = s.strip()
    return [pvec(t) for t in s.split(";")] if s else []


def parse_answer(ans):
    if ans == "raise":
        return None
    snaps = []
    for part in ans.split("@"):
        items = part.split("#")
        ds = []
        for it in items[1:]:
            e, costs, signed, sens, grad, cv, cc = it.split("|")
            ds.append({"evaluated": e == "1", "costs": pvec(costs), "signed": pvec(signed),
                       "sens": None if sens == "N" else unrat(sens), "grad": None if grad == "N" else pvec(grad),
                       "childvecs": pmat(cv), "childcosts": pmat(cc)})
        snaps.append({"calls": int(items[0]), "designs": ds})
    return snaps


def same(exact, impl, model, rel, abs_):
    """impl: double, model: Fraction."""
    m = float(model)
    if exact:
        return impl == m
    return close(impl, m, rel, abs_)


def same_vec(exact, impl, model, rel, abs_):
    return len(impl) == len(model) and all(same(exact, a, b, rel, abs_) for a, b in zip(impl, model))


def compare(case, snaps, err, model):
    """Relation R between the code's snapshots and the model's.  Returns [(key, what)]."""
    kind = case["kind"]
    if model is None or err is not None:
        if (model is None) != (err is not None):
            return [(kind + "-raises", "code %s, model %s" % ("raised " + err if err else "did not raise",
                                                              "raises" if model is None else "does not raise"))]
        return []
    bad = []
    exact = case["mode"] == "exact"
    for bi, (s, m) in enumerate(zip(snaps, model)):
        F = band(case, s["log"])
        if s["calls"] != m["calls"]:
            bad.append((kind + "-calls", "after batch %d: %d objective calls, model %d" % (bi, s["calls"], m["calls"])))
        for i, d in s["designs"].items():
            md = m["designs"][i]
            tag = "design %d %r after batch %d: " % (i, case["designs"][i], bi)
            # children: the set of neighbour vectors, each with the costs computed for it
            if len(d["childvecs"]) != len(md["childvecs"]):
                bad.append((kind + "-children", tag + "%d children, model %d" % (len(d["childvecs"]), len(md["childvecs"]))))
                continue
            ic = sorted(zip(map(tuple, d["childvecs"]), map(tuple, d["childcosts"])))
            mc = sorted(zip(map(tuple, md["childvecs"]), map(tuple, md["childcosts"])))
            for (iv, icost), (mv, mcost) in zip(ic, mc):
                if not same_vec(exact and kind == "wc", iv, mv, 1e-12, 1e-15):
                    bad.append((kind + "-children", tag + "child vectors %r, model %r" % (
                        d["childvecs"], [fl(v) for v in md["childvecs"]])))
                    break
            if kind == "wc":
                if len(d["costs"]) != len(md["costs"]):
                    bad.append(("worstcase-cost-length", tag + "costs %r (%d entries), model %r (%d entries: user objectives + "
                                "sensitivity)" % (d["costs"], len(d["costs"]), fl(md["costs"]), len(md["costs"]))))
                    continue
                if not same_vec(exact, d["costs"], md["costs"], 1e-9, 1e-10 * F):
                    bad.append(("wc-costs", tag + "costs %r, model %r" % (d["costs"], fl(md["costs"]))))
                if len(d["signed"]) != len(md["signed"]) or not same_vec(exact, d["signed"], md["signed"], 1e-9,
                                                                        1.01e-7 + 1e-10 * F):
                    bad.append(("wc-signed", tag + "signed costs %r, model %r" % (d["signed"], fl(md["signed"]))))
                if d["sens"] is None or md["sens"] is None or not same(exact, d["sens"], md["sens"], 1e-9, 1e-10 * F):
                    bad.append(("wc-sensitivity", tag + "features['sensitivity'] = %r, model %r" % (
                        d["sens"], None if md["sens"] is None else float(md["sens"]))))
            else:
                if d["grad"] is None or md["grad"] is None or not same_vec(False, d["grad"], md["grad"], 1e-9, 5e-10 * F):
                    bad.append(("grad-forward-difference", tag + "features['gradient'] = %r, model %r" % (
                        d["grad"], None if md["grad"] is None else fl(md["grad"]))))
        # the call log is the multiset of design and child vectors of the code's own objects
    return bad


# --------------------------------------------------------------------------- generators

def dy(rng, lo, hi, den):
    return rng.randint(int(lo * den), int(hi * den)) / den


def gen_case(rng, kind, quick, mode=None):
    n = rng.randint(1, 4 if quick else 7)
    if rng.random() < 0.15:
        n = 1
    user = rng.choice([1, 1, 2, 3])
    mode = mode or ("exact" if rng.random() < 0.6 else "real")
    nd = rng.randint(1, 6 if quick else 12)
    if mode == "exact":
        num = lambda lo, hi, den: dy(rng, lo, hi, den)
        tol = [dy(rng, 1 / 16, 1, 16) for _ in range(n)]
        designs = [[dy(rng, -4, 4, 16) for _ in range(n)] for _ in range(nd)]
        objs = [[num(-2, 2, 8) for _ in range(1 + 2 * n)] for _ in range(user)]
        for o in objs:      # a genuinely curved first objective (forward vs central difference differ)
            for j in range(1 + n, 1 + 2 * n):
                if o[j] == 0:
                    o[j] = 0.5
        cons = [[num(-2, 2, 8) for _ in range(1 + 2 * n)] for _ in range(rng.choice([0, 0, 0, 1, 2]))]
    else:
        tol = [10 ** rng.uniform(-3, 0) for _ in range(n)]
        designs = [[rng.uniform(-4, 4) for _ in range(n)] for _ in range(nd)]
        objs = [[rng.uniform(-2, 2) for _ in range(1 + 2 * n)] for _ in range(user)]
        cons = [[rng.uniform(-2, 2) for _ in range(1 + 2 * n)] for _ in range(rng.choice([0, 0, 0, 1, 2]))]
    # an exact parameter beside uncertain ones (tolerance 0): still two neighbours per axis, 2n+1 calls per design
    # (tiny non-zero tolerances are not generated: |f(x) - f(x +- tol)| is then dominated by the rounding of f itself)
    if kind == "wc":
        for i in range(n):
            if rng.random() < 0.12:
                tol[i] = 0.0
    # coordinates on, or within the finite-difference step of, the declared bounds [-5, 5] (designs that clipping
    # operators produce): the neighbours / displaced points are what the statement says, whatever the bounds are
    for d in designs:
        for i in range(n):
            if rng.random() < 0.15:
                d[i] = rng.choice([5.0, -5.0, 5.0 - 1 / 65536, -5.0 + 1 / 65536, 5.0 - 1 / 16384])
    if mode == "exact" and rng.random() < 0.2:
        # a design at which every objective is exactly 0 (dyadic arithmetic: the constant terms are shifted): a zero is a
        # value like any other - the neighbours / displaced points are still evaluated and used
        for o in objs:
            o[0] -= poly(o, designs[0])
    if rng.random() < 0.2 and nd > 1:          # equal designs (distinct objects) inside a run
        designs[-1] = list(designs[0])
    signs = [rng.choice([1, 1, -1]) for _ in range(user)]
    order = list(range(nd))
    rng.shuffle(order)
    nb = rng.randint(1, min(6, nd))
    cuts = sorted(rng.sample(range(1, nd), nb - 1)) if nb > 1 else []
    batches = [order[a:b] for a, b in zip([0] + cuts, cuts + [nd])]
    if kind == "wc" and rng.random() < 0.1:
        batches.insert(rng.randint(0, len(batches)), [])        # an empty generation
    return {"kind": kind, "mode": mode, "signs": signs, "tol": tol, "objs": objs, "cons": cons, "designs": designs,
            "batches": batches, "ndarray": rng.random() < 0.3}


def gen_error_case(rng, kind, quick):
    c = gen_case(rng, kind, quick)
    if kind == "wc":
        c["tol"][rng.randrange(len(c["tol"]))] = None        # parameter without 'tol' -> KeyError
    else:
        c["batches"].insert(rng.randint(0, len(c["batches"])), [])   # empty gradient batch -> IndexError
    c["error_stream"] = True
    return c


def record_algorithm_run(rng, kind, which, quick):
    """Run a real population algorithm with the evaluator and record the batches it submits."""
    import random as pyrandom
    import numpy as np
    from artap.algorithm import EvaluatorType
    n = rng.randint(1, 3)
    user = rng.choice([1, 2]) if which == "nsga2" else 2
    case = {"kind": kind, "mode": "real", "signs": [1] * user, "tol": [10 ** rng.uniform(-2.5, -0.5) for _ in range(n)],
            "objs": [[rng.uniform(-2, 2) for _ in range(1 + 2 * n)] for _ in range(user)], "cons": [],
            "designs": [], "batches": [], "algorithm": which}
    pyrandom.seed(rng.getrandbits(32))
    np.random.seed(rng.getrandbits(32))
    log = []
    problem = make_problem(case, log)
    try:
        et = EvaluatorType.WORST_CASE if kind == "wc" else EvaluatorType.GRADIENT
        if which == "nsga2":
            from artap.algorithm_NSGAII import NSGAII
            alg = NSGAII(problem, evaluator_type=et)
        elif which in ("omopso", "smpso"):
            # the swarm constructors take no evaluator_type: the evaluator is attached the way the base class does it.
            # Every generation evaluates COPIES of the swarm (CopySelector: new objects, deep-copied feature dictionaries).
            from artap.algorithm_swarm import OMOPSO, SMPSO
            from artap.operators import WorstCaseEvaluator, GradientEvaluator
            alg = (OMOPSO if which == "omopso" else SMPSO)(problem)
            alg.evaluator = WorstCaseEvaluator(alg) if kind == "wc" else GradientEvaluator(alg)
        else:
            from artap.algorithm_genetic import EpsMOEA
            alg = EpsMOEA(problem, evaluator_type=et)
        alg.options["max_population_size"] = rng.randint(3, 6 if quick else 10)
        alg.options["max_population_number"] = rng.randint(2, 4 if quick else 7)
        alg.options["verbose_level"] = 0
        objects, snaps = [], []
        inner = alg.evaluator.evaluate

        def recording(individuals):
            b = []
            for ind in individuals:
                k = next((j for j, o in enumerate(objects) if o is ind), None)
                if k is None:
                    objects.append(ind)
                    case["designs"].append(fl(ind.vector))
                    k = len(objects) - 1
                b.append(k)
            case["batches"].append(b)
            inner(individuals)
            snaps.append({"calls": len(log), "designs": {j: snap_design(o) for j, o in enumerate(objects)},
                          "log": [list(v) for v in log]})
        alg.evaluator.evaluate = recording
        alg.run()
        # one more look at every design when the run is over (nothing may have been touched afterwards)
        final = {"calls": len(log), "designs": {j: snap_design(o) for j, o in enumerate(objects)}, "log": [list(v) for v in log]}
        return case, snaps, final
    finally:
        drop_problem(problem)


# --------------------------------------------------------------------------- run

def shrink_case(case, fails):
    """Drop designs (and the batches they leave empty) while the property predicate keeps failing."""
    cur = case
    i = 0
    while i < len(cur["designs"]) and len(cur["designs"]) > 1:
        keep = [j for j in range(len(cur["designs"])) if j != i]
        ren = {j: k for k, j in enumerate(keep)}
        cand = dict(cur)
        cand["designs"] = [cur["designs"][j] for j in keep]
        cand["batches"] = [b2 for b2 in ([ren[j] for j in b if j in ren] for b in cur["batches"]) if b2]
        try:
            ok = bool(cand["batches"]) and fails(cand)
        except Exception:
            ok = False
        if ok:
            cur = cand
        else:
            i += 1
    return cur


def first_failure(case):
    snaps, _, err = run_impl(case)
    return PROPERTY[case["kind"]](case, snaps, err)


def report(ctx, case, bad, source):
    key0 = bad[0][0]
    small = case
    if not case.get("error_stream"):
        pf = first_failure(case)
        if pf:
            small = shrink_case(case, lambda c: any(k == pf[0][0] for k, _ in first_failure(c)))
            bad = first_failure(small) or bad
            key0 = bad[0][0]
    small = {k: v for k, v in small.items() if k != "algorithm"}
    ctx.fail(key0, "%s evaluator (%s): %s" % ("worst-case" if case["kind"] == "wc" else "gradient", source, bad[0][1]),
             {"op": case["kind"], "case": small, "findings": [list(b) for b in bad[:8]]})


def run(ctx):
    rng = ctx.rng
    ctx.rule = ("a case = problem (1-7 parameters with tolerances, 1-3 objectives c + a.x + b.x^2, optional constraints) + "
                "1-12 fresh designs + a split of them into 1-6 batches submitted through Algorithm.evaluate; plus the batch "
                "sequences that real NSGA-II / eps-MOEA runs submit; non-trivial = at least two batches (a later batch "
                "could re-process an earlier design); distinct = distinct request line")
    ctx.assumptions += [
        "serial evaluation (max_processes = 1), objective never fails (retries: C06, parallel: C07)",
        "every design of a batch is a fresh, unevaluated Individual submitted once (as all population algorithms in the "
        "repository do); re-submitting an already processed design is outside the statement",
        "stream 'real': doubles agree with the exact rational model within 1e-9 relative plus an absolute band "
        "proportional to the magnitude of the objective terms (cancellation in the differences); stream 'exact' has none",
    ]
    n_wc = 700 if ctx.quick else 8000
    n_gr = 350 if ctx.quick else 4000
    n_err = 40 if ctx.quick else 400
    cases = [gen_case(rng, "wc", ctx.quick) for _ in range(n_wc)] + [gen_case(rng, "grad", ctx.quick) for _ in range(n_gr)]
    cases += [gen_error_case(rng, rng.choice(["wc", "grad"]), ctx.quick) for _ in range(n_err)]
    results = [run_impl(c) for c in cases]
    # real algorithm runs
    runs = []
    n_runs = 6 if ctx.quick else 40
    for r in range(n_runs):
        for which in ("nsga2", "epsmoea", "omopso", "smpso"):
            for kind in ("wc", "grad"):
                case, snaps, final = record_algorithm_run(rng, kind, which, ctx.quick)
                runs.append((case, snaps, final))
    answers = ctx.lean([lean_line(c) for c in cases] + [lean_line(c) for c, _, _ in runs])
    for c, (snaps, log, err), ans in zip(cases, results, answers[:len(cases)]):
        nontrivial = len([b for b in c["batches"] if b]) >= 2 and not c.get("error_stream")
        ctx.case(lean_line(c), nontrivial, sample={"kind": c["kind"], "mode": c["mode"], "tol": c["tol"], "signs": c["signs"],
                                                   "designs": c["designs"][:3], "batches": c["batches"],
                                                   "costs_after_last_batch": [d["costs"] for d in snaps[-1]["designs"].values()][:3]
                                                   if snaps else None})
        ctx.count("%s_%s" % (c["kind"], "error" if c.get("error_stream") else c["mode"]))
        ctx.count("batches_%d" % len(c["batches"]))
        ctx.count("dim_%d" % len(c["tol"]))
        if c["cons"]:
            ctx.count("constrained")
        model = parse_answer(ans)
        bad = compare(c, snaps, err, model)
        if not c.get("error_stream"):
            bad = PROPERTY[c["kind"]](c, snaps, err) + bad
            if not bad:      # call log = the code's own designs and children, once each
                s = snaps[-1] if snaps else None
                if s is not None:
                    want = sorted(tuple(c["designs"][i]) for i in s["designs"]) + sorted(
                        tuple(v) for d in s["designs"].values() for v in d["childvecs"])
                    if sorted(map(tuple, s["log"])) != sorted(want):
                        bad = [(c["kind"] + "-calls", "the objective was not called exactly once for every design and every "
                                "child: %d calls for %d vectors" % (len(s["log"]), len(want)))]
        else:
            ctx.count("raised_" + str(err))
        if bad:
            report(ctx, c, bad, "batches %r" % (c["batches"],))
            return
    for (c, snaps, final), ans in zip(runs, answers[len(cases):]):
        ctx.case(lean_line(c), len(c["batches"]) >= 2, sample=None)
        ctx.count("algorithm_run_%s_%s" % (c["algorithm"], c["kind"]))
        ctx.count("algorithm_run_batches", len(c["batches"]))
        model = parse_answer(ans)
        bad = PROPERTY[c["kind"]](c, snaps, None) + compare(c, snaps, None, model)
        if not bad and snaps and final["designs"] != snaps[-1]["designs"]:
            bad = [(c["kind"] + "-reprocessed", "designs changed after the last evaluated batch of the run")]
        if bad:
            report(ctx, c, bad, "%s run, %d batches" % (c["algorithm"], len(c["batches"])))
            return


def replay(ctx, rp):
    c = rp["case"].get("case")
    if not c:
        print("nothing to replay:", rp.get("what"))
        return False
    snaps, log, err = run_impl(c)
    bad = PROPERTY[c["kind"]](c, snaps, err)
    if c.get("error_stream"):
        print("error stream: code raised %r (the model raises)" % err)
        return err is not None
    print("%s evaluator, %d designs, batches %r" % (c["kind"], len(c["designs"]), c["batches"]))
    for bi, s in enumerate(snaps):
        print(" after batch %d: calls=%d costs=%r" % (bi, s["calls"], {i: d["costs"] for i, d in s["designs"].items()}))
    for k, w in bad:
        print(" PROPERTY FAILS [%s]: %s" % (k, w))
    if not bad:
        print(" property predicate holds on this input")
    return not bad


def search(ctx):
    """The harness could not drive the code: try the smallest two-batch input through whatever still works."""
    for kind in ("wc", "grad"):
        c = {"kind": kind, "mode": "exact", "signs": [1], "tol": [0.25], "objs": [[0.0, 1.0, 1.0]], "cons": [],
             "designs": [[1.0], [2.0]], "batches": [[0], [1]]}
        try:
            bad = first_failure(c)
        except Exception:
            continue
        if bad:
            ctx.fail(bad[0][0], bad[0][1], {"op": kind, "case": c, "findings": [list(b) for b in bad[:8]]})
            return True
    return False
