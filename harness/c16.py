"""C16 — multi-objective benchmark identities (artap/benchmark_pareto.py).

Correspondence (regime R3): DTLZI/II/III/IV, ZDT1 and BiObjectiveTestProblem `.evaluate` (real code,
in-process) against the Float interpretation of the Lean model `Model/BenchMO.lean` (the same syntax tree
whose real interpretation the theorems of Props/C16.lean are about); doubles travel as IEEE bits, agreement
within common.close (1e-9 relative + 1e-12 absolute) per objective.  In addition the Lean driver evaluates
the family's identity (the specification side of the theorems: g1Spec, g2Spec, zdt1GSpec, sumSq) on the
*implementation's* objective vector, and the harness checks non-negativity and the front clause on it.
"""
import math

from .common import bits, unbits, vec, close

DTLZ = ("dtlz1", "dtlz2", "dtlz3", "dtlz4")
FAMILIES = DTLZ + ("zdt1", "biobj")
KDIST = 10


# --------------------------------------------------------------------------- implementation adaptor

_problems = {}


def problem(fam, m, n):
    from artap import benchmark_pareto as bp
    key = (fam, m, n)
    if key not in _problems:
        if fam in DTLZ:
            cls = {"dtlz1": bp.DTLZI, "dtlz2": bp.DTLZII, "dtlz3": bp.DTLZIII, "dtlz4": bp.DTLZIV}[fam]
            _problems[key] = cls(dimension=n, m=m)
        elif fam == "zdt1":
            _problems[key] = bp.ZDT1()
        else:
            _problems[key] = bp.BiObjectiveTestProblem()
    return _problems[key]


def impl(fam, m, x, as_numpy=False):
    """Objective vector of the real code as a list of Python floats."""
    from artap.individual import Individual
    p = problem(fam, m, len(x))
    if as_numpy:
        import numpy as np
        # numpy scalars in a list, or (every other time) the whole point as a float ndarray - the container that
        # artap's CMA-ES / CEM hand to evaluate(); slices of it are views, not copies
        v = [np.float64(t) for t in x] if (len(x) + int(float(x[0]) * 1e6)) % 2 else np.array([float(t) for t in x])
    else:
        v = list(x)
    if all(float(t).is_integer() for t in x):
        # a corner / lattice point of the box written with integers (Individual([1, 0, 1])), half of the time as an integer
        # ndarray: the point is the same point whatever the numeric type of its coordinates
        import numpy as np
        v = [int(t) for t in x] if len(x) % 2 else np.array([int(t) for t in x])
    out = p.evaluate(Individual(v))
    out = list(out)
    if fam in DTLZ and len(p.costs) != m:
        raise AssertionError("problem built with m=%d has %d costs" % (m, len(p.costs)))
    return [float(t) for t in out]


def box(fam, m, n):
    """Bounds declared by the implementation (the box of the statement is read from the code)."""
    return [tuple(q["bounds"]) for q in problem(fam, m, n).parameters]


# --------------------------------------------------------------------------- python mirror of the spec
# (used for shrinking and for `--replay` only; the verdict of `run` comes from the Lean driver)

def g_rast(xm):
    return 100.0 * (len(xm) + sum((y - 0.5) ** 2 - math.cos(20.0 * math.pi * (y - 0.5)) for y in xm))


def g_sq(xm):
    return sum((y - 0.5) ** 2 for y in xm)


def identity(fam, m, x, f):
    """(lhs, rhs) of the defining identity evaluated on an objective vector f."""
    n = len(x)
    if fam == "dtlz1":
        return sum(f), (1.0 + g_rast(x[m - 1:])) / 2.0
    if fam in ("dtlz2", "dtlz4"):
        return math.sqrt(sum(t * t for t in f)), 1.0 + g_sq(x[n - KDIST:])
    if fam == "dtlz3":
        return math.sqrt(sum(t * t for t in f)), 1.0 + g_rast(x[n - KDIST:])
    if fam == "zdt1":
        g = 1.0 + 9.0 * (sum(x[1:]) / (n - 1))
        return f[1], g * (1.0 - math.sqrt(f[0] / g))
    return f[0] * f[1], 1.0 + x[1]


IDENT_TEXT = {"dtlz1": "sum(f) = (1+g)/2", "dtlz2": "|f| = 1+g", "dtlz3": "|f| = 1+g", "dtlz4": "|f| = 1+g",
              "zdt1": "f2 = g*(1-sqrt(f1/g)), g = 1+9*mean(x2..xn)", "biobj": "f1*f2 = 1+x2"}


def py_violates(fam, m, x):
    """Does the implementation alone violate identity or non-negativity at x (python mirror)?"""
    try:
        f = impl(fam, m, x)
    except (ArithmeticError, ValueError, IndexError):
        return True
    if len(f) != (m if fam in DTLZ else 2):
        return True
    lhs, rhs = identity(fam, m, x, f)
    return (not close(lhs, rhs)) or any(not (t >= 0.0) for t in f)


# --------------------------------------------------------------------------- generators

def npos(fam, m):
    return m - 1 if fam in DTLZ else (1 if fam == "zdt1" else 2)


def gen_point(rng, fam, m, n, bounds):
    """Random point of the box; returns (x, mode).  Position variables are random in every mode."""
    r = rng.random()
    p = npos(fam, m)
    if fam == "biobj":
        (l0, u0), (l1, u1) = bounds
        if r < 0.7:
            return [rng.uniform(l0, u0), rng.uniform(l1, u1)], "uniform"
        return [rng.choice([l0, u0, rng.uniform(l0, u0)]), rng.choice([l1, u1, rng.uniform(l1, u1)])], "bounds"
    lo, hi = bounds[0]
    if r < 0.06:
        x, mode = [float(rng.choice([lo, hi])) for _ in range(n)], "corner"
    elif r < 0.40:
        x, mode = [rng.uniform(lo, hi) for _ in range(n)], "uniform"
    elif r < 0.55:       # Pareto set: distance variables at the optimum, position variables random
        d = 0.5 if fam in DTLZ else 0.0
        x, mode = [rng.uniform(lo, hi) for _ in range(p)] + [d] * (n - p), "front"
    elif r < 0.70:       # corners / faces of the box
        x, mode = [rng.choice([lo, hi, 0.5, rng.uniform(lo, hi)]) for _ in range(n)], "bounds"
    elif r < 0.85:       # near the Pareto set
        d = 0.5 if fam in DTLZ else 0.0
        x = [rng.uniform(lo, hi) for _ in range(p)] + \
            [min(hi, max(lo, d + rng.uniform(-1, 1) * 10 ** rng.uniform(-8, -1))) for _ in range(n - p)]
        mode = "near-front"
    else:                # position variables close to 1 (where x**100 of DTLZ4 is not negligible) or close to 0
        x = [rng.uniform(lo, hi) for _ in range(n)]
        for j in range(p):
            x[j] = math.exp(-rng.uniform(0, 6) / 100.0) if rng.random() < 0.7 else 10 ** rng.uniform(-12, -1)
        mode = "position-extreme"
    return x, mode


def gen_cases(ctx):
    rng = ctx.rng
    per = {"dtlz1": 1500, "dtlz2": 1200, "dtlz3": 1200, "dtlz4": 1200, "zdt1": 600, "biobj": 600} if ctx.quick else \
          {"dtlz1": 40000, "dtlz2": 30000, "dtlz3": 30000, "dtlz4": 30000, "zdt1": 10000, "biobj": 10000}
    mmax = 6 if ctx.quick else 8
    cases = []
    for fam in FAMILIES:
        for _ in range(per[fam]):
            if fam == "dtlz1":
                m, k = rng.randint(2, mmax), rng.randint(1, 10)
                n = m + k - 1
            elif fam in DTLZ:
                m = rng.randint(2, mmax)
                n = m + KDIST - 1
            elif fam == "zdt1":
                m, n = 2, 30
            else:
                m, n = 2, 2
            x, mode = gen_point(rng, fam, m, n, box(fam, m, n))
            cases.append({"fam": fam, "m": m, "x": x, "mode": mode, "numpy": rng.random() < 0.05})
    return cases


_corpus = []


def run_corpus(ctx, entry):
    """Minimised past failures: evaluated first, through the same checks as the generated cases."""
    for c in entry.get("cases", []):
        _corpus.append({"fam": c["family"], "m": int(c["m"]), "x": [float(t) for t in c["x"]], "mode": "corpus", "numpy": False})
        ctx.count("corpus_cases")


# --------------------------------------------------------------------------- protocol lines

def model_line(c):
    if c["fam"] in DTLZ:
        return "c16.%s %d|%s" % (c["fam"], c["m"], vec(c["x"], bits))
    return "c16.%s %s" % (c["fam"], vec(c["x"], bits))


def id_line(c, f):
    if c["fam"] == "dtlz1":
        return "c16.id.dtlz1 %d|%s|%s" % (c["m"], vec(c["x"], bits), vec(f, bits))
    return "c16.id.%s %s|%s" % (c["fam"], vec(c["x"], bits), vec(f, bits))


def in_box(c):
    b = box(c["fam"], c["m"], len(c["x"]))
    return len(b) == len(c["x"]) and all(l <= t <= u for t, (l, u) in zip(c["x"], b))


# --------------------------------------------------------------------------- run

def run(ctx):
    ctx.rule = ("points of the box declared by the implementation, all position variables random (never fixed to 0.5): "
                "uniform / distance variables at the optimum (front) / faces and corners / within 1e-8..1e-1 of the front / "
                "position variables near 1 or near 0; m = 2..6 (thorough 2..8), DTLZ1 k = 1..10 with n = m+k-1, DTLZ2-4 n = m+9, "
                "ZDT1 n = 30, bi-objective box [0.1,1]x[0,5]; non-trivial = some position variable differs from 0.5 "
                "(where a wrong index would be invisible); distinct = distinct (family, m, bits of x)")
    ctx.assumptions += [
        "libm sin/cos/sqrt/pow approximate the real functions (R3); Float model and implementation agree within 1e-9 relative + 1e-12 absolute",
        "identities on the implementation's outputs are evaluated in double arithmetic by the Lean driver and accepted within the same band",
        "inputs are points of the declared box with the dimensions of the statement (n = m+k-1, k>=1 for DTLZ1; n = m+9 for DTLZ2-4; "
        "n = 30 for ZDT1); the raising branches (IndexError for too few variables, ZeroDivisionError at x1 = 0) lie outside and are not compared",
        "concurrent stream: 4 threads evaluate different points on one problem object (switch interval 1e-6 s); a one-sided test - it can only "
        "report an objective vector that violates the identity, and which interleavings occur is up to the interpreter",
    ]
    cases = list(_corpus) + gen_cases(ctx)
    # the box the theorems assume ([0,1]^n; [0.1,1]x[0,5]) must be the box the implementation declares
    for fam, m, n in sorted({(c["fam"], c["m"], len(c["x"])) for c in cases}):
        want = [(0.1, 1.0), (0.0, 5.0)] if fam == "biobj" else [(0.0, 1.0)] * n
        got = box(fam, m, n)
        ctx.count("declared_box_checked")
        if got != want:
            ctx.fail("%s-box" % fam, "%s (m=%d, n=%d) declares the box %r, the theorems (non-negativity, front) are about %r" % (
                fam, m, n, got, want), {"family": fam, "m": m, "n": n, "kind": "box", "declared": got, "assumed": want})
            break
    for c in cases:
        if not in_box(c):
            raise AssertionError("generator left the box: %r" % (c,))
        try:
            c["f"] = impl(c["fam"], c["m"], c["x"], c["numpy"])
        except ArithmeticError as e:        # ZeroDivisionError / OverflowError at a point of the box
            c["f"], c["err"] = None, repr(e)
        except (ValueError, IndexError) as e:    # math domain error / index out of range at a point of the box
            c["f"], c["err"] = None, repr(e)
    lines = []
    for c in cases:
        lines.append(model_line(c))
        ok_shape = c["f"] is not None and len(c["f"]) == (c["m"] if c["fam"] in DTLZ else 2)
        c["shape"] = ok_shape
        if ok_shape:
            lines.append(id_line(c, c["f"]))
    ans = iter(ctx.lean(lines))
    prop_fail, model_fail = {}, {}      # family -> first failure of the property itself / of the relation R
    for c in cases:
        fam, m, x, f = c["fam"], c["m"], c["x"], c["f"]
        mo = next(ans)
        ident = next(ans) if c["shape"] else None
        p = npos(fam, m)
        nontrivial = any(t != 0.5 for t in x[:p])
        ctx.case((fam, m, tuple(bits(t) for t in x)), nontrivial,
                 sample={"family": fam, "m": m, "x": x, "impl": f, "mode": c["mode"]})
        ctx.count("family_" + fam)
        ctx.count("mode_" + c["mode"])
        ctx.count("m_%d" % m)
        if fam == "dtlz1":
            ctx.count("dtlz1_k_%d" % (len(x) - m + 1))
        if c["numpy"]:
            ctx.count("numpy_float64_vector")
        if fam in prop_fail:
            continue
        model = None if mo == "raise" else [unbits(t) for t in mo.split(",")]
        # 1. the identity, evaluated by the Lean driver on the implementation's output
        if f is None:
            prop_fail[fam] = (c, "raises", "%s.evaluate (m=%d) raised %s at the box point x=%r (the model gives %r)" % (
                fam, m, c["err"], x, model), model)
            continue
        if not c["shape"]:
            prop_fail[fam] = (c, "identity", "%s.evaluate (m=%d) returned %d objectives %r at x=%r" % (fam, m, len(f), f, x), model)
            continue
        lhs, rhs = [unbits(t) for t in ident.split(",")]
        if not close(lhs, rhs):
            prop_fail[fam] = (c, "identity", "%s (m=%d): identity %s fails on the implementation's output: lhs=%r rhs=%r at x=%r, f=%r (model: %r)" % (
                fam, m, IDENT_TEXT[fam], lhs, rhs, x, f, model), model)
            continue
        # 2. non-negativity on the box
        if any(not (t >= 0.0) for t in f):
            prop_fail[fam] = (c, "nonneg", "%s (m=%d): negative objective %r at the box point x=%r" % (fam, m, f, x), model)
            continue
        # 3. front clause: distance variables at the optimum => simplex of sum 0.5 / unit sphere / f2 = 1 - sqrt(f1)
        if c["mode"] == "front" and fam != "biobj":
            ctx.count("front_points")
            want = {"dtlz1": 0.5, "dtlz2": 1.0, "dtlz3": 1.0, "dtlz4": 1.0}.get(fam)
            if fam == "zdt1":
                lhs, want = f[1], 1.0 - math.sqrt(f[0])
            if not close(lhs, want):
                prop_fail[fam] = (c, "front", "%s (m=%d): distance variables at the optimum but the image is off the front: %r instead of %r at x=%r" % (
                    fam, m, lhs, want, x), model)
                continue
        # 4. relation R: Float model (the formulas the theorems are about) vs implementation
        if fam in model_fail:
            continue
        if model is None or len(model) != len(f) or not all(close(a, b) for a, b in zip(f, model)):
            model_fail.setdefault(fam, (c, "model", "%s.evaluate (m=%d) returned %r, the model %r at x=%r (identity and signs hold at this point, "
                   "but the code no longer computes the function the theorems are about)" % (fam, m, f, model, x), model))
            continue
        if all(a == b for a, b in zip(f, model)):
            ctx.count("bit_identical_with_model")
    # a failure of the property itself (identity / sign / front on the implementation's output) is reported before,
    # and instead of, a mere disagreement with the model in the same family
    for fam in FAMILIES:
        if fam in prop_fail:
            c, kind, what, model = prop_fail[fam]
            report(ctx, c, kind, what, model=model)
    for fam in FAMILIES:
        if fam in model_fail and fam not in prop_fail:
            c, kind, what, model = model_fail[fam]
            report(ctx, c, kind, what, model=model)
    if not ctx.failures:
        run_concurrent(ctx)


def run_concurrent(ctx):
    """The same clauses on objective vectors obtained while several threads evaluate different points on ONE problem
    object - what the framework's own parallel path does (Evaluator.evaluate_parallel shares the problem between its
    worker threads).  One-sided: on code whose evaluate() keeps its intermediates local every result is the serial one."""
    import sys
    import threading
    from artap.individual import Individual
    rng = ctx.rng
    nthreads, npts, rounds = 4, 64, (25 if ctx.quick else 250)
    old = sys.getswitchinterval()
    sys.setswitchinterval(1e-6)
    try:
        for fam in FAMILIES:
            m = 3 if fam in DTLZ else 2
            n = {"dtlz1": m + 4, "zdt1": 30, "biobj": 2}.get(fam, m + KDIST - 1)
            bounds = box(fam, m, n)
            pts = [gen_point(rng, fam, m, n, bounds)[0] for _ in range(npts)]
            p = problem(fam, m, n)
            inds = [Individual(list(x)) for x in pts]
            want = []
            for x in pts:
                try:
                    want.append(impl(fam, m, x))
                except Exception as e:   # noqa  (reported by the main stream)
                    want.append(repr(e))
            bad = []
            start = threading.Barrier(nthreads)

            def work(t):
                start.wait()
                for r in range(rounds):
                    for k in range(t, npts, nthreads):
                        try:
                            f = [float(v) for v in p.evaluate(inds[k])]
                        except Exception as e:   # noqa
                            f = repr(e)
                        if f != want[k] and isinstance(want[k], list):
                            bad.append((k, f))
                            return
            ths = [threading.Thread(target=work, args=(t,)) for t in range(nthreads)]
            for th in ths:
                th.start()
            for th in ths:
                th.join()
            ctx.case(("conc", fam), True)
            ctx.count("concurrent_evaluations_" + fam, npts * rounds)
            if bad:
                k, f = bad[0]
                x = pts[k]
                why = "returned %r" % (f,)
                if isinstance(f, list) and len(f) == len(want[k]):
                    lhs, rhs = identity(fam, m, x, f)
                    why += "; identity %s: lhs=%r rhs=%r" % (IDENT_TEXT[fam], lhs, rhs)
                ctx.fail("%s-concurrent" % fam, "%s (m=%d) evaluated at x=%r while %d threads evaluate other points on the same problem object "
                         "%s; evaluated alone the same point gives %r" % (fam, m, x, nthreads, why, want[k]),
                         {"family": fam, "m": m, "x": list(x), "kind": "concurrent", "threads": nthreads})
                break
    finally:
        sys.setswitchinterval(old)


def report(ctx, c, kind, what, model=None):
    fam, m, x = c["fam"], c["m"], list(c["x"])
    case = {"family": fam, "m": m, "x": x, "impl": c["f"], "kind": kind, "mode": c["mode"]}
    if model is not None:
        case["model"] = model
    # shrink (implementation only): move coordinates to the centre 0.5 while the identity / sign still fails
    if fam != "biobj":
        try:
            if py_violates(fam, m, x):
                y = list(x)
                centre = 0.5
                for j in range(len(y)):
                    keep = y[j]
                    if keep == centre:
                        continue
                    y[j] = centre
                    if not py_violates(fam, m, y):
                        y[j] = keep
                try:
                    f = impl(fam, m, y)
                except (ArithmeticError, ValueError, IndexError) as e:
                    case["shrunk"] = {"x": y, "raises": repr(e)}
                    what += " ; shrunk: x=%r raises %r" % (y, e)
                else:
                    lhs, rhs = identity(fam, m, y, f)
                    case["shrunk"] = {"x": y, "impl": f, "lhs": lhs, "rhs": rhs}
                    what += " ; shrunk: x=%r gives f=%r, lhs=%r rhs=%r" % (y, f, lhs, rhs)
        except Exception as e:     # shrinking is best effort
            case["shrink_error"] = repr(e)
    ctx.fail("%s-%s" % (fam, kind), what, case)


# --------------------------------------------------------------------------- replay / search

def replay(ctx, rp):
    c = rp["case"]
    if "family" not in c:
        print("nothing to replay:", rp.get("what"))
        return False
    if c.get("kind") == "box":
        got = [list(b) for b in box(c["family"], c["m"], c["n"])]
        print("%s declares the box %r, the property is proved for %r" % (c["family"], got, c["assumed"]))
        return got == [list(b) for b in c["assumed"]]
    if c.get("kind") == "concurrent":
        # the failing value depends on the interleaving of the threads: run the concurrent stream again (a few rounds)
        for _ in range(5):
            before = len(ctx.failures)
            run_concurrent(ctx)
            if len(ctx.failures) > before:
                print(ctx.failures[-1]["what"])
                return False
        print("5 concurrent rounds of every family: every objective vector satisfies its identity")
        return True
    ok = True
    for tag, x in (("original", c["x"]), ("shrunk", (c.get("shrunk") or {}).get("x"))):
        if x is None:
            continue
        fam, m = c["family"], c["m"]
        try:
            f = impl(fam, m, x)
        except (ArithmeticError, ValueError, IndexError) as e:
            print("%s: %s m=%d x=%r\n  implementation raises %r at this point of the box; the property demands an objective vector" % (tag, fam, m, x, e))
            ok = False
            continue
        lhs, rhs = identity(fam, m, x, f)
        good = close(lhs, rhs) and all(t >= 0.0 for t in f) and len(f) == (m if fam in DTLZ else 2)
        print("%s: %s m=%d x=%r" % (tag, fam, m, x))
        print("  implementation returns f=%r" % (f,))
        print("  property demands %s: lhs=%r rhs=%r -> %s ; all f_i >= 0 -> %s" % (
            IDENT_TEXT[fam], lhs, rhs, "holds" if close(lhs, rhs) else "FAILS", all(t >= 0.0 for t in f)))
        if tag == "original" and c.get("model") is not None:
            agree = len(c["model"]) == len(f) and all(close(a, b) for a, b in zip(f, c["model"]))
            print("  model (Float interpretation of the proved formulas) gave %r -> %s" % (c["model"], "agrees" if agree else "DIFFERS"))
            good = good and agree
        ok = ok and good
    return ok


def search(ctx):
    """Called when `run` could not drive the code: look for a violating point through what still works."""
    rng = ctx.rng
    found = False
    for fam in FAMILIES:
        for _ in range(200):
            m = rng.randint(2, 4)
            n = {"dtlz1": m + 4, "zdt1": 30, "biobj": 2}.get(fam, m + KDIST - 1)
            if fam in ("zdt1", "biobj"):
                m = 2
            try:
                x, mode = gen_point(rng, fam, m, n, box(fam, m, n))
                if py_violates(fam, m, x):
                    f = impl(fam, m, x)
                    report(ctx, {"fam": fam, "m": m, "x": x, "f": f, "mode": mode}, "identity",
                           "%s (m=%d): identity %s or non-negativity fails at x=%r, f=%r" % (fam, m, IDENT_TEXT[fam], x, f))
                    found = True
                    break
            except Exception:
                break
    return found
