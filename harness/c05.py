"""C05 — each design is evaluated exactly once and stored costs belong to its vector.
(also the shared machinery of C06, which imports this module)

Correspondence: `Evaluator.evaluate` (serial / parallel), `Evaluator.evaluate_scalar`, `SweepAlgorithm.run`,
`ScipyOpt.run`, `NLopt.run` of the real code, driven in-process on a logging `Problem` subclass whose objective and
constraints are table/formula driven, against `Artap.Eval` (Lean model, `Model/Eval.lean`; theorems in
`Props/C05.lean`, `Props/C06.lean`).  A *case* is a JSON-able dict: problem description (criteria, bounds, constraint
coefficients, cost formula, preset table), the design objects with their fault scripts, and a program of calls.
The model receives: signs, the table `vector -> (costs, constraint values)` of every vector the objective saw, for each
design object its script and its chain of vectors (initial + re-rolled, read back from the run: the random draws are an
input of the model, DESIGN 3.2), and the program.  Compared: result/exception class of every call, the objective's call
log, `Problem.failed`, and vector/state/costs/costs_signed of every design object.
"""
import contextlib
import time
import fractions
import io
import itertools
import threading

from .common import rat, vec, unrat, InfraError

Fr = fractions.Fraction


class _Sub(TimeoutError):
    pass


TRANSIENT = {"t": [TimeoutError, _Sub], "r": [RuntimeError, NotImplementedError, RecursionError]}
FATAL = [ValueError, OSError, KeyError, ZeroDivisionError, ArithmeticError, Exception, AssertionError, IndexError,
         LookupError, MemoryError]
STATE = {"EMPTY": "E", "IN_PROGRESS": "I", "EVALUATED": "V", "FAILED": "F"}


# --------------------------------------------------------------------------- the logging problem

def costs_of(case, v):
    """The pure part of the user's objective: preset table first, otherwise a formula of the vector."""
    t = case["_table"]
    k = tuple(float(x) for x in v)
    if k not in t:
        f = case["formula"]
        cs = [sum((float(x) - a) ** 2 for x in k) * b + c for a, b, c in f["costs"]]
        gs = [k[j % len(k)] * s - c if k else -c for j, (s, c) in enumerate(f["cons"])]
        t[k] = (cs, gs)
    return t[k]


_problems = {}


def get_problem(case):
    """One Problem object per problem description (creating one costs a mkdir/rmdir); the per-case state is reset."""
    import json
    key = json.dumps([case["criteria"], case["bounds"], case["initial"], case.get("extras")])
    p = _problems.get(key)
    if p is None:
        if len(_problems) > 600:
            _problems.clear()
        p = _problems[key] = make_problem(case)
    p.v_reset(case)
    return p


def make_problem(case0):
    from artap.problem import Problem

    class LoggingProblem(Problem):
        def set(self, **kwargs):
            self.name = "verif"
            self.parameters = [dict(name="x%d" % i, bounds=list(b), initial_value=iv)
                               for i, (b, iv) in enumerate(zip(case0["bounds"], case0["initial"]))]
            # heterogeneous declarations: some parameters declare a precision / an integer type, later ones do not
            for prm, extra in zip(self.parameters, case0.get("extras") or []):
                prm.update(extra)
            self.costs = [dict(name="f%d" % i) if c is None else dict(name="f%d" % i, criteria=c)
                          for i, c in enumerate(case0["criteria"])]
            self.v_lock = threading.Lock()
            self.v_reset(case0)

        def v_reset(self, case):
            self.v_case = case
            self.individuals = []
            self.failed = []
            self.v_objs = []          # design objects by key
            self.v_ids = {}           # id(object) -> key
            self.v_ncalls = {}
            self.v_log = []           # (key, vector, outcome kind)
            self.v_scripts = {}       # key -> list of outcome kinds
            self.v_exc = {}

        def v_register(self, ind):
            if id(ind) not in self.v_ids:
                self.v_ids[id(ind)] = len(self.v_objs)
                self.v_objs.append(ind)
            return self.v_ids[id(ind)]

        def v_key(self, ind):
            with self.v_lock:
                if id(ind) not in self.v_ids:
                    for other in self.individuals:      # objects created by the code: creation order
                        self.v_register(other)
                return self.v_register(ind)

        def evaluate(self, individual):
            key = self.v_key(individual)
            with self.v_lock:
                n = self.v_ncalls.get(key, 0)
                self.v_ncalls[key] = n + 1
                sc = self.v_scripts.get(key, [])
                o = sc[n] if n < len(sc) else "o"
                v = [float(x) for x in individual.vector]
                self.v_log.append((key, v, o))
                cs = list(costs_of(self.v_case, v)[0])
            if o == "o":
                if (key + n) % 3 == 1:
                    import numpy as np
                    return np.array(cs)      # an objective may hand its costs back as an ndarray: they are stored as returned
                return cs
            if o in TRANSIENT and getattr(self, "v_parallel", False):
                # parallel batch: a failing attempt takes a moment, so that the attempts of designs handled by different
                # workers overlap in time (each design has its own budget of five attempts, whatever the others do)
                time.sleep(0.002)
            if o in TRANSIENT:
                # the arguments of the exception are the user's business: a message, nothing, an errno pair, a number,
                # another exception
                args = [("scripted transient failure",), (), (110, "Connection timed out"), (-3,),
                        (ValueError("inner"),)][(key * 3 + n) % 5]
                raise TRANSIENT[o][(key + n) % len(TRANSIENT[o])](*args)
            raise FATAL[int(o[1:])]("scripted fatal failure")

        def evaluate_inequality_constraints(self, x):
            with self.v_lock:
                return list(costs_of(self.v_case, [float(t) for t in x])[1])

    return LoggingProblem()


@contextlib.contextmanager
def silence():
    with contextlib.redirect_stdout(io.StringIO()), contextlib.redirect_stderr(io.StringIO()):
        yield


def classify(exc):
    """Result string of one call."""
    if exc is None:
        return "ok"
    for i, c in enumerate(FATAL):
        if type(exc) is c:
            return "E:f%d" % i
    if isinstance(exc, RuntimeError):
        return "E:tooMany"
    return "E:other:" + type(exc).__name__


def drive(case):
    """Run the case's program against the real code; return the observation."""
    from artap.individual import Individual
    from artap.algorithm import DummyAlgorithm
    case["_table"] = {tuple(float(x) for x in e[0]): (list(e[1]), list(e[2])) for e in case["table"]}
    problem = get_problem(case)
    for k, d in enumerate(case["designs"]):
        problem.v_scripts[k] = list(d["script"])
    algo = DummyAlgorithm(problem)
    results, cmds, scalar_io, unrecorded = [], [], [], []

    def new_objects(start):
        """Keys of the design objects created by the code during the last step; they must be exactly the
        objects appended to `problem.individuals`, in that order ("every queried point is recorded")."""
        with problem.v_lock:
            for other in problem.individuals:
                problem.v_register(other)
        ks = list(range(start, len(problem.v_objs)))
        recorded = [problem.v_ids[id(i)] for i in problem.individuals if problem.v_ids[id(i)] >= start]
        if recorded != ks:
            unrecorded.append((ks, recorded))
        return ks

    with silence():
        for step in case["program"]:
            op = step[0]
            start = len(problem.v_objs)
            if op == "n":
                for k in step[1]:
                    vv = [float(t) for t in case["designs"][k]["vec"]]
                    twin = next((j for j in range(k) if case["designs"][j]["vec"] == case["designs"][k]["vec"]
                                 and j < len(problem.v_objs) and isinstance(problem.v_objs[j].vector, list)), None)
                    share = twin is not None and k % 2 == 1
                    if not share and (k + len(case["designs"])) % 5 == 3:
                        # a float ndarray as the design vector (what CMA-ES / CEM hand to evaluate)
                        import numpy as np
                        vv = np.array(vv)
                    ind = Individual(vv)
                    if share:
                        # two design objects holding one and the same vector object (what Individual.sync does: it assigns
                        # the other individual's vector): whatever happens to one design must not change the other's vector
                        ind.vector = problem.v_objs[twin].vector
                    ind.features["precision"] = case["designs"][k]["prec"]
                    if k % 4 == 2 and k - 1 < len(problem.v_objs) and k >= 1:
                        # a distinct design object that carries the id of another one (copies made with copy.copy / deepcopy
                        # of a template, individuals restored with from_dict): each object is a design of its own
                        ind.id = problem.v_objs[k - 1].id
                    if problem.v_register(ind) != k:
                        raise InfraError("harness: design keys out of order")
                cmds.append("n:" + vec(step[1]))
            elif op in ("b", "par", "b2", "par2"):
                ks = list(step[1])
                if op.endswith("2"):   # a later call: designs left IN_PROGRESS by an exception are not handed back
                    ks = [k for k in ks if problem.v_objs[k].state.name in ("EMPTY", "EVALUATED")]
                    if not ks:
                        continue
                algo.options["max_processes"] = 1 if op[0] == "b" else step[2]
                exc = None
                problem.v_parallel = op[0] != "b"
                try:
                    algo.evaluate([problem.v_objs[k] for k in ks])
                except Exception as e:      # noqa
                    exc = e
                finally:
                    problem.v_parallel = False
                results.append((op, classify(exc)))
                cmds.append("b:" + vec(ks))
            elif op == "scalar":
                exc, ret = None, None
                try:
                    ret = algo.evaluator.evaluate_scalar(list(step[1]))
                except Exception as e:      # noqa
                    exc = e
                ks = new_objects(start)
                if len(ks) != 1:
                    results.append(("s", "E:recorded-%d-designs" % len(ks)))
                else:
                    results.append(("s", classify(exc) if exc is not None else ("ok", ret)))
                    scalar_io.append((ks[0], list(step[1])))
                    cmds.append("s:%d" % ks[0])
            elif op == "sweep":
                from artap.algorithm_sweep import SweepAlgorithm
                from artap.operators import CustomGenerator
                gen = CustomGenerator(problem.parameters)
                gen.init([list(v) for v in step[1]])
                sw = SweepAlgorithm(problem, generator=gen)
                exc = None
                try:
                    sw.run()
                except Exception as e:      # noqa
                    exc = e
                ks = new_objects(start)
                results.append(("w", classify(exc)))
                cmds.append("w:" + vec(ks))
                if len(ks) != len(step[1]):
                    results[-1] = ("w", "E:recorded-%d-designs-for-%d-vectors" % (len(ks), len(step[1])))
                if len(step) > 2 and exc is None:
                    # the same algorithm object run again after its generator was given another table: the sweep evaluates
                    # exactly the generator's designs - the ones it has now
                    start2 = len(problem.v_objs)
                    gen.init([list(v) for v in step[2]])
                    try:
                        sw.run()
                    except Exception as e:      # noqa
                        exc = e
                    ks2 = new_objects(start2)
                    results.append(("w", classify(exc)))
                    cmds.append("w:" + vec(ks2))
                    if len(ks2) != len(step[2]):
                        results[-1] = ("w", "E:recorded-%d-designs-for-%d-vectors" % (len(ks2), len(step[2])))
            elif op in ("scipy", "nlopt"):
                if op == "scipy":
                    from artap.algorithm_scipy import ScipyOpt
                    alg = ScipyOpt(problem)
                    alg.options["algorithm"] = step[1]
                    alg.options["tol"] = 1e-2
                else:
                    import artap.algorithm_nlopt as an
                    alg = an.NLopt(problem)
                    alg.options["algorithm"] = getattr(an, step[1])
                    alg.options["verbose_level"] = 0
                alg.options["n_iterations"] = step[2]
                inner = alg.evaluator.evaluate_scalar
                seen = []

                def spy(x, inner=inner, seen=seen):
                    xs = [float(t) for t in x]
                    r = inner(x)
                    seen.append((xs, r))
                    return r
                alg.evaluator.evaluate_scalar = spy
                alg.run()
                ks = new_objects(start)
                if not seen and ks and not unrecorded:
                    # the optimiser did not go through the attribute the harness spies on (bound earlier?): the
                    # recorded designs are still checked, the value handed to the optimiser is not observable
                    for k in ks:
                        results.append(("s", "ok"))
                        cmds.append("s:%d" % k)
                    ks = []
                elif len(ks) != len(seen):
                    results.append(("s", "E:optimiser-made-%d-queries-but-%d-designs-recorded" % (len(seen), len(ks))))
                for k, (xs, r) in zip(ks, seen):
                    results.append(("s", ("ok", r)))
                    scalar_io.append((k, xs))
                    cmds.append("s:%d" % k)
            else:
                raise InfraError("harness: unknown program step %r" % (op,))
    objs = []
    for ind in problem.v_objs:
        objs.append({"vec": [float(x) for x in ind.vector], "state": STATE.get(ind.state.name, "?"),
                     "costs": None if not hasattr(ind.costs, "__len__") else [float(c) if isinstance(c, (int, float)) or hasattr(c, "dtype") else c for c in ind.costs],
                     "signed": list(ind.costs_signed), "prec": ind.features.get("precision")})
    obs = {"results": results, "cmds": cmds, "log": list(problem.v_log), "scalar_io": scalar_io,
           "failed": [[float(x) for x in f.vector] for f in problem.failed],
           "failed_states": [STATE.get(f.state.name, "?") for f in problem.failed],
           "objs": objs, "parallel": any(s[0].startswith("par") for s in case["program"]),
           "n_problem_individuals": len(problem.individuals), "unrecorded": unrecorded}
    return obs


# --------------------------------------------------------------------------- model side

def specs_of(case, obs):
    """Per design object: precision, script (padded with 'o' to the number of calls), chain of vectors."""
    specs = []
    for k, o in enumerate(obs["objs"]):
        d = case["designs"][k] if k < len(case["designs"]) else None
        calls = [(v, kind) for (kk, v, kind) in obs["log"] if kk == k]
        script = list(d["script"]) if d else []
        while len(script) < len(calls) + 6:       # the objective answers ok once its script is used up
            script.append("o")
        if d and d.get("vec") is not None:
            first = [float(x) for x in d["vec"]]
        else:
            io_ = [x for (kk, x) in obs["scalar_io"] if kk == k]
            first = io_[0] if io_ else (calls[0][0] if calls else o["vec"])
        chain = [first] + [v for v, _ in calls[1:]]
        if calls and calls[-1][1] in TRANSIENT:
            chain.append(o["vec"])          # the re-rolled vector that was never evaluated
        real = len(chain)
        while len(chain) < len(script) + 1:
            # should the model make more attempts than the code did (a divergence that the comparison then reports),
            # it needs vectors to continue with: repeat the last one
            chain.append(list(chain[-1]))
        for v in chain:
            costs_of(case, v)               # every vector of the chain has its table entry (pure function of the vector)
        specs.append({"prec": d["prec"] if d else 7, "script": script, "vecs": chain, "real": real})
    return specs


def signs_of(case):
    return [1 if c in (None, "minimize") else -1 for c in case["criteria"]]


def model_line(op, case, obs, specs):
    table = "#".join("%s:%s:%s" % (vec(k, rat), vec(cs, rat), vec(gs, rat)) for k, (cs, gs) in case["_table"].items())
    designs = "#".join("%d:%s:%s" % (s["prec"], ",".join(s["script"]), ";".join(vec(v, rat) for v in s["vecs"]))
                       for s in specs)
    return "%s %s|%s|%s|%s" % (op, vec(signs_of(case)), table, designs, "#".join(obs["cmds"]))


def parse_answer(ans):
    res, log, failed, designs = ans.split("|")

    def rv(s):
        return [unrat(t) for t in s.split(",")] if s else []
    out = {"results": res.split("#") if res else [],
           "log": [(int(e.split(":")[0]), rv(e.split(":")[1])) for e in log.split("#")] if log else [],
           "failed": [rv(v) for v in failed.split(";")] if failed else [], "objs": []}
    for d in designs.split("#") if designs else []:
        v, st, cs, sg, m = d.split(":")
        out["objs"].append({"vec": rv(v), "state": st, "costs": rv(cs), "signed": rv(sg),
                            "marker": None if m == "N" else int(m)})
    return out


def py_model(case, obs, specs):
    """Python mirror of Model/Eval.lean (used by --replay and while shrinking; the run itself asks Lean)."""
    signs = signs_of(case)
    table = case["_table"]
    pool, log, failed, results = [], [], [], []

    def rnd(p, y):
        return Fr(round(Fr(y) * 10 ** p), 10 ** p)

    def job(d):
        if d["state"] == "V":
            return None
        for _ in range(5):
            sp = specs[d["key"]]
            n = d["n"]
            if n >= len(sp["script"]):
                raise InfraError("py_model: script exhausted")
            o, v = sp["script"][n], d["vec"]
            cs, gs = table[tuple(v)]
            feas = d["feas"] if not gs else all(Fr(g) < 0 for g in gs)
            log.append((d["key"], [Fr(x) for x in v]))
            d["n"] = n + 1
            if o == "o":
                d.update(state="V", feas=feas, costs=[Fr(c) for c in cs],
                         signed=[s * rnd(sp["prec"], c) for s, c in zip(signs, cs)], marker=0 if feas is True else 1)
                return None
            if o in TRANSIENT:
                failed.append([Fr(x) for x in v])
                d.update(state="E", feas=False, vec=sp["vecs"][n + 1])
                continue
            d.update(state="I", feas=feas)
            return "E:" + o
        return "E:tooMany"

    def fresh(k):
        return {"key": k, "vec": specs[k]["vecs"][0], "state": "E", "costs": [], "signed": [], "marker": None,
                "feas": 0.0, "n": 0}

    def serial(ks):
        for k in ks:
            if pool[k]["state"] == "E":
                r = job(pool[k])
                if r is not None:
                    return r
        return "ok"
    for c in obs["cmds"]:
        op, a = c.split(":")
        ks = [int(t) for t in a.split(",")] if a else []
        if op == "n":
            pool.extend(fresh(k) for k in ks)
        elif op == "b":
            results.append(serial(ks))
        elif op == "w":
            pool.extend(fresh(k) for k in ks)
            results.append(serial(ks))
        elif op == "s":
            pool.append(fresh(ks[0]))
            r = job(pool[-1])
            if r is None:
                d = pool[-1]
                r = "ok=" + rat((d["signed"] + [Fr(d["marker"])])[0])
            results.append(r)
    return {"results": results, "log": log, "failed": failed,
            "objs": [{"vec": [Fr(x) for x in d["vec"]], "state": d["state"], "costs": d["costs"], "signed": d["signed"],
                      "marker": d["marker"]} for d in pool]}


# --------------------------------------------------------------------------- relation R

def same_float(impl, q, p=7):
    """impl (a double computed by the code) is the double nearest to the model's exact rational; beyond
    |y|*10^p >= 2^52 (outside the assumptions: rint is the identity there and the division rounds once more)
    a few ulps are accepted."""
    try:
        if float(impl) == float(q):
            return True
        return abs(q) * 10 ** int(p) >= 2 ** 52 and abs(Fr(float(impl)) - q) <= abs(q) * Fr(1, 2 ** 50)
    except (TypeError, ValueError, OverflowError):
        return False


def near_tie(y, p):
    """y*10^p is not a half-way point but closer to one than the rounding error of the double product."""
    try:
        q = Fr(y) * 10 ** int(p)
    except (TypeError, ValueError):
        return False
    d = abs(q - (q.numerator // q.denominator) - Fr(1, 2))
    return d != 0 and d <= abs(q) * Fr(1, 2 ** 50)


def compare(case, obs, exp):
    """First difference between the code's observable behaviour and the model's, as (key, sentence), or None."""
    par = obs["parallel"]
    if obs["unrecorded"]:
        ks, rec = obs["unrecorded"][0]
        return ("not-recorded", "the code evaluated new designs %r but problem.individuals gained %r (every queried point "
                "must be recorded, in order)" % (ks, rec))
    # results of the calls
    got = []
    for kind, r in obs["results"]:
        got.append(r if isinstance(r, str) else "ok")
    want = [r.split("=")[0] for r in exp["results"]]
    if got != want:
        return ("call-result", "outcome of the calls %s: code %r, model %r (ok / RuntimeError after five failures / "
                "exception class of the objective)" % (obs["cmds"], got, want))
    for (kind, r), w in zip(obs["results"], exp["results"]):
        if not isinstance(r, str) and kind == "s":
            q = unrat(w.split("=")[1])
            if not same_float(r[1], q):
                return ("scalar-return", "evaluate_scalar returned %r to the optimiser, the signed first cost is %r" % (r[1], float(q)))
    # call log
    ilog = [(k, [Fr(x) for x in v]) for (k, v, _) in obs["log"]]
    if par:
        for k in range(len(obs["objs"])):
            a, b = [v for kk, v in ilog if kk == k], [v for kk, v in exp["log"] if kk == k]
            if a != b:
                return ("call-log", "objective calls on design %d (parallel run): code %r, model %r" % (
                    k, [[float(x) for x in v] for v in a], [[float(x) for x in v] for v in b]))
    elif ilog != exp["log"]:
        return ("call-log", "objective call log (design, vector): code %r, model %r" % (
            [(k, [float(x) for x in v]) for k, v in ilog], [(k, [float(x) for x in v]) for k, v in exp["log"]]))
    # failed list
    ifail = [[Fr(x) for x in v] for v in obs["failed"]]
    efail = exp["failed"]
    if (sorted(ifail) != sorted(efail)) if par else (ifail != efail):
        return ("failed-list", "Problem.failed vectors: code %r, model %r" % (obs["failed"], [[float(x) for x in v] for v in efail]))
    # designs
    if len(obs["objs"]) != len(exp["objs"]):
        return ("design-count", "%d design objects exist, the model has %d" % (len(obs["objs"]), len(exp["objs"])))
    for k, (o, e) in enumerate(zip(obs["objs"], exp["objs"])):
        if (o["state"] == "V") != (e["state"] == "V"):
            return ("state", "design %d: state %s, model %s (E empty, I in progress, V evaluated)" % (k, o["state"], e["state"]))
        if e["state"] != "V":
            continue                       # the other fields of a design that is not evaluated are not claimed
        if [Fr(x) for x in o["vec"]] != e["vec"]:
            return ("vector", "design %d: stored vector %r, model %r" % (k, o["vec"], [float(x) for x in e["vec"]]))
        try:
            oc = [Fr(x) for x in o["costs"]]
        except (TypeError, ValueError):
            oc = None
        if oc != e["costs"]:
            return ("costs", "design %d with vector %r: stored costs %r, the objective returned %r for this vector" % (
                k, o["vec"], o["costs"], [float(x) for x in e["costs"]]))
        sg = o["signed"]
        if len(sg) != len(e["signed"]) + 1:
            return ("signed-shape", "design %d: costs_signed %r, expected %d signed costs followed by the marker" % (
                k, sg, len(e["signed"])))
        for j, (a, b) in enumerate(zip(sg[:-1], e["signed"])):
            if not same_float(a, b, o["prec"]):
                if near_tie(o["costs"][j], o["prec"]):
                    continue        # double rounding of y*10^p next to a half-way point: outside the assumptions
                return ("signed-cost", "design %d: costs_signed[%d] = %r, sign * round(cost, %s) = %r (costs %r)" % (
                    k, j, float(a), o["prec"], float(b), o["costs"]))
        m = sg[-1]
        if not (isinstance(m, (bool, int)) or type(m).__name__ in ("bool_", "bool")) or int(m) != e["marker"]:
            return ("marker", "design %d: feasibility marker %r, model %r (constraint values %r)" % (
                k, m, e["marker"], case["_table"].get(tuple(o["vec"]), (None, None))[1]))
    return None


def check_case(ctx, op, case, lean=True):
    """Drive the code, ask the model, compare.  Returns (obs, difference)."""
    obs = drive(case)
    specs = specs_of(case, obs)
    if lean:
        exp = parse_answer(ctx.lean([model_line(op, case, obs, specs)])[0])
    else:
        exp = py_model(case, obs, specs)
    return obs, compare(case, obs, exp)


def strip(case):
    return {k: v for k, v in case.items() if not k.startswith("_")}


# --------------------------------------------------------------------------- generators

TIES = [1 / 256, 3 / 256, -1 / 256, 0.5, 1.5, 2.5, -0.5, 0.0, -0.0, 1.0, -3.0, 123456.0, 0.125, 1e-7, 1e-8, 4e-8, 6e-8,
        0.30000000000000004, 0.1 + 0.2, 1 / 3, 2 / 3, 1e-300, -1e-300, 5e-324, 0.12345675, 0.12345685, 99.99999995]
GVALS = [0.0, -0.0, -5e-324, 5e-324, -1e-9, 1e-9, -1.0, 1.0, -0.25, 3.5, -1e300, 1e300]


def gen_problem(rng, n=None, m=None, ncons=None):
    n = n if n is not None else rng.randint(1, 4)
    m = m if m is not None else rng.randint(1, 3)
    ncons = ncons if ncons is not None else rng.choice([0, 0, 1, 2, 3])
    bounds = []
    for _ in range(n):
        lb = rng.choice([-5.0, 0.0, 1.0, -0.5, rng.uniform(-10, 10)])
        bounds.append([lb, lb + rng.choice([1.0, 2.0, 0.5, 10.0, rng.uniform(0.1, 7)])])
    crit = [rng.choice(["minimize", "maximize", "maximize", None]) for _ in range(m)]
    extras = None
    if n >= 2 and rng.random() < 0.3:
        extras = [{} for _ in range(n)]
        bounds[0] = [float(rng.randint(-3, 0)), float(rng.randint(1, 4))]
        extras[0] = rng.choice([{"precision": 1.0}, {"parameter_type": "integer"}, {"precision": 0.5}])
        bounds[-1] = [0.25, 0.75]
    return {"criteria": crit, "bounds": bounds, "extras": extras, "initial": [rng.uniform(b[0], b[1]) for b in bounds],
            "formula": {"costs": [[rng.uniform(-2, 2), rng.choice([1.0, 0.5, rng.uniform(0.1, 3)]), rng.uniform(-50, 50)]
                                  for _ in range(m)],
                        "cons": [[rng.choice([1.0, -1.0]), rng.uniform(-3, 3)] for _ in range(ncons)]},
            "table": [], "designs": [], "program": []}


def from_base(base):
    """A new case on an existing problem description (own table, designs, program)."""
    import copy
    case = copy.deepcopy({k: v for k, v in base.items() if not k.startswith("_")})
    case["table"], case["designs"], case["program"] = [], [], []
    return case


def problem_pool(rng, n, **kw):
    return [gen_problem(rng, **kw) for _ in range(n)]


def gen_vec(rng, case):
    return [rng.choice([b[0], b[1], rng.uniform(b[0], b[1]), rng.uniform(b[0], b[1])]) for b in case["bounds"]]


def gen_costs(rng, case, prec):
    m = len(case["criteria"])
    k = rng.random()
    ln = m if k < 0.85 else rng.choice([max(0, m - 1), m + 1])      # objective returning fewer / more values
    out = []
    for _ in range(ln):
        r = rng.random()
        if r < 0.3:
            out.append(rng.choice(TIES))
        elif r < 0.5:
            out.append(round(rng.uniform(-100, 100), rng.randint(0, 9)))
        elif r < 0.6:
            # half-way case at this precision when representable: (2j+1)*5^p / 2^(p+1) / 5^p
            out.append((2 * rng.randint(-40, 40) + 1) / 2.0 ** (prec + 1) if prec <= 12 else 0.5)
        else:
            out.append(rng.uniform(-1000, 1000) * 10 ** -rng.randint(0, 6))
    return out


def gen_cons(rng, case):
    nc = len(case["formula"]["cons"])
    if nc == 0:
        return []
    r = rng.random()
    if r < 0.35:
        return [rng.choice([-1.0, -0.5, -1e-9, -5e-324, -3.0]) for _ in range(nc)]      # feasible
    if r < 0.5:
        g = [rng.choice([-1.0, -0.5, -2.0]) for _ in range(nc)]
        g[rng.randrange(nc)] = rng.choice([0.0, -0.0])                                     # on the boundary: g<0 fails
        return g
    return [rng.choice(GVALS + [rng.uniform(-2, 2)]) for _ in range(nc)]


def add_design(rng, case, script=(), prec=None, v=None):
    prec = prec if prec is not None else rng.choice([7, 7, 7, 7, 0, 1, 3, 10, 12])
    v = v if v is not None else gen_vec(rng, case)
    if not any(tuple(e[0]) == tuple(v) for e in case["table"]):
        case["table"].append([v, gen_costs(rng, case, prec), gen_cons(rng, case)])
    case["designs"].append({"prec": prec, "script": list(script), "vec": v})
    return len(case["designs"]) - 1


def gen_batch_case(rng, quick=True, pool=None):
    case = from_base(rng.choice(pool)) if pool else gen_problem(rng)
    nd = rng.randint(1, 7)
    for _ in range(nd):
        if case["designs"] and rng.random() < 0.25:      # another object with an already used vector
            add_design(rng, case, v=list(rng.choice(case["designs"])["vec"]))
        else:
            add_design(rng, case)
    keys = list(range(nd))
    case["program"].append(["n", keys])
    ncalls = rng.randint(1, 4)
    first = True
    for _ in range(ncalls):
        r = rng.random()
        if first or r < 0.35:
            b = rng.sample(keys, rng.randint(1, nd))          # a subset: later calls mix new and evaluated designs
        elif r < 0.6:
            b = list(keys)                                     # everything
        elif r < 0.8:
            b = list(case["program"][-1][1])                   # the same batch again
        else:
            b = [rng.choice(keys) for _ in range(rng.randint(1, nd + 2))]   # same object several times in one batch
        first = False
        if rng.random() < (0.06 if quick else 0.08) and len(set(b)) == len(b):
            case["program"].append(["par", b, rng.randint(2, 4)])
        else:
            case["program"].append(["b", b])
    return case


def is_nontrivial(case, obs):
    """A case exercises the property when some call saw both evaluated and new designs, or a design more than once."""
    seen = set()
    mixed = False
    for s in case["program"]:
        if s[0] in ("b", "par"):
            ks = s[1]
            if (any(k in seen for k in ks) and any(k not in seen for k in ks)) or len(set(ks)) < len(ks) or all(k in seen for k in ks):
                mixed = True
            seen.update(ks)
    return mixed


def report(ctx, op, key, what, case, obs=None):
    """Shrink the program / designs while the same key keeps failing against the python mirror, then record."""
    def fails(c):
        try:
            _, d = check_case(ctx, op, c, lean=False)
        except InfraError:
            return False
        return d is not None and d[0] == key

    small = strip(case)
    try:
        if fails(dict(small)):
            # drop program steps from the end / middle
            prog = list(small["program"])
            i = len(prog) - 1
            while i >= 0:
                if prog[i][0] != "n":
                    cand = dict(small, program=prog[:i] + prog[i + 1:])
                    if fails(dict(cand)):
                        prog = cand["program"]
                        small = cand
                i -= 1
            _, d = check_case(ctx, op, dict(small), lean=False)
            if d is not None:
                what = d[1]
    except Exception:   # noqa  (shrinking is best effort)
        small = strip(case)
    ctx.fail(key, what, {"op": op, "case": small})


def run_stream(ctx, op, cases, label, nontrivial=None):
    """Drive all cases, one Lean batch, compare; stop at the first difference of the stream."""
    observed = []
    for c in cases:
        obs = drive(c)
        observed.append((c, obs, specs_of(c, obs)))
    answers = ctx.lean([model_line(op, c, obs, sp) for c, obs, sp in observed])
    for (c, obs, sp), ans in zip(observed, answers):
        exp = parse_answer(ans)
        nt = nontrivial(c, obs) if nontrivial else True
        for st in c["program"]:
            ctx.count("step_" + st[0])
        ctx.case((label, model_line(op, c, obs, sp)), nt,
                 sample=None if not nt else {"stream": label, "program": c["program"], "criteria": c["criteria"],
                         "designs": [{"vec": d["vec"], "script": "".join(d["script"])} for d in c["designs"][:4]],
                         "calls": len(obs["log"]), "results": [r if isinstance(r, str) else "ok" for _, r in obs["results"]][:6]})
        ctx.count("%s_cases" % label)
        ctx.count("objective_calls", len(obs["log"]))
        for _, r in obs["results"]:
            ctx.count("result_" + (r if isinstance(r, str) else "ok").replace(":", "_"))
        d = compare(c, obs, exp)
        if d is not None:
            report(ctx, op, d[0], "[%s] %s" % (label, d[1]), c, obs)
            return False
    return True


def gen_scalar_problem(rng):
    case = gen_problem(rng, n=rng.randint(1, 3), ncons=rng.choice([0, 1, 2]))
    case["criteria"][0] = rng.choice(["maximize", "maximize", "minimize"])
    if case["criteria"][0] == "maximize":       # keep the optimiser's target bounded below
        case["formula"]["costs"][0][1] *= -1
    return case


def gen_scalar_case(rng, kind, pool=None):
    case = from_base(rng.choice(pool)) if pool else gen_scalar_problem(rng)
    if kind == "scalar":
        for _ in range(rng.randint(1, 5)):
            case["program"].append(["scalar", gen_vec(rng, case)])
    elif kind == "bigsweep":
        # sizes around multiples of the default population size (100): "exactly the generator's designs" whatever the size
        n = rng.choice([99, 100, 101, 130, 199, 200, 201, 257, 300, 301]) if rng.random() < 0.8 else rng.randint(90, 420)
        case["program"].append(["sweep", [gen_vec(rng, case) for _ in range(n)]])
    elif kind == "sweep":
        for _ in range(rng.randint(1, 2)):
            vs = [gen_vec(rng, case) for _ in range(rng.randint(0, 6))]
            if vs and rng.random() < 0.5:
                vs.append(list(vs[0]))       # the generator may repeat a vector: two designs, two evaluations
            if vs and rng.random() < 0.3:
                case["program"].append(["sweep", vs, [gen_vec(rng, case) for _ in range(rng.randint(1, 5))]])
            else:
                case["program"].append(["sweep", vs])
    elif kind == "scipy":
        case["program"].append(["scipy", rng.choice(["Nelder-Mead", "Powell"]), rng.randint(1, 3)])
    elif kind == "nlopt":
        case["program"].append(["nlopt", rng.choice(["LN_BOBYQA", "LN_NELDERMEAD"]), rng.randint(2, 12)])
    return case


def run(ctx):
    rng = ctx.rng
    ctx.rule = ("a case = problem (1-4 parameters, 1-3 objectives with random minimise/maximise/default criteria, 0-3 "
                "constraints, table/formula driven objective) + design objects + a program of evaluate calls (serial, "
                "parallel, repeated, overlapping batches, the same object twice), sweeps, direct evaluate_scalar calls and "
                "SciPy/NLopt runs; non-trivial = some call sees both evaluated and new designs, a repeated batch or a "
                "repeated object (batch stream), every case of the other streams; distinct = distinct model request")
    ctx.assumptions += [
        "objective returns a list of finite floats with |cost|*10^precision < 2^52 (np.round computes rint(y*10^p)/10^p "
        "in doubles; the model rounds half-to-even exactly and the stored double must be the nearest double of "
        "sign*round(y,p); inputs within one ulp of a representable half-way point are not generated)",
        "designs handed to evaluate are EMPTY (fresh) or EVALUATED (by an earlier call); IN_PROGRESS/FAILED designs "
        "handed back by the caller are outside the statement",
        "parallel runs: call log compared per design, Problem.failed as a multiset (order across workers is unspecified)",
        "SciPy/NLopt are black boxes calling evaluator.evaluate_scalar; the harness spies on that callback",
    ]
    nb = 1200 if ctx.quick else 40000
    pool = problem_pool(rng, 60 if ctx.quick else 500)
    ctx.count("problem_descriptions", len(pool))
    if not run_stream(ctx, "c05.run", [gen_batch_case(rng, ctx.quick, pool) for _ in range(nb)], "batch", is_nontrivial):
        return
    spool = [gen_scalar_problem(rng) for _ in range(30 if ctx.quick else 300)]
    for kind, n in (("scalar", 60 if ctx.quick else 2000), ("sweep", 60 if ctx.quick else 2000),
                    ("bigsweep", 6 if ctx.quick else 60),
                    ("scipy", 12 if ctx.quick else 200), ("nlopt", 12 if ctx.quick else 200)):
        if not run_stream(ctx, "c05.run", [gen_scalar_case(rng, kind, spool) for _ in range(n)], kind):
            return


def replay(ctx, rp):
    c = rp["case"]
    if "case" not in c:
        print("nothing to replay:", rp.get("what"))
        return False
    case = dict(c["case"])
    obs = drive(case)
    exp = py_model(case, obs, specs_of(case, obs))
    d = compare(case, obs, exp)
    print("program:", case["program"])
    print("objective calls (design, vector, outcome):", obs["log"])
    print("results:", obs["results"], " Problem.failed:", obs["failed"])
    for k, o in enumerate(obs["objs"]):
        print("design %d:" % k, o)
    print("property demands:", "nothing else" if d is None else d[1])
    return d is None


def run_corpus(ctx, case):
    c = case.get("case", case)
    if "case" in c:
        obs, d = check_case(ctx, c.get("op", "c05.run"), dict(c["case"]))
        ctx.count("corpus_cases")
        if d is not None:
            ctx.fail(d[0], "[corpus] " + d[1], {"op": c.get("op", "c05.run"), "case": strip(c["case"])})


def search(ctx):
    """The harness could not drive the code: try the narrowest entry point (Job.evaluate on one design)."""
    from artap.individual import Individual
    from artap.job import Job
    case = gen_problem(ctx.rng, n=2, m=2, ncons=1)
    case["_table"] = {}
    problem = make_problem(case)
    problem.v_reset(case)
    ind = Individual([0.5, 0.25])
    problem.v_register(ind)
    with silence():
        Job(problem).evaluate(ind)
        Job(problem).evaluate(ind)
    cs = costs_of(case, [0.5, 0.25])[0]
    if len(problem.v_log) != 1 or list(ind.costs) != cs:
        ctx.fail("job-evaluate", "Job.evaluate twice on one design with vector [0.5, 0.25]: %d objective calls, stored costs "
                 "%r, objective returned %r" % (len(problem.v_log), ind.costs, cs), {"op": "job", "vector": [0.5, 0.25]})
        return True
    return False
