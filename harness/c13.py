"""C13 — factorial and screening designs (artap/doe.py, artap/operators.py).

Correspondence: the real generators (FullFactorGenerator, FullFactorLevelsGenerator, PlackettBurmanGenerator,
BoxBehnkenGenerator, GSDGenerator and the doe.py functions behind them: fullfact, pbdesign, bbdesign, build_gsd)
against the Lean model `Model/Doe.lean` (theorems in `Props/C13.lean`).  Designs are compared as *multisets of
rows* (canonical sort) – run order is not part of the property.  Level values travel as exact rationals; values the
code merely selects must come back bit-identical, the two computed mid-points ((lb+ub)/2) within the R2 band.

Next to the relation `impl == model` the harness evaluates the *property predicate* on the implementation's output
(python mirrors of the Lean specs: every combination once / two bounds, run count, balance, orthogonality /
corner-pairs + centre / duplicate-free disjoint cover).  A failing predicate is the violation; a disagreement with
the model while the predicate still holds (PB and GSD designs are not unique) is reported as a broken tie
(`no-failing-input-found`), as DESIGN.md 2.5 prescribes.
"""
import itertools
from fractions import Fraction

from .common import rat, unrat, vec, close, shrink_list

# --------------------------------------------------------------------------- implementation adaptors


_LIVE = {}


def _params(bounds):
    """Parameter declarations are long-lived objects in real use (problem.parameters is handed to one generator
    after the other): the same list object is reused for every case with the same bounds, and a generator that
    edited the declared box would corrupt the cases that follow (checked in `_guard_params`)."""
    key = repr([list(b) for b in bounds])
    if key not in _LIVE:
        _LIVE[key] = [{"name": "x_%d" % i, "bounds": [lb, ub]} for i, (lb, ub) in enumerate(bounds)]
    return _LIVE[key]


def params_intact(bounds):
    key = repr([list(b) for b in bounds])
    live = _LIVE.get(key)
    return live is None or [list(p["bounds"]) for p in live] == [list(b) for b in bounds]


def _names(k):
    return [{"name": "x_%d" % i} for i in range(k)]


def _rows(x):
    return [tuple(r) for r in x]


def _guard(f):
    """-> ('ok', rows) or ('raise', exception type name)"""
    try:
        return ("ok", f())
    except Exception as e:  # the code raises: AssertionError / ValueError / TypeError / IndexError ...
        return ("raise", type(e).__name__)


def impl_fullfact(levels):
    from artap import doe
    return _guard(lambda: [tuple(int(v) for v in r) for r in doe.fullfact(list(levels))])


def impl_ffl(values):
    from artap.operators import FullFactorLevelsGenerator

    def f():
        g = FullFactorLevelsGenerator(_names(len(values)))
        g.init([list(v) for v in values])
        return _rows(g.generate())
    return _guard(f)


def second_use(cls, bounds, init=None):
    """Two of three cases use the generator object a second time (an algorithm run twice, a study repeated on a changed
    box): the rows of the first design were overwritten by the caller; in one variant the first design was made while the
    same parameter dicts still declared another box.  What counts is the design the second generate() returns."""
    mode = (len(bounds) + int(abs(float(bounds[0][0])) * 4)) % 3 if bounds else 0
    if mode == 0:
        g = cls(_params(bounds))
        if init is not None:
            g.init(init)
        return g.generate()
    first_bounds = bounds if mode == 2 else [(float(lb) - 1.5, float(ub) + 2.25) for lb, ub in bounds]
    ps = [{"name": "x_%d" % i, "bounds": [lb, ub]} for i, (lb, ub) in enumerate(first_bounds)]      # a list of its own
    g = cls(ps)
    if init is not None:
        g.init(init)
    first = g.generate()
    for r in first:
        if isinstance(r, list):
            for j in range(len(r)):
                r[j] = -98765.4321
    for q, (lb, ub) in zip(ps, bounds):
        q["bounds"] = [lb, ub]
    return g.generate()


def impl_ffc(bounds, center):
    from artap.operators import FullFactorGenerator
    return _guard(lambda: _rows(second_use(FullFactorGenerator, bounds, center)))


def impl_pb(n):
    from artap import doe
    return _guard(lambda: [tuple(int(v) for v in r) for r in doe.pbdesign(n)])


def impl_pbb(bounds):
    from artap.operators import PlackettBurmanGenerator
    return _guard(lambda: _rows(second_use(PlackettBurmanGenerator, bounds)))


def impl_bb(n, center):
    from artap import doe
    return _guard(lambda: [tuple(int(v) for v in r) for r in doe.bbdesign(n, center=center)])


def impl_bbb(bounds):
    from artap.operators import BoxBehnkenGenerator
    return _guard(lambda: _rows(second_use(BoxBehnkenGenerator, bounds)))


def impl_gsd(levels, r, n):
    from artap import doe

    def f():
        d = doe.build_gsd(list(levels), r, n)
        ds = [d] if n == 1 else list(d)
        return [[tuple(int(v) for v in row) for row in m] for m in ds]
    return _guard(f)


def impl_gsdgen(values, r):
    from artap.operators import GSDGenerator

    def f():
        g = GSDGenerator(_names(len(values)))
        g.init([list(v) for v in values], r)
        return _rows(g.generate())
    return _guard(f)


# --------------------------------------------------------------------------- property predicates (python mirrors)

def p_fullfact(values, rows):
    """every combination of the given levels exactly once"""
    want = sorted(itertools.product(*values))
    if sorted(rows) != want:
        return "rows are not every combination of the levels exactly once (%d rows, %d combinations, %d distinct rows)" % (
            len(rows), len(want), len(set(rows)))
    return None


def p_pb_coded(n, rows):
    """+-1 entries, next multiple of four above n runs, balanced, mutually orthogonal columns"""
    N = 4 * (n // 4 + 1)
    if len(rows) != N:
        return "run count %d, expected next multiple of four above the factor count = %d" % (len(rows), N)
    if any(len(r) != n for r in rows):
        return "a run does not have %d factors" % n
    if any(v not in (-1, 1) for r in rows for v in r):
        return "an entry is not one of the two levels"
    for a in range(n):
        if sum(r[a] for r in rows) != 0:
            return "column %d is not balanced" % a
    for a in range(n):
        for b in range(a + 1, n):
            if sum(r[a] * r[b] for r in rows) != 0:
                return "columns %d and %d are not orthogonal" % (a, b)
    return None


def p_pb(bounds, rows):
    n = len(bounds)
    if any(len(r) != n for r in rows):
        return "a run does not have %d factors" % n
    for r in rows:
        for j, v in enumerate(r):
            if v != bounds[j][0] and v != bounds[j][1]:
                return "value %r of factor %d is neither of its bounds %r" % (v, j, bounds[j])
    if any(lb == ub for lb, ub in bounds):
        N = 4 * (n // 4 + 1)
        return None if len(rows) == N else "run count %d, expected %d" % (len(rows), N)
    return p_pb_coded(n, [tuple(1 if v == bounds[j][1] else -1 for j, v in enumerate(r)) for r in rows])


def bb_expected(n, lo, mid, hi, center=1):
    exp = []
    for i in range(n):
        for j in range(i + 1, n):
            for si in (lo, hi):
                for sj in (lo, hi):
                    v = [m for m in mid]
                    v[i] = si[i]
                    v[j] = sj[j]
                    exp.append(tuple(v))
    exp += [tuple(mid)] * center
    return exp


def rows_close(a, b):
    """multisets of numeric rows equal within the R2 band (exact where equal)"""
    if len(a) != len(b):
        return False
    a, b = sorted(a, key=lambda r: [float(v) for v in r]), sorted(b, key=lambda r: [float(v) for v in r])
    for x, y in zip(a, b):
        if len(x) != len(y):
            return False
        for u, v in zip(x, y):
            if u != v and not close(float(u), float(v)):
                return False
    return True


def p_bb_coded(n, center, rows):
    z = [0] * n
    exp = bb_expected(n, [-1] * n, z, [1] * n, center)
    if sorted(rows) != sorted(exp):
        extra = [r for r in rows if r not in exp] + [r for r in set(rows) if rows.count(r) > exp.count(r)]
        missing = [r for r in exp if r not in rows]
        return "runs are not {every +-1 corner of every factor pair, others 0} + %d centre run(s): %d runs, expected %d; unexpected/duplicated run %r, missing run %r" % (
            center, len(rows), len(exp), extra[:1], missing[:1])
    return None


def p_bb(bounds, rows):
    n = len(bounds)
    lo = [Fraction(min(b)) for b in bounds]
    hi = [Fraction(max(b)) for b in bounds]
    mid = [(Fraction(b[0]) + Fraction(b[1])) / 2 for b in bounds]
    exp = bb_expected(n, lo, mid, hi)
    if not rows_close(rows, exp):
        fexp = [tuple(float(v) for v in r) for r in exp]
        extra = [r for r in rows if not any(all(close(float(a), b) for a, b in zip(r, e)) for e in fexp)]
        return "runs are not {every corner of every factor pair, others at mid-level} + one centre run (%d runs, expected %d; e.g. unexpected run %r)" % (
            len(rows), len(exp), extra[:1])
    return None


def p_gsd(levels, r, n, designs):
    """duplicate-free subsets of the full factorial, pairwise disjoint; all r of them cover it"""
    full = set(itertools.product(*[range(L) for L in levels]))
    want = 1 if n == 1 else min(n, r)
    if len(designs) != want:
        return "%d designs returned, expected %d" % (len(designs), want)
    seen = set()
    for i, d in enumerate(designs):
        s = set(d)
        if len(s) != len(d):
            return "design %d contains a duplicate run" % i
        if not s <= full:
            return "design %d contains a run outside the full factorial %r" % (i, sorted(s - full)[:1])
        if s & seen:
            return "design %d shares the run %r with an earlier complementary design" % (i, sorted(s & seen)[0])
        seen |= s
    if len(designs) == r and seen != full:
        return "the %d complementary designs miss %d of the %d full-factorial runs, e.g. %r" % (
            r, len(full - seen), len(full), sorted(full - seen)[0])
    return None


def p_gsdgen(values, r, rows):
    full = list(itertools.product(*values))
    if len(set(rows)) != len(rows) and all(len(set(v)) == len(v) for v in values):
        return "the design contains a duplicate run"
    fs = set(full)
    for row in rows:
        if row not in fs:
            return "run %r is not a combination of the supplied levels" % (row,)
    return None


# --------------------------------------------------------------------------- model side

def parse_rows(ans, conv):
    """'raise' -> None ; 'ok a,b;c,d' -> [(a,b),(c,d)]"""
    if ans == "raise" or ans in ("ValueError", "AssertionError"):
        return None
    assert ans.startswith("ok"), ans
    body = ans[2:].strip()
    if body == "":
        return []
    return [tuple(conv(t) for t in row.split(",")) if row.strip() != "" else () for row in body.split(";")]


def parse_designs(ans):
    if ans in ("ValueError", "AssertionError"):
        return None
    assert ans.startswith("ok"), ans
    body = ans[2:].strip()
    return [[tuple(int(t) for t in row.split(",")) for row in d.split(";")] for d in body.split("|")]


def lists_arg(values):
    return ";".join(vec(v, rat) for v in values)


def same_exact(impl_rows, model_rows):
    """bit-identical values, order-free"""
    return sorted(tuple(Fraction(v) for v in r) for r in impl_rows) == sorted(model_rows)


# --------------------------------------------------------------------------- generators

NICE = [0.0, 1.0, -1.0, 2.5, -2.5, 5.0, 3.4, 6.0, 10.0, 0.1, 1e-3, 7e4, -0.75, 1e6, 123.456]


def gen_value(rng):
    m = rng.random()
    if m < 0.35:
        return float(rng.randint(-5, 9))
    if m < 0.6:
        return rng.choice(NICE)
    if m < 0.7:
        return rng.randint(-3, 12)          # python ints, as in the repository's tests
    return rng.uniform(-100, 100)


def gen_bounds(rng, k, allow_equal=True):
    out = []
    for _ in range(k):
        lb = gen_value(rng)
        m = rng.random()
        if m < 0.06 and allow_equal:
            ub = lb                          # degenerate factor: exact tie
        elif m < 0.16:
            ub = lb - abs(gen_value(rng)) - 0.5   # reversed bounds
        else:
            ub = lb + abs(gen_value(rng)) + rng.choice([0.5, 1.0, 0.125, 3.0])
        out.append((lb, ub))
    return out


def gen_levels_values(rng, k, maxl):
    vals = []
    for _ in range(k):
        L = rng.randint(1, maxl)
        m = rng.random()
        if m < 0.5:
            v = [gen_value(rng) for _ in range(L)]          # may contain duplicates
        elif m < 0.8:
            base = rng.randint(-9, 9)
            v = [float(base + 10 * i) for i in range(L)]
            rng.shuffle(v)
        else:
            v = rng.sample(range(-20, 40), L)
        vals.append(v)
    return vals


# --------------------------------------------------------------------------- streams

class Stream:
    """collects (case, impl, line) triples, asks the model in one batch, then judges"""

    def __init__(self, ctx):
        self.ctx = ctx
        self.items = []

    def add(self, kind, case, impl):
        self.items.append((kind, case, impl))


def line_of(kind, c):
    if kind == "fullfact":
        return "c13.fullfact " + vec(c["levels"])
    if kind == "ffl":
        return "c13.ffl " + lists_arg(c["values"])
    if kind == "ffc":
        return "c13.ffc %s|%d" % (lists_arg(c["bounds"]), 1 if c["center"] else 0)
    if kind == "pb":
        return "c13.pb %d" % c["n"]
    if kind == "pbb":
        return "c13.pbb " + lists_arg(c["bounds"])
    if kind == "bb":
        return "c13.bb %d|%d" % (c["n"], c["center"])
    if kind == "bbb":
        return "c13.bbb " + lists_arg(c["bounds"])
    if kind == "gsd":
        return "c13.gsd %s|%d|%d" % (vec(c["levels"]), c["r"], c["n"])
    if kind == "gsdgen":
        return "c13.gsdgen %s|%d" % (lists_arg(c["values"]), c["r"])
    raise ValueError(kind)


def run_impl(kind, c):
    if kind == "fullfact":
        return impl_fullfact(c["levels"])
    if kind == "ffl":
        return impl_ffl(c["values"])
    if kind == "ffc":
        return impl_ffc(c["bounds"], c["center"])
    if kind == "pb":
        return impl_pb(c["n"])
    if kind == "pbb":
        return impl_pbb(c["bounds"])
    if kind == "bb":
        return impl_bb(c["n"], c["center"])
    if kind == "bbb":
        return impl_bbb(c["bounds"])
    if kind == "gsd":
        return impl_gsd(c["levels"], c["r"], c["n"])
    if kind == "gsdgen":
        return impl_gsdgen(c["values"], c["r"])
    raise ValueError(kind)


def in_quantifier(kind, c):
    """True: the property statement promises a design for this input.  None: a design is promised exactly where
    the construction exists, i.e. where the verified model succeeds (PB beyond 23 factors: run counts 2^a, 12*2^a,
    20*2^a; GSD: reduction not too large for the level counts; no factors / fewer than 3 BB factors: never)."""
    if kind == "fullfact":
        return True if len(c["levels"]) >= 1 else None
    if kind == "ffl":
        return True if len(c["values"]) >= 1 else None
    if kind == "ffc":
        return True if len(c["bounds"]) >= 1 else None
    if kind == "pb":
        return True if 1 <= c["n"] <= 23 else None
    if kind == "pbb":
        return True if 1 <= len(c["bounds"]) <= 23 else None
    if kind == "bb":
        return True if c["n"] >= 3 else None
    if kind == "bbb":
        return True if len(c["bounds"]) >= 3 else None
    return None


def predicate(kind, c, out):
    """property predicate on the implementation's output; None = holds, else the sentence of what fails"""
    if kind == "fullfact":
        return p_fullfact([range(L) for L in c["levels"]], out)
    if kind == "ffl":
        return p_fullfact(c["values"], out)
    if kind == "ffc":
        vals = [[lb, (Fraction(lb) + Fraction(ub)) / 2, ub] if c["center"] else [lb, ub] for lb, ub in c["bounds"]]
        want = list(itertools.product(*vals))
        return None if rows_close(out, want) else "rows are not every combination of the levels exactly once (%d rows, %d combinations)" % (len(out), len(want))
    if kind == "pb":
        return p_pb_coded(c["n"], out)
    if kind == "pbb":
        return p_pb(c["bounds"], out)
    if kind == "bb":
        return p_bb_coded(c["n"], c["center"], out)
    if kind == "bbb":
        return p_bb(c["bounds"], out)
    if kind == "gsd":
        return p_gsd(c["levels"], c["r"], c["n"], out)
    if kind == "gsdgen":
        return p_gsdgen(c["values"], c["r"], out)
    raise ValueError(kind)


def agrees(kind, impl_out, ans):
    """relation R on a successful run of both sides"""
    if kind in ("fullfact", "pb", "bb"):
        return sorted(impl_out) == sorted(parse_rows(ans, int))
    if kind in ("ffl", "pbb", "gsdgen"):
        return same_exact(impl_out, parse_rows(ans, unrat))
    if kind in ("ffc", "bbb"):
        return rows_close(impl_out, parse_rows(ans, unrat))
    if kind == "gsd":
        m = parse_designs(ans)
        return len(m) == len(impl_out) and all(sorted(a) == sorted(b) for a, b in zip(impl_out, m))
    raise ValueError(kind)


KEY = {"fullfact": "ff", "ffl": "ff-levels", "ffc": "ff-center", "pb": "pb", "pbb": "pb-bounds", "bb": "bb",
       "bbb": "bb-bounds", "gsd": "gsd", "gsdgen": "gsd-generator"}


def jsonable(c):
    return {k: ([list(x) if isinstance(x, (tuple, list, range)) else x for x in v] if isinstance(v, (list, tuple)) else v)
            for k, v in c.items()}


def case_key(kind, c):
    def fr(x):
        return rat(x)
    if "values" in c:
        body = tuple(tuple(fr(x) for x in v) for v in c["values"])
    elif "bounds" in c:
        body = tuple((fr(a), fr(b)) for a, b in c["bounds"])
    elif "levels" in c:
        body = tuple(c["levels"])
    else:
        body = c["n"]
    return (kind, body, c.get("r"), c.get("n") if "levels" in c else None, c.get("center"))


def shrink_case(kind, c, still):
    """drop factors while the predicate keeps failing"""
    field = "values" if "values" in c else "bounds" if "bounds" in c else "levels" if "levels" in c else None
    if field is None:
        return c
    minlen = {"bbb": 3, "gsd": 2, "gsdgen": 2}.get(kind, 1)

    def test(xs):
        cc = dict(c)
        cc[field] = xs
        return still(cc)
    xs = shrink_list(list(c[field]), test, min_len=minlen)
    cc = dict(c)
    cc[field] = xs
    return cc


def judge(ctx, items, answers):
    """items: (kind, case, impl result).  First property failure per kind is reported; a model disagreement
    without a property failure is a broken tie."""
    failed, mism, sampled = set(), {}, set()
    for (kind, c, (st, out)), ans in zip(items, answers):
        model_ok = not (ans == "raise" or ans in ("ValueError", "AssertionError"))
        inq = in_quantifier(kind, c)
        if inq is None:
            inq = model_ok
        ctx.count("%s_%s" % (kind, "design" if st == "ok" else "raises"))
        if st == "raise":
            ctx.count("error_%s_%s" % (kind, out))
        nontriv = st == "ok" and (len(out) > 1)
        sample = None
        if (kind, st) not in sampled and len(out) > 1:
            sampled.add((kind, st))
            sample = {"op": kind, "case": jsonable(c), "impl": "raises " + out if st == "raise" else "%d runs" % (
                len(out) if kind != "gsd" else sum(len(d) for d in out))}
        ctx.case(case_key(kind, c), nontriv or (st == "raise" and not model_ok), sample=sample)
        if kind in failed:
            continue
        if not inq:
            # no design is promised here (PB 24..27, BB n<3, no factors, GSD reduction too large, one factor): the
            # code is expected to raise like the model; a design returned anyway is judged by the predicate alone
            if st == "raise":
                ctx.count("no_design_promised_both_raise")
                continue
            ctx.count("no_design_promised_impl_returns_design")
            why = predicate(kind, c, out) if kind in ("gsd", "gsdgen", "pb", "pbb") else None
            if why is None:
                continue
        elif st == "raise":
            why = "the generator raised %s; the property promises a design for this input" % out
        else:
            why = predicate(kind, c, out)
        if why is not None:
            failed.add(kind)

            def still(cc, kind=kind, st=st):
                if in_quantifier(kind, cc) is not True:
                    return False
                s2, o2 = run_impl(kind, cc)
                if s2 == "raise":
                    return st == "raise"
                return st == "ok" and predicate(kind, cc, o2) is not None
            try:
                small = shrink_case(kind, c, still) if in_quantifier(kind, c) is True else c
            except Exception:
                small = c
            s2, o2 = run_impl(kind, small)
            why2 = ("the generator raised %s; the property promises a design for this input" % o2) if s2 == "raise" else predicate(kind, small, o2)
            if why2 is None:
                small, why2 = c, why
            ctx.fail(KEY[kind] + "-property", "%s on %r: %s" % (kind, jsonable(small), why2),
                     {"op": kind, "case": jsonable(small), "original": jsonable(c), "model": ans[:2000]})
            continue
        if not model_ok or not agrees(kind, out, ans):
            mism.setdefault(kind, (c, out, ans))
            ctx.count("model_disagreement_%s" % kind)
    for kind, (c, out, ans) in mism.items():
        if kind in failed:
            continue
        ctx.fail(KEY[kind] + "-model-mismatch",
                 "%s on %r: the code's design differs from the verified model's design although the property predicate still "
                 "holds on it – the theorems of Props/C13.lean no longer speak about this code" % (kind, jsonable(c)),
                 {"op": kind, "case": jsonable(c), "impl": str(out)[:1500], "model": ans[:1500],
                  "broken": "correspondence Model/Doe.lean <-> artap/doe.py"}, no_input=True)


# --------------------------------------------------------------------------- run

def build_cases(ctx):
    rng, q = ctx.rng, ctx.quick
    cases = []
    # ---- full factorial (coded)
    cases.append(("fullfact", {"levels": []}))
    for lv in ([7, 7, 2], [49, 2], [7, 14, 3], [103, 2], [107, 3], [7, 23, 2], [11, 17, 2], [49, 3, 2]):
        cases.append(("fullfact", {"levels": list(lv)}))       # products of leading level counts whose reciprocal is inexact
    n_ff = 120 if q else 1500
    cap = 1500 if q else 20000
    for _ in range(n_ff):
        k = rng.randint(1, 5 if q else 7)
        lv = [rng.randint(1, 5 if q else 7) for _ in range(k)]
        while _prod(lv) > cap:
            lv.pop()
        cases.append(("fullfact", {"levels": lv}))
    # factors with many levels (narrow integer storage, e.g. int8/uint8/int16, wraps at 128 / 256 / 32768)
    for lv in ([rng.randint(129, 200)], [rng.randint(2, 3), rng.randint(130, 190)], [rng.randint(257, 300), 2], [2, 2, 131]) + \
            (() if q else ([33000], [2, 40000], [70000])):
        cases.append(("fullfact", {"levels": list(lv)}))
    many = [float(i) for i in range(-90, rng.randint(60, 91))]
    cases.append(("ffl", {"values": [[0.5, 1.5, 2.5][:rng.randint(1, 3)], many]}))
    cases.append(("ffl", {"values": [many[:rng.randint(130, 150)]]}))
    if not q:   # exhaustive small scope
        for k in (1, 2, 3, 4):
            for lv in itertools.product(range(1, 5), repeat=k):
                cases.append(("fullfact", {"levels": list(lv)}))
        ctx.extra["exhaustive_fullfact"] = "all level lists with 1-4 factors, 1-4 levels"
    # ---- FullFactorLevelsGenerator / FullFactorGenerator
    for _ in range(120 if q else 1500):
        k = rng.randint(1, 4 if q else 6)
        vals = gen_levels_values(rng, k, 5 if q else 7)
        while _prod([len(v) for v in vals]) > cap:
            vals.pop()
        cases.append(("ffl", {"values": vals}))
    for _ in range(60 if q else 600):
        k = rng.randint(1, 5 if q else 7)
        cases.append(("ffc", {"bounds": gen_bounds(rng, k), "center": rng.random() < 0.6}))
    # ---- Plackett-Burman: the domain is finite -> exhaustive
    top = 64 if q else 131
    for n in range(0, top + 1):
        cases.append(("pb", {"n": n}))
    ctx.extra["exhaustive_pb"] = "pbdesign for every factor count 0..%d (1..23 supported by the statement; 24-27, 32-35, ... raise)" % top
    for n in list(range(1, 32)) + ([] if q else list(range(36, 40)) + list(range(44, 48))):
        for _ in range(1 if q else 3):
            cases.append(("pbb", {"bounds": gen_bounds(rng, n, allow_equal=rng.random() < 0.15)}))
    # ---- Box-Behnken
    for n in range(0, (11 if q else 17)):
        for center in ((0, 1, 2) if n < 6 else (1,)):
            cases.append(("bb", {"n": n, "center": center}))
    for n in range(1, (11 if q else 17)):
        for _ in range(2 if q else 6):
            cases.append(("bbb", {"bounds": gen_bounds(rng, n)}))
    # sequences of different generators on ONE long-lived parameter list (Box-Behnken -> Plackett-Burman ->
    # Box-Behnken -> full factorial -> Box-Behnken): each design must be what its generator promises whatever ran before
    for n in (3, 4, 5) if q else (3, 4, 5, 6, 7, 8):
        b = gen_bounds(rng, n)
        for kind in ("bbb", "pbb", "bbb", "ffc", "pbb", "bbb"):
            cases.append((kind, {"bounds": [list(x) for x in b], "center": True} if kind == "ffc" else {"bounds": [list(x) for x in b]}))
    # ---- GSD
    gs = []
    for lv in ([], [3], [1], [6]):
        gs.append((lv, 2, 1))
        gs.append((lv, 3, 3))
    for k in ((2, 3) if q else (2, 3, 4)):
        maxl = 6
        for lv in itertools.product(range(1, maxl + 1), repeat=k):
            for r in range(2, 6):
                if q:
                    ns = {1, r, rng.randint(1, r + 1)}
                else:
                    ns = set(range(1, r + 2))
                for n in ns:
                    gs.append((list(lv), r, n))
    ctx.extra["exhaustive_gsd"] = "build_gsd for all level lists with %s factors, 1-%d levels, reductions 2-5, %s" % (
        "2-3" if q else "2-4", 6, "n in {1, r, random}" if q else "n = 1..r+1")
    for _ in range(400 if q else 3000):
        k = rng.randint(4, 4 if q else 5)
        lv = [rng.randint(1, 6 if q else 8) for _ in range(k)]
        r = rng.randint(2, 5 if q else 7)
        gs.append((lv, r, rng.choice([1, r, rng.randint(1, r + 1)])))
    for lv, r, n in [([3, 4], 1, 1), ([3, 4], 0, 1), ([3, 4], 2, 0)]:
        gs.append((lv, r, n))
    for lv, r, n in gs:
        cases.append(("gsd", {"levels": lv, "r": r, "n": n}))
    for _ in range(200 if q else 2500):
        k = rng.randint(2, 4)
        vals = gen_levels_values(rng, k, 6)
        cases.append(("gsdgen", {"values": vals, "r": rng.randint(2, 4)}))
    return cases


def _prod(xs):
    p = 1
    for x in xs:
        p *= x
    return p


def run(ctx):
    ctx.rule = ("fullfact / generators on random level lists and bounds (ints, floats, duplicates, reversed and equal bounds); "
                "pbdesign exhaustively over the factor counts; bbdesign for every n in range; build_gsd exhaustively over small "
                "level lists x reductions x design counts plus random larger ones; non-trivial = a design with more than one run, "
                "or an input on which code and model both raise; distinct = distinct (generator, levels/bounds, reduction, n, center)")
    ctx.assumptions += [
        "bounds are finite floats whose sum does not overflow; two bounds of a factor are bit-identical or further apart than rounding error (mid-level (lb+ub)/2 compared within 1e-9 relative)",
        "scipy.linalg.toeplitz / hankel, numpy stacking, slicing, np.roll and itertools.product are modelled, not verified",
        "error *kinds* (AssertionError / ValueError / TypeError) are recorded but only raise / no-raise is compared",
    ]
    cases = build_cases(ctx)
    items = [(kind, c, run_impl(kind, c)) for kind, c in cases]
    answers = ctx.lean([line_of(kind, c) for kind, c, _ in items])
    judge(ctx, items, answers)
    if not ctx.failures:
        stream_pb_levels(ctx)
    if not ctx.failures:
        stream_dict_api(ctx)


def pb_levels_violation(levels):
    """doe.build_plackett_burman on a dictionary of level lists (2 or more entries each): the design uses only the lowest
    and the highest entry of every list ("only the two bounds"), with the run count, balance and orthogonality of the
    statement.  Returns None or a sentence."""
    from artap import doe
    names = ["%s%d" % ("wqhdzkbpxm"[j % 10], j) for j in range(len(levels))]      # declaration order, not sorted order
    d = {nm: list(lv) for nm, lv in zip(names, levels)}
    try:
        rows = [tuple(r) for r in doe.build_plackett_burman(d)]
    except Exception as e:   # noqa
        return "raises %s: %s" % (type(e).__name__, e)
    return p_pb([(lv[0], lv[-1]) for lv in levels], rows)


def dict_api_violation(kind, levels):
    """doe.build_full_fact / doe.build_box_behnken called directly with a dictionary of level lists (the functions behind
    the generators, public in artap.doe).  Returns None or a sentence."""
    import itertools
    from artap import doe
    names = ["%s%d" % ("wqhdzkbpxm"[j % 10], j) for j in range(len(levels))]      # declaration order, not sorted order
    d = {nm: list(lv) for nm, lv in zip(names, levels)}
    try:
        rows = [tuple(r) for r in (doe.build_full_fact(d) if kind == "ff" else doe.build_box_behnken(d))]
    except Exception as e:   # noqa
        return "raises %s: %s" % (type(e).__name__, e)
    if any(len(r) != len(levels) for r in rows):
        return "a run does not have %d factors" % len(levels)
    if kind == "ff":
        exp = list(itertools.product(*levels))
        if sorted(rows) != sorted(exp):
            return "not every combination of the levels exactly once: %d runs, expected %d (e.g. missing %r, unexpected %r)" % (
                len(rows), len(exp), [e for e in exp if e not in rows][:1], [r for r in rows if r not in exp][:1])
        return None
    lo = [min(lv) for lv in levels]
    hi = [max(lv) for lv in levels]
    mid = [sorted(lv)[1] if len(lv) == 3 else (Fraction(lv[0]) + Fraction(lv[1])) / 2 for lv in levels]
    exp = bb_expected(len(levels), lo, mid, hi)
    if not rows_close(rows, exp):
        return "runs are not {every corner of every factor pair, others at mid-level} + one centre run: %d runs, expected %d" % (len(rows), len(exp))
    return None


def stream_dict_api(ctx):
    rng = ctx.rng
    for _ in range(120 if ctx.quick else 1500):
        kind = rng.choice(["ff", "bb"])
        n = rng.randint(1, 5) if kind == "ff" else rng.randint(3, 7)
        levels = []
        for j in range(n):
            lo = rng.choice([0.0, -1.0, 10.0, float(rng.randint(-50, 50))])
            k = rng.randint(1, 4) if kind == "ff" else rng.choice([2, 3])
            step = rng.choice([0.5, 1.0, 2.5, 7.0])
            levels.append([lo + step * i for i in range(k)])
        ctx.case(("dict-api", kind, repr(levels)), nontrivial=True, sample={"op": "dict-api", "kind": kind, "levels": levels[:4]})
        ctx.count("dict_api_" + kind)
        why = dict_api_violation(kind, levels)
        if why:
            ctx.fail("dict-api-" + kind, "doe.%s on the level lists %r: %s" % ("build_full_fact" if kind == "ff" else "build_box_behnken", levels, why),
                     {"op": "dict-api", "kind": kind, "levels": levels})
            return


def stream_pb_levels(ctx):
    rng = ctx.rng
    for _ in range(80 if ctx.quick else 800):
        n = rng.randint(1, 11)
        levels = []
        for j in range(n):
            k = rng.choice([2, 2, 3, 3, 4, 5])
            lo = rng.choice([0.0, -1.0, 10.0, rng.uniform(-50, 50)])
            vals = sorted(set([lo] + [lo + rng.choice([0.5, 1.0, 2.5, 7.0]) * (i + 1) for i in range(k - 1)]))
            levels.append(vals)
        ctx.case(("pb-levels", repr(levels)), nontrivial=any(len(lv) > 2 for lv in levels),
                 sample={"op": "pb-levels", "levels": levels[:4]})
        ctx.count("pb_level_lists_%s" % ("longer_than_2" if any(len(lv) > 2 for lv in levels) else "pairs"))
        why = pb_levels_violation(levels)
        if why:
            for m in range(1, n + 1):       # fewer factors with the same verdict
                w2 = pb_levels_violation(levels[:m])
                if w2:
                    levels, why = levels[:m], w2
                    break
            ctx.fail("pb-levels", "build_plackett_burman on the level lists %r: %s" % (levels, why), {"op": "pb-levels", "levels": levels})
            return


def run_corpus(ctx, case):
    kind, c = case["op"], case["case"]
    c = _restore(c)
    items = [(kind, c, run_impl(kind, c))]
    judge(ctx, items, ctx.lean([line_of(kind, c)]))


def _restore(c):
    c = dict(c)
    if "bounds" in c:
        c["bounds"] = [tuple(b) for b in c["bounds"]]
    return c


def replay_pb_levels(c):
    why = pb_levels_violation([list(lv) for lv in c["levels"]])
    print("build_plackett_burman on %r: %s" % (c["levels"], why or "only the lowest and highest level of every factor, balanced and orthogonal"))
    return why is None


def replay(ctx, rp):
    if rp.get("case", {}).get("op") == "pb-levels":
        return replay_pb_levels(rp["case"])
    if rp.get("case", {}).get("op") == "dict-api":
        c = rp["case"]
        why = dict_api_violation(c["kind"], [list(lv) for lv in c["levels"]])
        print("doe.build_* (%s) on %r: %s" % (c["kind"], c["levels"], why or "the design the statement describes"))
        return why is None
    case = rp["case"]
    kind, c = case.get("op"), case.get("case")
    if kind is None or c is None:
        print("nothing to replay:", rp.get("what"))
        return False
    c = _restore(c)
    st, out = run_impl(kind, c)
    print("input: %s %r" % (kind, c))
    if st == "raise":
        print("the code raised %s" % out)
        q = in_quantifier(kind, c)
        print("the property promises a design for this input%s" % ("" if q else " if the construction exists (recorded model answer: %s)" % str(case.get("model"))[:60]))
        return False
    why = predicate(kind, c, out)
    print("the code returned %d %s" % (len(out), "designs" if kind == "gsd" else "runs"))
    print("property demands: %s" % {
        "fullfact": "every combination of the levels exactly once", "ffl": "every combination of the levels exactly once",
        "ffc": "every combination of the levels exactly once",
        "pb": "4*(n//4+1) runs, +-1 entries, balanced and mutually orthogonal columns",
        "pbb": "4*(n//4+1) runs, only the two bounds, balanced and mutually orthogonal columns",
        "bb": "every +-1 corner of every factor pair (others 0) + the centre runs",
        "bbb": "every corner of every factor pair with the others at mid-level + one centre run",
        "gsd": "duplicate-free subsets of the full factorial, pairwise disjoint, all r together = the full factorial",
        "gsdgen": "duplicate-free subset of the full factorial over the supplied values"}[kind])
    print("verdict: %s" % ("holds" if why is None else "FAILS – " + why))
    if rp.get("no_failing_input_found"):
        print("(recorded as a model disagreement: the design differs from the verified model's design)")
    return why is None


def search(ctx):
    """The harness itself could not run: try each entry point separately and judge what still works."""
    found = False
    for kind, c in build_cases(ctx)[:4000]:
        try:
            st, out = run_impl(kind, c)
        except Exception:
            continue
        q = in_quantifier(kind, c)
        if st == "ok":
            try:
                why = predicate(kind, c, out)
            except Exception:
                continue
            if why is not None and (q or kind in ("gsd", "gsdgen", "pb", "pbb")):
                ctx.fail(KEY[kind] + "-property", "%s on %r: %s" % (kind, jsonable(c), why), {"op": kind, "case": jsonable(c)})
                found = True
                break
    return found
