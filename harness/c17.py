"""C17 — result queries and quality indicators are faithful views of the recorded data.

Correspondence: `Results.population / table / goal_on_parameter / parameter_on_goal / parameter_on_parameter /
goal_on_index / parameter_on_index / find_optimum / performance_measure`, `Problem.population / last_population /
populations` and `quality_indicator.epsilon_add / gd` on the real code against `Artap.Results.*` (Lean model; proved in
Props/C17.lean to be the filter by tag, the own-vector-plus-own-costs rows, pair-preserving sorting, the extremal
recorded individual, and the max-min-max / mean-nearest-distance indicators).

Queries are regime R1 (values only moved and compared): doubles are sent through the order embedding phi, recorded
individuals are identified by their position, so agreement is exact.  Indicators are regime R2: exact rationals;
the additive epsilon indicator is compared exactly (it only subtracts and compares; inexact subtractions within 1e-9),
`gd` as mean(sqrt(model's exact squared distances)) within 1e-9 relative.
"""
import math
from fractions import Fraction

from .common import phi, rat, vec, mat, close, shrink_list, unrat

POOL = [0.0, -0.0, 1.0, -1.0, 2.5, 1e-3, 7e4, -3.25, 1e300, -1e300, 5e-324]


# --------------------------------------------------------------------------- recorded problems

_problem = []


def make_problem(case):
    """A Problem whose recorded individuals are exactly `case['inds']` = [(tag, vector, costs)]."""
    from artap.problem import Problem
    from artap.individual import Individual
    if not _problem:
        class P(Problem):
            def set(self):
                self.parameters = []
                self.costs = []

            def evaluate(self, individual):
                return []
        _problem.append(P())
    p = _problem[0]
    p.parameters = [{'name': 'x_%d' % i, 'bounds': [-1e301, 1e301]} for i in range(case["np"])]
    p.costs = []
    for j, crit in enumerate(case["criteria"]):
        c = {'name': 'F_%d' % j}
        if crit is not None:
            c['criteria'] = crit
        p.costs.append(c)
    inds = []
    for tag, v, c in case["inds"]:
        i = Individual(list(v))
        i.costs = list(c)
        i.population_id = tag
        inds.append(i)
    p.individuals = inds
    return p, inds


def positions(inds, objs):
    where = {id(o): k for k, o in enumerate(inds)}
    return [where.get(id(o), -1) for o in objs]


def ind_lines(case):
    return mat([[tag, len(v)] + [phi(x) for x in v] + [phi(x) for x in c] for tag, v, c in case["inds"]])


def queries(case):
    """The list of (name, protocol line) asked about one recorded problem."""
    il = ind_lines(case)
    q = []
    for pid in case["pids"]:
        q.append((("pop", pid), "c17.pop %d|%s" % (pid, il)))
    q.append((("groups",), "c17.groups %s" % il))
    q.append((("table",), "c17.table %s" % il))
    q.append((("tableT",), "c17.tableT %s" % il))
    for (kind, a, b, pid, srt) in case["listings"]:
        q.append(((kind, a, b, pid, srt), "c17.%s %d,%d,%d,%d|%s" % (kind, a, b, pid, int(srt), il)))
    for (which, sel, pid) in case["onindex"]:
        count = len(case["criteria"]) if which == 0 else case["np"]
        q.append((("onindex", which, sel, pid), "c17.onindex %d,%d,%d,%d|%s" % (which, sel, count, pid, il)))
    if case["inds"]:
        for j in case["opt"]:
            jj = 0 if j < 0 else j
            mn = case["criteria"][jj] in (None, "minimize")
            q.append((("opt", j), "c17.opt %d,%d|%s" % (int(mn), jj, il)))
    return q


def ph(xs):
    return [phi(x) for x in xs]


def impl_query(case, name):
    """Run one query on the real code; the answer in the model's output format."""
    from artap.results import Results
    p, inds = make_problem(case)
    r = Results(p)
    kind = name[0]
    if kind == "pop":
        pid = name[1]
        a = positions(inds, r.population() if pid == -1 else r.population(pid))
        b = positions(inds, p.last_population() if pid == -1 else p.population(pid))
        if a != b:
            return "Results.population %r != Problem.population %r" % (a, b)
        return "ok " + vec(a)
    if kind == "groups":
        return "ok " + ";".join("%d:%s" % (tag, vec(positions(inds, members))) for tag, members in p.populations().items())
    if kind == "table":
        return "ok " + mat([ph(row) for row in r.table(transpose=False)])
    if kind == "tableT":
        return "ok " + mat([ph(col) for col in r.table()])
    if kind in ("gop", "pog", "pop2"):
        _, a, b, pid, srt = name
        kw = {} if pid == -1 else {"population_id": pid}
        if kind == "gop":
            out = r.goal_on_parameter('x_%d' % a, 'F_%d' % b, sorted=srt, **kw)
        elif kind == "pog":
            out = r.parameter_on_goal('F_%d' % a, 'x_%d' % b, sorted=srt, **kw)
        else:
            out = r.parameter_on_parameter('x_%d' % a, 'x_%d' % b, sorted=srt, **kw)
        return "ok " + vec(ph(out[0])) + "|" + vec(ph(out[1]))
    if kind == "onindex":
        _, which, sel, pid = name
        kw = {} if pid == -1 else {"population_id": pid}
        if which == 0:
            out = r.goal_on_index(None if sel < 0 else 'F_%d' % sel, **kw)
        else:
            out = r.parameter_on_index(None if sel < 0 else 'x_%d' % sel, **kw)
        if list(out[0]) != list(range(len(out[0]))):
            return "index row is not range(n): %r" % (out[0],)
        return "ok %d|%s" % (len(out[0]), mat([ph(col) for col in out[1:]]))
    if kind == "opt":
        j = name[1]
        o = r.find_optimum() if j < 0 else r.find_optimum('F_%d' % j)
        return "ok %d,%d" % (positions(inds, [o])[0], phi(o.costs[max(j, 0)]))
    raise ValueError(name)


# --------------------------------------------------------------------------- python mirror of the specification (shrinking / replay)

def spec_query(case, name):
    inds = case["inds"]
    kind = name[0]
    tags = [t for t, _, _ in inds]

    def pop(pid):
        if pid == -1:
            pid = max([-1] + tags)
        return [k for k, t in enumerate(tags) if t == pid]
    order = []
    for t in tags:
        if t not in order:
            order.append(t)
    grouped = [k for t in order for k in range(len(inds)) if tags[k] == t]
    if kind == "pop":
        return "ok " + vec(pop(name[1]))
    if kind == "groups":
        return "ok " + ";".join("%d:%s" % (t, vec([k for k in range(len(inds)) if tags[k] == t])) for t in order)
    rows = [ph(inds[k][1]) + ph(inds[k][2]) for k in grouped]
    if kind == "table":
        return "ok " + mat(rows)
    if kind == "tableT":
        return "ok " + mat([list(c) for c in zip(*rows)])
    if kind in ("gop", "pog", "pop2"):
        _, a, b, pid, srt = name
        sel = pop(pid)
        if kind == "gop":
            pairs = [(phi(inds[k][1][a]), phi(inds[k][2][b])) for k in sel]
        elif kind == "pog":
            pairs = [(phi(inds[k][2][a]), phi(inds[k][1][b])) for k in sel]
        else:
            pairs = [(phi(inds[k][1][a]), phi(inds[k][1][b])) for k in sel]
        if srt:
            pairs = sorted(pairs)
        return "ok " + vec([x for x, _ in pairs]) + "|" + vec([y for _, y in pairs])
    if kind == "onindex":
        _, which, sel, pid = name
        members = pop(pid)
        count = len(case["criteria"]) if which == 0 else case["np"]
        cols = [sel] if sel >= 0 else list(range(count))
        f = 2 if which == 0 else 1
        return "ok %d|%s" % (len(members), mat([[phi(inds[k][f][j]) for k in members] for j in cols]))
    if kind == "opt":
        j = max(name[1], 0)
        vals = [phi(c[j]) for _, _, c in inds]
        best = min(vals) if case["criteria"][j] in (None, "minimize") else max(vals)
        return "ok %d,%d" % (vals.index(best), best)
    raise ValueError(name)


def describe(name):
    kind = name[0]
    if kind == "pop":
        return "Results.population(%s)" % ("" if name[1] == -1 else name[1])
    if kind == "groups":
        return "Problem.populations()"
    if kind == "table":
        return "Results.table(transpose=False)"
    if kind == "tableT":
        return "Results.table()"
    if kind in ("gop", "pog", "pop2"):
        f = {"gop": "goal_on_parameter('x_%d', 'F_%d'", "pog": "parameter_on_goal('F_%d', 'x_%d'",
             "pop2": "parameter_on_parameter('x_%d', 'x_%d'"}[kind] % (name[1], name[2])
        return "Results.%s, population_id=%d, sorted=%s)" % (f, name[3], name[4])
    if kind == "onindex":
        return "Results.%s(%s, population_id=%d)" % ("goal_on_index" if name[1] == 0 else "parameter_on_index",
                                                      None if name[2] < 0 else name[2], name[3])
    return "Results.find_optimum(%s)" % ("" if name[1] < 0 else "'F_%d'" % name[1])


def canon(name, ans):
    """Canonical form of an answer: only what the property constrains is compared.
    populations(): the tag -> members map (key order free); tables: the multiset of rows (generation order free;
    the transposed table is transposed back); two-column listings: the multiset of (first, second) pairs plus, when
    sorted, 'first column ascending'; optimum: a recorded individual and its cost value (which of several optimal
    individuals is free)."""
    if not ans.startswith("ok"):
        return ans
    body = ans[2:].strip()
    kind = name[0]
    if kind == "groups":
        return ("groups", tuple(sorted(body.split(";")))) if body else ("groups", ())
    if kind in ("table", "tableT"):
        rows = [tuple(r.split(",")) for r in body.split(";")] if body else []
        if kind == "tableT":
            rows = list(zip(*rows))
        return ("rows", tuple(sorted(rows)))
    if kind in ("gop", "pog", "pop2"):
        a, b = body.split("|")
        a = [int(x) for x in a.split(",")] if a else []
        b = [int(x) for x in b.split(",")] if b else []
        if len(a) != len(b):
            return ("ragged", ans)
        return ("pairs", tuple(sorted(zip(a, b))), (not name[4]) or a == sorted(a))
    if kind == "opt":
        k, c = body.split(",")
        return ("opt", int(k) >= 0, c)
    return ans


FAIL_KEY = {"pop": "population-query", "groups": "populations-grouping", "table": "table-rows", "tableT": "table-rows",
            "gop": "listing-pairing", "pog": "listing-pairing", "pop2": "listing-pairing", "onindex": "index-listing",
            "opt": "find-optimum"}


# --------------------------------------------------------------------------- generators

def gen_value(rng, pool):
    r = rng.random()
    if r < 0.55:
        return rng.choice(pool)
    if r < 0.9:
        return rng.uniform(-10, 10)
    return rng.choice(POOL)


def gen_case(rng, max_inds, max_tags):
    npar = rng.randint(1, 4)
    nc = rng.randint(1, 3)
    criteria = [rng.choice([None, "minimize", "maximize", "maximize"]) for _ in range(nc)]
    n = rng.randint(0, 3) if rng.random() < 0.1 else rng.randint(1, max_inds)
    ntags = rng.randint(1, max_tags)
    tagpool = rng.sample([-1, 0, 1, 2, 3, 4, 5, 7, 10, 12, 50], ntags)
    pool = [float(rng.randint(-3, 3)) for _ in range(rng.randint(1, 4))] + [rng.uniform(-5, 5) for _ in range(2)]
    inds = []
    for _ in range(n):
        if inds and rng.random() < 0.15:        # an individual with the same values as an earlier one
            _, v, c = rng.choice(inds)
            v, c = list(v), list(c)
        else:
            v = [gen_value(rng, pool) for _ in range(npar)]
            c = [gen_value(rng, pool) for _ in range(nc)]
        inds.append((rng.choice(tagpool), v, c))
    tags = sorted(set(t for t, _, _ in inds))
    pids = [-1] + tags + [rng.choice([6, 8, 99])]
    listings = []
    for _ in range(4):
        kind = rng.choice(["gop", "pog", "pop2"])
        pid = rng.choice(pids)
        srt = rng.random() < 0.6
        if kind == "gop":
            listings.append((kind, rng.randrange(npar), rng.randrange(nc), pid, srt))
        elif kind == "pog":
            listings.append((kind, rng.randrange(nc), rng.randrange(npar), pid, srt))
        else:
            listings.append((kind, rng.randrange(npar), rng.randrange(npar), pid, srt))
    onindex = [(0, rng.choice([-1] + list(range(nc))), rng.choice(pids)),
               (1, rng.choice([-1] + list(range(npar))), rng.choice(pids))]
    opt = [-1] + list(range(nc))
    return {"np": npar, "criteria": criteria, "inds": inds, "pids": pids, "listings": listings, "onindex": onindex, "opt": opt}


def dy(rng, lo=-40, hi=40):
    return rng.randint(lo, hi) / 8.0


def gen_sets(rng, maxn, kind):
    dim = rng.randint(1, 4)
    nr = rng.randint(1, maxn)
    if kind == "random":
        ref = [[rng.uniform(-5, 5) for _ in range(dim)] for _ in range(nr)]
        comp = [[rng.uniform(-5, 5) for _ in range(dim)] for _ in range(rng.randint(1, maxn))]
        return ref, comp, None
    ref = [[dy(rng) for _ in range(dim)] for _ in range(nr)]
    if kind == "offset":
        # coordinates of large magnitude, distances small against it (1e6 with shifts of 2^-10 .. 1): the distance of two
        # points does not depend on where the origin is
        base = float(rng.choice([2 ** 20, 2 ** 17, -2 ** 20]))
        ref = [[base + x for x in r] for r in ref]
        comp = [[x + rng.choice([0.0, 2.0 ** -10, 2.0 ** -7, 0.125, 1.0]) for x in rng.choice(ref)] for _ in range(rng.randint(1, maxn))]
        return ref, comp, None
    if kind in ("integer", "integer-array"):
        # the computed points have integer coordinates only (Python ints / an integer ndarray): distances to a real-valued
        # reference set are not integers
        comp = [[rng.randint(-4, 4) for _ in range(dim)] for _ in range(rng.randint(1, maxn))]
        if rng.random() < 0.3:
            ref = [[float(x) for x in c] for c in comp[:max(1, len(comp) - 1)]]      # (nearly) a subset of the reference
        return ref, comp, None
    if rng.random() < 0.3:
        ref += [list(rng.choice(ref)) for _ in range(rng.randint(1, 2))]     # repeated reference points
    if kind == "dyadic":
        comp = []
        for _ in range(rng.randint(1, maxn)):
            r = rng.random()
            if r < 0.3:
                comp.append(list(rng.choice(ref)))                          # a reference point itself
            elif r < 0.5:
                b = rng.choice(ref)
                comp.append([x + rng.choice([0, 0, 0.125, -0.125, 1]) for x in b])
            else:
                comp.append([dy(rng) for _ in range(dim)])
        return ref, comp, None
    if kind == "subset":          # every computed point is a reference point: gd = 0
        comp = [list(rng.choice(ref)) for _ in range(rng.randint(1, maxn))]
        return ref, comp, None
    d = rng.choice([0.0, 0.0, 0.125, 0.5, 1.0, 2.75, 10.0]) if rng.random() < 0.8 else rng.randint(0, 400) / 16.0
    comp = [[x + d for x in r] for r in ref]
    rng.shuffle(comp)
    return ref, comp, d


def spec_eps(ref, comp):
    eps = Fraction(0)
    for r in ref:
        best = None
        for c in comp:
            k = max(Fraction(a) - Fraction(b) for a, b in zip(c, r))
            best = k if best is None or k < best else best
        if best is None:
            return math.inf
        eps = max(eps, best)
    return eps


def spec_gd(ref, comp):
    tot = 0.0
    for c in comp:
        tot += math.sqrt(min(sum((Fraction(a) - Fraction(b)) ** 2 for a, b in zip(c, r)) for r in ref))
    return tot / len(comp)


def _computed(comp):
    """computed set as handed to the indicators: tuples; an all-integer set every other time as an integer ndarray"""
    if comp and all(isinstance(x, int) for c in comp for x in c) and (len(comp) + sum(comp[0])) % 2 == 0:
        import numpy as np
        return np.array(comp, dtype=int)
    return [tuple(c) for c in comp]


def impl_eps(ref, comp):
    from artap.quality_indicator import epsilon_add
    return float(epsilon_add([tuple(r) for r in ref], _computed(comp)))


def impl_gd(ref, comp):
    from artap.quality_indicator import gd
    return float(gd([tuple(r) for r in ref], _computed(comp)))


def raises(f, ref, comp):
    try:
        f(ref, comp)
    except Exception:   # noqa
        return True
    return False


def eps_agrees(got, want):
    """want: exact Fraction (or inf).  Exact when the double equals it, otherwise within the R2 band."""
    if want == math.inf:
        return got == math.inf
    if math.isinf(got) or got != got:
        return False
    return Fraction(got) == want or close(got, float(want))


# --------------------------------------------------------------------------- run

def run(ctx):
    rng = ctx.rng
    ctx.rule = ("recorded problems built by appending Individuals (0..40, thorough ..120) with chosen population_id (1..6 unsorted "
                "tags from {-1,0,..,50}), 1-4 parameters, 1-3 goals with criteria absent/minimize/maximize, values from a small "
                "pool (duplicates, ties) mixed with random and extreme doubles, repeated individuals; every query of the model is "
                "asked for the default, every recorded and one unrecorded tag. Point sets: dyadic coordinates (exact), random "
                "doubles, subsets of the reference, shifted copies. non-trivial = at least two tags and a tie in some cost "
                "(queries); at least two reference and two computed points (indicators); distinct = distinct inputs")
    ctx.assumptions += ["recorded individuals carry one value per parameter and per goal, all finite (NaN excluded)",
                        "point sets are non-empty and of one common dimension >= 1",
                        "IEEE rounding of gd (sqrt, sum, division) stays within 1e-9 relative of the exact value"]
    n_cases = 450 if ctx.quick else 9000
    cases = [gen_case(rng, 40 if ctx.quick else 120, 6) for _ in range(n_cases)]
    allq = []
    for c in cases:
        allq.append(queries(c))
    ans = ctx.lean([line for q in allq for _, line in q])
    pos = 0
    for c, q in zip(cases, allq):
        tags = [t for t, _, _ in c["inds"]]
        tie = any(len(set(phi(x[2][j]) for x in c["inds"])) < len(c["inds"]) for j in range(len(c["criteria"])))
        ctx.case(("problem", c["np"], tuple(map(str, c["criteria"])), tuple((t, tuple(ph(v)), tuple(ph(k))) for t, v, k in c["inds"])),
                 len(set(tags)) >= 2 and tie,
                 sample={"parameters": c["np"], "criteria": c["criteria"], "individuals": c["inds"][:6], "n": len(c["inds"]),
                         "queries": [describe(n) for n, _ in q][:8]})
        ctx.count("inds_%s" % ("0" if not tags else "1-5" if len(tags) <= 5 else "6-20" if len(tags) <= 20 else "21+"))
        ctx.count("tags_%d" % len(set(tags)))
        ctx.count("tags_%s" % ("sorted" if tags == sorted(tags) else "unsorted"))
        for name, _ in q:
            want = ans[pos]
            pos += 1
            ctx.count("query_" + name[0])
            if name[0] == "opt":
                j = max(name[1], 0)
                ctx.count("opt_%s" % ("max" if c["criteria"][j] == "maximize" else "min"))
            try:
                got = impl_query(c, name)
            except Exception as e:   # noqa
                got = "raised %s: %s" % (type(e).__name__, e)
            if canon(name, got) != canon(name, want):
                report_query(ctx, c, name)
                return
    # ---- indicators
    n_sets = 2500 if ctx.quick else 40000
    sets = []
    for k in range(n_sets):
        kind = ["dyadic", "dyadic", "shift", "subset", "random", "integer", "offset"][k % 7]
        sets.append((kind,) + gen_sets(rng, 8 if ctx.quick else 20, kind))
    lines = []
    for kind, ref, comp, d in sets:
        lines += ["c17.eps %s|%s" % (mat(ref, rat), mat(comp, rat)), "c17.gd %s|%s" % (mat(ref, rat), mat(comp, rat))]
    ans = ctx.lean(lines)
    for k, (kind, ref, comp, d) in enumerate(sets):
        m_eps, m_gd = ans[2 * k], ans[2 * k + 1]
        ctx.case(("sets", tuple(map(tuple, ref)), tuple(map(tuple, comp))), len(ref) >= 2 and len(comp) >= 2,
                 sample={"op": "indicators", "kind": kind, "reference": ref, "computed": comp, "shift": d})
        ctx.count("sets_" + kind)
        ctx.count("dim_%d" % len(ref[0]))
        if not (m_eps.startswith("ok ") and m_gd.startswith("ok ")):
            raise RuntimeError("model raised on an in-quantifier point set: %r %r" % (m_eps, m_gd))
        want = unrat(m_eps[3:])
        try:
            got = impl_eps(ref, comp)
        except Exception as e:   # noqa
            comp = shrink_list(comp, lambda xs: raises(impl_eps, ref, xs), min_len=1)
            ref = shrink_list(ref, lambda xs: raises(impl_eps, xs, comp), min_len=1)
            ctx.fail("epsilon-add-raises", "epsilon_add(%r, %r) raises %s: %s" % (ref, comp, type(e).__name__, e),
                     {"op": "eps", "ref": ref, "comp": comp})
            return
        ok = eps_agrees(got, want) and got >= 0
        if kind == "shift":
            ok = ok and Fraction(got) == Fraction(d)
            ctx.count("shift_zero" if d == 0 else "shift_positive")
        if not ok:
            report_sets(ctx, "eps", ref, comp, d)
            return
        sq = [unrat(t) for t in m_gd[3:].split(",")]
        want_gd = sum(math.sqrt(s) for s in sq) / len(comp)
        try:
            got_gd = impl_gd(ref, comp)
        except Exception as e:   # noqa
            ctx.fail("gd-raises", "gd(%r, %r) raises %s: %s" % (ref, comp, type(e).__name__, e), {"op": "gd", "ref": ref, "comp": comp})
            return
        zero_iff = (got_gd == 0.0) == all(s == 0 for s in sq)
        ctx.count("gd_zero" if all(s == 0 for s in sq) else "gd_positive")
        if not (close(got_gd, want_gd) and zero_iff):
            report_sets(ctx, "gd", ref, comp, d)
            return
    # ---- performance_measure on the recorded last population
    pm = []
    for c in cases[:150 if ctx.quick else 1500]:
        tags = [t for t, _, _ in c["inds"]]
        if not tags:
            continue
        last = [k for k, t in enumerate(tags) if t == max([-1] + tags)]
        if len(last) < 2:
            continue
        comp = [c["inds"][k][2] for k in last]
        if any(abs(x) > 1e6 or (x != 0 and abs(x) < 1e-6) for p in comp for x in p):
            continue
        ref = [[rng.choice([float(rng.randint(-3, 3)), rng.uniform(-5, 5)]) for _ in c["criteria"]] for _ in range(rng.randint(1, 4))]
        pm.append((c, ref, comp))
    ans = ctx.lean(["c17.eps %s|%s" % (mat(r, rat), mat(cp, rat)) for _, r, cp in pm])
    for (c, ref, comp), a in zip(pm, ans):
        from artap.results import Results
        p, _ = make_problem(c)
        ctx.case(("pm", tuple(map(tuple, ref)), tuple(map(tuple, comp))), len(ref) >= 2)
        ctx.count("performance_measure")
        try:
            got = float(Results(p).performance_measure(ref))
        except Exception as e:   # noqa
            ctx.fail("epsilon-add-raises", "Results.performance_measure(%r) on last-population costs %r raises %s: %s" % (
                ref, comp, type(e).__name__, e), {"op": "eps", "ref": ref, "comp": comp})
            return
        if not eps_agrees(got, unrat(a[3:])):
            ctx.fail("performance-measure", "Results.performance_measure(%r) = %r, epsilon indicator of the last population's costs %r "
                     "is %s" % (ref, got, comp, float(unrat(a[3:]))), {"op": "pm", "case": c, "ref": ref, "comp": comp})
            return


# --------------------------------------------------------------------------- reports

def query_bad(case, name):
    try:
        return canon(name, impl_query(case, name)) != canon(name, spec_query(case, name))
    except Exception:   # noqa
        return True


def report_query(ctx, case, name):
    def sub(inds):
        c = dict(case)
        c["inds"] = inds
        return c
    inds = case["inds"]
    if query_bad(case, name):
        inds = shrink_list(inds, lambda xs: (len(xs) >= 1 or name[0] != "opt") and query_bad(sub(xs), name), min_len=0)
    c = sub(inds)
    try:
        got = impl_query(c, name)
    except Exception as e:   # noqa
        got = "raised %s: %s" % (type(e).__name__, e)
    want = spec_query(c, name)
    ctx.fail(FAIL_KEY[name[0]], "%s on the recorded individuals (tag, vector, costs) %r with goal criteria %r answers %s (positions / "
             "phi-encoded values); the recorded data give %s" % (describe(name), c["inds"], case["criteria"], got, want),
             {"op": "query", "name": list(name), "case": {k: c[k] for k in ("np", "criteria", "inds")}})


def sets_bad(op, ref, comp, d=None):
    if not ref or not comp:
        return False
    try:
        if op == "eps":
            got = impl_eps(ref, comp)
            return not (eps_agrees(got, spec_eps(ref, comp)) and got >= 0)
        got = impl_gd(ref, comp)
        want = spec_gd(ref, comp)
        return not (close(got, want) and ((got == 0.0) == (want == 0.0)))
    except Exception:   # noqa
        return True


def report_sets(ctx, op, ref, comp, d):
    if d is None and sets_bad(op, ref, comp):
        comp = shrink_list(comp, lambda xs: sets_bad(op, ref, xs), min_len=1)
        ref = shrink_list(ref, lambda xs: sets_bad(op, xs, comp), min_len=1)
    if op == "eps":
        got, want = impl_eps(ref, comp), spec_eps(ref, comp)
        what = "epsilon_add(reference=%r, computed=%r) = %r; max over reference of min over computed of the largest coordinate " \
               "difference (floored at 0) is %s%s" % (ref, comp, got, float(want),
                                                      "" if d is None else " (computed = reference shifted by %r)" % d)
    else:
        got, want = impl_gd(ref, comp), spec_gd(ref, comp)
        what = "gd(reference=%r, computed=%r) = %r; the mean distance of the computed points to their nearest reference point is %r" % (
            ref, comp, got, want)
    ctx.fail("epsilon-add" if op == "eps" else "gd", what, {"op": op, "ref": ref, "comp": comp, "shift": d})


def replay(ctx, rp):
    c = rp["case"]
    op = c.get("op")
    if op == "query":
        case = c["case"]
        case["inds"] = [(t, v, k) for t, v, k in case["inds"]]
        name = tuple(c["name"])
        try:
            got = impl_query(case, name)
        except Exception as e:   # noqa
            got = "raised %s: %s" % (type(e).__name__, e)
        want = spec_query(case, name)
        print("%s\n  implementation: %s\n  recorded data:  %s" % (describe(name), got, want))
        return canon(name, got) == canon(name, want)
    if op in ("eps", "gd"):
        try:
            got = impl_eps(c["ref"], c["comp"]) if op == "eps" else impl_gd(c["ref"], c["comp"])
        except Exception as e:   # noqa
            print("%s raises %s: %s" % (op, type(e).__name__, e))
            return False
        want = spec_eps(c["ref"], c["comp"]) if op == "eps" else spec_gd(c["ref"], c["comp"])
        print("%s: implementation %r, specification %r" % (op, got, float(want)))
        return not sets_bad(op, c["ref"], c["comp"])
    if op == "pm":
        from artap.results import Results
        case = c["case"]
        case["inds"] = [(t, v, k) for t, v, k in case["inds"]]
        p, _ = make_problem(case)
        got = float(Results(p).performance_measure(c["ref"]))
        want = spec_eps(c["ref"], c["comp"])
        print("performance_measure: implementation %r, specification %r" % (got, float(want)))
        return eps_agrees(got, want)
    print("nothing to replay: ", rp.get("what"))
    return False


def search(ctx):
    """The harness could not drive the code: try the indicator entry points on a fixed input."""
    ref, comp = [[0.0, 1.0], [1.0, 0.0]], [[0.5, 1.5], [1.5, 0.5]]
    for op in ("eps", "gd"):
        try:
            (impl_eps if op == "eps" else impl_gd)(ref, comp)
        except Exception as e:   # noqa
            ctx.fail("epsilon-add-raises" if op == "eps" else "gd-raises", "%s(%r, %r) raises %s: %s" % (
                op, ref, comp, type(e).__name__, e), {"op": op, "ref": ref, "comp": comp})
            return True
        if sets_bad(op, ref, comp):
            report_sets(ctx, op, ref, comp, None)
            return True
    return False
