"""C12 — space-filling samplers (LHS, Halton, uniform grid, random generator).

Correspondence (regime R2, exact rationals of the returned doubles):

* Halton  : HaltonGenerator.generate()  ==  Artap.Sampling.buildHalton   (model; proved equal to the radical
            inverse over Nat.digits in the first primes, scaled to the bounds)               -- equality, R2 band
* grid    : UniformGenerator.generate() ==  Artap.Sampling.uniformGrid   (rows compared as a sorted list: the
            property does not fix the order of the grid points)                               -- equality, R2 band
* LHS     : envelope.  The driver evaluates the specification predicate `isLatinDesign` (the one the theorems are
            stated with) on LHSGenerator.generate()'s output; the draws (u, permutations) are then *recovered*
            from the output and `buildLhs` must reproduce it (the model admits the observed behaviour).
* random  : envelope.  RandomGenerator.generate() must return N rows, one coordinate per parameter, in bounds;
            every coordinate must be `genNumber lb ub prec u` for one of the values `random()` returned during
            the call (values, not call order).

Everything random comes from ctx.rng: numpy's RandomState is seeded through a subclass installed for the duration
of a call, `random()` is replaced by a recording stub that draws from ctx.rng (biased towards 0, 1/2, 1-2^-53).
"""
import fractions
import math

from .common import rat, unrat, vec, mat, close, InfraError

F = fractions.Fraction
PRIMES = [2, 3, 5, 7, 11, 13, 17, 19, 23, 29, 31, 37, 41, 43, 47, 53, 59, 61, 67, 71]


# --------------------------------------------------------------------------- implementation adaptors

def make_params(bounds, precisions=None):
    ps = []
    for j, (lb, ub) in enumerate(bounds):
        p = {"name": "x_%d" % (j + 1), "initial_value": (lb + ub) / 2, "bounds": [lb, ub]}
        if precisions is not None and precisions[j] is not None:
            p["precision"] = precisions[j]
        ps.append(p)
    # Parameter declarations are long-lived in real use: problem.parameters is handed to one generator after the
    # other.  In a third of the cases other design-of-experiment generators have already worked on this very list
    # (they must leave the declared box alone); the sampler under test then runs on the same objects.
    if len(ps) >= 1 and (len(ps) + int(abs(bounds[0][0]) * 8)) % 3 == 0:
        import contextlib, io
        try:
            from artap.operators import BoxBehnkenGenerator, PlackettBurmanGenerator, LHSGenerator
            with contextlib.redirect_stdout(io.StringIO()), contextlib.redirect_stderr(io.StringIO()):
                if len(ps) <= 23 and len(ps) % 2 == 0:
                    PlackettBurmanGenerator(ps).generate()
                if 3 <= len(ps) <= 8:
                    BoxBehnkenGenerator(ps).generate()
        except Exception:   # noqa: those generators are C13's business; only their side effects matter here
            pass
    return ps


def to_rows(out):
    """Generator output -> list of lists of python floats (numpy scalars accepted)."""
    rows = []
    for r in out:
        rows.append([float(v) for v in r])
    return rows


def second_use(cls, bounds, n):
    """Every other case uses the generator object a second time: the first design was produced while the parameter
    declarations (the same dict objects) still held another box, its rows were overwritten by the caller, the box was then
    re-declared in place - what counts is the design the second generate() returns (the requested number of designs for the
    box as declared now)."""
    mode = (len(bounds) + n) % 3
    if mode == 0:
        g = cls(parameters=make_params(bounds))
        g.init(n)
        return g.generate()
    if mode == 2:      # the same box both times; the caller overwrote the rows of the first design
        g = cls(parameters=make_params(bounds))
        g.init(n)
        first = g.generate()
        for r in first:
            if isinstance(r, list):
                for j in range(len(r)):
                    r[j] = -98765.4321
        return g.generate()
    other = [(float(lb) - 1.5, float(ub) + 2.25) for lb, ub in bounds]
    ps = make_params(other)
    g = cls(parameters=ps)
    g.init(n)
    first = g.generate()
    for r in first:
        if isinstance(r, list):
            for j in range(len(r)):
                r[j] = -98765.4321
    for q, p_now in zip(ps, make_params(bounds)):
        q["bounds"] = list(p_now["bounds"])
        if "initial_value" in p_now:
            q["initial_value"] = p_now["initial_value"]
    return g.generate()


def impl_halton(bounds, n):
    from artap.operators import HaltonGenerator
    return to_rows(second_use(HaltonGenerator, bounds, n))


def impl_grid(bounds, k):
    from artap.operators import UniformGenerator
    return to_rows(second_use(UniformGenerator, bounds, k))


def impl_lhs(bounds, n, seed):
    """LHSGenerator with numpy's legacy RandomState seeded from `seed` (doe.lhs creates an unseeded
    `np.random.RandomState()`; a subclass that supplies the seed keeps the run reproducible)."""
    import numpy as np
    from artap.operators import LHSGenerator
    orig = np.random.RandomState
    counter = [0]

    class Seeded(orig):
        def __init__(self, s=None, *a, **kw):
            if s is None:
                s = (seed + 7919 * counter[0]) % (2 ** 32)
                counter[0] += 1
            super().__init__(s, *a, **kw)
    np.random.RandomState = Seeded
    state = np.random.get_state()
    np.random.seed(seed % (2 ** 32))
    try:
        return to_rows(second_use(LHSGenerator, bounds, n))
    finally:
        np.random.RandomState = orig
        np.random.set_state(state)


def draw_stream(seed):
    """Deterministic stream of `random()` values in [0,1) with the interesting values over-represented."""
    import random as _r
    r = _r.Random(seed)
    top = 1.0 - 2.0 ** -53

    def draw():
        m = r.random()
        if m < 0.08:
            return 0.0
        if m < 0.16:
            return top
        if m < 0.22:
            return 0.5
        if m < 0.26:
            return 5e-324
        if m < 0.32:
            return r.choice([0.125, 0.375, 0.625, 0.875, 0.25, 0.75])   # exact ties of round() for precisions 2^-k
        return r.random()
    return draw


def impl_random(bounds, precisions, n, seed):
    """RandomGenerator.generate() with `random()` replaced by a recording stub; returns (rows, draws)."""
    import random as _random
    import artap.utils as U
    from artap.operators import RandomGenerator
    draw = draw_stream(seed)
    draws = []

    def fake():
        u = draw()
        draws.append(u)
        return u
    saved_u = getattr(U, "random", None)
    saved_r = _random.random
    if callable(saved_u) and not isinstance(saved_u, type(_random)):
        U.random = fake
    _random.random = fake
    st = _random.getstate()
    _random.seed(seed)
    try:
        if (len(bounds) + n) % 2:
            g = RandomGenerator(parameters=make_params(bounds, precisions))
            g.init(n)
            out = g.generate()
        else:
            # the generator object is asked a second time (an algorithm that is run twice): each call returns the requested
            # number of designs
            g = RandomGenerator(parameters=make_params(bounds, precisions))
            g.init(n)
            first = g.generate()
            for r in first:
                if isinstance(r, list):
                    for j in range(len(r)):
                        r[j] = -98765.4321
            del draws[:]
            out = g.generate()
        rows = [[float(v) for v in r] for r in out]
    finally:
        if saved_u is not None:
            U.random = saved_u
        _random.random = saved_r
        _random.setstate(st)
    return rows, draws


def guarded(ctx, gen, what, case, fn):
    """Run the implementation on an input of the quantifier.  An exception raised by the generator itself is a
    failing input (no design is returned); ImportError/AttributeError/TypeError mean the entry point changed and
    are left to the caller (correspondence broken -> search)."""
    try:
        return fn()
    except (ImportError, AttributeError, TypeError):
        raise
    except Exception as e:  # noqa: BLE001
        what, case, e = shrink_raise(gen, what, case, e)
        ctx.fail(gen + "-raises", "%s raises %s: %s (the property demands a design for every such input)" % (what, type(e).__name__, e),
                 dict(case, raises=type(e).__name__))
        return None


def call_case(c):
    b = [tuple(x) for x in c["bounds"]]
    if c["op"] == "halton":
        return impl_halton(b, c["N"])
    if c["op"] == "grid":
        return impl_grid(b, c["k"])
    if c["op"] == "lhs":
        return impl_lhs(b, c["N"], c["np_seed"])
    return impl_random(b, c["precisions"], c["N"], c["draw_seed"])


def shrink_raise(gen, what, case, e):
    """Smaller input on which the generator still raises (unit box, one parameter, few samples)."""
    size = "k" if case["op"] == "grid" else "N"
    for nb in ([[0.0, 1.0]], case["bounds"][:1], case["bounds"][:2]):
        for n in (2, 3, 4, case[size]):
            c = dict(case, bounds=nb)
            c[size] = n
            if "precisions" in c:
                c["precisions"] = c["precisions"][:len(nb)]
            try:
                call_case(c)
            except Exception as e2:  # noqa: BLE001
                return "%s with number=%d, bounds %r" % (what.split(" ")[0], n, nb), c, e2
    return what, case, e


# --------------------------------------------------------------------------- python mirrors of the specs (replay / shrink only)

def radical_inverse(b, i):
    """sum_k digit_k(i) / b^(k+1)  (exact)."""
    s, k = F(0), 1
    while i > 0:
        i, d = divmod(i, b)
        s += F(d, b ** k)
        k += 1
    return s


def first_primes(d):
    ps, c = [], 2
    while len(ps) < d:
        if all(c % p for p in ps if p * p <= c):
            ps.append(c)
        c += 1
    return ps


def spec_halton_point(bounds, i, j, prime):
    lb, ub = F(bounds[j][0]), F(bounds[j][1])
    return lb + radical_inverse(prime, i) * abs(ub - lb)


def spec_levels(lb, ub, k):
    lb, ub = F(lb), F(ub)
    return [lb + i * (ub - lb) / (k - 1) for i in range(k)]


def tol(*xs):
    return 1e-12 + 1e-9 * max(abs(float(x)) for x in xs)


def strata_options(n, lb, ub, x):
    """Stratum of x, plus the neighbouring stratum when x is within the R2 band of a stratum boundary."""
    lbf, ubf = F(lb), F(ub)
    t = n * (F(x) - lbf) / (ubf - lbf)
    s = math.floor(t)
    opts = [s]
    t_ = tol(lb, ub, x)
    lo = lbf + s * (ubf - lbf) / n
    hi = lbf + (s + 1) * (ubf - lbf) / n
    if float(F(x) - lo) <= t_:
        opts.append(s - 1)
    if float(hi - F(x)) <= t_:
        opts.append(s + 1)
    return opts


def latin_py(n, bounds, rows):
    """(ok, message).  Python mirror of isLatinDesign with the boundary band; used for replay/shrink and to decide
    whether a `spec 0` from the driver is explained by points on a stratum boundary."""
    if len(rows) != n:
        return False, "%d rows returned, %d requested" % (len(rows), n)
    for r in rows:
        if len(r) != len(bounds):
            return False, "row with %d coordinates for %d parameters" % (len(r), len(bounds))
    for j, (lb, ub) in enumerate(bounds):
        opts = [strata_options(n, lb, ub, r[j]) for r in rows]
        # bipartite matching sample -> stratum (only boundary points have a choice)
        fixed = {}
        amb = []
        for i, o in enumerate(opts):
            if len(o) == 1:
                if o[0] in fixed:
                    return False, ("parameter %d: samples %d and %d (values %r, %r) both lie in stratum %d of %d over [%r, %r]"
                                   % (j, fixed[o[0]], i, rows[fixed[o[0]]][j], rows[i][j], o[0], n, lb, ub))
                fixed[o[0]] = i
            else:
                amb.append(i)
        for s in fixed:
            if not 0 <= s < n:
                return False, "parameter %d: value %r is outside [%r, %r) (stratum %d of %d)" % (j, rows[fixed[s]][j], lb, ub, s, n)

        def place(k, used):
            if k == len(amb):
                return True
            for s in opts[amb[k]]:
                if 0 <= s < n and s not in used:
                    if place(k + 1, used | {s}):
                        return True
            return False
        if len(amb) > 12 or not place(0, frozenset(fixed)):
            return False, "parameter %d: no assignment of the samples to the %d strata of [%r, %r] uses every stratum once" % (j, n, lb, ub)
    return True, ""


# --------------------------------------------------------------------------- generators of cases

def gen_bound(rng):
    m = rng.random()
    if m < 0.12:
        return (0.0, 1.0)
    if m < 0.27:
        a = rng.randint(-20, 20)
        return (a, a + rng.randint(1, 30))                     # python ints
    if m < 0.55:
        a = rng.uniform(-100, 100)
        return (a, a + rng.uniform(1e-3, 200))
    if m < 0.67:
        b = -rng.uniform(0.1, 50)
        return (b - rng.uniform(0.5, 50), b)                   # negative box
    if m < 0.77:
        w = rng.uniform(1e-9, 1e-6)
        return (-w * rng.random(), w)                          # tiny box around zero
    if m < 0.87:
        c = rng.uniform(-1000, 1000)
        return (c, c + abs(c) * rng.uniform(1e-5, 1e-3) + 1e-7)   # tiny range far from zero
    if m < 0.94:
        s = 10.0 ** rng.randint(6, 60)
        return (-s * rng.random(), s * rng.uniform(0.1, 1))    # huge
    return (-2.5, 5) if rng.random() < 0.5 else (1, 3.4)        # the test-suite's mixed int/float bounds


def gen_bounds(rng, n):
    if rng.random() < 0.12:
        # every bound of every parameter a Python int (boxes as users write them): the samples are still real numbers
        out = []
        for _ in range(n):
            lb = rng.randint(-20, 20)
            out.append((lb, lb + rng.randint(1, 13)))
        return out
    return [gen_bound(rng) for _ in range(n)]


def bounds_arg(bounds):
    return mat(bounds, rat)


def key_bounds(bounds):
    return tuple((float(a), float(b)) for a, b in bounds)


# --------------------------------------------------------------------------- streams

def stream_halton(ctx):
    rng = ctx.rng
    cases = []
    n_cases = 60 if ctx.quick else 300
    for c in range(n_cases):
        m = rng.random()
        if m < 0.6:
            d = rng.randint(1, 12)
        elif m < 0.75:
            d = rng.randint(1, 4)          # first sieve round (primes below 10)
        elif m < 0.9:
            d = rng.randint(5, 30)         # second round (primes below 1010)
        else:
            d = rng.randint(13, 40) if ctx.quick else rng.randint(30, 200)   # > 169 needs the third round
        nmax = 200 if ctx.quick else (5000 if d <= 3 else 600)
        n = rng.randint(1, nmax) if rng.random() < 0.7 else rng.randint(1, 12)
        if d > 40:
            n = min(n, 60)
        cases.append((gen_bounds(rng, d), n))
    # indices at and around powers of the bases (a digit-count shortcut is wrong exactly there)
    cases.append((gen_bounds(rng, 3), rng.randint(735, 760)))      # 2^9, 3^5, 3^6, 5^4
    cases.append((gen_bounds(rng, 7), rng.randint(345, 360)))      # 7^3, 11^2, 13^2, 17^2
    cases.append((gen_bounds(rng, 169), 2))             # exactly the 169 primes below 1010 (end of the second sieve round)
    cases.append((gen_bounds(rng, 175), 2))             # 175 > 169 primes: third sieve round (primes below 2010)
    if not ctx.quick:
        cases.append(([(0.0, 1.0)] * 3, 5000))
    cases.append(([(-2.5, 5), (1, 3.4), (6, 10)], 3))   # the test-suite instance
    outs = []
    for b, n in cases:
        o = guarded(ctx, "halton", "HaltonGenerator with number=%d, bounds %r" % (n, b), {"op": "halton", "N": n, "bounds": [list(x) for x in b]},
                    lambda: impl_halton(b, n))
        if o is None:
            return False
        outs.append(o)
    model = ctx.lean(["c12.halton %d|%s" % (n, bounds_arg(b)) for b, n in cases])
    for (b, n), out, mo in zip(cases, outs, model):
        ctx.case(("halton", n, key_bounds(b)), nontrivial=(n >= 2),
                 sample={"op": "halton", "N": n, "bounds": [list(x) for x in b[:4]], "first_rows": out[:2]})
        ctx.count("halton_dim_%s" % ("1-4" if len(b) <= 4 else "5-12" if len(b) <= 12 else "13-169" if len(b) <= 169 else "170+"))
        ctx.count("halton_N_%s" % ("1-12" if n <= 12 else "13-200" if n <= 200 else "201+"))
        bad = compare_rows(out, mo, n, len(b), ordered=True)
        if bad is not None:
            report_halton(ctx, b, n, out, bad)
            return False
    return True


def parse_model(mo):
    if mo in ("raise", "empty"):
        return mo
    return [[unrat(t) for t in r.split(",")] for r in mo.split(";")]


def compare_rows(out, mo, nrows, ncols, ordered):
    """None when equal within the R2 band, else (kind, i, j, impl, model)."""
    m = parse_model(mo)
    if m == "raise":
        return ("model-raises", None, None, None, None)
    if m == "empty":
        m = []
    if len(out) != nrows:
        return ("count", None, None, len(out), nrows)
    for i, r in enumerate(out):
        if len(r) != ncols:
            return ("dim", i, None, len(r), ncols)
    if len(m) != len(out):
        return ("count", None, None, len(out), len(m))
    if not ordered:
        out = sorted(out)
        m = sorted(m)
    for i, (ro, rm) in enumerate(zip(out, m)):
        for j, (a, e) in enumerate(zip(ro, rm)):
            if not close(a, float(e)):
                return ("value", i, j, a, float(e))
    return None


def report_halton(ctx, b, n, out, bad):
    kind, i, j, a, e = bad
    if kind == "value":
        # shrink: the (i+1)-th point only needs N = i+1 and the first j+1 parameters
        nb, nn = list(b[:j + 1]), i + 1
        try:
            o2 = impl_halton(nb, nn)
            p = first_primes(j + 1)[j]
            want = spec_halton_point(nb, i + 1, j, p)
            if len(o2) == nn and not close(o2[i][j], float(want)):
                b, n, a, e = nb, nn, o2[i][j], float(want)
        except Exception:
            pass
        p = first_primes(j + 1)[j]
        what = ("HaltonGenerator: point %d (1-based), parameter %d with bounds %r: returned %r, the property demands "
                "lb + radical_inverse_%d(%d)*(ub-lb) = %r" % (i + 1, j, list(b[j]), a, p, i + 1, e))
        ctx.fail("halton-point", what, {"op": "halton", "N": n, "bounds": [list(x) for x in b], "i": i, "j": j, "impl": a, "spec": e})
    elif kind == "count":
        ctx.fail("halton-count", "HaltonGenerator with number=%d returned %s designs" % (n, a),
                 {"op": "halton", "N": n, "bounds": [list(x) for x in b]})
    elif kind == "dim":
        ctx.fail("halton-dim", "HaltonGenerator: design %d has %s coordinates for %d parameters" % (i, a, e),
                 {"op": "halton", "N": n, "bounds": [list(x) for x in b]})
    else:
        raise InfraError("halton model raised on an input of the quantifier: N=%d bounds=%r" % (n, b))


def stream_vdc(ctx):
    """doe._van_der_corput directly, at and around large powers of the base (Halton designs that long would be
    expensive): element i of the sequence must be the radical inverse of i (theorem vdc_eq_radicalInverse)."""
    from artap import doe
    from .common import unrat, close
    reqs, got = [], []
    for base in (2, 3, 5, 7, 11, 13, 17, 19, 23):
        k = 1
        while base ** (k + 1) <= (70000 if ctx.quick else 600000):
            k += 1
        top = base ** k + 2
        try:
            seq = doe._van_der_corput(top, base)
        except Exception as e:   # noqa
            ctx.fail("vdc-raises", "_van_der_corput(%d, %d) raised %s: %s" % (top, base, type(e).__name__, e),
                     {"op": "vdc", "base": base, "n": top})
            return False
        if len(seq) != top:
            ctx.fail("vdc-count", "_van_der_corput(%d, %d) returned %d elements" % (top, base, len(seq)), {"op": "vdc", "base": base, "n": top})
            return False
        idx = sorted({i for j in range(1, k + 1) for i in (base ** j - 1, base ** j, base ** j + 1) if 0 <= i < top} |
                     {ctx.rng.randrange(top) for _ in range(6)})
        for i in idx:
            reqs.append((base, i))
            got.append(float(seq[i]))
    ans = ctx.lean(["c12.vdc %d|%d" % (b, i) for b, i in reqs])
    for (b, i), a, m in zip(reqs, got, ans):
        ctx.case(("vdc", b, i), nontrivial=(i >= b), sample={"op": "vdc", "base": b, "i": i, "value": a})
        ctx.count("vdc_direct")
        want = float(unrat(m)) if m != "raise" else None
        if want is None or not close(a, want):
            ctx.fail("halton-point", "_van_der_corput: element %d in base %d is %r, the radical inverse of %d (model, vdc_eq_radicalInverse) is %r" % (i, b, a, i, want),
                     {"op": "vdc", "base": b, "i": i, "impl": a, "spec": want})
            return False
    return True


def stream_grid(ctx):
    rng = ctx.rng
    cases = []
    n_cases = 120 if ctx.quick else 600
    cap = 5000 if ctx.quick else 12000
    for c in range(n_cases):
        d = rng.randint(1, 5) if rng.random() < 0.85 else rng.randint(5, 8)
        kmax = max(2, int(cap ** (1.0 / d)))
        k = rng.randint(2, min(kmax, 40 if d > 1 else (200 if ctx.quick else 3000)))
        if rng.random() < 0.25:
            k = rng.randint(2, min(3, kmax))
        cases.append((gen_bounds(rng, d), k))
    cases.append(([(-2.5, 5), (1, 3.4), (6, 10)], 4))   # the test-suite instance
    cases.append(([(0, 1)], 2))
    if not ctx.quick:
        cases += [(gen_bounds(rng, 2), 240), (gen_bounds(rng, 3), 38), (gen_bounds(rng, 5), 9), (gen_bounds(rng, 12), 2),
                  (gen_bounds(rng, 1), 3000)]
    outs = []
    for b, k in cases:
        o = guarded(ctx, "grid", "UniformGenerator with number=%d, bounds %r" % (k, b), {"op": "grid", "k": k, "bounds": [list(x) for x in b]},
                    lambda: impl_grid(b, k))
        if o is None:
            return False
        outs.append(o)
    model = ctx.lean(["c12.grid %d|%s" % (k, bounds_arg(b)) for b, k in cases])
    for (b, k), out, mo in zip(cases, outs, model):
        ctx.case(("grid", k, key_bounds(b)), nontrivial=(len(b) >= 2 or k >= 3),
                 sample={"op": "grid", "k": k, "bounds": [list(x) for x in b], "rows": len(out), "first_rows": out[:3]})
        ctx.count("grid_dim_%d" % min(len(b), 6))
        ctx.count("grid_k_%s" % ("2" if k == 2 else "3-9" if k <= 9 else "10+"))
        bad = compare_rows(out, mo, k ** len(b), len(b), ordered=False)
        if bad is not None:
            report_grid(ctx, b, k, out)
            return False
    return True


def grid_py(bounds, k, out):
    """(ok, message): the implementation's output against the property (python mirror, exact levels)."""
    if len(out) != k ** len(bounds):
        return False, "%d grid points returned, k^n = %d" % (len(out), k ** len(bounds))
    for r in out:
        if len(r) != len(bounds):
            return False, "grid point with %d coordinates for %d parameters" % (len(r), len(bounds))
    levels = [spec_levels(lb, ub, k) for lb, ub in bounds]
    import itertools
    want = sorted(itertools.product(*levels))
    got = sorted(tuple(r) for r in out)
    for i, (g, w) in enumerate(zip(got, want)):
        for j, (a, e) in enumerate(zip(g, w)):
            if not close(a, float(e)):
                return False, ("sorted grid point %d, parameter %d with bounds %r: returned %r, the full grid of %d equally "
                               "spaced levels has %r there (levels %r)" % (i, j, list(bounds[j]), a, k, float(e),
                                                                           [float(x) for x in levels[j]][:8]))
    return True, ""


def report_grid(ctx, b, k, out):
    ok, msg = grid_py(b, k, out)
    # shrink to one parameter when a single parameter already shows it
    for j in range(len(b)):
        try:
            o1 = impl_grid([b[j]], k)
            ok1, msg1 = grid_py([b[j]], k, o1)
        except Exception:
            continue
        if not ok1:
            b, msg, ok = [b[j]], msg1, ok1
            break
    if ok:
        msg = "grid differs from the model's grid (python mirror agrees with the code: harness/model problem?)"
        raise InfraError(msg + " k=%d bounds=%r" % (k, b))
    ctx.fail("grid-levels", "UniformGenerator with number=%d: %s" % (k, msg),
             {"op": "grid", "k": k, "bounds": [list(x) for x in b]})


def recover_draws(n, bounds, rows):
    """lhs_complete's construction: perms[j][i] = stratum of rows[i][j]; u[s][j] = N*w - s (exact rationals)."""
    d = len(bounds)
    perms = [[0] * n for _ in range(d)]
    u = [[F(0)] * d for _ in range(n)]
    for j, (lb, ub) in enumerate(bounds):
        lbf, ubf = F(lb), F(ub)
        for i in range(n):
            t = n * (F(rows[i][j]) - lbf) / (ubf - lbf)
            s = math.floor(t)
            perms[j][i] = s
            if 0 <= s < n:
                u[s][j] = t - s
    return u, perms


def stream_lhs(ctx):
    rng = ctx.rng
    cases = []
    n_cases = 70 if ctx.quick else 600
    for c in range(n_cases):
        d = rng.randint(1, 8) if rng.random() < 0.8 else rng.randint(8, 20)
        m = rng.random()
        if m < 0.3:
            n = rng.randint(1, 6)
        elif m < 0.9:
            n = rng.randint(2, 60 if ctx.quick else 300)
        else:
            n = rng.randint(60, 200) if ctx.quick else rng.randint(300, 800)
        if n > 300:
            d = min(d, 3)
        cases.append((gen_bounds(rng, d), n, rng.getrandbits(31)))
    cases.append(([(-2.5, 5), (1, 3.4), (6, 10)], 3, 42))
    for n in (49, 98, 103, 107, 161, 187):      # sample counts N whose reciprocal is inexact: 1/(1/N) != N in doubles
        cases.append((gen_bounds(rng, rng.randint(1, 3)), n, rng.getrandbits(31)))
    outs = []
    for b, n, s in cases:
        o = guarded(ctx, "lhs", "LHSGenerator with number=%d, bounds %r" % (n, b), {"op": "lhs", "N": n, "bounds": [list(x) for x in b], "np_seed": s},
                    lambda: impl_lhs(b, n, s))
        if o is None:
            return False
        outs.append(o)
    ans = ctx.lean(["c12.latin %d|%s|%s" % (n, bounds_arg(b), mat(o, rat)) for (b, n, s), o in zip(cases, outs)])
    admit_req, admit_idx = [], []
    for idx, ((b, n, s), out, a) in enumerate(zip(cases, outs, ans)):
        ctx.case(("lhs", n, key_bounds(b), s), nontrivial=(n >= 2),
                 sample={"op": "lhs", "N": n, "bounds": [list(x) for x in b[:4]], "np_seed": s, "first_rows": out[:2]})
        ctx.count("lhs_N_%s" % ("1" if n == 1 else "2-10" if n <= 10 else "11-100" if n <= 100 else "101+"))
        ctx.count("lhs_dim_%s" % ("1-3" if len(b) <= 3 else "4-8" if len(b) <= 8 else "9+"))
        verdict = a.split(" ")[1]
        if verdict != "1":
            ok, msg = latin_py(n, b, out)       # boundary band: a point within the R2 band of a stratum boundary counts for either side
            if ok:
                ctx.count("lhs_boundary_band_used")
            else:
                report_lhs(ctx, b, n, s, msg)
                return False
        else:
            ctx.count("lhs_spec_true")
            u, perms = recover_draws(n, b, out)
            admit_req.append("c12.lhs %d|%s|%s|%s" % (n, bounds_arg(b), mat(u, lambda q: "%d/%d" % (q.numerator, q.denominator)), mat(perms)))
            admit_idx.append(idx)
    # admits-check: the model, run on the recovered draws, reproduces the observed design
    for idx, mo in zip(admit_idx, ctx.lean(admit_req)):
        b, n, s = cases[idx]
        bad = compare_rows(outs[idx], mo, n, len(b), ordered=True)
        ctx.count("lhs_admitted" if bad is None else "lhs_not_admitted")
        if bad is not None:
            raise InfraError("buildLhs on the recovered draws does not reproduce a Latin design (lhs_complete says it must): %r N=%d bounds=%r seed=%d" % (bad, n, b, s))
    return True


def report_lhs(ctx, b, n, s, msg):
    # shrink: fewer parameters / fewer samples with the same numpy seed
    best = (b, n, msg)
    for nn in sorted(set([2, 3, 4, 5, 8, n])):
        if nn > n:
            continue
        for bb in ([b[0]], b[:2], b):
            try:
                o = impl_lhs(list(bb), nn, s)
                ok, m2 = latin_py(nn, list(bb), o)
            except Exception:
                continue
            if not ok:
                best = (list(bb), nn, m2)
                break
        if best[1] != n or best[0] != b:
            break
    b, n, msg = best
    ctx.fail("lhs-not-latin", "LHSGenerator with number=%d, numpy seed %d: %s" % (n, s, msg),
             {"op": "lhs", "N": n, "bounds": [list(x) for x in b], "np_seed": s})


PRECS = [None, None, None, None, None, None, 0.5, 0.25, 0.125, 1, 2, 0]


def gen_random_case(rng, quick):
    d = rng.randint(1, 8)
    n = rng.randint(1, 40 if quick else 100)
    bounds, precs = [], []
    for _ in range(d):
        p = rng.choice(PRECS)
        if p:
            a = rng.randint(-40, 40)
            lb, ub = a * p, (a + rng.randint(1, 40)) * p      # bounds on the precision grid (exact in binary)
        else:
            lb, ub = gen_bound(rng)
        bounds.append((lb, ub))
        precs.append(p)
    return bounds, precs, n, rng.getrandbits(31)


def eff_prec(p):
    return 1e-12 if not p else p


def random_py(bounds, n, rows):
    if len(rows) != n:
        return False, "%d designs returned, %d requested" % (len(rows), n)
    for i, r in enumerate(rows):
        if len(r) != len(bounds):
            return False, "design %d has %d coordinates for %d parameters" % (i, len(r), len(bounds))
        for j, (lb, ub) in enumerate(bounds):
            t = tol(lb, ub)
            if not (lb - t <= r[j] <= ub + t) or r[j] != r[j]:
                return False, "design %d, parameter %d: %r is outside the bounds [%r, %r]" % (i, j, r[j], lb, ub)
    return True, ""


def shrink_random(b, pr, n, s, msg):
    """One parameter / few designs with the same draw seed, if that still violates the property."""
    for j in range(len(b)):
        for nn in (1, 2, 3, n):
            try:
                rows, _ = impl_random([b[j]], [pr[j]], nn, s)
            except Exception:  # noqa: BLE001
                continue
            ok, m2 = random_py([b[j]], nn, rows)
            if not ok:
                return [b[j]], [pr[j]], nn, m2
    return b, pr, n, msg


def stream_random(ctx):
    rng = ctx.rng
    n_cases = 150 if ctx.quick else 1000
    cases = [gen_random_case(rng, ctx.quick) for _ in range(n_cases)]
    cases.append(([(-2.5, 5), (1, 3.4), (6, 10)], [None, None, None], 3, 7))
    reqs, where = [], []
    outs = []
    for ci, (b, pr, n, s) in enumerate(cases):
        o = guarded(ctx, "random", "RandomGenerator with number=%d, parameters %r" % (n, make_params(b, pr)),
                    {"op": "random", "N": n, "bounds": [list(x) for x in b], "precisions": pr, "draw_seed": s}, lambda: impl_random(b, pr, n, s))
        if o is None:
            return False
        rows, draws = o
        outs.append((rows, draws))
        ctx.case(("random", n, key_bounds(b), tuple(pr), s), nontrivial=True,
                 sample={"op": "random", "N": n, "bounds": [list(x) for x in b[:4]], "precisions": pr[:4], "draw_seed": s, "first_rows": rows[:2]})
        ctx.count("random_dim_%s" % ("1-3" if len(b) <= 3 else "4-8"))
        ctx.count("random_draws_recorded" if draws else "random_draws_not_recorded")
        for u in draws:
            if u == 0.0 or u == 1.0 - 2.0 ** -53:
                ctx.count("random_extreme_draws")
        ok, msg = random_py(b, n, rows)
        if not ok:
            b, pr, n, msg = shrink_random(b, pr, n, s, msg)
            ctx.fail("random-" + ("count" if "requested" in msg else "dim" if "coordinates" in msg else "bounds"),
                     "RandomGenerator with number=%d, parameters %r: %s" % (n, make_params(b, pr), msg),
                     {"op": "random", "N": n, "bounds": [list(x) for x in b], "precisions": pr, "draw_seed": s})
            return False
        if draws:
            us = sorted(set(draws))
            for j, (lb, ub) in enumerate(b):
                reqs.append("c12.gen %s,%s,%s|%s" % (rat(lb), rat(ub), rat(eff_prec(pr[j])), vec(us, rat)))
                where.append((ci, j))
    # envelope: every coordinate is genNumber(lb, ub, prec, u) for one of the recorded draws - or, where the implementation
    # draws in another way, for the draw derived from the value itself (the theorems hold for every draw in [0,1))
    import bisect
    ans = ctx.lean(reqs)
    unexplained = []
    for (ci, j), a in zip(where, ans):
        b, pr, n, s = cases[ci]
        rows, draws = outs[ci]
        cand = sorted(float(unrat(t)) for t in a.split(","))
        for i, r in enumerate(rows):
            x = r[j]
            k = bisect.bisect_left(cand, x)
            if not any(0 <= q < len(cand) and close(x, cand[q]) for q in (k - 1, k, k + 1)):
                unexplained.append((ci, j, i, x))
        ctx.count("random_columns_checked")
    if unexplained:
        unexplained = unexplained[:2000]
        reqs2 = []
        for ci, j, i, x in unexplained:
            lb, ub = cases[ci][0][j]
            w = float(ub) - float(lb)
            u2 = min(max((x - float(lb)) / w, 0.0), 1.0 - 2.0 ** -53) if w > 0 else 0.0
            reqs2.append("c12.gen %s,%s,%s|%s" % (rat(lb), rat(ub), rat(eff_prec(cases[ci][1][j])), vec([u2], rat)))
        ans2 = ctx.lean(reqs2)
        for (ci, j, i, x), a in zip(unexplained, ans2):
            b, pr, n, s = cases[ci]
            v = float(unrat(a.split(",")[0]))
            half = eff_prec(pr[j]) / 2.0
            if close(x, v) or abs(x - v) <= half * (1 + 1e-9):
                ctx.count("random_values_explained_by_a_draw_derived_from_the_value")
                continue
            ctx.count("random_not_admitted")
            found = search_random(ctx)
            if not found:
                ctx.fail("random-not-admitted",
                         "RandomGenerator: design %d, parameter %d = %r is not round((u*(ub-lb)+lb)/prec)*prec for any value u returned "
                         "by random() during the call nor for the draw derived from the value (bounds %r, precision %r); the model of gen_number no "
                         "longer describes the code, and no out-of-bounds design was found" % (i, j, x, list(b[j]), eff_prec(pr[j])),
                         {"op": "random", "N": n, "bounds": [list(x) for x in b], "precisions": pr, "draw_seed": s,
                          "broken": "correspondence genNumber <-> VectorAndNumbers.gen_number"}, no_input=True)
            return False
    return True


def search_random(ctx):
    """Targeted search for an out-of-bounds / wrong-count design (draws biased to 0 and 1-2^-53)."""
    import random as _r
    rng = _r.Random(ctx.seed + 99)
    for t in range(300):
        b, pr, n, s = gen_random_case(rng, True)
        try:
            rows, _ = impl_random(b, pr, n, s)
        except Exception:
            continue
        ok, msg = random_py(b, n, rows)
        if not ok:
            ctx.fail("random-bounds", "RandomGenerator with number=%d, parameters %r: %s" % (n, make_params(b, pr), msg),
                     {"op": "random", "N": n, "bounds": [list(x) for x in b], "precisions": pr, "draw_seed": s})
            return True
    return False


def run(ctx):
    ctx.rule = ("cases = (generator, bounds, N or k, seed); bounds from: unit box, python ints, random floats, negative boxes, "
                "tiny boxes around zero and far from zero, huge boxes, the test-suite's boxes; Halton dims 1-40 and 175 (thorough -200, "
                "crossing the 4 and 169 prime sieve rounds), N up to 200 (thorough 5000); grid k>=2 with k^n capped; LHS N 1-200 "
                "(thorough 800) with numpy seeds from the run seed; random generator with recorded random() values biased to "
                "0, 1/2, 1-2^-53 and exact rounding ties.  non-trivial = at least two samples (Halton, LHS), at least two "
                "parameters or three levels (grid); distinct = distinct (generator, size, bounds, seed)")
    ctx.assumptions += [
        "bounds are finite with lb < ub (a parameter with lb >= ub has no strata/levels 'from the lower to the upper bound'); parameter names are distinct (LHS/Halton pass a dict keyed by name)",
        "real-valued parameters; a 'precision' key is only used with bounds that are multiples of it (otherwise gen_number rounds up to prec/2 out of the box, theorem genNumber_bounds; observed on the unchanged code: bounds [0, 0.9], precision 0.25 -> 1.0)",
        "random generator: 'in bounds' is judged with the band 1e-12 + 1e-9*max|bound| (DESIGN C08's tau); the default precision 1e-12 lets gen_number leave the box by up to 5e-13, which is visible only for boxes narrower than about 1e-12 (bounds [0, 0.7e-12] -> 1e-12); such boxes are not generated",
        "IEEE rounding stays within the R2 band (1e-9 relative + 1e-12 absolute): a sample within that band of a stratum boundary counts for either stratum; out-of-bounds is judged with the same band",
        "_primes_from_2_to (numpy wheel sieve) is modelled by its contract 'primes below n, increasing'; agreement on the first 200 primes is tested through the Halton designs",
        "numpy RandomState.rand returns values in [0,1) and RandomState.permutation(range(N)) a permutation (inputs of lhs_latin)",
    ]
    for name, f in (("halton", stream_halton), ("vdc", stream_vdc), ("grid", stream_grid), ("lhs", stream_lhs), ("random", stream_random)):
        f(ctx)


# --------------------------------------------------------------------------- replay / search

def replay(ctx, rp):
    c = rp["case"]
    op = c.get("op")
    b = [tuple(x) for x in c.get("bounds", [])]
    try:
        return replay_case(c, op, b, rp)
    except Exception as e:  # noqa: BLE001
        print("the generator raises %s: %s -- the property demands a design for this input" % (type(e).__name__, e))
        return False


def replay_case(c, op, b, rp):
    if op == "halton":
        out = impl_halton(b, c["N"])
        ok = len(out) == c["N"] and all(len(r) == len(b) for r in out)
        print("HaltonGenerator number=%d, %d parameters: %d rows returned" % (c["N"], len(b), len(out)))
        ps = first_primes(len(b))
        if ok:
            for i, r in enumerate(out):
                for j, a in enumerate(r):
                    e = float(spec_halton_point(b, i + 1, j, ps[j]))
                    if not close(a, e):
                        print("point %d (1-based) parameter %d (base %d, bounds %r): code %r, property demands %r" % (i + 1, j, ps[j], list(b[j]), a, e))
                        return False
        print("all points equal the scaled radical inverses" if ok else "wrong shape")
        return ok
    if op == "grid":
        out = impl_grid(b, c["k"])
        ok, msg = grid_py(b, c["k"], out)
        print("UniformGenerator number=%d bounds=%r: %s" % (c["k"], b, "full grid of equally spaced levels" if ok else msg))
        return ok
    if op == "lhs":
        out = impl_lhs(b, c["N"], c["np_seed"])
        ok, msg = latin_py(c["N"], b, out)
        print("LHSGenerator number=%d bounds=%r numpy seed %d: %s" % (c["N"], b, c["np_seed"], "one sample per stratum in every parameter" if ok else msg))
        if not ok:
            print("design:", out[:10])
        return ok
    if op == "random":
        rows, draws = impl_random(b, c["precisions"], c["N"], c["draw_seed"])
        ok, msg = random_py(b, c["N"], rows)
        print("RandomGenerator number=%d bounds=%r: %s" % (c["N"], b, "N in-bounds designs" if ok else msg))
        if ok and c.get("broken"):
            print("(the recorded case was a broken model correspondence, not a property failure: %s)" % c["broken"])
            return False
        return ok
    print("nothing to replay:", rp.get("what"))
    return False


def search(ctx):
    """The harness could not run to the end (API gone, exception inside a generator): try every entry point that
    still exists with the python mirrors of the property predicates."""
    import random as _r
    rng = _r.Random(ctx.seed + 1)
    for t in range(60):
        d = rng.randint(1, 6)
        b = gen_bounds(rng, d)
        n = rng.randint(1, 30)
        try:
            out = impl_halton(b, n)
            ps = first_primes(d)
            if len(out) != n or any(len(r) != d for r in out):
                ctx.fail("halton-count", "HaltonGenerator number=%d returned %d rows" % (n, len(out)), {"op": "halton", "N": n, "bounds": [list(x) for x in b]})
                return True
            for i, r in enumerate(out):
                for j, a in enumerate(r):
                    e = float(spec_halton_point(b, i + 1, j, ps[j]))
                    if not close(a, e):
                        ctx.fail("halton-point", "HaltonGenerator: point %d parameter %d: %r, demanded %r" % (i + 1, j, a, e),
                                 {"op": "halton", "N": n, "bounds": [list(x) for x in b], "i": i, "j": j})
                        return True
        except Exception:
            pass
        try:
            k = rng.randint(2, 4)
            out = impl_grid(b[:3], k)
            ok, msg = grid_py(b[:3], k, out)
            if not ok:
                ctx.fail("grid-levels", "UniformGenerator number=%d: %s" % (k, msg), {"op": "grid", "k": k, "bounds": [list(x) for x in b[:3]]})
                return True
        except Exception:
            pass
        try:
            s = rng.getrandbits(31)
            out = impl_lhs(b, n, s)
            ok, msg = latin_py(n, b, out)
            if not ok:
                ctx.fail("lhs-not-latin", "LHSGenerator number=%d numpy seed %d: %s" % (n, s, msg), {"op": "lhs", "N": n, "bounds": [list(x) for x in b], "np_seed": s})
                return True
        except Exception:
            pass
    return search_random(ctx)
