"""C19 — surrogate wrappers: true values unless predicting, exact accounting.

Correspondence: `SurrogateModelEval`, `SurrogateModelScikit`, `SurrogateModelSMT`
(artap/surrogate*.py) with a stub regressor (a few cases with the constructors' default
regressors) and a scripted `predict` hook on the problem, against the state machine
`Artap.Surrogate` (Model/Surrogate.lean; theorems in Props/C19.lean).  Values only travel,
so everything is integer-valued and agreement is exact.
"""
import atexit

from .common import vec, mat, shrink_list

STALE = 5 * 10 ** 5          # stale costs an individual may carry into a request: recognisable, never a true value
PRED_BASE = 10 ** 6      # predictions are recognisable: never equal to a true objective value


# --------------------------------------------------------------------------- implementation side

class StubSk:
    """Stands in for a scikit-learn regressor: records what `train()` hands over."""

    def __init__(self, fits):
        self.fits = fits

    def fit(self, x, y):
        self.fits.append((len(x), len(y)))
        return self

    def score(self, x, y):
        return 1.0

    def predict(self, x, return_std=False):
        raise AssertionError("the scripted hook never asks the regressor")


class StubSmt:
    def __init__(self, fits):
        self.fits = fits
        self.options = {}
        self._n = None

    def set_training_values(self, x, y):
        self._n = (len(x), len(y))

    def train(self):
        self.fits.append(self._n)


def lin(row, x):
    return row[0] + sum(a * b for a, b in zip(row[1:], x))


INF = float("inf")


def nf(case, v):
    """Objective value as the real objective returns it.  In `nonfinite` cases every true value divisible by 5 is
    returned as +inf / -inf / nan (a failed calculation reported through the costs): the wrapper's accounting must not
    depend on what the value is.  The model keeps the integer; both sides are compared through `canon`."""
    if case.get("nonfinite") and abs(v) < PRED_BASE // 2 and int(v) == v and int(v) % 5 == 0:
        return (INF, -INF, float("nan"))[(int(v) // 5) % 3]
    if case.get("intvals") and abs(v) < PRED_BASE // 2 and int(v) == v:
        return 2 ** 60 + int(v)       # an exact integer cost that no double represents: "returned unchanged" means unchanged
    return float(v)


def canon(v):
    if isinstance(v, int) and not isinstance(v, bool) and abs(v) >= 2 ** 53:
        return v
    return "nan" if v != v else float(v)


def canon_result(case, res, from_model):
    """Make the values of a result comparable: model / mirror integers go through `nf`, NaN becomes a token."""
    if "raised" in res:
        return res
    out = dict(res)
    for k in ("returned", "ys"):
        out[k] = [[canon(nf(case, t) if from_model else t) for t in row] for row in res[k]]
    return out



def run_impl(case):
    """Returns dict(returned, eval, pred, fits, xs, ys, fcalls, trained) or {'raised': name}."""
    from artap.problem import Problem
    from artap.individual import Individual
    from artap.job import Job
    fcalls, consulted = [], []
    state = {"i": 0}

    class P(Problem):
        def set(self, **kwargs):
            self.name = "c19"
            self.parameters = [{"name": "x_%d" % i, "bounds": [-100.0, 100.0]} for i in range(case["n"])]
            self.costs = [{"name": "F_%d" % j, "criteria": "minimize"} for j in range(len(case["obj"]))]

        def evaluate(self, individual):
            x = list(individual.vector)
            fcalls.append(x)
            return [nf(case, lin(r, x)) for r in case["obj"]]

    if case["has_hook"]:
        def predict(self, individual):
            consulted.append(state["i"])
            h = case["requests"][state["i"]][1]
            return None if h is None else [float(t) for t in h]
        P.predict = predict
    problem = P()
    try:
        fits = []
        kind = case["wrapper"]
        if kind == "eval":
            from artap.surrogate import SurrogateModelEval
            sur = SurrogateModelEval(problem)
        elif kind == "scikit":
            from artap.surrogate_scikit import SurrogateModelScikit
            sur = SurrogateModelScikit(problem)
            if not case["default_regressor"]:
                sur.regressor = StubSk(fits)
        else:
            from artap.surrogate_smt import SurrogateModelSMT
            sur = SurrogateModelSMT(problem)
            if not case["default_regressor"]:
                sur.regressor = StubSmt(fits)
        problem.surrogate = sur
        if case.get("eval_stats_off"):
            sur.eval_stats = False       # an option about scoring the regressor; the accounting must not depend on it
        if kind != "eval":
            if case["train_step"] is not None:
                sur.train_step = case["train_step"]
            if case["trained0"]:
                sur.trained = True
        if case.get("preload") and kind != "eval":
            # a training set pre-seeded through the public add_data (as read_from_data_store does) before the first
            # request: retraining is still due at every train_step-th TRUE EVALUATION, whatever the set's size is
            for px, py in case["preload"]:
                sur.add_data([float(t) for t in px], [nf(case, t) for t in py])
        if case["default_regressor"]:        # count the wrapper's train() calls around the real regressor
            inner = sur.train

            def counting():
                fits.append((len(sur.x_data), len(sur.y_data)))
                inner()
            sur.train = counting
        job = Job(problem)
        returned = []
        keep = (lambda t: t if isinstance(t, int) and not isinstance(t, bool) else float(t)) if case.get("intvals") else float
        try:
            for i, (x, _) in enumerate(case["requests"]):
                state["i"] = i
                ind = Individual([float(t) for t in x])
                if case.get("stale_costs") and (i * 7 + len(x)) % 3 == 0 and not case["via_job"]:
                    # the requested individual already carries costs (restored from a store, or predicted earlier): a
                    # request is still answered by a prediction or by exactly one true evaluation of its vector
                    ind.costs = [float(STALE + i)] * len(case["obj"])
                if case["via_job"]:
                    job.evaluate(ind)
                    returned.append([keep(t) for t in ind.costs])
                else:
                    returned.append([keep(t) for t in sur.evaluate(ind)])
        except ZeroDivisionError:
            return {"raised": "ZeroDivisionError"}
        return {"returned": returned, "eval": sur.eval_counter, "pred": sur.predict_counter, "fits": list(fits),
                "xs": [[float(t) for t in v] for v in sur.x_data], "ys": [[keep(t) for t in v] for v in sur.y_data],
                "fcalls": fcalls, "trained": bool(sur.trained), "effective_train_step": getattr(sur, "train_step", None)}
    finally:
        try:
            atexit.unregister(problem.cleanup)
            problem.cleanup()
        except Exception:
            pass


# --------------------------------------------------------------------------- what the property demands (python mirror, for replay / shrinking)

def spec_run(case, train_step):
    rows = case["obj"]
    if case["wrapper"] == "eval":
        ret = [[float(lin(r, x)) for r in rows] for x, _ in case["requests"]]
        return {"returned": ret, "eval": len(ret), "pred": 0, "fits": [], "xs": [], "ys": [],
                "fcalls": [[float(t) for t in x] for x, _ in case["requests"]], "trained": True}
    trained = bool(case["trained0"])
    ev = pr = 0
    xs, ys, fits, ret = [], [], [], []
    for px, py in case.get("preload") or []:      # pre-seeded training set (add_data before the first request)
        xs.append([float(t) for t in px])
        ys.append([float(t) for t in py])
    for x, h in case["requests"]:
        xf = [float(t) for t in x]
        if trained and case["has_hook"] and h is not None:
            pr += 1
            ret.append([float(t) for t in h])
            continue
        v = [float(lin(r, x)) for r in rows]
        ev += 1
        xs.append(xf)
        ys.append(v)
        ret.append(v)
        if train_step != -1:
            if train_step == 0:
                return {"raised": "ZeroDivisionError"}
            if ev % train_step == 0:
                fits.append((len(xs), len(ys)))
                trained = True
    return {"returned": ret, "eval": ev, "pred": pr, "fits": fits, "xs": xs, "ys": ys,
            "fcalls": list(xs[len(case.get("preload") or []):]), "trained": trained}


KEYS = [("returned", "surrogate-returned-value", "returned values"),
        ("eval", "surrogate-eval-counter", "eval_counter"), ("pred", "surrogate-predict-counter", "predict_counter"),
        ("xs", "surrogate-training-set", "x_data"), ("ys", "surrogate-training-set", "y_data"),
        ("fits", "surrogate-retrain-schedule", "train() calls (training-set sizes)"),
        ("fcalls", "surrogate-true-evaluations", "calls of the true objective"),
        ("trained", "surrogate-trained-flag", "trained flag")]


def diff(impl, want):
    if ("raised" in impl) or ("raised" in want):
        if impl.get("raised") != want.get("raised"):
            return [("surrogate-raises", "code %r, expected %r" % (impl.get("raised", "no exception"),
                                                                   want.get("raised", "no exception")))]
        return []
    bad = []
    for k, key, name in KEYS:
        if impl[k] != want[k]:
            bad.append((key, "%s: code %r, expected %r" % (name, impl[k] if k not in ("xs", "ys", "fcalls", "returned")
                                                            else _first_diff(impl[k], want[k]), "see first difference"
                                                            if k in ("xs", "ys", "fcalls", "returned") else want[k])))
    if impl["eval"] + impl["pred"] != len(want["returned"]):
        bad.append(("surrogate-counters-sum", "eval_counter %d + predict_counter %d != %d requests" % (
            impl["eval"], impl["pred"], len(want["returned"]))))
    return bad


def _first_diff(a, b):
    for i, (p, q) in enumerate(zip(a, b)):
        if p != q:
            return "entry %d is %r, expected %r" % (i, p, q)
    return "length %d, expected %d" % (len(a), len(b))


# --------------------------------------------------------------------------- model side

def req_tok(r):
    x, h = r
    return "%s:%s" % (vec(x), "N" if h is None else vec(h))


def lean_line(case, train_step):
    reqs = ";".join(req_tok(r) for r in case["requests"])
    if case["wrapper"] == "eval":
        return "c19.pass %s|%s" % (mat(case["obj"]), reqs)
    if case.get("preload"):
        return "c19.pred2 %d|%d|%d|%s|%s|%s|%s" % (1 if case["has_hook"] else 0, train_step, 1 if case["trained0"] else 0,
                                                  mat(case["obj"]), reqs, mat([p[0] for p in case["preload"]]),
                                                  mat([p[1] for p in case["preload"]]))
    return "c19.pred %d|%d|%d|%s|%s" % (1 if case["has_hook"] else 0, train_step, 1 if case["trained0"] else 0,
                                       mat(case["obj"]), reqs)


def ivec(s):
    return [float(int(t)) for t in s.split(",")] if s.strip() else []


def imat(s):
    return [ivec(t) for t in s.split(";")] if s.strip() else []


def parse_answer(ans, nreq=None):
    if ans == "raise":
        return {"raised": "ZeroDivisionError"}
    ret, st = ans.split("#")
    tr, ev, pr, tc, sizes, xs, ys, fc = st.split("|")
    sizes = [int(t) for t in sizes.split(",")] if sizes.strip() else []
    assert int(tc) == len(sizes)
    # one returned row per request - also when the only row is an empty (falsy) prediction, which prints as ""
    rows = [ivec(t) for t in ret.split(";")] if nreq else imat(ret)
    return {"returned": rows, "eval": int(ev), "pred": int(pr), "fits": [(k, k) for k in sizes], "xs": imat(xs),
            "ys": imat(ys), "fcalls": imat(fc), "trained": tr == "1"}


# --------------------------------------------------------------------------- generators

def gen_case(rng, quick, default_regressor=False):
    n = rng.randint(1, 3)
    nobj = rng.choice([1, 1, 2])
    wrapper = rng.choice(["eval", "scikit", "scikit", "smt", "smt"])
    nreq = rng.randint(1, 60 if quick else 200)
    if rng.random() < 0.3:
        nreq = rng.randint(1, 8)
    obj = [[rng.randint(-5, 5) for _ in range(1 + n)] for _ in range(nobj)]
    p_accept = rng.choice([0.0, 0.3, 0.6, 0.9, 1.0])
    requests = []
    for i in range(nreq):
        x = [rng.randint(-50, 50) for _ in range(n)]
        h = [PRED_BASE + rng.randint(0, 999) for _ in range(nobj)] if rng.random() < p_accept else None
        if h is not None and rng.random() < 0.04:
            h = []       # the hook "returns a value" that happens to be falsy: still a prediction, not a decline
        requests.append((x, h))
    ts = rng.choice([None, -1, 1, 2, 3, 5, 7, 10, nreq, nreq + 1, rng.randint(1, 30)])
    case = {"wrapper": wrapper, "n": n, "obj": obj, "requests": requests, "train_step": ts,
            "trained0": rng.random() < 0.35, "has_hook": rng.random() < 0.8, "via_job": rng.random() < 0.4,
            "default_regressor": False}
    if rng.random() < 0.2:
        case["nonfinite"] = True     # some true objective values are +-inf / nan
    if rng.random() < 0.25 and wrapper != "scikit":
        # (not for the scikit wrapper: with eval_stats off its train() compares the never-computed score None with the
        # threshold and raises TypeError on the unchanged code - an option outside C19's quantifier, see DESIGN 11.2)
        case["eval_stats_off"] = True
    if rng.random() < 0.2:
        case["stale_costs"] = True
    if rng.random() < 0.15 and not case.get("nonfinite") and not case["via_job"]:
        case["intvals"] = True
    if wrapper != "eval" and rng.random() < 0.25:
        k = rng.randint(1, 7)
        case["preload"] = [([rng.randint(-50, 50) for _ in range(n)], [rng.randint(-99, 99) for _ in range(nobj)]) for _ in range(k)]
    if default_regressor:
        case.pop("preload", None)
        case.pop("nonfinite", None)
        case.pop("stale_costs", None)
        case.pop("eval_stats_off", None)       # (the wrapper is re-drawn below and may be the scikit one)
        case.pop("intvals", None)
        # the constructors' own regressors (GaussianProcessRegressor / KRG): few, distinct points, rare retraining
        case["wrapper"] = rng.choice(["scikit", "smt"])
        case["n"] = n = 1
        case["obj"] = [[rng.randint(-5, 5), rng.randint(1, 5)]]
        pts = rng.sample(range(-50, 50), min(nreq, 14))
        case["requests"] = [([p], ([PRED_BASE + rng.randint(0, 999)] if rng.random() < p_accept else None)) for p in pts]
        case["train_step"] = rng.choice([None, 4, 5, 6]) if case["wrapper"] == "scikit" else rng.choice([None, 5, 6])
        case["trained0"] = False
        case["default_regressor"] = True
    return case


def effective_step(case):
    if case["wrapper"] == "eval":
        return -1
    if case["train_step"] is not None:
        return case["train_step"]
    return 10 if case["wrapper"] == "scikit" else -1      # constructor defaults (checked against the code in run)


def run(ctx):
    rng = ctx.rng
    ctx.rule = ("a case = wrapper (pass-through / scikit / SMT, stub regressor) + train_step + initial trained flag + "
                "1-200 requests each with a scripted accept(value)/decline answer of the predict hook; non-trivial = "
                "predicting wrapper with at least one prediction and one true evaluation, or at least one retraining; "
                "distinct = distinct request line")
    ctx.assumptions += ["the regressor behind train() is a stub (scikit-learn / SMT are in the trusted base); a few cases "
                        "run the constructors' default regressors",
                        "the predict hook only accepts or declines (it does not modify the surrogate)",
                        "train_step is -1 or positive (0 raises ZeroDivisionError in the code and is an explicit error in "
                        "the model; other negative values have no meaning in the statement) - not exercised"]
    n_cases = 1500 if ctx.quick else 20000
    cases = [gen_case(rng, ctx.quick) for _ in range(n_cases)]
    # one long history: more than a thousand true evaluations - the training set is the ordered list of ALL evaluated pairs
    long_case = gen_case(rng, True)
    long_case.update({"wrapper": rng.choice(["scikit", "smt"]), "train_step": rng.choice([-1, 400]), "trained0": False, "via_job": False,
                      "requests": [([rng.randint(-50, 50) for _ in range(long_case["n"])], None) for _ in range(1150)]})
    for k_ in ("preload", "nonfinite", "stale_costs", "intvals", "eval_stats_off"):
        long_case.pop(k_, None)
    cases.append(long_case)
    real = [gen_case(rng, True, default_regressor=True) for _ in range(6 if ctx.quick else 60)]
    # stub-regressor cases first; the cases with the constructors' own regressors afterwards (their training may
    # fail inside scikit-learn / SMT when the wrapper trains at the wrong moment - reported with the input)
    for group in (cases, real):
        impls = []
        for c in group:
            try:
                impls.append(run_impl(c))
            except Exception as e:
                if not c["default_regressor"]:
                    raise
                ctx.fail("surrogate-default-regressor-raises", "%s wrapper with its default regressor, train_step %r, "
                         "%d requests: %s: %s" % (c["wrapper"], effective_step(c), len(c["requests"]), type(e).__name__, e),
                         {"op": "surrogate", "case": c, "findings": []})
                return
        if not check_group(ctx, group, impls):
            return


def check_group(ctx, cases, impls):
    for c, i in zip(cases, impls):      # constructor defaults of train_step are part of the wrappers
        if c["wrapper"] != "eval" and c["train_step"] is None and "raised" not in i:
            if i["effective_train_step"] != effective_step(c):
                ctx.fail("surrogate-default-train-step", "%s wrapper: default train_step is %r, modelled %r" % (
                    c["wrapper"], i["effective_train_step"], effective_step(c)), {"case": c})
                return False
    answers = ctx.lean([lean_line(c, effective_step(c)) for c in cases])
    for c, i, ans in zip(cases, impls, answers):
        model = parse_answer(ans, len(c["requests"]))
        step = effective_step(c)
        nontrivial = c["wrapper"] != "eval" and "raised" not in i and (
            (i["pred"] > 0 and i["eval"] > 0) or len(i["fits"]) > 0)
        ctx.case(lean_line(c, step), nontrivial,
                 sample={"wrapper": c["wrapper"], "train_step": step, "trained0": c["trained0"], "has_hook": c["has_hook"],
                         "requests": len(c["requests"]), "eval_counter": i.get("eval"), "predict_counter": i.get("pred"),
                         "train_calls": len(i.get("fits", []))})
        ctx.count("wrapper_" + c["wrapper"] + ("_default_regressor" if c["default_regressor"] else ""))
        ctx.count("train_step_%s" % ("-1" if step == -1 else "0" if step == 0 else "neg" if step < 0 else
                                     "1" if step == 1 else "2-9" if step < 10 else ">=10"))
        if "raised" in i:
            ctx.count("raised_" + i["raised"])
        else:
            ctx.count("predictions", i["pred"])
            ctx.count("true_evaluations", i["eval"])
            ctx.count("retrainings", len(i["fits"]))
        bad = diff(canon_result(c, i, False), canon_result(c, model, True))
        if bad:
            report(ctx, c, bad)
            return False
    return True


def fails(case):
    return diff(canon_result(case, run_impl(case), False), canon_result(case, spec_run(case, effective_step(case)), True))


def report(ctx, case, bad):
    small = case
    try:
        if fails(case) and not case["default_regressor"]:
            reqs = shrink_list(case["requests"], lambda rs: bool(fails(dict(case, requests=rs))), min_len=1)
            small = dict(case, requests=reqs)
            bad = fails(small) or bad
    except Exception:
        small = case
    ctx.fail(bad[0][0], "%s wrapper, train_step %r, trained at start %r, hook %s, %d request(s) %r: %s" % (
        small["wrapper"], effective_step(small), small["trained0"], "present" if small["has_hook"] else "absent",
        len(small["requests"]), small["requests"][:6],
        ("after %d pairs pre-seeded with add_data: " % len(small["preload"]) if small.get("preload") else "") + bad[0][1]),
        {"op": "surrogate", "case": small, "findings": [list(b) for b in bad[:8]]})


def replay(ctx, rp):
    c = rp["case"].get("case")
    if not c:
        print("nothing to replay:", rp.get("what"))
        return False
    c["requests"] = [(x, h) for x, h in c["requests"]]
    impl = canon_result(c, run_impl(c), False)
    want = canon_result(c, spec_run(c, effective_step(c)), True)
    bad = diff(impl, want)
    print("code    :", {k: v for k, v in impl.items() if k not in ("xs", "ys", "fcalls")})
    print("expected:", {k: v for k, v in want.items() if k not in ("xs", "ys", "fcalls")})
    for k, w in bad:
        print(" PROPERTY FAILS [%s]: %s" % (k, w))
    return not bad


def search(ctx):
    """The harness could not run its streams: try small scripted cases through whatever still works."""
    reqs = [([1], None), ([2], [PRED_BASE]), ([3], None), ([4], [PRED_BASE + 1]), ([5], None), ([6], [PRED_BASE + 2])]
    for wrapper in ("scikit", "smt", "eval"):
        for ts in (1, 2, 3, -1):
            for trained0 in (False, True):
                c = {"wrapper": wrapper, "n": 1, "obj": [[0, 1]], "requests": reqs, "train_step": ts, "trained0": trained0,
                     "has_hook": True, "via_job": False, "default_regressor": False}
                try:
                    bad = fails(c)
                except Exception:
                    continue
                if bad:
                    ctx.fail(bad[0][0], "%s wrapper, train_step %r, trained at start %r: %s" % (wrapper, ts, trained0, bad[0][1]),
                             {"op": "surrogate", "case": c, "findings": [list(b) for b in bad[:8]]})
                    return True
    return False
