"""C02 — non-dominated sorting assigns every individual its true Pareto rank.

Correspondence: `Selector.fast_nondominated_sorting` (real code, real `Individual` objects, the
`front_number` feature afterwards) against `Artap.fnds` (Lean model of the counter/peeling loops, proved in
Props/C02.lean to satisfy the property's recurrence).  Regime R1: the sort only compares, so costs and
markers travel through the order embedding phi and agreement is exact.
"""
import itertools

from .common import phi, shrink_list

MARKERS = [0, 1, True, False, 0.5, -0.5, 2, -1]
SPECIAL = [0.0, -0.0, 5e-324, -5e-324, 1e300, -1e300, 1.0, 1.0 + 2 ** -52, -2.5]


# --------------------------------------------------------------------------- python mirror of the spec
# (used for shrinking, replay and the order-independence cross-check only; the verdict of a run is
# decided by the Lean model / `isTrueRank`)

def spec_dom(a, b):
    """1 iff member a = (costs, marker) dominates member b (textbook, C01 `pareto_one_iff`)."""
    (p, mp), (q, mq) = a, b
    if abs(mp) != abs(mq):
        return abs(mp) < abs(mq)
    return all(x <= y for x, y in zip(p, q)) and any(x < y for x, y in zip(p, q))


def spec_ranks(pop):
    """The recurrence of the statement: 1 if nobody dominates, else 1 + max over the dominators."""
    n = len(pop)
    doms = [[p for p in range(n) if spec_dom(pop[p], pop[q])] for q in range(n)]
    rank = [None] * n
    for _ in range(n + 1):
        changed = False
        for q in range(n):
            if rank[q] is None and all(rank[p] is not None for p in doms[q]):
                rank[q] = 1 + max([rank[p] for p in doms[q]], default=0)
                changed = True
        if not changed:
            break
    return rank


# --------------------------------------------------------------------------- implementation adaptor

_SHARED = {}


def impl_ranks(pop, stale=None):
    """Front numbers the real code assigns.  `stale`: an earlier population (same length) that the same
    Individual objects are sorted with first, so that they carry old counters / dominate lists / front numbers
    into the sort under test, as the merged parent+offspring population of NSGA-II does."""
    from artap.individual import Individual
    from artap.operators import TournamentSelector
    # one long-lived selector, as in the algorithms: a sort must not depend on what was sorted before
    if "sel" not in _SHARED:
        _SHARED["sel"] = TournamentSelector([])
    sel = _SHARED["sel"]
    inds = []
    for k, (c, m) in enumerate(pop):
        # the design vector is not part of the property: members may share one although their costs differ
        # (re-evaluated or noisy objectives); every third population has such members
        ind = Individual([float(k % max(1, (len(pop) + 1) // 2))] if len(pop) % 3 == 0 else [float(k)])
        inds.append(ind)
    if len(pop) % 2 == 1 or len(pop) % 5 == 0:
        # the order of the population list is not the order in which its members were created (ids not ascending):
        # populations are merged, sorted, shuffled and truncated between two sorts
        import random as _r
        _r.Random(len(pop) * 31 + sum(len(c) for c, _ in pop)).shuffle(inds)
    if stale is not None:
        for ind, (c, m) in zip(inds, stale):
            ind.costs = list(c)
            ind.costs_signed = list(c) + [m]
        sel.fast_nondominated_sorting(inds)
        if len(pop) % 2 == 0:
            # the population under test consists of copies (same ids, different objects) of the one sorted
            # before with the same selector - e.g. individuals read back from a store or deep-copied
            import copy
            inds = [copy.deepcopy(i) for i in inds]
    for ind, (c, m) in zip(inds, pop):
        ind.costs = list(c)
        ind.costs_signed = list(c) + [m]
    sel.fast_nondominated_sorting(inds)
    return [ind.features.get('front_number') for ind in inds]


def safe_impl(pop, stale=None):
    try:
        return impl_ranks(pop, stale), None
    except Exception as e:          # a crash of the sort on a legal population is a failure of "no individual is left unranked"
        return None, "%s: %s" % (type(e).__name__, e)


# --------------------------------------------------------------------------- protocol

def enc(pop):
    costs = ";".join(",".join(str(phi(x)) for x in c) for c, _ in pop)
    if all(len(c) == 0 for c, _ in pop):
        costs = "-"
    return "%s|%s" % (costs, ",".join(str(phi(m)) for _, m in pop))


def show(r):
    return ",".join("N" if x is None else str(x) for x in r)


def key_of(pop):
    return tuple((tuple(phi(x) for x in c), phi(m)) for c, m in pop)


# --------------------------------------------------------------------------- generators

def gen_pop(rng, nmax, mmax):
    kind = rng.random()
    n = rng.randint(1, nmax) if rng.random() < 0.7 else rng.randint(1, min(nmax, 6))
    m = rng.randint(1, mmax)
    if rng.random() < 0.03:
        m = 0
    pool = [float(rng.randint(0, 4)) for _ in range(rng.randint(2, 5))]
    if rng.random() < 0.25:
        pool = [rng.uniform(-3, 3) for _ in range(rng.randint(2, 5))] + rng.sample(SPECIAL, 2)
    if kind < 0.40:        # small pool: many ties and duplicated vectors
        costs = [[rng.choice(pool) for _ in range(m)] for _ in range(n)]
        tag = "pool"
    elif kind < 0.52:      # long chain (each dominated by the previous), some links duplicated
        cur = [rng.choice(pool) for _ in range(m)]
        costs = []
        for _ in range(n):
            costs.append(list(cur))
            if rng.random() < 0.8 and m > 0:
                j = rng.randrange(m)
                cur = [x + (1.0 if (i == j or rng.random() < 0.3) else 0.0) for i, x in enumerate(cur)]
        tag = "chain"
    elif kind < 0.62:      # antichain: x + y constant (m >= 2), else duplicates
        costs = []
        for i in range(n):
            a = float(rng.randint(0, n))
            costs.append(([a, float(n) - a] + [1.0] * m)[:m])
        tag = "antichain"
    elif kind < 0.72:      # one member dominates everything / everything dominates one member
        costs = [[rng.choice(pool) for _ in range(m)] for _ in range(n)]
        lo = [min(pool) - 1.0] * m
        hi = [max(pool) + 1.0] * m
        costs[rng.randrange(n)] = lo if rng.random() < 0.5 else hi
        if n > 2 and rng.random() < 0.5:
            costs[rng.randrange(n)] = hi
        tag = "extreme"
    elif kind < 0.86:      # layered grid: few fronts of several incomparable members, with duplicates
        costs = []
        for _ in range(n):
            layer = rng.randint(0, 3)
            a = rng.randint(0, 3)
            costs.append(([float(a + layer), float(3 - a + layer)] + [float(layer)] * m)[:m])
        tag = "layers"
    else:                  # random doubles (hardly any ties)
        costs = [[rng.uniform(-1, 1) for _ in range(m)] for _ in range(n)]
        tag = "random"
    mk = rng.random()
    if mk < 0.45:
        markers = [rng.choice([True, 0])] * n       # unconstrained problem: all True; constrained, all feasible: all 0
    elif mk < 0.8:
        markers = [rng.choice([0, 1, True, False]) for _ in range(n)]   # mixed feasibility
    else:
        markers = [rng.choice(MARKERS) for _ in range(n)]
    pop = list(zip(costs, markers))
    rng.shuffle(pop)
    return [(list(c), mm) for c, mm in pop], tag


def stale_for(rng, pop):
    m = len(pop[0][0])
    return [([float(rng.randint(0, 3)) for _ in range(m)], rng.choice([0, 1, True])) for _ in pop]


def nontrivial(pop, ranks):
    if ranks is None or None in ranks or len(set(ranks)) < 2:
        return False
    n = len(pop)
    for i in range(n):
        for j in range(i + 1, n):
            if not spec_dom(pop[i], pop[j]) and not spec_dom(pop[j], pop[i]):
                return True
    return False


# --------------------------------------------------------------------------- run

def run(ctx):
    rng = ctx.rng
    ctx.rule = ("populations of (cost vector, feasibility marker) built from small value pools (ties, duplicated vectors), "
                "chains, antichains, extreme members, layered grids and random doubles, markers uniform / mixed 0-1 / exotic; "
                "every population is sorted as generated, reversed and shuffled, half of them with Individual objects that "
                "carry stale features of an earlier sort; non-trivial = at least two fronts and at least one incomparable or "
                "duplicated pair; distinct = distinct sequence of (phi costs, phi marker)")
    ctx.assumptions += ["costs are finite floats; all members of a population have the same number of objectives",
                        "Individual objects of a population are pairwise different objects with different ids "
                        "(Individual.__init__ guarantees it); the same object occurring twice is excluded"]
    if ctx.quick:
        n_pops, nmax, mmax = 3000, 30, 4
    else:
        n_pops, nmax, mmax = 14000, 60, 6
    cases = []      # (pop, stale, tag)
    for _ in range(n_pops):
        pop, tag = gen_pop(rng, nmax, mmax)
        orders = [pop, pop[::-1]]
        sh = list(pop)
        rng.shuffle(sh)
        orders.append(sh)
        for o in orders:
            st = stale_for(rng, o) if rng.random() < 0.5 else None
            cases.append((o, st, tag))
    if not ctx.quick:
        for _ in range(40):                       # a few large populations
            pop, tag = gen_pop(rng, 200, 4)
            while len(pop) < 100:
                pop, tag = gen_pop(rng, 200, 4)
            cases.append((pop, stale_for(rng, pop), tag + "-large"))
        univ = [([float(a), float(b)], mk) for a in (0, 1, 2) for b in (0, 1, 2) for mk in (0, 1)]
        for size in (1, 2, 3, 4):
            for combo in itertools.product(univ, repeat=size):
                cases.append(([(list(c), mk) for c, mk in combo], None, "exhaustive"))
        ctx.extra["exhaustive"] = "every population (all orders) of size <= 4 over {0,1,2}^2 x markers {0,1}"
    impl = [safe_impl(p, st) for p, st, _ in cases]
    model = ctx.lean(["c02.fnds " + enc(p) for p, _, _ in cases])
    by_set = {}
    for (pop, st, tag), (got, err), mo in zip(cases, impl, model):
        ctx.case(key_of(pop), nontrivial(pop, got),
                 sample={"population": [[c, repr(m)] for c, m in pop[:8]], "front_numbers": (got or [])[:8], "kind": tag}
                 if len(pop) <= 8 else None)
        ctx.count("kind_" + tag)
        ctx.count("size_%s" % ("1" if len(pop) == 1 else "2-5" if len(pop) <= 5 else "6-15" if len(pop) <= 15 else
                               "16-30" if len(pop) <= 30 else "31-99" if len(pop) < 100 else "100+"))
        ctx.count("objectives_%d" % len(pop[0][0]))
        ctx.count("stale_features" if st is not None else "fresh_objects")
        if got is not None:
            ctx.count("fronts_%s" % min(max([r for r in got if r is not None], default=0), 8))
        if mo == "fuel":
            raise RuntimeError("model ran out of fuel (contradicts theorem peel_fuel)")
        if err is not None or show(got) != mo:
            report(ctx, pop, st, got, err, mo)
            return
        # same multiset of members in another order: every member keeps its front number (fnds_perm)
        k = tuple(sorted(key_of(pop)))
        canon = sorted(zip(key_of(pop), got))
        if by_set.setdefault(k, canon) != canon:
            ctx.fail("order-dependence", "front numbers depend on the input order: %r" % (pop,),
                     {"op": "fnds", "population": [[c, m] for c, m in pop], "stale": None})
            return


def report(ctx, pop, st, got, err, mo):
    def bad(idx):
        sub = [pop[k] for k in idx]
        sst = [st[k] for k in idx] if st is not None else None
        g, e = safe_impl(sub, sst)
        return len(idx) >= 1 and (e is not None or g != spec_ranks(sub))
    idx = list(range(len(pop)))
    if bad(idx):
        idx = shrink_list(idx, bad, min_len=1)
    sub = [pop[k] for k in idx]
    sst = [st[k] for k in idx] if st is not None else None
    if sst is not None and bad_with(sub, None):      # stale features not needed to fail: drop them
        sst = None
    g, e = safe_impl(sub, sst)
    want = ctx.lean(["c02.fnds " + enc(sub)])[0]
    holds = None
    if g is not None:
        holds = ctx.lean(["c02.spec %s|%s" % (enc(sub), show(g))])[0]
    case = {"op": "fnds", "population": [[c, m] for c, m in sub], "stale": [[c, m] for c, m in sst] if sst else None,
            "impl": g, "error": e, "model": want, "isTrueRank_of_impl": holds,
            "original": {"population": [[c, repr(m)] for c, m in pop], "impl": got, "error": err, "model": mo}}
    if e is not None:
        ctx.fail("sort-raises", "fast_nondominated_sorting raised %s on population %r%s; the property demands front numbers %s"
                 % (e, sub, " (objects carried features of an earlier sort)" if sst else "", want), case)
    else:
        ctx.fail("front-number", "fast_nondominated_sorting assigned front numbers %s to population %r%s; the true Pareto "
                 "ranks (model = recurrence, theorem fnds_rank) are %s; isTrueRank(impl) = %s"
                 % (show(g), sub, " (objects carried features of an earlier sort)" if sst else "", want, holds), case)


def bad_with(sub, sst):
    g, e = safe_impl(sub, sst)
    return e is not None or g != spec_ranks(sub)


def _pop(rows):
    out = []
    for c, m in rows:
        if isinstance(m, str):
            m = eval(m)
        out.append((list(c), m))
    return out


def replay(ctx, rp):
    c = rp["case"]
    if c.get("op") != "fnds":
        print("nothing to replay:", rp.get("what"))
        return False
    pop = _pop(c["population"])
    st = _pop(c["stale"]) if c.get("stale") else None
    got, err = safe_impl(pop, st)
    want = spec_ranks(pop)
    print("population (costs, marker):", pop)
    if st:
        print("objects were sorted before with:", st)
    print("property demands front numbers:", want)
    print("code assigned                 :", got if err is None else "raised " + err)
    if err is None and got == want:
        for perm in itertools.islice(itertools.permutations(range(len(pop))), 200):
            g2, e2 = safe_impl([pop[k] for k in perm], None)
            if e2 is not None or g2 != [want[k] for k in perm]:
                print("in order", perm, "the code assigned", g2 if e2 is None else "raised " + e2)
                return False
    return err is None and got == want


def run_corpus(ctx, case):
    c = case.get("case", case)
    if c.get("op") != "fnds":
        return
    pop = _pop(c["population"])
    st = _pop(c["stale"]) if c.get("stale") else None
    got, err = safe_impl(pop, st)
    mo = ctx.lean(["c02.fnds " + enc(pop)])[0]
    ctx.case(("corpus", key_of(pop)), True)
    if err is not None or show(got) != mo:
        report(ctx, pop, st, got, err, mo)


def search(ctx):
    """The harness itself could not run (API moved?): nothing else to drive."""
    return False
