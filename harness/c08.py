"""C08 — variation, sampling and search never leave the declared parameter box.

Correspondence (envelope relation, DESIGN.md 2.5 / 5-C08): the real operators of /repo are run
in-process on generated boxes / parents with *biased* random draws (values, not call order);
their children are handed to the Lean driver, which evaluates the very predicates the theorems
of Props/C08.lean are stated with (`admitsSbx`, `admitsMut`, `inBox`, `admitsTrace`) on the
implementation's output.  Deterministic pieces (`gen_number` with the draw forced,
`update_position`, the affine maps of the generators, the `pow` formulas with forced draws) are
compared with the model's value.

Streams: sbx | mut (polynomial / uniform / non-uniform) | gen_number | update_position (OMOPSO,
SMPSO, PSOGA) | generators (random + DoE) | formulas (R3, Float) | runs (NSGA-II, eps-MOEA, OMOPSO,
SMPSO, PSOGA with a logging objective).
"""
import atexit
import math
import numbers
import signal
import sys
from fractions import Fraction as Fr

from .common import rat, unrat, vec, mat, bits, unbits, close

EPS = sys.float_info.epsilon
ONE_M = 1.0 - 2.0 ** -53
SPECIAL_U = [0.0, 5e-324, 2.0 ** -53, 1e-300, 0.25, 0.5, 0.5 - 2.0 ** -54, 0.5 + 2.0 ** -53, 0.75, ONE_M, ONE_M,
             0.0, 1.0 / 3.0]
REL_SLACK = 1e-15      # IEEE rounding of round(y/prec)*prec and lb+i*delta (regime R2: not verified, assumed)


class RunTimeout(BaseException):
    pass


# --------------------------------------------------------------------------- random draws

class Draws:
    """Replaces the module-level draw functions the anchored code uses by biased ones driven by
    ctx.rng (values only: every call gets an independent value, whatever the call order)."""

    def __init__(self, rng, bias=0.3, cycle=None, const=None):
        self.rng, self.bias, self.cycle, self.const, self.k = rng, bias, cycle, const, 0
        self.saved = None

    def random(self):
        if self.const is not None:
            return self.const
        if self.cycle:
            v = self.cycle[self.k % len(self.cycle)]
            self.k += 1
            return v
        if self.rng.random() < self.bias:
            return self.rng.choice(SPECIAL_U)
        return self.rng.random()

    def uniform(self, a, b):
        return a + (b - a) * self.random()

    def __enter__(self):
        import random as R
        import numpy as np
        import artap.utils as U
        import artap.algorithm_swarm as S
        # module-level names the anchored code may have bound (`from random import random, uniform`): replaced only where
        # they exist - a module that draws differently simply does not get the biased values
        self.saved = (R.random, R.uniform, getattr(U, "random", None), getattr(S, "uniform", None), R.getstate(), np.random.get_state())
        R.seed(self.rng.getrandbits(64))
        np.random.seed(self.rng.getrandbits(32))
        R.random, R.uniform = self.random, self.uniform
        if self.saved[2] is not None:
            U.random = self.random
        if self.saved[3] is not None:
            S.uniform = self.uniform
        return self

    def __exit__(self, *a):
        import random as R
        import numpy as np
        import artap.utils as U
        import artap.algorithm_swarm as S
        R.random, R.uniform = self.saved[:2]
        if self.saved[2] is not None:
            U.random = self.saved[2]
        if self.saved[3] is not None:
            S.uniform = self.saved[3]
        R.setstate(self.saved[4])
        np.random.set_state(self.saved[5])
        return False


# --------------------------------------------------------------------------- boxes, parents

def gen_bounds(rng):
    k = rng.random()
    if k < 0.15:
        return 0.0, 1.0
    if k < 0.25:
        return -5.0, -2.0
    if k < 0.37:
        return -1e-9, 1e-9
    if k < 0.49:
        return -1e100, 1e100
    if k < 0.55:
        return 0, rng.randint(1, 10)                     # int bounds as users write them
    if k < 0.62:
        return 1e6, 1e6 + rng.choice([1.0, 1e-3, 250.0])  # offset box
    if k < 0.70:
        a = -10.0 ** rng.uniform(-3, 8)
        return a, a * rng.uniform(0.01, 0.9)             # negative box
    m = 10.0 ** rng.uniform(-6, 6)
    a = rng.uniform(-m, m)
    w = 10.0 ** rng.uniform(-7, 5) * rng.random() + 1e-9
    return a, a + w


def gen_params(rng, dim, with_precision=False, moderate=False):
    ps = []
    for i in range(dim):
        while True:
            lb, ub = gen_bounds(rng)
            if moderate and (abs(lb) > 1e7 or abs(ub) > 1e7 or ub - lb < 1e-4):
                continue
            if lb < ub:
                break
        # declaration order is NOT the alphabetical order of the names (the generators that go through a dict keyed by
        # name must still scale column i with the bounds of the i-th declared parameter)
        p = {"name": "%s%d" % ("wqhdzkbpxm"[i % 10], i), "bounds": [lb, ub]}
        if with_precision and rng.random() < 0.35 and ub - lb < 1e7:
            # a precision coarser than the range is a configuration error (designs land far outside a box that
            # is narrower than the rounding step); the statement's "coarse precision" is coarse w.r.t. 1e-12
            ok = [q for q in (0.1, 0.01, 1e-3, 0.5, 1e-6, 0.25, 0.3, 2.0) if q <= (ub - lb) / 20.0]
            if ok:
                p["precision"] = rng.choice(ok)
        ps.append(p)
    return ps


def tol_of(p, generated=True):
    """tolerance of the property statement: half the declared precision, 1e-12 without one; plus the
    relative IEEE slack (assumption, listed in the evidence)."""
    lb, ub = p["bounds"]
    mag = max(abs(lb), abs(ub))
    if not generated:
        return 0.0
    if "precision" in p and p["precision"]:
        return p["precision"] / 2.0 + REL_SLACK * max(mag, p["precision"])
    return 1e-12 + REL_SLACK * mag


def box_arg(ps, tols):
    return mat([[p["bounds"][0], p["bounds"][1], t] for p, t in zip(ps, tols)], rat)


def clampf(x, lb, ub):
    return min(max(x, lb), ub)


def gen_coord(rng, lb, ub):
    k = rng.random()
    lb, ub = float(lb), float(ub)
    if k < 0.12:
        return lb
    if k < 0.24:
        return ub
    if k < 0.30:
        return clampf(math.nextafter(lb, math.inf), lb, ub)
    if k < 0.36:
        return clampf(math.nextafter(ub, -math.inf), lb, ub)
    if k < 0.40:
        return clampf((lb + ub) / 2.0, lb, ub)
    return clampf(lb + rng.random() * (ub - lb), lb, ub)


def gen_partner(rng, x, lb, ub):
    """second parent's coordinate: independent, coincident or almost coincident"""
    k = rng.random()
    lb, ub = float(lb), float(ub)
    if k < 0.4:
        return gen_coord(rng, lb, ub), "indep"
    if k < 0.5:
        return x, "coincident"
    if k < 0.75:
        c = rng.choice([0.5, 1.0, 1.0000001, 1.5, 2.0, 3.0, 10.0, 1000.0]) * rng.choice([1, -1])
        y = clampf(x + c * EPS, lb, ub)
        return y, "near-eps"
    y = x
    for _ in range(rng.choice([1, 1, 2, 3])):
        y = math.nextafter(y, rng.choice([math.inf, -math.inf]))
    return clampf(y, lb, ub), "near-ulp"


def is_real(v):
    if isinstance(v, bool) or isinstance(v, complex):
        return False
    if not isinstance(v, numbers.Real):
        try:
            import numpy as np
            if not isinstance(v, np.floating):
                return False
        except Exception:
            return False
    f = float(v)
    return f == f and f not in (math.inf, -math.inf)


def check_vector(v, dim):
    """None when `v` is a real vector of dimension `dim`, else a short reason."""
    if not isinstance(v, (list, tuple)) and not hasattr(v, "__len__"):
        return "not a sequence: %r" % (v,)
    if len(v) != dim:
        return "dimension %d instead of %d" % (len(v), dim)
    for x in v:
        if not is_real(x):
            return "coordinate %r is not a finite real number" % (x,)
    return None


def fl(v):
    return [float(x) for x in v]


def outside(ps, tols, v):
    """python mirror of inBox (used for messages / replay only)"""
    res = []
    for i, (p, t, x) in enumerate(zip(ps, tols, v)):
        lb, ub = p["bounds"]
        if not (Fr(lb) - Fr(t) <= Fr(x) <= Fr(ub) + Fr(t)):
            res.append((i, x, lb, ub))
    return res


# --------------------------------------------------------------------------- stream: SBX

def call_sbx(ps, prob, di, p1, p2, draws):
    from artap.operators import SimulatedBinaryCrossover
    live = live_params(ps, int(float(di) * 7 + len(ps)) % 4 == 0)
    op = SimulatedBinaryCrossover(live, prob, di)
    settle_params(live, ps)
    with draws:
        return op.cross(list(p1), list(p2))


def gen_di(rng):
    k = rng.random()
    if k < 0.5:
        return rng.choice([0, 1, 2, 15, 20, 100, 0.0, 15.0])
    return rng.uniform(0, 100)


def gen_prob(rng):
    return rng.choice([0.0, 1.0, 1.0, 1.0, 0.5, rng.random()])


def stream_sbx(ctx, n):
    rng = ctx.rng
    cases, lines = [], []
    for _ in range(n):
        dim = rng.randint(1, 6)
        ps = gen_params(rng, dim)
        p1 = [gen_coord(rng, *p["bounds"]) for p in ps]
        kinds = []
        p2 = []
        for x, p in zip(p1, ps):
            y, kd = gen_partner(rng, x, *p["bounds"])
            p2.append(y)
            kinds.append(kd)
        prob, di = gen_prob(rng), gen_di(rng)
        seed = rng.getrandbits(48)
        case = {"op": "sbx", "params": ps, "p1": p1, "p2": p2, "prob": prob, "di": di, "draw_seed": seed,
                "bias": rng.choice([0.0, 0.3, 0.7])}
        res = exec_sbx(case)
        cases.append((case, res, kinds))
        if res.get("error") or res.get("shape"):
            lines.append(None)
        else:
            lines.append("c08.sbx %s|%s|%s|%s|%s" % (box_arg(ps, [0.0] * dim), vec(p1, rat), vec(p2, rat),
                                                       vec(res["c1"], rat), vec(res["c2"], rat)))
    ans = iter(ctx.lean([l for l in lines if l is not None]))
    for (case, res, kinds), l in zip(cases, lines):
        changed = (not res.get("error") and not res.get("shape")
                   and (res["c1"] != case["p1"] or res["c2"] != case["p2"]))
        edge = any(k != "indep" for k in kinds) or any(
            x in (float(p["bounds"][0]), float(p["bounds"][1])) for x, p in zip(case["p1"] + case["p2"], case["params"] * 2))
        ctx.case(("sbx", tuple(case["p1"]), tuple(case["p2"]), case["prob"], case["di"], case["draw_seed"]),
                 nontrivial=bool(changed and edge),
                 sample={"op": "sbx", "bounds": [p["bounds"] for p in case["params"]], "p1": case["p1"], "p2": case["p2"],
                         "di": case["di"], "children": [res.get("c1"), res.get("c2")]})
        ctx.count("sbx_changed" if changed else "sbx_unchanged")
        for k in set(kinds):
            ctx.count("sbx_parent_" + k)
        if l is None:
            report_op(ctx, case, res)
            return
        a = next(ans).split(",")
        if a != ["1", "1", "1"]:
            res["lean"] = a
            report_op(ctx, case, res)
            return


def exec_sbx(case):
    """Runs cross on the case (deterministic: draws come from the stored seed)."""
    import random as _r
    ps = case["params"]
    draws = Draws(_r.Random(case["draw_seed"]), bias=case.get("bias", 0.3), const=case.get("const_draw"))
    try:
        out = call_sbx(ps, case["prob"], case["di"], case["p1"], case["p2"], draws)
    except Exception as e:   # noqa
        return {"error": "%s: %s" % (type(e).__name__, e)}
    if not isinstance(out, tuple) or len(out) != 2:
        return {"shape": "cross returned %r instead of two children" % (out,)}
    for c in out:
        r = check_vector(c, len(ps))
        if r:
            return {"shape": r, "raw": repr(out)}
    return {"c1": fl(out[0]), "c2": fl(out[1])}


# --------------------------------------------------------------------------- stream: mutation

MUT_KINDS = ["pm", "uniform", "nonuniform"]


def live_params(ps, late):
    """Parameter dicts handed to an operator's constructor.  With `late`, the box is declared wider at construction
    time and re-declared (in place) to the real one before the operator is used - as when an algorithm object is
    built first and the search region is narrowed afterwards; operators must work with the box declared now."""
    live = [dict(p, bounds=list(p["bounds"])) for p in ps]
    if late:
        for d in live:
            lb, ub = d["bounds"]
            if abs(lb) < 1e50 and abs(ub) < 1e50:
                d["bounds"] = [lb - (ub - lb), ub + 2 * (ub - lb)]
    return live


def settle_params(live, ps):
    for d, p in zip(live, ps):
        d["bounds"] = list(p["bounds"])


def make_mutator(case):
    from artap.operators import PmMutator, UniformMutator, NonUniformMutation
    ps = case["params"]
    live = live_params(ps, case.get("draw_seed", 1) % 4 == 0)
    if case["kind"] == "pm":
        op = PmMutator(live, case["prob"], case["di"])
    elif case["kind"] == "uniform":
        op = UniformMutator(live, case["prob"], case["pert"])
    else:
        op = NonUniformMutation(live, case["prob"], case["max_it"], case["pert"])
    settle_params(live, ps)
    return op


def exec_mut(case):
    import random as _r
    ps = case["params"]
    draws = Draws(_r.Random(case["draw_seed"]), bias=case.get("bias", 0.3), const=case.get("const_draw"))
    try:
        op = make_mutator(case)
        with draws:
            out = op.mutate(list(case["p"]), case["it"])
    except Exception as e:   # noqa
        return {"error": "%s: %s" % (type(e).__name__, e)}
    r = check_vector(out, len(ps))
    if r:
        return {"shape": r, "raw": repr(out)}
    return {"c": fl(out)}


def stream_mut(ctx, n):
    rng = ctx.rng
    cases, lines = [], []
    for _ in range(n):
        dim = rng.randint(1, 6)
        kind = rng.choice(MUT_KINDS)
        ps = gen_params(rng, dim)
        tolerant = rng.random() < 0.2   # parents as a generator may deliver them: up to tol outside
        tols = [tol_of(p) if tolerant else 0.0 for p in ps]
        par = []
        for p, t in zip(ps, tols):
            x = gen_coord(rng, *p["bounds"])
            lb, ub = p["bounds"]
            if tolerant and rng.random() < 0.5 and (ub - lb) > 1e3 * t:
                x = rng.choice([lb - t * rng.random(), ub + t * rng.random()])
                if outside([p], [t], [x]):
                    x = float(lb)
            par.append(x)
        max_it = rng.randint(1, 50)
        # parents outside by rounding only occur inside runs, where the distribution index is the integer default
        # (and the draws are ordinary: with a parent outside the box PM's `val` is negative for rnd ~ 0 -> complex)
        di = rng.choice([15, 20, 100]) if tolerant else gen_di(rng)
        case = {"op": "mut", "kind": kind, "params": ps, "tols": tols, "p": par, "prob": gen_prob(rng), "di": di,
                "pert": rng.choice([0.5, 0.5, 0.0, 1.0, 5.0, rng.uniform(0, 3), 1e-9, 2e100, 100]),
                "max_it": max_it, "it": rng.choice([0, max_it, rng.randint(0, max_it)]),
                "draw_seed": rng.getrandbits(48), "bias": 0.0 if tolerant else rng.choice([0.0, 0.3, 0.7])}
        res = exec_mut(case)
        cases.append((case, res))
        if res.get("error") or res.get("shape"):
            lines.append(None)
        else:
            lines.append("c08.mut %s|%s|%s" % (box_arg(ps, tols), vec(par, rat), vec(res["c"], rat)))
    ans = iter(ctx.lean([l for l in lines if l is not None]))
    soft = None
    for (case, res), l in zip(cases, lines):
        changed = not res.get("error") and not res.get("shape") and res["c"] != case["p"]
        ctx.case(("mut", case["kind"], tuple(case["p"]), case["prob"], case["draw_seed"]), nontrivial=bool(changed),
                 sample={"op": "mut", "kind": case["kind"], "bounds": [p["bounds"] for p in case["params"]], "parent": case["p"],
                         "iteration": [case["it"], case["max_it"]], "child": res.get("c")})
        ctx.count("mut_%s_%s" % (case["kind"], "changed" if changed else "unchanged"))
        if any(t > 0 for t in case["tols"]):
            ctx.count("mut_parent_within_tol")
        if l is None:
            report_op(ctx, case, res)
            return
        a = next(ans).split(",")
        if a[1] != "1":
            res["lean"] = a
            report_op(ctx, case, res)
            return
        if a[0] != "1" and soft is None:
            res["lean"] = a
            soft = (case, res)
    if soft is not None:   # admitted-ness lost but the child is within tolerance: the property is no longer shown
        case, res = soft
        ctx.fail("mut-%s-not-admitted" % case["kind"],
                 "%s mutation returned a coordinate that is neither the parent's nor inside [lb, ub] (it is within the "
                 "tolerance, so this is not a failing input; the envelope `admitsMut` the theorem mut_in_box is stated "
                 "with no longer describes the code): parent=%r child=%r bounds=%r" % (
                     case["kind"], case["p"], res["c"], [p["bounds"] for p in case["params"]]),
                 dict(case, result=res), no_input=True)


def report_op(ctx, case, res):
    """A failing operator call: shrink to one coordinate where possible and report."""
    name = case["op"] if case["op"] == "sbx" else "mut-" + case["kind"]
    ps = case["params"]
    bounds = [p["bounds"] for p in ps]
    if res.get("error"):
        ctx.fail(name + "-raised", "%s raised %s for parents inside the box: bounds=%r case=%s" % (
            name, res["error"], bounds, brief(case)), dict(case, result=res))
        return
    if res.get("shape"):
        ctx.fail(name + "-not-real-vector", "%s did not return real-valued children of dimension %d: %s; bounds=%r case=%s" % (
            name, len(ps), res["shape"], bounds, brief(case)), dict(case, result=res))
        return
    tols = case.get("tols", [0.0] * len(ps))
    if case["op"] == "sbx":
        bad = outside(ps, tols, res["c1"]) + outside(ps, tols, res["c2"])
    else:
        bad = outside(ps, tols, res["c"])
    if bad:
        i, x, lb, ub = bad[0]
        ctx.fail(name + "-out-of-box", "%s returned coordinate %d = %r outside [%r, %r] (by %.3g) for parents inside the box: %s" % (
            name, i, x, lb, ub, max(lb - x, x - ub), brief(case)), dict(case, result=res))
    else:
        ctx.fail(name + "-not-admitted", "%s: the Lean predicate rejected the children (answer %r): %s -> %r" % (
            name, res.get("lean"), brief(case), res), dict(case, result=res))


def brief(case):
    d = {k: v for k, v in case.items() if k not in ("params", "tols", "op")}
    return repr(d)


# --------------------------------------------------------------------------- stream: gen_number

def exec_gen(case):
    from artap.utils import VectorAndNumbers
    import random as _r
    try:
        with Draws(_r.Random(0), const=case["u"]):
            if case["prec"] is None:
                x = VectorAndNumbers.gen_vector([{"name": "x", "bounds": [case["lb"], case["ub"]]}])[0]
            else:
                x = VectorAndNumbers.gen_vector([{"name": "x", "bounds": [case["lb"], case["ub"]], "precision": case["prec"]}])[0]
    except Exception as e:   # noqa
        return {"error": "%s: %s" % (type(e).__name__, e)}
    if not is_real(x):
        return {"shape": "gen_number returned %r" % (x,)}
    return {"x": float(x)}


def stream_gen(ctx, n):
    rng = ctx.rng
    cases = []
    for _ in range(n):
        ps = gen_params(rng, 1, with_precision=True)[0]
        lb, ub = ps["bounds"]
        u = rng.choice(SPECIAL_U) if rng.random() < 0.4 else rng.random()
        case = {"op": "gen", "lb": lb, "ub": ub, "prec": ps.get("precision"), "u": u}
        cases.append((case, ps, exec_gen(case)))
    ans = ctx.lean(["c08.gen %s|%s|%s|%s" % (rat(c["lb"]), rat(c["ub"]), rat(c["prec"] or 0), rat(c["u"])) for c, _, _ in cases])
    unexplained = []
    for (case, ps, res), a in zip(cases, ans):
        ctx.case(("gen", case["lb"], case["ub"], case["prec"], case["u"]), nontrivial=case["u"] in SPECIAL_U or case["prec"] is not None,
                 sample=dict(case, value=res.get("x")))
        ctx.count("gen_declared_precision" if case["prec"] else "gen_default_precision")
        if res.get("error") or res.get("shape"):
            ctx.fail("gen-number-raised", "gen_vector for bounds [%r, %r] precision %r, draw %r: %s" % (
                case["lb"], case["ub"], case["prec"], case["u"], res.get("error") or res.get("shape")), dict(case, result=res))
            return
        x = res["x"]
        t = tol_of(ps)
        if outside([ps], [t], [x]):
            ctx.fail("gen-number-out-of-box", "gen_number(bounds=[%r, %r], precision=%r) with draw %r returned %r: outside the box by %.3g "
                     "(allowed: %.3g = half the precision / 1e-12)" % (case["lb"], case["ub"], case["prec"], case["u"], x,
                                                                      max(case["lb"] - x, x - case["ub"]), t), dict(case, result=res))
            return
        if not gen_value_ok(case, x, a):
            unexplained.append((case, res, a))
    # A value the model does not produce for the draw that was forced on `random()`: the implementation may draw
    # differently (another generator, an index on the grid).  The theorem genNumber_bounds holds for EVERY draw, so what
    # ties the code to it is "some draw u in [0,1) makes the model produce this value": derive it from the value itself.
    if unexplained:
        derived = []
        for case, res, _ in unexplained:
            w = case["ub"] - case["lb"]
            u2 = min(max((res["x"] - case["lb"]) / w, 0.0), 1.0 - 2.0 ** -53) if w > 0 else 0.0
            derived.append(dict(case, u=u2))
        ans2 = ctx.lean(["c08.gen %s|%s|%s|%s" % (rat(c["lb"]), rat(c["ub"]), rat(c["prec"] or 0), rat(c["u"])) for c in derived])
        for (case, res, a), c2, a2 in zip(unexplained, derived, ans2):
            if gen_value_ok(c2, res["x"], a2):
                ctx.count("gen_value_explained_by_a_draw_derived_from_the_value")
                continue
            ctx.fail("gen-number-value", "gen_number(bounds=[%r, %r], precision=%r) returned %r (forced draw %r): inside the box, but the model "
                     "round(y/prec)*prec does not produce it for that draw (%r) nor for the draw derived from the value (%r); the model of "
                     "gen_number no longer describes the code" % (case["lb"], case["ub"], case["prec"], res["x"], case["u"],
                                                                 float(unrat(a.split(" ")[0])), float(unrat(a2.split(" ")[0]))),
                     dict(case, result=res), no_input=True)
            return


def gen_value_ok(case, x, a):
    val, tie = a.split(" ")
    val, tie = unrat(val), unrat(tie)
    prec = case["prec"] or 1e-12
    z = abs((case["u"] * (case["ub"] - case["lb"]) + case["lb"]) / prec)
    mag = max(abs(case["lb"]), abs(case["ub"]))
    if float(tie) < 1e-6 + 1e-14 * z:
        # the double computation cannot resolve the rounding direction: either neighbour is right, i.e. the value
        # is within half the precision of y = u*(ub-lb)+lb
        y = Fr(case["u"]) * (Fr(case["ub"]) - Fr(case["lb"])) + Fr(case["lb"])
        return abs(Fr(x) - y) <= Fr(prec) / 2 + Fr(4 * REL_SLACK * mag) + Fr(1e-9) * Fr(prec)
    return close(x, float(val)) or abs(x - float(val)) <= 4 * REL_SLACK * mag


# --------------------------------------------------------------------------- stream: update_position

ALGOS = ["OMOPSO", "SMPSO", "PSOGA"]
FACTOR = {"OMOPSO": -1.0, "SMPSO": 0.001, "PSOGA": -1.0}


def make_problem(ps, n_costs=2, log=None):
    from artap.problem import Problem

    class BoxProblem(Problem):
        def set(self, **kwargs):
            self.name = "c08"
            self.parameters = ps
            self.costs = [{"name": "f%d" % k, "criteria": "minimize"} for k in range(n_costs)]

        def evaluate(self, individual):
            x = individual.vector
            if log is not None:
                log.append(list(x) if isinstance(x, (list, tuple)) else x)
            xs = [float(v.real if isinstance(v, complex) else v) for v in x]
            s = [(v - p["bounds"][0]) / (p["bounds"][1] - p["bounds"][0]) for v, p in zip(xs, ps)]
            f1 = sum(s) / len(s)
            f2 = sum((1.0 - v) ** 2 for v in s) / len(s) + 0.1 * s[0]
            return [f1, f2, s[-1] * (1 - s[0])][:n_costs]
    pr = BoxProblem()
    return pr


def drop_problem(pr):
    try:
        atexit.unregister(pr.cleanup)
        pr.cleanup()
    except Exception:
        pass


def algo_class(name):
    from artap.algorithm_swarm import OMOPSO, SMPSO, PSOGA
    from artap.algorithm_NSGAII import NSGAII
    from artap.algorithm_genetic import EpsMOEA
    return {"OMOPSO": OMOPSO, "SMPSO": SMPSO, "PSOGA": PSOGA, "NSGAII": NSGAII, "EpsMOEA": EpsMOEA}[name]


def exec_pos(case):
    from artap.individual import Individual
    pr = make_problem(case["params"])
    try:
        alg = algo_class(case["algo"])(pr)
        ind = Individual(list(case["x"]))
        ind.features["velocity"] = list(case["v"])
        alg.update_position([ind])
        out = ind.vector
    except Exception as e:   # noqa
        return {"error": "%s: %s" % (type(e).__name__, e)}
    finally:
        drop_problem(pr)
    r = check_vector(out, len(case["params"]))
    if r:
        return {"shape": r}
    return {"x": fl(out)}


def stream_pos(ctx, n):
    rng = ctx.rng
    cases = []
    for _ in range(n):
        dim = rng.randint(1, 5)
        ps = gen_params(rng, dim)
        x, v = [], []
        for p in ps:
            lb, ub = map(float, p["bounds"])
            xi = gen_coord(rng, lb, ub)
            k = rng.random()
            w = ub - lb
            if k < 0.2:
                vi = 0.0
            elif k < 0.4:
                vi = rng.choice([ub - xi, lb - xi])                   # lands on a bound
            elif k < 0.6:
                vi = rng.choice([1, -1]) * w * rng.choice([0.5, 1.0, 2.0, 10.0])   # overshoots
            elif k < 0.7:
                vi = rng.choice([1, -1]) * min(abs(xi), w) * EPS * rng.choice([0.5, 1, 4])
            else:
                vi = rng.uniform(-w, w) / 2
            x.append(xi)
            v.append(vi)
        case = {"op": "pos", "algo": rng.choice(ALGOS), "params": ps, "x": x, "v": v}
        cases.append((case, exec_pos(case)))
    ans = ctx.lean(["c08.pos %s|%s|%s|%s" % (rat(FACTOR[c["algo"]]), box_arg(c["params"], [0.0] * len(c["x"])), vec(c["x"], rat),
                                              vec(c["v"], rat)) for c, _ in cases])
    for (case, res), a in zip(cases, ans):
        ps = case["params"]
        moved = not res.get("error") and not res.get("shape") and any(
            y in (float(p["bounds"][0]), float(p["bounds"][1])) and y != x0 for y, x0, p in zip(res["x"], case["x"], ps))
        ctx.case(("pos", case["algo"], tuple(case["x"]), tuple(case["v"])), nontrivial=bool(moved),
                 sample={"op": "update_position", "algo": case["algo"], "bounds": [p["bounds"] for p in ps], "x": case["x"],
                         "v": case["v"], "new": res.get("x")})
        ctx.count("pos_%s_%s" % (case["algo"], "reset" if moved else "free"))
        if res.get("error") or res.get("shape"):
            ctx.fail("position-raised", "%s.update_position failed: %s; x=%r v=%r bounds=%r" % (
                case["algo"], res.get("error") or res.get("shape"), case["x"], case["v"], [p["bounds"] for p in ps]), dict(case, result=res))
            return
        bad = outside(ps, [0.0] * len(ps), res["x"])
        if bad:
            i, y, lb, ub = bad[0]
            ctx.fail("position-out-of-box", "%s.update_position moved coordinate %d from %r with velocity %r to %r, outside [%r, %r]" % (
                case["algo"], i, case["x"][i], case["v"][i], y, lb, ub), dict(case, result=res))
            return
        model = [float(unrat(t)) for t in a.split(",")]
        for i, (y, m) in enumerate(zip(res["x"], model)):
            mag = max(abs(case["x"][i]), abs(case["v"][i]))
            if not (close(y, m) or abs(y - m) <= 4 * REL_SLACK * mag):
                ctx.fail("position-value", "%s.update_position coordinate %d: %r + %r -> %r, model %r (bounds %r)" % (
                    case["algo"], i, case["x"][i], case["v"][i], y, m, ps[i]["bounds"]), dict(case, result=res, model=model))
                return


# --------------------------------------------------------------------------- stream: generators

GENERATORS = ["random", "uniform", "fullfact", "fullfact_center", "plackett_burman", "box_behnken", "lhs", "halton",
              "gsd", "fullfact_levels"]


def exec_generator(case):
    from artap import operators as O
    import random as _r
    ps = [dict(p, bounds=list(p["bounds"])) for p in case["params"]]
    kind = case["kind"]
    try:
        with Draws(_r.Random(case["draw_seed"]), bias=case.get("bias", 0.3)):
            if kind == "random":
                g = O.RandomGenerator(ps)
                g.init(case["number"])
            elif kind == "uniform":
                g = O.UniformGenerator(ps)
                g.init(case["number"])
            elif kind in ("fullfact", "fullfact_center"):
                g = O.FullFactorGenerator(ps)
                g.init(kind == "fullfact_center")
            elif kind == "plackett_burman":
                g = O.PlackettBurmanGenerator(ps)
            elif kind == "box_behnken":
                g = O.BoxBehnkenGenerator(ps)
            elif kind == "lhs":
                g = O.LHSGenerator(ps)
                g.init(case["number"])
            elif kind == "halton":
                g = O.HaltonGenerator(ps)
                g.init(case["number"])
            elif kind == "gsd":
                g = O.GSDGenerator(ps)
                g.init([list(v) for v in case["levels"]], case["reduction"])
            elif kind == "fullfact_levels":
                g = O.FullFactorLevelsGenerator(ps)
                g.init([list(v) for v in case["levels"]])
            else:
                raise ValueError(kind)
            out = g.generate()
    except Exception as e:   # noqa
        return {"error": "%s: %s" % (type(e).__name__, e)}
    rows = []
    for r in out:
        why = check_vector(list(r), len(ps))
        if why:
            return {"shape": why}
        rows.append(fl(r))
    return {"rows": rows}


def stream_generators(ctx, n):
    rng = ctx.rng
    cases = []
    for _ in range(n):
        kind = rng.choice(GENERATORS)
        lo = 3 if kind in ("box_behnken",) else (2 if kind == "gsd" else 1)
        dim = rng.randint(lo, 4 if kind in ("uniform", "fullfact_center", "gsd", "fullfact_levels") else 5)
        ps = gen_params(rng, dim, with_precision=(kind == "random"))
        case = {"op": "generator", "kind": kind, "params": ps, "number": rng.randint(2, 7 if kind == "uniform" else 25),
                "draw_seed": rng.getrandbits(48), "bias": rng.choice([0.0, 0.4])}
        if kind in ("gsd", "fullfact_levels"):
            case["levels"] = [[gen_coord(rng, *p["bounds"]) for _ in range(rng.randint(2, 4))] for p in ps]
            case["reduction"] = rng.randint(2, 3)
        cases.append((case, exec_generator(case)))
    lines, idx = [], []
    for k, (case, res) in enumerate(cases):
        if res.get("rows"):
            gen = case["kind"] in ("random", "uniform", "lhs", "halton", "fullfact_center", "box_behnken")
            tols = [tol_of(p) if gen else 0.0 for p in case["params"]]
            case["tols"] = tols
            lines.append("c08.inbox %s|%s" % (box_arg(case["params"], tols), mat(res["rows"], rat)))
            idx.append(k)
    ans = dict(zip(idx, ctx.lean(lines)))
    for k, (case, res) in enumerate(cases):
        ps = case["params"]
        rows = res.get("rows") or []
        ctx.case(("generator", case["kind"], tuple(map(tuple, rows))), nontrivial=len(rows) >= 2,
                 sample={"op": "generator", "kind": case["kind"], "bounds": [p["bounds"] for p in ps], "designs": len(rows),
                         "first": rows[0] if rows else None})
        ctx.count("generator_" + case["kind"])
        if res.get("error") or res.get("shape") or not rows:
            ctx.fail("generator-raised", "%s generator on bounds %r: %s" % (case["kind"], [p["bounds"] for p in ps],
                                                                        res.get("error") or res.get("shape") or "no designs"),
                     dict(case, result=res))
            return
        if ans[k] != "ok":
            r = rows[int(ans[k])]
            i, x, lb, ub = (outside(ps, case["tols"], r) or [(None, r, None, None)])[0]
            ctx.fail("generator-%s-out-of-box" % case["kind"], "%s generator: design %s = %r has coordinate %r = %r outside [%r, %r] "
                     "(tolerance %r)" % (case["kind"], ans[k], r, i, x, lb, ub, case["tols"][i] if i is not None else None),
                     dict(case, result={"row": r, "index": int(ans[k])}))
            return
        if case["kind"] in ("gsd", "fullfact_levels"):
            for r in rows:
                if any(x not in lv for x, lv in zip(r, case["levels"])):
                    ctx.fail("generator-%s-out-of-box" % case["kind"], "%s generator produced %r, not built from the given levels %r" % (
                        case["kind"], r, case["levels"]), dict(case, result={"row": r}))
                    return
    # UniformGenerator / centre point against the model's affine maps
    glines, gexp = [], []
    for case, res in cases:
        if case["kind"] == "uniform" and res.get("rows"):
            n_ = case["number"]
            for j, p in enumerate(case["params"]):
                vals = sorted(set(r[j] for r in res["rows"]))
                if len(vals) != n_:
                    continue
                for i, v in enumerate(vals):
                    glines.append("c08.grid %s|%s|%d|%d" % (rat(p["bounds"][0]), rat(p["bounds"][1]), n_, i))
                    gexp.append((case, p, i, v))
        if case["kind"] == "fullfact_center" and res.get("rows"):
            for j, p in enumerate(case["params"]):
                vals = sorted(set(r[j] for r in res["rows"]))
                if len(vals) == 3:
                    glines.append("c08.mid %s|%s" % (rat(p["bounds"][0]), rat(p["bounds"][1])))
                    gexp.append((case, p, "mid", vals[1]))
    for (case, p, i, v), a in zip(gexp, ctx.lean(glines)):
        m = float(unrat(a))
        ctx.count("generator_affine_compared")
        if not (close(v, m) or abs(v - m) <= 4 * REL_SLACK * max(abs(p["bounds"][0]), abs(p["bounds"][1]))):
            ctx.fail("generator-level-value", "%s generator: level %r of bounds %r is %r, model %r" % (case["kind"], i, p["bounds"], v, m),
                     dict(case, result={"level": i, "value": v, "model": m}))
            return


# --------------------------------------------------------------------------- stream: formulas (R3, Float)

def stream_formulas(ctx, n):
    """Forced draws: the implementation's child must be the Float model's value for one of the forced draw
    values (a finite envelope, independent of the order of the draws)."""
    from artap.operators import PmMutator, NonUniformMutation
    rng = ctx.rng
    lines, checks = [], []
    for _ in range(n):
        lb, ub = gen_bounds(rng)
        lb, ub = float(lb), float(ub)
        if not lb < ub:
            continue
        ps = [{"name": "x", "bounds": [lb, ub]}]
        x = gen_coord(rng, lb, ub)
        kind = rng.choice(["pm", "nonuniform", "sbx"])
        di = float(gen_di(rng))
        if kind == "pm":
            r = rng.choice(SPECIAL_U) if rng.random() < 0.4 else rng.random()
            case = {"op": "mut", "kind": "pm", "params": ps, "p": [x], "prob": 2.0, "di": di, "pert": 0.5, "max_it": 1, "it": 0,
                    "draw_seed": 0, "const_draw": r}
            res = exec_mut(case)
            lines.append("c08.pmf " + vec([lb, ub, x, di, r], bits))
            checks.append((case, res, 1))
        elif kind == "nonuniform":
            r = rng.choice(SPECIAL_U) if rng.random() < 0.4 else rng.random()
            max_it = rng.randint(1, 40)
            it = rng.choice([0, max_it, rng.randint(0, max_it)])
            b = rng.choice([0.5, 0.5, 1.0, 0.0, 2.0, rng.uniform(0, 3)])
            case = {"op": "mut", "kind": "nonuniform", "params": ps, "p": [x], "prob": 2.0, "di": di, "pert": b, "max_it": max_it,
                    "it": it, "draw_seed": 0, "const_draw": r}
            res = exec_mut(case)
            lines.append("c08.nuf " + vec([lb, ub, x, b, float(it), float(max_it), r, r], bits))
            checks.append((case, res, 1))
        else:
            y, _k = gen_partner(rng, x, lb, ub)
            if rng.random() < 0.5:
                y = gen_coord(rng, lb, ub)
            a_ = rng.choice([0.0, 5e-324, 0.25, 0.5, rng.random() * 0.5])
            b_ = rng.choice([ONE_M, 0.75, 0.5 + 2.0 ** -53, 0.5 + rng.random() * 0.5 * ONE_M])
            a2 = rng.choice([a_, 0.5, rng.random() * 0.5])
            cyc = rng.choice([[a_, a2, b_], [a_, a_, a2], [a2, a_, b_, a_], [a_, a2, b_, b_]])
            case = {"op": "sbx", "params": ps, "p1": [x], "p2": [y], "prob": 1.0, "di": di, "draw_seed": 0, "cycle": cyc}
            res = exec_sbx_cycle(case)
            vals = sorted(set(cyc))
            for r_ in vals:
                lines.append("c08.sbxf " + vec([lb, ub, x, y, di, r_], bits))
            checks.append((case, res, len(vals)))
    ans = iter(ctx.lean(lines))
    for case, res, k in checks:
        models = [next(ans) for _ in range(k)]
        name = "sbx" if case["op"] == "sbx" else case["kind"]
        if res.get("error") or res.get("shape"):
            ctx.case(("formula", name, repr(case.get("p", case.get("p1"))), case.get("const_draw")), True)
            report_op(ctx, case, res)
            return
        lb, ub = case["params"][0]["bounds"]
        mag = max(abs(lb), abs(ub))

        def near(a, b):
            return close(a, b, rel=1e-7) or abs(a - b) <= 1e-9 * (ub - lb) + 16 * REL_SLACK * mag
        if case["op"] == "sbx":
            got = sorted([res["c1"][0], res["c2"][0]])
            unchanged = got == sorted([case["p1"][0], case["p2"][0]])
            cands = [sorted(unbits(t) for t in m.split(",")) for m in models]
            ok = unchanged or any(near(got[0], c[0]) and near(got[1], c[1]) for c in cands)
            ctx.case(("formula", "sbx", case["p1"][0], case["p2"][0], case["di"], tuple(case["cycle"])), nontrivial=not unchanged,
                     sample={"op": "sbx-formula", "bounds": [lb, ub], "parents": [case["p1"][0], case["p2"][0]], "di": case["di"],
                             "draws": case["cycle"], "children": got, "model": cands})
            ctx.count("formula_sbx_" + ("unchanged" if unchanged else "crossed"))
            what = "children %r, Float model for the forced draws %r gives %r" % (got, case["cycle"], cands)
        else:
            m = unbits(models[0])
            ok = near(res["c"][0], m)
            ctx.case(("formula", name, case["p"][0], case["di"], case["const_draw"], case["it"], case["pert"]), nontrivial=True,
                     sample={"op": name + "-formula", "bounds": [lb, ub], "x": case["p"][0], "draw": case["const_draw"], "child": res["c"][0],
                             "model": m})
            ctx.count("formula_" + name)
            what = "child %r, Float model %r" % (res["c"][0], m)
        if not ok:
            ctx.fail("formula-%s" % name, "%s with forced draws no longer computes the formula the theorems %s are stated for "
                     "(the child is inside the box, so this is not a failing input): bounds=[%r, %r] %s; %s" % (
                         name, "sbx_bases_nonneg / pm_bases_nonneg / nonuniform_bases_nonneg", lb, ub, brief(case), what),
                     dict(case, result=res, model=models), no_input=True)
            return


def exec_sbx_cycle(case):
    import random as _r
    draws = Draws(_r.Random(0), cycle=case["cycle"])
    try:
        out = call_sbx(case["params"], case["prob"], case["di"], case["p1"], case["p2"], draws)
    except Exception as e:   # noqa
        return {"error": "%s: %s" % (type(e).__name__, e)}
    for c in out:
        r = check_vector(c, 1)
        if r:
            return {"shape": r, "raw": repr(out)}
    return {"c1": fl(out[0]), "c2": fl(out[1])}


# --------------------------------------------------------------------------- stream: runs

RUN_ALGOS = ["NSGAII", "EpsMOEA", "OMOPSO", "SMPSO", "PSOGA"]


def _alarm(signum, frame):
    raise RunTimeout()


def exec_run(case):
    """Runs the algorithm with a logging objective; returns the evaluated vectors in order."""
    import random as _r
    log = []
    ps = [dict(p, bounds=list(p["bounds"])) for p in case.get("params_init", case["params"])]
    pr = make_problem(ps, case["n_costs"], log)
    old = signal.signal(signal.SIGALRM, _alarm)
    signal.setitimer(signal.ITIMER_REAL, case.get("timeout", 3.0))
    err = None
    try:
        alg = algo_class(case["algo"])(pr)
        alg.options["max_population_number"] = case["G"]
        alg.options["max_population_size"] = case["N"]
        alg.options["max_processes"] = 1
        for k, v in case["options"].items():
            alg.options[k] = v
        if "params_init" in case:
            # the box is re-declared (narrowed) after the algorithm object exists, before the run: every operator
            # must work with the box declared now
            for live, final in zip(pr.parameters, case["params"]):
                live["bounds"] = list(final["bounds"])
        with Draws(_r.Random(case["draw_seed"]), bias=case["bias"]):
            alg.run()
    except RunTimeout:
        err = "timeout"
    except Exception as e:   # noqa
        err = "%s: %s" % (type(e).__name__, e)
    finally:
        signal.setitimer(signal.ITIMER_REAL, 0)
        signal.signal(signal.SIGALRM, old)
        drop_problem(pr)
    return {"log": log, "error": err}


def gen_run_case(rng, quick):
    algo = rng.choice(RUN_ALGOS)
    dim = rng.randint(1, 4)
    all_kinds = rng.random() < 0.5
    ps = gen_params(rng, dim, with_precision=True, moderate=not all_kinds)
    if all_kinds and dim > 1:   # keep one ordinary coordinate so that `==` (1e-10 absolute) can tell designs apart
        ps[0] = {"name": "x0", "bounds": [0.0, 1.0]}
    opts = {}
    if algo in ("NSGAII", "EpsMOEA", "PSOGA"):
        opts["prob_cross"] = rng.choice([1.0, 1.0, 0.9, 0.5, rng.random()])
        opts["prob_mutation"] = rng.choice([1.0, 0.5, 1.0 / dim, 0.3 + 0.7 * rng.random()])
    else:
        opts["prob_mutation"] = rng.choice([1.0, 0.5, 0.1, rng.random()])
    case = {"op": "run", "algo": algo, "params": ps, "N": rng.randint(2, 12), "G": rng.randint(1, 6 if quick else 10),
            "n_costs": rng.choice([1, 2, 2, 3]), "options": opts, "draw_seed": rng.getrandbits(48),
            "bias": rng.choice([0.0, 0.2, 0.5])}
    if rng.random() < 0.3 and not any("precision" in p for p in ps):
        wide = []
        for p in ps:
            lb, ub = p["bounds"]
            w = ub - lb
            wide.append(dict(p, bounds=[lb - rng.choice([0.0, 0.5, 1.0]) * w, ub + rng.choice([0.0, 0.5, 2.0]) * w]))
        case["params_init"] = wide
    return case


def stream_runs(ctx, n):
    rng = ctx.rng
    cases, lines, idx = [], [], []
    for _ in range(n):
        case = gen_run_case(rng, ctx.quick)
        res = exec_run(case)
        cases.append((case, res))
    for k, (case, res) in enumerate(cases):
        ps = case["params"]
        log = res["log"]
        shape = next((w for w in (check_vector(v, len(ps)) for v in log) if w), None)
        res["shape"] = shape
        if shape or len(log) < case["N"]:
            continue
        rows = [fl(v) for v in log]
        tols = [tol_of(p) for p in ps]
        case["tols"] = tols
        lines.append("c08.trace %s|%s|%s" % (box_arg(ps, tols), mat(rows[:case["N"]], rat), mat(rows[case["N"]:], rat)))
        idx.append(k)
    ans = dict(zip(idx, ctx.lean(lines)))
    soft = None
    for k, (case, res) in enumerate(cases):
        ps, log = case["params"], res["log"]
        bounds = [p["bounds"] for p in ps]
        ctx.case(("run", case["algo"], case["N"], case["G"], case["draw_seed"]), nontrivial=len(log) > case["N"],
                 sample={"op": "run", "algo": case["algo"], "N": case["N"], "G": case["G"], "bounds": bounds,
                         "precision": [p.get("precision") for p in ps], "evaluated": len(log), "last": log[-1] if log else None})
        ctx.count("run_" + case["algo"])
        ctx.count("run_evaluated_vectors", len(log))
        if res["error"] == "timeout":
            ctx.count("run_timeout_skipped")
            continue
        if res["shape"]:
            ctx.fail("run-not-real-vector", "%s run (N=%d, G=%d, bounds=%r) evaluated a design that is not a real vector of "
                     "dimension %d: %s" % (case["algo"], case["N"], case["G"], bounds, len(ps), res["shape"]), dict(case, result={"error": res["error"]}))
            return
        if k in ans and ans[k] != "ok":
            a = ans[k]
            j = int(a.split(" ")[1]) if a.startswith("init") else case["N"] + int(a)
            v = fl(log[j])
            bad = outside(ps, case["tols"], v)
            if bad:
                i, x, lb, ub = bad[0]
                ctx.fail("run-out-of-box", "%s run (N=%d, G=%d, options=%r): evaluated design #%d = %r has coordinate %d = %r outside "
                         "[%r, %r] by %.3g (tolerance %.3g)" % (case["algo"], case["N"], case["G"], case["options"], j, v, i, x, lb, ub,
                                                                max(lb - x, x - ub), case["tols"][i]),
                         dict(case, result={"index": j, "design": v}))
                return
            if soft is None:
                soft = (case, j, v)
        if res["error"]:
            # Outside the statement: with a parent that gen_number's rounding put (up to half the precision) outside the
            # box, PM / SBX hand a negative base to pow() when a draw is ~0 -> complex -> TypeError.  Only a run that
            # also fails with ordinary draws is reported (and never as a failing input: nothing left the box).
            plain = exec_run(dict(case, bias=0.0))
            if plain["error"] and plain["error"] != "timeout":
                ctx.fail("run-raised", "%s run (N=%d, G=%d, bounds=%r, options=%r) raised %s after %d evaluations (no design "
                         "outside the box was evaluated, but the run-level claim is no longer shown)" % (
                             case["algo"], case["N"], case["G"], bounds, case["options"], plain["error"], len(plain["log"])),
                         dict(case, bias=0.0, result={"error": plain["error"]}), no_input=True)
                return
            ctx.count("run_raised_only_with_extreme_draws")
    if soft is not None:
        case, j, v = soft
        ctx.fail("run-not-admitted", "%s run (N=%d, G=%d): evaluated design #%d = %r has a coordinate that is neither exactly inside "
                 "[lb, ub] nor copied from an earlier design (it is within the tolerance, so this is not a failing input; the "
                 "run envelope `admitsTrace` of theorem run_in_box no longer describes the code)" % (case["algo"], case["N"], case["G"], j, v),
                 dict(case, result={"index": j, "design": v}), no_input=True)


# --------------------------------------------------------------------------- entry points

def run(ctx):
    ctx.rule = ("boxes mix unit, negative, tiny (+-1e-9), huge (+-1e100), offset (1e6+...), int-valued and random bounds; parents on a "
                "bound, one ulp inside, coincident, almost coincident (difference 0.5..1000 x sys.float_info.epsilon, 1-3 ulps); "
                "probabilities 0, 1, random; distribution indices 0..100 (integer and fractional); iterations 0..max; random draws "
                "biased towards 0, 5e-324, 0.5+-ulp, 1-2^-53. Non-trivial: operator case = the child differs from the parent "
                "(sbx: and a parent coordinate is on a bound / (almost) coincident); gen_number = special draw or declared "
                "precision; update_position = a coordinate was reset to a bound; generator = >= 2 designs; run = at least one "
                "generation after the initial one. Distinct = distinct inputs incl. draw seed.")
    ctx.assumptions += [
        "parameters are real-valued with lb < ub, |bounds| <= 1e100 (integer/boolean parameters and overflowing ranges are outside the statement)",
        "tolerance for generated designs: 1e-12 (no declared precision) or half the declared precision, plus a relative IEEE slack of "
        "1e-15*max(|lb|,|ub|) (regime R2: rounding of round(y/prec)*prec and lb+i*delta is assumed, not verified)",
        "children of the operators for parents exactly inside the box are required to be exactly inside (tolerance 0)",
        "SBX is exercised with parents exactly inside the box (the statement's 'parents inside the box'); mutation also with parents up to the tolerance outside",
        "runs: default evaluator, max_processes=1, populations 2..12, 1..6 (thorough 10) generations; a run that does not finish within 3 s "
        "(duplicate-rejection loop of GeneticAlgorithm.generate on boxes narrower than the 1e-10 equality tolerance) is skipped and counted",
    ]
    q = ctx.quick
    stream_sbx(ctx, 1500 if q else 100000)
    if ctx.failures:
        return
    stream_mut(ctx, 1500 if q else 100000)
    if ctx.failures:
        return
    stream_gen(ctx, 1500 if q else 60000)
    if ctx.failures:
        return
    stream_pos(ctx, 400 if q else 15000)
    if ctx.failures:
        return
    stream_generators(ctx, 150 if q else 6000)
    if ctx.failures:
        return
    stream_formulas(ctx, 900 if q else 50000)
    if ctx.failures:
        return
    stream_runs(ctx, 120 if q else 6000)


def run_corpus(ctx, case):
    rp = {"case": case}
    if not replay(ctx, rp, quiet=True):
        ctx.fail(case.get("key", "corpus"), "corpus case fails again: %s" % brief(case), case)


def replay(ctx, rp, quiet=False):
    """Re-executes the stored case against the implementation only."""
    c = rp["case"]
    say = (lambda *a: None) if quiet else print
    op = c.get("op")
    if op == "sbx":
        res = exec_sbx_cycle(c) if c.get("cycle") else exec_sbx(c)
        say("demanded: two real-valued children of dimension %d inside %r" % (len(c["params"]), [p["bounds"] for p in c["params"]]))
        say("cross(%r, %r) -> %r" % (c["p1"], c["p2"], res))
        if res.get("error") or res.get("shape"):
            return False
        z = [0.0] * len(c["params"])
        return not outside(c["params"], z, res["c1"]) and not outside(c["params"], z, res["c2"])
    if op == "mut":
        res = exec_mut(c)
        say("demanded: a real-valued child of dimension %d inside %r" % (len(c["params"]), [p["bounds"] for p in c["params"]]))
        say("%s mutate(%r, it=%r) -> %r" % (c["kind"], c["p"], c["it"], res))
        if res.get("error") or res.get("shape"):
            return False
        return not outside(c["params"], c.get("tols", [0.0] * len(c["params"])), res["c"])
    if op == "gen":
        res = exec_gen(c)
        p = {"bounds": [c["lb"], c["ub"]]}
        if c["prec"]:
            p["precision"] = c["prec"]
        t = tol_of(p)
        say("demanded: a real number in [%r - %.3g, %r + %.3g]; gen_number with draw %r -> %r" % (c["lb"], t, c["ub"], t, c["u"], res))
        return "x" in res and not outside([p], [t], [res["x"]])
    if op == "pos":
        res = exec_pos(c)
        say("demanded: new position inside %r; %s.update_position(x=%r, v=%r) -> %r" % ([p["bounds"] for p in c["params"]], c["algo"], c["x"], c["v"], res))
        return "x" in res and not outside(c["params"], [0.0] * len(c["params"]), res["x"])
    if op == "generator":
        res = exec_generator(c)
        if not res.get("rows"):
            say("generator %s -> %r" % (c["kind"], res))
            return False
        tols = c.get("tols") or [tol_of(p) for p in c["params"]]
        bad = [(k, r, outside(c["params"], tols, r)) for k, r in enumerate(res["rows"]) if outside(c["params"], tols, r)]
        say("demanded: every design inside %r (tolerances %r); %s generator produced %d designs, outside: %r" % (
            [p["bounds"] for p in c["params"]], tols, c["kind"], len(res["rows"]), bad[:3]))
        return not bad
    if op == "run":
        res = exec_run(c)
        tols = [tol_of(p) for p in c["params"]]
        bad = []
        for k, v in enumerate(res["log"]):
            if check_vector(v, len(c["params"])):
                bad.append((k, v, "not a real vector"))
            elif outside(c["params"], tols, fl(v)):
                bad.append((k, v, outside(c["params"], tols, fl(v))))
        say("demanded: every evaluated design inside %r (tolerances %r); %s run N=%d G=%d evaluated %d designs, error=%r, outside: %r" % (
            [p["bounds"] for p in c["params"]], tols, c["algo"], c["N"], c["G"], len(res["log"]), res["error"], bad[:3]))
        return not bad and not (res["error"] and res["error"] != "timeout")
    say("nothing to replay: " + str(rp.get("what")))
    return False


def search(ctx):
    """The harness could not drive the code (API changed): try each stream on its own; a stream that still
    runs may find a failing input."""
    before = len(ctx.failures)
    for f, n in ((stream_sbx, 300), (stream_mut, 300), (stream_gen, 300), (stream_pos, 100), (stream_generators, 60),
                 (stream_runs, 40)):
        try:
            f(ctx, n)
        except Exception:   # noqa
            continue
        if any(not g["no_failing_input_found"] for g in ctx.failures[before:]):
            return True
    return False
